package main

// C18 helper: an interprocedural, lightly path-sensitive control-flow graph of
// the writer. Same-module callees that matter (they touch the file system or
// the writer's state) are expanded at their call sites, one frame per call
// site, so that the rules see `Write` the same way whether its steps are
// written inline, in extracted methods, in local closures or in bound method
// values. The nil-ness of a callee's error result is carried back to the
// caller (a return of a value of unknown nil-ness is split into a nil and a
// non-nil continuation), and the caller's `if err != nil` on that result only
// follows the feasible branch.

import (
	"fmt"
	"go/constant"
	"go/token"
	"go/types"
	"sort"
	"strings"

	"golang.org/x/tools/go/ssa"
)

type c18Frame struct {
	id     int
	fn     *ssa.Function
	parent *c18Frame
	site   *ssa.Call // the call in parent.fn that this frame expands (nil for the root)
	env    c18Env
	chain  []*ssa.Call
	depth  int
	// unrolled walks over literal slices: the current value of the index phi of each enclosing walk;
	// base = the frame this is an iteration of (nil for an ordinary frame)
	iter map[*ssa.Phi]int64
	base *c18Frame
}

// rootF: the ordinary frame an iteration frame belongs to.
func (fr *c18Frame) rootF() *c18Frame {
	if fr.base != nil {
		return fr.base
	}
	return fr
}

// c18Counter: an integer loop counter (phi whose incoming values are constants or itself ± a
// constant) that indexes a small literal slice (or a slice parameter bound to one): the graph tracks
// its value, which unrolls the loop whatever its form (range over slice / over int, classic for,
// rotated or not).
type c18Counter struct {
	phi    *ssa.Phi
	blocks map[*ssa.BasicBlock]bool // the loop the counter lives in
}

const c18MaxUnroll = 8

func (fr *c18Frame) path(p *Prog) string {
	if fr.parent == nil {
		return FuncName(p, fr.fn)
	}
	return fr.parent.path(p) + ">" + FuncName(p, fr.fn)
}

// c18Tag: what is known, in the caller, about the expanded call control last came back from:
// the return site (so that every result — error, flag, enum, value — stays correlated with the
// caller's branches and terms) and the nil-ness of the error result.
type c18Tag struct {
	call    *ssa.Call
	ret     *c18Node // return node in the callee frame (nil when the callee has a single return)
	nilness int8     // error result: 0 not known, 1 nil, 2 non-nil
	// alias: a phi that, on this path, holds the error result of the call (`err := a(); if err == nil
	// { err = b() }; if err == nil …`: at each merge the variable is the result of the call the path came from)
	alias *ssa.Phi
}

// isErr: v (already chased through variable cells) is the error result the tag speaks about.
func (t c18Tag) isErr(v ssa.Value) bool {
	if t.call == nil || v == nil {
		return false
	}
	if v == c18ErrValue(t.call) {
		return true
	}
	return t.alias != nil && v == ssa.Value(t.alias)
}

func (t c18Tag) key() string {
	id := -1
	if t.ret != nil {
		id = t.ret.id
	}
	return fmt.Sprintf("%p/%d/%d/%p", t.call, id, t.nilness, t.alias)
}

type c18Node struct {
	id   int
	fr   *c18Frame
	in   ssa.Instruction // nil for exit nodes
	post bool            // continuation of an expanded call after the callee returned
	// knowledge about the error result of an expanded call of this frame, valid until the end of the block
	tag c18Tag
	// exit nodes (root frame only): "nil" / "err"; ret = the return they belong to
	exit      string
	ret       *c18Node
	uncertain bool // exit whose feasibility is not established (returned value of unknown provenance)
	succs     []*c18Edge
	preds     []*c18Edge
}

type c18Edge struct {
	from, to *c18Node
	branch   int // If: 0 = true edge, 1 = false edge; otherwise -1
	// fact established along the edge: in frame factFr the value factVal is nil / non-nil
	hasFact bool
	factFr  *c18Frame
	factVal ssa.Value
	factNil bool
}

type c18Graph struct {
	p       *Prog
	tt      *c18Terms
	root    *c18Frame
	entry   *c18Node
	nodes   []*c18Node
	frames  []*c18Frame
	index   map[string]*c18Node
	frameOf map[string]*c18Frame
	// calls to relevant in-module functions that could not be expanded
	unknown  []string
	relevant func(*ssa.Function) bool
	cw       map[*ssa.Function]map[*ssa.Alloc]bool
	// function-typed construction-time fields of the state type and the function they hold
	funcFields map[string]*ssa.Function
	// interface-typed construction-time fields and the one concrete type they hold
	ifaceFields map[string]types.Type
	counters    map[*ssa.Function]map[*ssa.BasicBlock][]*c18Counter
	stateTypes  map[string]bool
	mattersMemo map[*ssa.Function]bool
	// branch nodes whose condition the graph could not correlate with the path (both branches kept
	// although one may be infeasible): findings downstream of them are not established
	imprecise []*c18Node
}

// downstreamOfImprecise: the nodes at or after an uncorrelated branch.
func (g *c18Graph) downstreamOfImprecise() map[*c18Node]bool {
	out := g.reach(g.imprecise)
	for _, n := range g.imprecise {
		out[n] = true
	}
	return out
}

// target: the function a call instruction runs: the static callee, or the one function a
// construction-time func field holds. dynamic = a call whose target is not known (interface
// method calls excluded: see dynamicNote).
func (g *c18Graph) target(fr *c18Frame, ci ssa.CallInstruction) (f *ssa.Function, dynamic bool) {
	if f := staticCallee(ci); f != nil {
		return f, false
	}
	cc := ci.Common()
	if cc.IsInvoke() {
		if id, _, ok := fieldOfValue(cc.Value); ok {
			if t := g.ifaceFields[id.String()]; t != nil && cc.Method != nil {
				if m := g.p.SSA.LookupMethod(t, cc.Method.Pkg(), cc.Method.Name()); m != nil {
					return m, false
				}
			}
		}
		return nil, false
	}
	if _, isBuiltin := cc.Value.(*ssa.Builtin); isBuiltin {
		return nil, false
	}
	if t := g.resolveFunc(fr, cc.Value, 0); t != nil {
		return t, false
	}
	return nil, true
}

// resolveFunc: the one function a function-typed value denotes in frame fr: a function or closure
// literal, a construction-time func field, a parameter bound to such a value at the call site of the
// frame (callback helpers like withLock(func(){…})), an element of a literal slice at a known
// index (unrolled walk), or a local variable cell holding one of these.
func (g *c18Graph) resolveFunc(fr *c18Frame, v ssa.Value, depth int) *ssa.Function {
	if depth > 6 || fr == nil {
		return nil
	}
	switch x := v.(type) {
	case *ssa.Function:
		return origin(x)
	case *ssa.MakeClosure:
		f, _ := x.Fn.(*ssa.Function)
		return f
	case *ssa.ChangeType:
		return g.resolveFunc(fr, x.X, depth+1)
	case *ssa.Parameter:
		if fr.site == nil || fr.parent == nil {
			return nil
		}
		args := fr.site.Call.Args
		if fr.site.Call.IsInvoke() {
			args = append([]ssa.Value{fr.site.Call.Value}, args...)
		}
		for i, pa := range fr.fn.Params {
			if pa == x && i < len(args) {
				return g.resolveFunc(fr.parent, args[i], depth+1)
			}
		}
	case *ssa.FreeVar:
		if b := resolveFreeVar(x); b != nil {
			return g.resolveFunc(fr, b, depth+1)
		}
	case *ssa.UnOp:
		if x.Op != token.MUL {
			return nil
		}
		if id, _, ok := fieldOfValue(x); ok {
			if t := g.funcFields[id.String()]; t != nil {
				return t
			}
		}
		if el, ef := g.literalElem(fr, x); el != nil {
			return g.resolveFunc(ef, el, depth+1)
		}
		if fv, ok := x.X.(*ssa.FreeVar); ok {
			if cell, ok := resolveFreeVar(fv).(*ssa.Alloc); ok {
				return g.resolveFunc(fr, c18CellValue(cell), depth+1)
			}
		}
		if cell, ok := x.X.(*ssa.Alloc); ok {
			return g.resolveFunc(fr, c18CellValue(cell), depth+1)
		}
		if r := c18Root(x); r != ssa.Value(x) {
			return g.resolveFunc(fr, r, depth+1)
		}
	}
	return nil
}

// c18CellValue: the one value ever stored into a local variable cell (nil if none or several).
func c18CellValue(cell *ssa.Alloc) ssa.Value {
	var val ssa.Value
	for _, r := range refs(cell) {
		if st, ok := r.(*ssa.Store); ok && st.Addr == ssa.Value(cell) {
			if val != nil {
				return nil
			}
			val = st.Val
		}
	}
	return val
}

// callerValue: a value of frame fr that is a parameter is the argument the frame was called with
// (followed up the frames, variable cells chased): the value and the frame it belongs to.
func (g *c18Graph) callerValue(fr *c18Frame, v ssa.Value) (ssa.Value, *c18Frame) {
	for depth := 0; depth < 8 && fr != nil && v != nil; depth++ {
		v = c18Root(v)
		pa, ok := v.(*ssa.Parameter)
		if !ok || fr.site == nil || fr.parent == nil {
			return v, fr
		}
		args := fr.site.Call.Args
		if fr.site.Call.IsInvoke() {
			args = append([]ssa.Value{fr.site.Call.Value}, args...)
		}
		found := false
		for i, q := range fr.fn.Params {
			if q == pa && i < len(args) {
				v, fr, found = args[i], fr.parent, true
				break
			}
		}
		if !found {
			return v, fr
		}
	}
	return v, fr
}

// lit: the elements of a slice value that is a literal in frame fr — directly, or a (variadic)
// parameter bound to a literal at the call site of the frame — and the frame they are evaluated in.
func (g *c18Graph) lit(fr *c18Frame, v ssa.Value) ([]ssa.Value, *c18Frame, bool) {
	for depth := 0; depth < 6 && fr != nil; depth++ {
		if els, ok := c18Varargs(v); ok {
			return els, fr, true
		}
		pa, ok := v.(*ssa.Parameter)
		if !ok || fr.site == nil || fr.parent == nil {
			return nil, nil, false
		}
		args := fr.site.Call.Args
		if fr.site.Call.IsInvoke() {
			args = append([]ssa.Value{fr.site.Call.Value}, args...)
		}
		found := false
		for i, q := range fr.fn.Params {
			if q == pa && i < len(args) {
				v, fr, found = args[i], fr.parent, true
				break
			}
		}
		if !found {
			return nil, nil, false
		}
	}
	return nil, nil, false
}

// constExpr evaluates an integer expression in frame fr under the counter bindings; len of a
// literal slice is its number of elements.
func (g *c18Graph) constExpr(fr *c18Frame, v ssa.Value, iter map[*ssa.Phi]int64) (int64, bool) {
	switch x := v.(type) {
	case *ssa.Const:
		if x.Value != nil && x.Value.Kind() == constant.Int {
			return x.Int64(), true
		}
	case *ssa.Phi:
		k, ok := iter[x]
		return k, ok
	case *ssa.BinOp:
		a, ok1 := g.constExpr(fr, x.X, iter)
		b, ok2 := g.constExpr(fr, x.Y, iter)
		if !ok1 || !ok2 {
			return 0, false
		}
		switch x.Op {
		case token.ADD:
			return a + b, true
		case token.SUB:
			return a - b, true
		case token.MUL:
			return a * b, true
		}
	case *ssa.Call:
		if builtinName(x) == "len" && len(x.Call.Args) == 1 {
			if els, _, ok := g.lit(fr, x.Call.Args[0]); ok {
				return int64(len(els)), true
			}
		}
	}
	return 0, false
}

// evalCond evaluates an integer comparison under the bindings.
func (g *c18Graph) evalCond(fr *c18Frame, cond ssa.Value, iter map[*ssa.Phi]int64) (truth, ok bool) {
	cmp, ok := decodeCond(cond, true)
	if !ok {
		return false, false
	}
	a, ok1 := g.constExpr(fr, cmp.X, iter)
	b, ok2 := g.constExpr(fr, cmp.Y, iter)
	if !ok1 || !ok2 {
		return false, false
	}
	switch cmp.Op {
	case token.LSS:
		return a < b, true
	case token.LEQ:
		return a <= b, true
	case token.GTR:
		return a > b, true
	case token.GEQ:
		return a >= b, true
	case token.EQL:
		return a == b, true
	case token.NEQ:
		return a != b, true
	}
	return false, false
}

// literalElem: v = s[i] where s is a literal slice in frame fr (see lit) and i is known: the
// element value and the frame it is evaluated in.
func (g *c18Graph) literalElem(fr *c18Frame, v ssa.Value) (ssa.Value, *c18Frame) {
	u, ok := v.(*ssa.UnOp)
	if !ok || u.Op != token.MUL || fr == nil {
		return nil, nil
	}
	ia, ok := u.X.(*ssa.IndexAddr)
	if !ok {
		return nil, nil
	}
	els, ef, ok := g.lit(fr, ia.X)
	if !ok {
		return nil, nil
	}
	k, ok := g.constExpr(fr, ia.Index, fr.iter)
	if !ok || k < 0 || int(k) >= len(els) {
		return nil, nil
	}
	return els[k], ef
}

// countersOf: the loop counters of fn that index a small literal (or parameter) slice, by the
// block that holds the phi.
func (g *c18Graph) countersOf(fn *ssa.Function) map[*ssa.BasicBlock][]*c18Counter {
	if c, ok := g.counters[fn]; ok {
		return c
	}
	out := map[*ssa.BasicBlock][]*c18Counter{}
	for _, b := range fn.Blocks {
		for _, in := range b.Instrs {
			phi, ok := in.(*ssa.Phi)
			if !ok {
				break
			}
			if bt, ok := phi.Type().Underlying().(*types.Basic); !ok || bt.Info()&types.IsInteger == 0 {
				continue
			}
			good, hasConst, hasStep := true, false, false
			for _, e := range phi.Edges {
				switch x := e.(type) {
				case *ssa.Const:
					hasConst = true
				case *ssa.BinOp:
					_, yc := x.Y.(*ssa.Const)
					if (x.Op == token.ADD || x.Op == token.SUB) && x.X == ssa.Value(phi) && yc {
						hasStep = true
					} else {
						good = false
					}
				default:
					good = false
				}
			}
			if !good || !hasConst || !hasStep {
				continue
			}
			blocks := c18LoopBlocks(b)
			// it must index a literal slice, or a slice parameter (that a call site may bind to a literal)
			uses := false
			probe := map[*ssa.Phi]int64{phi: 0}
			for lb := range blocks {
				for _, li := range lb.Instrs {
					ia, ok := li.(*ssa.IndexAddr)
					if !ok {
						continue
					}
					if _, ok := g.constExpr(nil, ia.Index, probe); !ok {
						continue
					}
					if els, ok := c18Varargs(ia.X); ok && len(els) <= c18MaxUnroll {
						uses = true
					}
					if pa, ok := ia.X.(*ssa.Parameter); ok {
						if _, isSlice := pa.Type().Underlying().(*types.Slice); isSlice {
							uses = true
						}
					}
				}
			}
			if uses {
				out[b] = append(out[b], &c18Counter{phi: phi, blocks: blocks})
			}
		}
	}
	g.counters[fn] = out
	return out
}

// iterFrame: the frame of one iteration of an unrolled loop.
func (g *c18Graph) iterFrame(fr *c18Frame, iter map[*ssa.Phi]int64) *c18Frame {
	base := fr.rootF()
	if len(iter) == 0 {
		return base
	}
	var ks []string
	for ph, k := range iter {
		ks = append(ks, fmt.Sprintf("%p=%d", ph, k))
	}
	sort.Strings(ks)
	key := fmt.Sprintf("iter|%d|%s", base.id, strings.Join(ks, ","))
	if c, ok := g.frameOf[key]; ok {
		return c
	}
	c := &c18Frame{id: len(g.frames), fn: base.fn, parent: base.parent, site: base.site, env: base.env, chain: base.chain, depth: base.depth, iter: iter, base: base}
	g.frames = append(g.frames, c)
	g.frameOf[key] = c
	return c
}

// enterBlock: the frame in which block `to` runs when control arrives from block `from` in frame fr:
// counters of loops that are left are dropped, counters whose phi sits in `to` take the value of
// the incoming edge (when it can be computed).
func (g *c18Graph) enterBlock(fr *c18Frame, from, to *ssa.BasicBlock) *c18Frame {
	all := g.countersOf(fr.fn)
	if len(all) == 0 && len(fr.iter) == 0 {
		return fr
	}
	iter := map[*ssa.Phi]int64{}
	changed := false
	for ph, v := range fr.iter {
		inside := false
		for _, cs := range all {
			for _, c := range cs {
				if c.phi == ph && c.blocks[to] {
					inside = true
				}
			}
		}
		if inside {
			iter[ph] = v
		} else {
			changed = true
		}
	}
	for _, c := range all[to] {
		idx := -1
		for i, p := range to.Preds {
			if p == from {
				idx = i
			}
		}
		if idx < 0 || idx >= len(c.phi.Edges) {
			continue
		}
		if v, ok := g.constExpr(fr, c.phi.Edges[idx], fr.iter); ok && v <= c18MaxUnroll+2 && v >= -1 {
			if old, had := iter[c.phi]; !had || old != v {
				changed = true
			}
			iter[c.phi] = v
		} else if _, had := iter[c.phi]; had {
			delete(iter, c.phi)
			changed = true
		}
	}
	if !changed {
		return fr
	}
	return g.iterFrame(fr, iter)
}

func (g *c18Graph) closureWrites(fn *ssa.Function) map[*ssa.Alloc]bool {
	if m, ok := g.cw[fn]; ok {
		return m
	}
	m := c18ClosureWrites(fn)
	g.cw[fn] = m
	return m
}

const c18MaxDepth = 6

func c18BuildGraph(p *Prog, tt *c18Terms, fn *ssa.Function, relevant func(*ssa.Function) bool, funcFields map[string]*ssa.Function, ifaceFields map[string]types.Type, stateTypes map[string]bool) *c18Graph {
	g := &c18Graph{stateTypes: stateTypes, mattersMemo: map[*ssa.Function]bool{}, counters: map[*ssa.Function]map[*ssa.BasicBlock][]*c18Counter{}, funcFields: funcFields, ifaceFields: ifaceFields, p: p, tt: tt, index: map[string]*c18Node{}, frameOf: map[string]*c18Frame{}, relevant: relevant, cw: map[*ssa.Function]map[*ssa.Alloc]bool{}}
	tt.g = g
	g.root = &c18Frame{fn: fn, env: c18Env{}}
	g.frames = append(g.frames, g.root)
	if len(fn.Blocks) == 0 {
		return g
	}
	g.entry = g.node(g.root, fn.Blocks[0].Instrs[0], false, c18Tag{})
	// expand
	for i := 0; i < len(g.nodes); i++ {
		g.expand(g.nodes[i])
		if len(g.nodes) > 20000 {
			g.unknown = append(g.unknown, "control-flow graph too large")
			break
		}
	}
	return g
}

func (g *c18Graph) node(fr *c18Frame, in ssa.Instruction, post bool, tag c18Tag) *c18Node {
	key := fmt.Sprintf("%d|%p|%v|%s", fr.id, in, post, tag.key())
	if n, ok := g.index[key]; ok {
		return n
	}
	n := &c18Node{id: len(g.nodes), fr: fr, in: in, post: post, tag: tag}
	g.index[key] = n
	g.nodes = append(g.nodes, n)
	return n
}

func (g *c18Graph) exitNode(ret *c18Node, kind string) *c18Node {
	key := fmt.Sprintf("exit|%d|%s", ret.id, kind)
	if n, ok := g.index[key]; ok {
		return n
	}
	n := &c18Node{id: len(g.nodes), fr: ret.fr, exit: kind, ret: ret}
	g.index[key] = n
	g.nodes = append(g.nodes, n)
	return n
}

func (g *c18Graph) edge(from, to *c18Node, branch int) *c18Edge {
	e := &c18Edge{from: from, to: to, branch: branch}
	from.succs = append(from.succs, e)
	to.preds = append(to.preds, e)
	return e
}

// callee returns the function a call expands to, or nil. Synthetic bound-method
// wrappers and thunks are looked through.
func (g *c18Graph) callee(fr *c18Frame, call *ssa.Call) *ssa.Function {
	f, _ := g.target(fr, call)
	if f == nil || len(f.Blocks) == 0 {
		return nil
	}
	if g.p.InModule(f) {
		return f
	}
	if f.Synthetic != "" && (strings.Contains(f.Synthetic, "bound") || strings.Contains(f.Synthetic, "thunk") || strings.Contains(f.Synthetic, "wrapper")) {
		return f
	}
	return nil
}

// argRelevant: a function-typed argument of the call denotes a function that matters (callback helper).
func (g *c18Graph) argRelevant(fr *c18Frame, call *ssa.Call) bool {
	for _, a := range call.Call.Args {
		if _, isFn := a.Type().Underlying().(*types.Signature); !isFn {
			continue
		}
		if t := g.resolveFunc(fr, a, 0); t != nil && len(t.Blocks) > 0 && g.isRelevant(t) {
			return true
		}
	}
	return false
}

// matters: f (or something it runs: static callees, closures, calls through construction-time func /
// single-implementation interface fields) touches the file system or reads/writes the writer's state.
func (g *c18Graph) matters(f *ssa.Function, seen map[*ssa.Function]bool) bool {
	if v, ok := g.mattersMemo[f]; ok {
		return v
	}
	if seen[f] {
		return false
	}
	seen[f] = true
	found := false
	allInstrs(f, func(in ssa.Instruction) {
		if found {
			return
		}
		switch x := in.(type) {
		case *ssa.FieldAddr:
			if g.stateTypes[fieldIDOfAddr(x).Type] {
				found = true
			}
		case *ssa.Field:
			if g.stateTypes[fieldIDOfField(x).Type] {
				found = true
			}
		case ssa.CallInstruction:
			if obj := calleeObj(x); obj != nil && obj.Pkg() != nil {
				if _, ok := c18Mutators[c18FullName(obj)]; ok {
					found = true
					return
				}
			}
			var t *ssa.Function
			cc := x.Common()
			if s := staticCallee(x); s != nil {
				t = s
			} else if id, _, ok := fieldOfValue(cc.Value); ok {
				if cc.IsInvoke() {
					if ct := g.ifaceFields[id.String()]; ct != nil && cc.Method != nil {
						t = g.p.SSA.LookupMethod(ct, cc.Method.Pkg(), cc.Method.Name())
					}
				} else {
					t = g.funcFields[id.String()]
				}
			}
			if t != nil {
				if obj, ok := t.Object().(*types.Func); ok {
					if _, isMut := c18Mutators[c18FullName(obj)]; isMut {
						found = true
						return
					}
				}
				if (g.p.InModule(t) || t.Synthetic != "") && len(t.Blocks) > 0 && g.matters(t, seen) {
					found = true
				}
			}
		}
	})
	for _, a := range f.AnonFuncs {
		if !found && g.matters(a, seen) {
			found = true
		}
	}
	g.mattersMemo[f] = found
	return found
}

func (g *c18Graph) isRelevant(f *ssa.Function) bool {
	if g.stateTypes != nil {
		return g.matters(f, map[*ssa.Function]bool{})
	}
	if f.Synthetic != "" && !g.p.InModule(f) {
		// wrapper: relevant if what it calls is
		rel := false
		allInstrs(f, func(in ssa.Instruction) {
			if c, ok := in.(*ssa.Call); ok {
				if t := staticCallee(c); t != nil && g.p.InModule(t) && g.relevant(t) {
					rel = true
				}
			}
		})
		return rel
	}
	return g.relevant(f)
}

func (g *c18Graph) childFrame(n *c18Node, call *ssa.Call, f *ssa.Function) *c18Frame {
	fr := n.fr
	key := fmt.Sprintf("%d|%p|%s", fr.id, call, n.tag.key())
	if c, ok := g.frameOf[key]; ok {
		return c
	}
	env := c18Env{}
	for k, v := range fr.env {
		env[k] = v
	}
	g.tt.enterNode(n)
	args := call.Call.Args
	if call.Call.IsInvoke() {
		args = append([]ssa.Value{call.Call.Value}, args...)
	}
	for i, pa := range f.Params {
		if i < len(args) {
			env[pa] = g.tt.Term(args[i])
		}
	}
	g.tt.leave()
	c := &c18Frame{id: len(g.frames), fn: f, parent: fr, site: call, env: env, depth: fr.depth + 1}
	c.chain = append(append([]*ssa.Call{}, fr.chain...), call)
	g.frames = append(g.frames, c)
	g.frameOf[key] = c
	return c
}

func (g *c18Graph) inChain(fr *c18Frame, f *ssa.Function) bool {
	for x := fr; x != nil; x = x.parent {
		if x.fn == f {
			return true
		}
	}
	return false
}

// retKind: "nil" / "nonnil" / "unknown" for the (last) result of the return at node n.
func (g *c18Graph) retKind(n *c18Node) (kind string, val ssa.Value) {
	ret := n.in.(*ssa.Return)
	if len(ret.Results) == 0 {
		return "void", nil
	}
	v := ret.Results[len(ret.Results)-1]
	if !c18IsErrorType(v) {
		return "void", nil
	}
	kind = c18ReturnErrKind(ret, g.closureWrites(n.fr.fn))
	val = c18RetRoot(ret, g.closureWrites(n.fr.fn))
	if kind == "unknown" && n.tag.nilness != 0 && n.tag.isErr(val) {
		if n.tag.nilness == 1 {
			kind = "nil"
		} else {
			kind = "nonnil"
		}
	}
	return kind, val
}

func (g *c18Graph) expand(n *c18Node) {
	if n.in == nil {
		return
	}
	fr := n.fr
	blk := n.in.Block()
	next := func(from *c18Node, tag c18Tag) {
		i := instrIndex(from.in)
		if i+1 < len(blk.Instrs) {
			g.edge(from, g.node(fr, blk.Instrs[i+1], false, tag), -1)
		}
	}
	// the tag does not survive a loop header (it would multiply the loop) nor a back edge
	tagInto := func(to *ssa.BasicBlock) c18Tag {
		if n.tag.call == nil {
			return n.tag
		}
		for _, p := range to.Preds {
			if to.Dominates(p) {
				return c18Tag{}
			}
		}
		// a phi of `to` whose value on this edge is the call's error result is that result on this path
		tag := n.tag
		idx := -1
		for i, p := range to.Preds {
			if p == blk {
				idx = i
			}
		}
		for _, x := range to.Instrs {
			phi, ok := x.(*ssa.Phi)
			if !ok {
				break
			}
			if idx >= 0 && idx < len(phi.Edges) && c18IsErrorType(phi) && n.tag.isErr(c18Root(phi.Edges[idx])) {
				tag.alias = phi
			}
		}
		return tag
	}
	switch in := n.in.(type) {
	case *ssa.Call:
		if n.post {
			next(n, n.tag)
			return
		}
		if f := g.callee(fr, in); f != nil && (g.isRelevant(f) || g.argRelevant(fr, in)) {
			if g.inChain(fr, f) || fr.depth >= c18MaxDepth {
				g.unknown = append(g.unknown, "call to "+FuncName(g.p, f)+" (recursive or nested too deeply to expand)")
			} else {
				c := g.childFrame(n, in, f)
				g.edge(n, g.node(c, f.Blocks[0].Instrs[0], false, c18Tag{}), -1)
				return
			}
		}
		if tagNil, tagErr, ok := g.opSplit(in); ok {
			// the error of this file-system call flows into a merged error variable: follow the
			// success and the failure continuation separately so that later tests of the variable are decided
			i := instrIndex(n.in)
			if i+1 < len(blk.Instrs) {
				errv := c18ErrValue(in)
				for _, tg := range []c18Tag{tagNil, tagErr} {
					e := g.edge(n, g.node(fr, blk.Instrs[i+1], false, tg), -1)
					e.hasFact, e.factFr, e.factVal, e.factNil = true, fr, errv, tg.nilness == 1
				}
			}
			return
		}
		next(n, n.tag)
	case *ssa.Jump:
		g.edge(n, g.node(g.enterBlock(fr, blk, blk.Succs[0]), blk.Succs[0].Instrs[0], false, tagInto(blk.Succs[0])), -1)
	case *ssa.If:
		// a test on loop counters whose values are known: only one branch is feasible
		only := -1
		if len(fr.iter) > 0 || len(g.countersOf(fr.fn)) > 0 {
			if truth, ok := g.evalCond(fr, in.Cond, fr.iter); ok {
				only = 1
				if truth {
					only = 0
				}
			}
		}
		// a test of a result of the expanded call control came back from: decided by the return site
		if only < 0 {
			if truth, ok := g.evalTagCond(n, in.Cond); ok {
				only = 1
				if truth {
					only = 0
				}
			}
		}
		for b := 0; b < 2; b++ {
			if only >= 0 && b != only {
				continue
			}
			cmp, ok := decodeCond(in.Cond, b == 0)
			var val ssa.Value
			isNil := false
			if ok && (cmp.Op == token.EQL || cmp.Op == token.NEQ) {
				switch {
				case c18IsZeroConst(cmp.Y):
					val = c18Root(cmp.X)
				case c18IsZeroConst(cmp.X):
					val = c18Root(cmp.Y)
				}
				isNil = cmp.Op == token.EQL
			}
			if n.tag.nilness != 0 && n.tag.isErr(val) {
				if isNil != (n.tag.nilness == 1) {
					continue // infeasible: the callee returned the other kind on this path
				}
			} else if phi, ok := val.(*ssa.Phi); ok && c18IsErrorType(phi) && c18MergesCalls(phi) {
				// an error variable that merges the results of several calls is tested and the path does
				// not tell which call it holds: findings that depend on this branch are not established
				g.imprecise = append(g.imprecise, n)
			}
			tf := g.enterBlock(fr, blk, blk.Succs[b])
			e := g.edge(n, g.node(tf, blk.Succs[b].Instrs[0], false, tagInto(blk.Succs[b])), b)
			if val != nil {
				e.hasFact, e.factFr, e.factVal, e.factNil = true, fr, val, isNil
			}
		}
	case *ssa.Return:
		kind, val := g.retKind(n)
		kinds := []string{kind}
		split := false
		if kind == "unknown" {
			kinds, split = []string{"nil", "nonnil"}, true
		}
		// the return site is remembered only when the callee has several (a single one tells nothing more)
		var site *c18Node
		nret := 0
		for _, b := range fr.fn.Blocks {
			if b.Index != 0 && len(b.Preds) == 0 {
				continue // unreachable (recover block)
			}
			if _, ok := b.Instrs[len(b.Instrs)-1].(*ssa.Return); ok {
				nret++
			}
		}
		if nret > 1 {
			site = n
		}
		for _, k := range kinds {
			var to *c18Node
			if fr.parent == nil {
				ek := "err"
				if k == "nil" || k == "void" {
					ek = "nil"
				}
				to = g.exitNode(n, ek)
				if split && !c18IsCallResult(val) {
					to.uncertain = true
				}
			} else {
				tag := c18Tag{call: fr.site, ret: site}
				switch k {
				case "nil":
					tag.nilness = 1
				case "nonnil":
					tag.nilness = 2
				}
				if tag.ret == nil && tag.nilness == 0 {
					tag = c18Tag{}
				}
				to = g.node(fr.parent, fr.site, true, tag)
			}
			e := g.edge(n, to, -1)
			if split && val != nil {
				e.hasFact, e.factFr, e.factVal, e.factNil = true, fr, val, k == "nil"
			}
		}
	case *ssa.Panic:
	default:
		next(n, n.tag)
	}
}

// opSplit: call is a modelled file-system operation whose error result flows into a phi (an error
// variable assigned on several paths): the two tags for "returned nil" / "returned an error".
func (g *c18Graph) opSplit(call *ssa.Call) (c18Tag, c18Tag, bool) {
	obj := calleeObj(call)
	if obj == nil || obj.Pkg() == nil {
		return c18Tag{}, c18Tag{}, false
	}
	if _, ok := c18Mutators[c18FullName(obj)]; !ok {
		return c18Tag{}, c18Tag{}, false
	}
	errv := c18ErrValue(call)
	if errv == nil {
		return c18Tag{}, c18Tag{}, false
	}
	intoPhi := false
	for _, r := range c18Refs(errv) {
		if _, ok := r.(*ssa.Phi); ok {
			intoPhi = true
		}
	}
	if !intoPhi {
		return c18Tag{}, c18Tag{}, false
	}
	return c18Tag{call: call, nilness: 1}, c18Tag{call: call, nilness: 2}, true
}

// c18MergesCalls: the phi web of v has at least two call results among its leaves.
func c18MergesCalls(phi *ssa.Phi) bool {
	seen := map[*ssa.Phi]bool{}
	n := 0
	var walk func(p *ssa.Phi)
	walk = func(p *ssa.Phi) {
		if seen[p] {
			return
		}
		seen[p] = true
		for _, e := range p.Edges {
			e = c18Root(e)
			if q, ok := e.(*ssa.Phi); ok {
				walk(q)
				continue
			}
			if c18IsCallResult(e) {
				n++
			}
		}
	}
	walk(phi)
	return n >= 2
}

// tagValue: v, read in the caller under the node's tag, is result i of the expanded call: the value
// returned at the remembered return site (a value of the callee frame), or nil.
func (g *c18Graph) tagValue(n *c18Node, v ssa.Value) ssa.Value {
	if n.tag.call == nil || n.tag.ret == nil {
		return nil
	}
	ret := n.tag.ret.in.(*ssa.Return)
	v = c18Root(v)
	switch x := v.(type) {
	case *ssa.Extract:
		if x.Tuple == ssa.Value(n.tag.call) && x.Index < len(ret.Results) {
			return ret.Results[x.Index]
		}
	case *ssa.Call:
		if x == n.tag.call && len(ret.Results) == 1 {
			return ret.Results[0]
		}
	}
	return nil
}

// evalTagCond decides a branch condition on results of the expanded call from the return site:
// a bool flag, or a comparison of an enum/int/string result with a constant.
func (g *c18Graph) evalTagCond(n *c18Node, cond ssa.Value) (truth, ok bool) {
	if n.tag.call == nil || n.tag.ret == nil {
		return false, false
	}
	neg := false
	for {
		if u, isU := cond.(*ssa.UnOp); isU && u.Op == token.NOT {
			cond, neg = u.X, !neg
			continue
		}
		break
	}
	konst := func(v ssa.Value) *ssa.Const {
		if c, ok := v.(*ssa.Const); ok {
			return c
		}
		if rv := g.tagValue(n, v); rv != nil {
			c, _ := rv.(*ssa.Const)
			return c
		}
		return nil
	}
	if rv := g.tagValue(n, cond); rv != nil {
		if c, isC := rv.(*ssa.Const); isC && c.Value != nil && c.Value.Kind() == constant.Bool {
			return constant.BoolVal(c.Value) != neg, true
		}
		return false, false
	}
	if bo, isB := cond.(*ssa.BinOp); isB && (bo.Op == token.EQL || bo.Op == token.NEQ) {
		if g.tagValue(n, bo.X) == nil && g.tagValue(n, bo.Y) == nil {
			return false, false
		}
		a, b := konst(bo.X), konst(bo.Y)
		if a == nil || b == nil || a.Value == nil || b.Value == nil {
			// nil constants: a.IsNil etc.
			if a != nil && b != nil && a.Value == nil && b.Value == nil {
				return (bo.Op == token.EQL) != neg, true
			}
			return false, false
		}
		if a.Value.Kind() != b.Value.Kind() {
			return false, false
		}
		eq := constant.Compare(a.Value, token.EQL, b.Value)
		return (eq == (bo.Op == token.EQL)) != neg, true
	}
	return false, false
}

func c18IsErrorType(v ssa.Value) bool {
	return v.Type().String() == "error"
}

func c18IsCallResult(v ssa.Value) bool {
	switch x := v.(type) {
	case *ssa.Call:
		return true
	case *ssa.Extract:
		_, ok := x.Tuple.(*ssa.Call)
		return ok
	}
	return false
}

// c18RetRoot: the value (chased through variable cells) a return yields as its last result.
func c18RetRoot(ret *ssa.Return, closureWrites map[*ssa.Alloc]bool) ssa.Value {
	if len(ret.Results) == 0 {
		return nil
	}
	v := ret.Results[len(ret.Results)-1]
	if u, ok := v.(*ssa.UnOp); ok && u.Op == token.MUL {
		if cell, ok := u.X.(*ssa.Alloc); ok {
			if closureWrites[cell] {
				return nil
			}
			blk := ret.Block()
			for i := len(blk.Instrs) - 1; i >= 0; i-- {
				if st, ok := blk.Instrs[i].(*ssa.Store); ok && st.Addr == cell {
					return c18Root(st.Val)
				}
			}
			return c18Root(v)
		}
	}
	return c18Root(v)
}

// nodesOf: the (pre-call) nodes of an instruction in a frame.
func (g *c18Graph) nodesOf(fr *c18Frame, in ssa.Instruction) []*c18Node {
	var out []*c18Node
	for _, n := range g.nodes {
		if n.fr == fr && n.in == in && !n.post {
			out = append(out, n)
		}
	}
	return out
}

// reach: nodes reachable from the successors of the given nodes.
func (g *c18Graph) reach(from []*c18Node) map[*c18Node]bool {
	seen := map[*c18Node]bool{}
	var work []*c18Node
	for _, n := range from {
		for _, e := range n.succs {
			work = append(work, e.to)
		}
	}
	for len(work) > 0 {
		n := work[len(work)-1]
		work = work[:len(work)-1]
		if seen[n] {
			continue
		}
		seen[n] = true
		for _, e := range n.succs {
			work = append(work, e.to)
		}
	}
	return seen
}

// reachBack: nodes from which n is reachable (n excluded unless on a cycle).
func (g *c18Graph) reachBack(n *c18Node) map[*c18Node]bool {
	seen := map[*c18Node]bool{}
	var work []*c18Node
	for _, e := range n.preds {
		work = append(work, e.from)
	}
	for len(work) > 0 {
		x := work[len(work)-1]
		work = work[:len(work)-1]
		if seen[x] {
			continue
		}
		seen[x] = true
		for _, e := range x.preds {
			work = append(work, e.from)
		}
	}
	return seen
}

// c18Flow: forward bit-vector dataflow over the graph.
type c18Flow struct {
	g        *c18Graph
	Must     bool
	Entry    uint64
	Transfer func(n *c18Node, st uint64) uint64
	Edge     func(e *c18Edge, st uint64) uint64
	in       map[*c18Node]uint64
	seen     map[*c18Node]bool
}

func (f *c18Flow) Run() {
	f.in = map[*c18Node]uint64{}
	f.seen = map[*c18Node]bool{}
	if f.g.entry == nil {
		return
	}
	f.in[f.g.entry] = f.Entry
	f.seen[f.g.entry] = true
	work := []*c18Node{f.g.entry}
	queued := map[*c18Node]bool{f.g.entry: true}
	for len(work) > 0 {
		n := work[0]
		work = work[1:]
		queued[n] = false
		st := f.in[n]
		if f.Transfer != nil {
			st = f.Transfer(n, st)
		}
		for _, e := range n.succs {
			es := st
			if f.Edge != nil {
				es = f.Edge(e, st)
			}
			var ns uint64
			switch {
			case !f.seen[e.to]:
				ns = es
			case f.Must:
				ns = f.in[e.to] & es
			default:
				ns = f.in[e.to] | es
			}
			if !f.seen[e.to] || ns != f.in[e.to] {
				f.seen[e.to] = true
				f.in[e.to] = ns
				if !queued[e.to] {
					queued[e.to] = true
					work = append(work, e.to)
				}
			}
		}
	}
}

// Before: the state before node n, and whether n is reachable.
func (f *c18Flow) Before(n *c18Node) (uint64, bool) { return f.in[n], f.seen[n] }

// Out: the state after n's own transfer.
func (f *c18Flow) Out(n *c18Node) uint64 {
	st := f.in[n]
	if f.Transfer != nil {
		st = f.Transfer(n, st)
	}
	return st
}

// BeforeAll combines the states before several nodes (the instances of one instruction).
func (f *c18Flow) BeforeAll(ns []*c18Node) (uint64, bool) {
	var st uint64
	first := true
	for _, n := range ns {
		s, ok := f.Before(n)
		if !ok {
			continue
		}
		switch {
		case first:
			st, first = s, false
		case f.Must:
			st &= s
		default:
			st |= s
		}
	}
	return st, !first
}

// c18IsZeroConst: the nil constant, or the empty string constant ("no value" sentinel of a string field).
func c18IsZeroConst(v ssa.Value) bool {
	c, ok := v.(*ssa.Const)
	if !ok {
		return false
	}
	if c.IsNil() {
		return true
	}
	return c.Value != nil && c.Value.Kind() == constant.String && constant.StringVal(c.Value) == ""
}
