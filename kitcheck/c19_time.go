package main

// C19: time values as linear forms over {NotBefore(c), NotAfter(c), now}, and
// the renewal-point / wake-up / retry rules X5, X6 built on them.

import (
	"fmt"
	"go/constant"
	"go/token"
	"go/types"
	"math/big"
	"sort"
	"strings"

	"golang.org/x/tools/go/ssa"
)

// c19Lin is sum(coef[s] * s) over symbols "now", "NB#<cert>", "NA#<cert>" and
// "1" (the constant term, nanoseconds). unknown != "" : not evaluable.
type c19Lin struct {
	coef    map[string]*big.Rat
	unknown string
}

func c19LinUnknown(why string) c19Lin { return c19Lin{unknown: why} }

func c19LinSym(s string) c19Lin { return c19Lin{coef: map[string]*big.Rat{s: big.NewRat(1, 1)}} }

func c19LinConst(k int64) c19Lin {
	if k == 0 {
		return c19Lin{coef: map[string]*big.Rat{}}
	}
	return c19Lin{coef: map[string]*big.Rat{"1": big.NewRat(k, 1)}}
}

func c19LinAdd(a, b c19Lin, sign int64) c19Lin {
	if a.unknown != "" {
		return a
	}
	if b.unknown != "" {
		return b
	}
	out := c19Lin{coef: map[string]*big.Rat{}}
	for k, v := range a.coef {
		out.coef[k] = new(big.Rat).Set(v)
	}
	for k, v := range b.coef {
		t := new(big.Rat).Mul(v, big.NewRat(sign, 1))
		if o, ok := out.coef[k]; ok {
			t.Add(t, o)
		}
		if t.Sign() == 0 {
			delete(out.coef, k)
		} else {
			out.coef[k] = t
		}
	}
	return out
}

func c19LinScale(a c19Lin, r *big.Rat) c19Lin {
	if a.unknown != "" {
		return a
	}
	out := c19Lin{coef: map[string]*big.Rat{}}
	if r.Sign() == 0 {
		return out
	}
	for k, v := range a.coef {
		out.coef[k] = new(big.Rat).Mul(v, r)
	}
	return out
}

func (l c19Lin) isConst() (int64, bool) {
	if l.unknown != "" {
		return 0, false
	}
	if len(l.coef) == 0 {
		return 0, true
	}
	if len(l.coef) == 1 {
		if c, ok := l.coef["1"]; ok && c.IsInt() {
			return c.Num().Int64(), true
		}
	}
	return 0, false
}

func (l c19Lin) get(s string) *big.Rat {
	if c, ok := l.coef[s]; ok {
		return c
	}
	return new(big.Rat)
}

func (l c19Lin) String() string {
	if l.unknown != "" {
		return "?(" + l.unknown + ")"
	}
	var ks []string
	for k := range l.coef {
		ks = append(ks, k)
	}
	sort.Strings(ks)
	var parts []string
	for _, k := range ks {
		name := k
		switch {
		case strings.HasPrefix(k, "NB#"):
			name = "NotBefore"
		case strings.HasPrefix(k, "NA#"):
			name = "NotAfter"
		case k == "1":
			name = "ns"
		}
		parts = append(parts, l.coef[k].RatString()+"*"+name)
	}
	if len(parts) == 0 {
		return "0"
	}
	return strings.Join(parts, " + ")
}

func c19ConstInt(v ssa.Value) (int64, bool) {
	c, ok := v.(*ssa.Const)
	if !ok || c.Value == nil || c.Value.Kind() != constant.Int {
		return 0, false
	}
	k, exact := constant.Int64Val(c.Value)
	return k, exact
}

// certID gives the identity of a certificate value (same SSA value, same
// variable cell, same loop variable), resolving parameters through frames.
func (x *c19) certID(v ssa.Value, fr *c19Frame) int {
	for i := 0; i < 8; i++ {
		switch t := v.(type) {
		case *ssa.ChangeType:
			v = t.X
			continue
		case *ssa.Parameter:
			if fr != nil {
				if a, afr, ok := fr.arg(c19ParamIndex(t)); ok {
					v, fr = a, afr
					continue
				}
			}
		case *ssa.UnOp:
			if a, ok := t.X.(*ssa.Alloc); ok && t.Op == token.MUL {
				v = a
			}
		}
		break
	}
	if id, ok := x.certIDs[v]; ok {
		return id
	}
	id := len(x.certIDs) + 1
	x.certIDs[v] = id
	return id
}

func c19IsClockPkg(path string) bool { return path == "k8s.io/utils/clock" }

type c19LinEval struct {
	x    *c19
	seen map[string]bool
	// phiSel (optional): loop variables resolved along a concrete path
	phiSel map[*ssa.Phi]ssa.Value
}

func c19Cross(as, bs []c19Lin, f func(a, b c19Lin) c19Lin) []c19Lin {
	var out []c19Lin
	for _, a := range as {
		for _, b := range bs {
			out = append(out, f(a, b))
		}
	}
	if len(out) > 64 {
		out = out[:64]
	}
	return out
}

// evalLin evaluates a time.Time / time.Duration value to its alternatives.
func (x *c19) evalLin(v ssa.Value, fr *c19Frame) []c19Lin {
	ev := &c19LinEval{x: x, seen: map[string]bool{}}
	return ev.eval(v, -1, fr, 0)
}

func (ev *c19LinEval) eval(v ssa.Value, idx int, fr *c19Frame, depth int) []c19Lin {
	x := ev.x
	if depth > 30 {
		return []c19Lin{c19LinUnknown("expression too deep")}
	}
	if k, ok := c19ConstInt(v); ok {
		return []c19Lin{c19LinConst(k)}
	}
	switch t := v.(type) {
	case *ssa.Phi:
		if sel, ok := ev.phiSel[t]; ok && fr == nil {
			key := fmt.Sprintf("sel%p", v)
			if !ev.seen[key] {
				ev.seen[key] = true
				out := ev.eval(sel, -1, fr, depth+1)
				delete(ev.seen, key)
				return out
			}
		}
		key := fmt.Sprintf("%p|%s", v, x.frameKey(fr))
		if ev.seen[key] {
			return nil // the loop variable itself: decided by the other edges
		}
		ev.seen[key] = true
		var out []c19Lin
		for _, e := range t.Edges {
			out = append(out, ev.eval(e, -1, fr, depth+1)...)
		}
		delete(ev.seen, key)
		return out
	case *ssa.Convert:
		return ev.eval(t.X, -1, fr, depth+1)
	case *ssa.ChangeType:
		return ev.eval(t.X, -1, fr, depth+1)
	case *ssa.Extract:
		return ev.eval(t.Tuple, t.Index, fr, depth+1)
	case *ssa.Parameter:
		if fr != nil {
			if a, afr, ok := fr.arg(c19ParamIndex(t)); ok {
				return ev.eval(a, -1, afr, depth+1)
			}
		}
		sites, ok := x.callers(t.Parent())
		if !ok {
			return []c19Lin{c19LinUnknown("parameter " + t.Name() + " of " + x.name(t.Parent()))}
		}
		var out []c19Lin
		for _, s := range sites {
			args := s.instr.Common().Args
			if i := c19ParamIndex(t); i >= 0 && i < len(args) {
				out = append(out, ev.eval(args[i], -1, nil, depth+1)...)
			}
		}
		return out
	case *ssa.BinOp:
		switch t.Op {
		case token.ADD:
			return c19Cross(ev.eval(t.X, -1, fr, depth+1), ev.eval(t.Y, -1, fr, depth+1), func(a, b c19Lin) c19Lin { return c19LinAdd(a, b, 1) })
		case token.SUB:
			return c19Cross(ev.eval(t.X, -1, fr, depth+1), ev.eval(t.Y, -1, fr, depth+1), func(a, b c19Lin) c19Lin { return c19LinAdd(a, b, -1) })
		case token.MUL:
			if k, ok := c19ConstInt(t.Y); ok {
				return c19MapLin(ev.eval(t.X, -1, fr, depth+1), func(a c19Lin) c19Lin { return c19LinScale(a, big.NewRat(k, 1)) })
			}
			if k, ok := c19ConstInt(t.X); ok {
				return c19MapLin(ev.eval(t.Y, -1, fr, depth+1), func(a c19Lin) c19Lin { return c19LinScale(a, big.NewRat(k, 1)) })
			}
		case token.QUO:
			if k, ok := c19ConstInt(t.Y); ok && k != 0 {
				return c19MapLin(ev.eval(t.X, -1, fr, depth+1), func(a c19Lin) c19Lin { return c19LinScale(a, big.NewRat(1, k)) })
			}
		case token.SHR:
			if k, ok := c19ConstInt(t.Y); ok && k >= 0 && k < 62 {
				return c19MapLin(ev.eval(t.X, -1, fr, depth+1), func(a c19Lin) c19Lin { return c19LinScale(a, big.NewRat(1, int64(1)<<uint(k))) })
			}
		case token.SHL:
			if k, ok := c19ConstInt(t.Y); ok && k >= 0 && k < 62 {
				return c19MapLin(ev.eval(t.X, -1, fr, depth+1), func(a c19Lin) c19Lin { return c19LinScale(a, big.NewRat(int64(1)<<uint(k), 1)) })
			}
		}
		return []c19Lin{c19LinUnknown("operator " + t.Op.String())}
	case *ssa.UnOp:
		switch t.Op {
		case token.SUB:
			return c19MapLin(ev.eval(t.X, -1, fr, depth+1), func(a c19Lin) c19Lin { return c19LinScale(a, big.NewRat(-1, 1)) })
		case token.MUL:
			switch a := t.X.(type) {
			case *ssa.FieldAddr:
				id := fieldIDOfAddr(a)
				if id.Type == "crypto/x509.Certificate" {
					switch id.Field {
					case "NotBefore":
						return []c19Lin{c19LinSym(fmt.Sprintf("NB#%d", x.certID(a.X, fr)))}
					case "NotAfter":
						return []c19Lin{c19LinSym(fmt.Sprintf("NA#%d", x.certID(a.X, fr)))}
					}
				}
				return []c19Lin{c19LinUnknown("field " + id.String())}
			case *ssa.Alloc:
				var out []c19Lin
				for _, rr := range refs(a) {
					if st, ok := rr.(*ssa.Store); ok && st.Addr == ssa.Value(a) {
						out = append(out, ev.eval(st.Val, -1, fr, depth+1)...)
					}
				}
				if len(out) > 0 {
					return out
				}
			}
		}
		return []c19Lin{c19LinUnknown("load " + t.String())}
	case *ssa.Field:
		id := fieldIDOfField(t)
		if id.Type == "crypto/x509.Certificate" {
			switch id.Field {
			case "NotBefore":
				return []c19Lin{c19LinSym(fmt.Sprintf("NB#%d", x.certID(t.X, fr)))}
			case "NotAfter":
				return []c19Lin{c19LinSym(fmt.Sprintf("NA#%d", x.certID(t.X, fr)))}
			}
		}
		return []c19Lin{c19LinUnknown("field " + id.String())}
	case *ssa.Call:
		cc := t.Call
		obj := calleeObj(t)
		if b := builtinName(t); b != "" {
			return []c19Lin{c19LinUnknown(b + "()")}
		}
		if obj != nil && obj.Pkg() != nil {
			path := obj.Pkg().Path()
			recv := ""
			if f := staticCallee(t); f != nil && f.Signature.Recv() != nil {
				recv = typeBaseName(f.Signature.Recv().Type())
			}
			switch {
			case path == "time" && recv == "Time" && len(cc.Args) == 2 && obj.Name() == "Add":
				return c19Cross(ev.eval(cc.Args[0], -1, fr, depth+1), ev.eval(cc.Args[1], -1, fr, depth+1), func(a, b c19Lin) c19Lin { return c19LinAdd(a, b, 1) })
			case path == "time" && recv == "Time" && len(cc.Args) == 2 && obj.Name() == "Sub":
				return c19Cross(ev.eval(cc.Args[0], -1, fr, depth+1), ev.eval(cc.Args[1], -1, fr, depth+1), func(a, b c19Lin) c19Lin { return c19LinAdd(a, b, -1) })
			case path == "time" && recv == "Time" && (obj.Name() == "UTC" || obj.Name() == "Local" || obj.Name() == "In") && len(cc.Args) >= 1:
				return ev.eval(cc.Args[0], -1, fr, depth+1)
			case path == "time" && recv == "" && obj.Name() == "Now":
				return []c19Lin{c19LinSym("now")}
			case path == "time" && recv == "" && obj.Name() == "Since" && len(cc.Args) == 1:
				return c19MapLin(ev.eval(cc.Args[0], -1, fr, depth+1), func(a c19Lin) c19Lin { return c19LinAdd(c19LinSym("now"), a, -1) })
			case path == "time" && recv == "" && obj.Name() == "Until" && len(cc.Args) == 1:
				return c19MapLin(ev.eval(cc.Args[0], -1, fr, depth+1), func(a c19Lin) c19Lin { return c19LinAdd(a, c19LinSym("now"), -1) })
			case c19IsClockPkg(path) && obj.Name() == "Now":
				return []c19Lin{c19LinSym("now")}
			case c19IsClockPkg(path) && obj.Name() == "Since" && len(cc.Args) >= 1:
				return c19MapLin(ev.eval(cc.Args[len(cc.Args)-1], -1, fr, depth+1), func(a c19Lin) c19Lin { return c19LinAdd(c19LinSym("now"), a, -1) })
			}
		}
		if c19FrameDepth(fr) < 8 {
			var out []c19Lin
			i := idx
			if i < 0 {
				i = 0
			}
			for _, nf := range x.enter(t, fr) {
				if c19FrameHas(fr, nf.fn) {
					continue
				}
				nf := nf
				allInstrs(nf.fn, func(in ssa.Instruction) {
					if ret, ok := in.(*ssa.Return); ok && i < len(ret.Results) {
						for _, u := range unspill(ret.Results[i]) {
							out = append(out, ev.eval(u, -1, nf, depth+1)...)
						}
					}
				})
			}
			if len(out) > 0 {
				return out
			}
		}
		return []c19Lin{c19LinUnknown("call of " + callDesc(t))}
	}
	return []c19Lin{c19LinUnknown(v.String())}
}

func c19MapLin(as []c19Lin, f func(c19Lin) c19Lin) []c19Lin {
	out := make([]c19Lin, len(as))
	for i, a := range as {
		out[i] = f(a)
	}
	return out
}

// c19ClassifyPoint decides whether a renewal point is (1-a)*NotBefore + a*NotAfter
// of one certificate with 0 <= a <= 1/2 (and no positive offset).
// verdict: "ok", "early" (allowed: sooner than half-life), "bad", "unknown".
func c19ClassifyPoint(l c19Lin) (verdict, oneCert, why string) {
	if l.unknown != "" {
		return "unknown", "unknown", "not evaluable: " + l.unknown
	}
	nb, na := "", ""
	for k := range l.coef {
		switch {
		case strings.HasPrefix(k, "NB#"):
			if nb != "" {
				return "bad", "bad", "mixes NotBefore of two certificates: " + l.String()
			}
			nb = k
		case strings.HasPrefix(k, "NA#"):
			if na != "" {
				return "bad", "bad", "mixes NotAfter of two certificates: " + l.String()
			}
			na = k
		case k == "now":
			return "bad", "bad", "depends on the current time instead of the certificate's validity: " + l.String()
		}
	}
	if nb == "" && na == "" {
		return "bad", "bad", "does not depend on the certificate's validity: " + l.String()
	}
	if nb != "" && na != "" && nb[3:] != na[3:] {
		return "bad", "bad", "NotBefore and NotAfter are taken from different certificates: " + l.String()
	}
	a, b := l.get(na), l.get(nb)
	if na == "" {
		a = new(big.Rat)
	}
	if nb == "" {
		b = new(big.Rat)
	}
	sum := new(big.Rat).Add(a, b)
	half := big.NewRat(1, 2)
	c := l.get("1")
	switch {
	case sum.Cmp(big.NewRat(1, 1)) != 0:
		return "bad", "ok", "is not a point of the validity window: " + l.String()
	case a.Cmp(half) > 0 || c.Sign() > 0:
		return "bad", "ok", "lies after half of the validity: " + l.String()
	case a.Sign() < 0:
		return "bad", "ok", "lies before NotBefore: " + l.String()
	case a.Cmp(half) == 0 && c.Sign() == 0:
		return "ok", "ok", ""
	}
	return "early", "ok", "earlier than half-life (allowed by the statement): " + l.String()
}

// atMost: v is provably <= bound (constant, min() with such an argument, a
// clamp `if v > K { v = K }`, a helper returning such values).
func (x *c19) atMost(v ssa.Value, fr *c19Frame, bound int64, depth int) bool {
	if depth > 10 {
		return false
	}
	if k, ok := c19ConstInt(v); ok {
		return k <= bound
	}
	switch t := v.(type) {
	case *ssa.Convert:
		return x.atMost(t.X, fr, bound, depth+1)
	case *ssa.ChangeType:
		return x.atMost(t.X, fr, bound, depth+1)
	case *ssa.Parameter:
		if fr != nil {
			if a, afr, ok := fr.arg(c19ParamIndex(t)); ok {
				return x.atMost(a, afr, bound, depth+1)
			}
		}
		sites, ok := x.callers(t.Parent())
		if !ok {
			return false
		}
		for _, s := range sites {
			args := s.instr.Common().Args
			i := c19ParamIndex(t)
			if i < 0 || i >= len(args) || !x.atMost(args[i], nil, bound, depth+1) {
				return false
			}
		}
		return true
	case *ssa.Call:
		if builtinName(t) == "min" {
			for _, a := range t.Call.Args {
				if x.atMost(a, fr, bound, depth+1) {
					return true
				}
			}
			return false
		}
		if builtinName(t) == "max" {
			for _, a := range t.Call.Args {
				if !x.atMost(a, fr, bound, depth+1) {
					return false
				}
			}
			return len(t.Call.Args) > 0
		}
		if cal := x.pkgCallee(t); cal != nil && cal.Signature.Results().Len() == 1 && !c19FrameHas(fr, cal) {
			nf := &c19Frame{call: t, parent: fr}
			ok, n := true, 0
			allInstrs(cal, func(in ssa.Instruction) {
				if ret, isRet := in.(*ssa.Return); isRet && len(ret.Results) == 1 {
					for _, u := range unspill(ret.Results[0]) {
						n++
						if !x.atMost(u, nf, bound, depth+1) {
							ok = false
						}
					}
				}
			})
			return ok && n > 0
		}
	case *ssa.Phi:
		for i, e := range t.Edges {
			if x.atMost(e, fr, bound, depth+1) {
				continue
			}
			if i >= len(t.Block().Preds) || !c19EdgeBounds(t.Block().Preds[i], t.Block(), e, bound) {
				return false
			}
		}
		return len(t.Edges) > 0
	}
	return false
}

// c19EdgeBounds: on the CFG edge from->to, value e is known <= some constant <= bound.
func c19EdgeBounds(from, to *ssa.BasicBlock, e ssa.Value, bound int64) bool {
	var conds []DomCond
	conds = append(conds, domConds(from)...)
	if len(from.Instrs) > 0 {
		if ifi, ok := from.Instrs[len(from.Instrs)-1].(*ssa.If); ok && len(from.Succs) == 2 && from.Succs[0] != from.Succs[1] {
			if from.Succs[0] == to {
				conds = append(conds, DomCond{ifi, true})
			} else if from.Succs[1] == to {
				conds = append(conds, DomCond{ifi, false})
			}
		}
	}
	for _, dc := range conds {
		cmp, ok := decodeCond(dc.If.Cond, dc.Branch)
		if !ok {
			continue
		}
		if cmp.X == e {
			if k, isK := c19ConstInt(cmp.Y); isK && k <= bound && (cmp.Op == token.LEQ || cmp.Op == token.LSS || cmp.Op == token.EQL) {
				return true
			}
		}
		if cmp.Y == e {
			if k, isK := c19ConstInt(cmp.X); isK && k <= bound && (cmp.Op == token.GEQ || cmp.Op == token.GTR || cmp.Op == token.EQL) {
				return true
			}
		}
	}
	return false
}

// durParts: the component values of a wait duration: arguments of min(),
// phi edges, helper results, arguments bound to a helper's parameter.
func (x *c19) durParts(v ssa.Value, fr *c19Frame, depth int, out *[]c19SinkVal) {
	if depth > 10 {
		return
	}
	switch t := v.(type) {
	case *ssa.Convert:
		x.durParts(t.X, fr, depth+1, out)
		return
	case *ssa.Parameter:
		if fr != nil {
			if a, afr, ok := fr.arg(c19ParamIndex(t)); ok {
				x.durParts(a, afr, depth+1, out)
				return
			}
		}
		if sites, ok := x.callers(t.Parent()); ok {
			for _, s := range sites {
				args := s.instr.Common().Args
				if i := c19ParamIndex(t); i >= 0 && i < len(args) {
					x.durParts(args[i], nil, depth+1, out)
				}
			}
			return
		}
	case *ssa.Call:
		if b := builtinName(t); b == "min" || b == "max" {
			for _, a := range t.Call.Args {
				x.durParts(a, fr, depth+1, out)
			}
			return
		}
		if cal := x.pkgCallee(t); cal != nil && cal.Signature.Results().Len() == 1 && !c19FrameHas(fr, cal) {
			nf := &c19Frame{call: t, parent: fr}
			n := 0
			allInstrs(cal, func(in ssa.Instruction) {
				if ret, ok := in.(*ssa.Return); ok && len(ret.Results) == 1 {
					for _, u := range unspill(ret.Results[0]) {
						n++
						x.durParts(u, nf, depth+1, out)
					}
				}
			})
			if n > 0 {
				return
			}
		}
	case *ssa.Phi:
		if depth < 6 {
			for _, e := range t.Edges {
				x.durParts(e, fr, depth+3, out)
			}
			return
		}
	}
	*out = append(*out, c19SinkVal{v, fr})
}

type c19SinkVal struct {
	v  ssa.Value
	fr *c19Frame
}

// c19ClockWait: the call waits on a clock (injected or real); returns the duration operand.
func c19ClockWait(call ssa.CallInstruction) (ssa.Value, bool) {
	obj := calleeObj(call)
	if obj == nil || obj.Pkg() == nil {
		return nil, false
	}
	path := obj.Pkg().Path()
	static := staticCallee(call)
	if !(c19IsClockPkg(path) || (path == "time" && static != nil && static.Signature.Recv() == nil) || (path == "time" && static != nil && obj.Name() == "Reset")) {
		return nil, false
	}
	switch obj.Name() {
	case "After", "NewTimer", "Sleep", "Tick", "NewTicker", "AfterFunc", "Reset":
	default:
		return nil, false
	}
	for _, a := range call.Common().Args {
		if namedKey(a.Type()) == "time.Duration" {
			return a, true
		}
	}
	return nil, false
}

// fetchErrors: error-typed results of calls in fn to functions that perform a fetch.
func (x *c19) fetchErrors(fn *ssa.Function) []ssa.Value {
	var out []ssa.Value
	allInstrs(fn, func(in ssa.Instruction) {
		call, ok := in.(*ssa.Call)
		if !ok {
			return
		}
		cal := x.pkgCallee(call)
		if cal == nil || !x.fetchTouch[cal] {
			return
		}
		res := cal.Signature.Results()
		for i := 0; i < res.Len(); i++ {
			if isErrorType(res.At(i).Type()) {
				if v := callResult(call, i); v != nil {
					out = append(out, v)
				}
			}
		}
	})
	return out
}

// c19NextWait is what the forward search from a failed fetch finds first.
type c19NextWait struct {
	at   ssa.Instruction
	alts []c19Lin
	note string // non-empty: something other than a wait came first
}

// nextWaits searches forward from the edge prev->start (the error edge of a
// fetch) for the first clock wait on every path, resolving loop variables
// (phis) along the path taken. Paths that leave the function are ignored.
// c19Known is what the path search knows about a value: a constant, or "non-nil".
type c19Known struct {
	c      *ssa.Const
	nonNil bool
}

func (x *c19) nextWaits(start, prev *ssa.BasicBlock, waits map[*ssa.Function]bool, failed ssa.Value, late bool) []c19NextWait {
	// ctxDone: number of edges on the current path that prove a context is done
	// (the body of a select case receiving from a Done channel, the non-nil side of ctx.Err())
	ctxDone := 0
	doneEdge := func(from, to *ssa.BasicBlock) bool {
		if si, ks := selectEdgeCases(from, to); si != nil {
			for _, k := range ks {
				if k >= 0 && k < len(si.Cases) && strings.HasPrefix(si.Cases[k].Chan, "done:") {
					return true
				}
			}
		}
		if len(from.Instrs) > 0 && len(from.Succs) == 2 {
			if ifi, ok := from.Instrs[len(from.Instrs)-1].(*ssa.If); ok {
				if cmp, ok := decodeCond(ifi.Cond, from.Succs[0] == to); ok && cmp.Op == token.NEQ {
					for _, o := range []ssa.Value{cmp.X, cmp.Y} {
						if call, ok := o.(*ssa.Call); ok {
							if obj := calleeObj(call); obj != nil && obj.Name() == "Err" && obj.Pkg() != nil && obj.Pkg().Path() == "context" {
								return true
							}
						}
					}
				}
			}
		}
		return false
	}
	// sameErr: o denotes the error value known non-nil on this search (the
	// same SSA value, or another load of the same variable cell)
	sameErr := func(o ssa.Value) bool {
		if o == failed {
			return true
		}
		a, ok1 := o.(*ssa.UnOp)
		b, ok2 := failed.(*ssa.UnOp)
		if ok1 && ok2 && a.Op == token.MUL && b.Op == token.MUL && a.X == b.X {
			if _, isCell := a.X.(*ssa.Alloc); isCell {
				return true
			}
		}
		return false
	}
	var out []c19NextWait
	type key struct {
		b, p *ssa.BasicBlock
		ctx  int
	}
	seen := map[key]bool{}
	nctx := 0

	// evalCond: the truth value of a branch condition under what is known
	var evalCond func(v ssa.Value, known map[ssa.Value]c19Known, depth int) (val, ok bool)
	constOf := func(v ssa.Value, known map[ssa.Value]c19Known) (*ssa.Const, bool, bool) { // const, nonNil, ok
		if c, isC := v.(*ssa.Const); isC {
			return c, false, true
		}
		if k, has := known[v]; has {
			return k.c, k.nonNil, true
		}
		if sameErr(v) {
			return nil, true, true
		}
		return nil, false, false
	}
	evalCond = func(v ssa.Value, known map[ssa.Value]c19Known, depth int) (bool, bool) {
		if depth > 6 {
			return false, false
		}
		if c, _, ok := constOf(v, known); ok && c != nil && c.Value != nil && c.Value.Kind() == constant.Bool {
			return constant.BoolVal(c.Value), true
		}
		switch t := v.(type) {
		case *ssa.UnOp:
			if t.Op == token.NOT {
				if b, ok := evalCond(t.X, known, depth+1); ok {
					return !b, true
				}
			}
		case *ssa.BinOp:
			if t.Op != token.EQL && t.Op != token.NEQ {
				return false, false
			}
			cx, nx, okx := constOf(t.X, known)
			cy, ny, oky := constOf(t.Y, known)
			if !okx || !oky {
				return false, false
			}
			eq, decided := false, false
			switch {
			case nx && cy != nil && cy.IsNil(), ny && cx != nil && cx.IsNil():
				eq, decided = false, true
			case cx != nil && cy != nil && cx.IsNil() && cy.IsNil():
				eq, decided = true, true
			case cx != nil && cy != nil && cx.Value != nil && cy.Value != nil && cx.Value.Kind() == cy.Value.Kind():
				eq, decided = constant.Compare(cx.Value, token.EQL, cy.Value), true
			case cx != nil && cy != nil && (cx.IsNil() != cy.IsNil()) && (cx.Value == nil || cy.Value == nil):
				// nil against a non-nil constant of pointer-like type cannot occur; leave undecided
			}
			if decided {
				if t.Op == token.NEQ {
					return !eq, true
				}
				return eq, true
			}
		}
		return false, false
	}

	// slots: the value last stored on this path into a local cell (result slots of functions with defers)
	slots := map[*ssa.Alloc]ssa.Value{}
	var dfs func(b *ssa.BasicBlock, from int, p *ssa.BasicBlock, sel map[*ssa.Phi]ssa.Value, known map[ssa.Value]c19Known, ctx, up, depth int)
	dfs = func(b *ssa.BasicBlock, from int, p *ssa.BasicBlock, sel map[*ssa.Phi]ssa.Value, known map[ssa.Value]c19Known, ctx, up, depth int) {
		// stores made in this block are undone when the search backtracks
		var undo []func()
		defer func() {
			for i := len(undo) - 1; i >= 0; i-- {
				undo[i]()
			}
		}()
		if depth > 300 {
			return
		}
		if from == 0 {
			if seen[key{b, p, ctx}] {
				return
			}
			seen[key{b, p, ctx}] = true
		}
		// bind the phis of b for the edge p->b (simultaneous assignment)
		nsel := sel
		if from == 0 && p != nil {
			idx := -1
			for i, q := range b.Preds {
				if q == p {
					idx = i
				}
			}
			bound := false
			for _, in := range b.Instrs {
				phi, ok := in.(*ssa.Phi)
				if !ok {
					break
				}
				if idx < 0 || idx >= len(phi.Edges) {
					continue
				}
				if !bound {
					nsel = map[*ssa.Phi]ssa.Value{}
					for k, v := range sel {
						nsel[k] = v
					}
					bound = true
				}
				e := phi.Edges[idx]
				if ep, ok := e.(*ssa.Phi); ok {
					if v, ok := sel[ep]; ok {
						e = v
					}
				}
				nsel[phi] = e
			}
		}
		for i := from; i < len(b.Instrs); i++ {
			in := b.Instrs[i]
			switch t := in.(type) {
			case *ssa.Store:
				if a, ok := t.Addr.(*ssa.Alloc); ok {
					old, had := slots[a]
					slots[a] = t.Val
					undo = append(undo, func() {
						if had {
							slots[a] = old
						} else {
							delete(slots, a)
						}
					})
				}
			case *ssa.Return:
				// the path leaves a phase helper: continue after each of its calls, with
				// what this path returns (constants, the failed error) known to the caller
				fn := b.Parent()
				sites, ok := x.callers(fn)
				if !ok && late && ctxDone == 0 && b != fn.Recover {
					// the path leaves Run (or an entry point) before any wait and without
					// evidence that the context is done: the rotation has ended
					out = append(out, c19NextWait{at: in, note: "the rotation loop is left (return at " + x.pos(in) + ") although its context is not known to be done: the certificate is never renewed again"})
				}
				if !ok || up >= 3 {
					return
				}
				for _, s := range sites {
					call, isCall := s.instr.(*ssa.Call)
					if !isCall {
						continue
					}
					nk := map[ssa.Value]c19Known{}
					for ri, rv := range t.Results {
						v := rv
						if ld, isLd := rv.(*ssa.UnOp); isLd && ld.Op == token.MUL {
							if a, isA := ld.X.(*ssa.Alloc); isA {
								if sv, has := slots[a]; has {
									v = sv // the result slot as written on this path
								} else if vals := unspill(rv); len(vals) == 1 {
									v = vals[0]
								} else {
									continue
								}
							}
						}
						if ph, isPhi := v.(*ssa.Phi); isPhi {
							if sv, has := nsel[ph]; has {
								v = sv
							}
						}
						var kn c19Known
						if c, nn, ok := constOf(v, known); ok {
							kn = c19Known{c: c, nonNil: nn}
						} else if bv, ok := evalCond(v, known, 0); ok {
							// a flag computed from what the path knows (ok := err == nil)
							kn = c19Known{c: ssa.NewConst(constant.MakeBool(bv), types.Typ[types.Bool])}
						} else {
							continue
						}
						if len(t.Results) == 1 {
							nk[call] = kn
						} else if ex := callResult(call, ri); ex != nil {
							nk[ex] = kn
						}
					}
					nctx++
					dfs(call.Block(), instrIndex(call)+1, nil, map[*ssa.Phi]ssa.Value{}, nk, nctx, up+1, depth+1)
				}
				return
			case *ssa.Call:
				if d, ok := c19ClockWait(t); ok {
					ev := &c19LinEval{x: x, seen: map[string]bool{}, phiSel: nsel}
					out = append(out, c19NextWait{at: in, alts: ev.eval(d, -1, nil, 0)})
					return
				}
				cal := x.pkgCallee(t)
				if cal == nil {
					continue
				}
				if x.fetchTouch[cal] {
					if x.fetchers[cal] || x.startsFetchDirectly(cal) || !waits[cal] {
						out = append(out, c19NextWait{at: in, note: "the fetch is attempted again without any wait in between"})
					} else {
						out = append(out, c19NextWait{at: in, alts: []c19Lin{c19LinUnknown("the error path continues in " + x.name(cal) + ", which both waits and fetches")}})
					}
					return
				}
				if waits[cal] {
					// the waits of the helper, with its parameters bound to this call
					n := 0
					x.explore(cal, &c19Frame{call: t, fn: cal}, func(j ssa.Instruction, fr *c19Frame) {
						if cj, ok := j.(*ssa.Call); ok {
							if d, ok := c19ClockWait(cj); ok {
								n++
								// arguments of this call may be loop variables of the caller
								ev := &c19LinEval{x: x, seen: map[string]bool{}, phiSel: nsel}
								out = append(out, c19NextWait{at: j, alts: ev.eval(d, -1, fr, 0)})
							}
						}
					})
					if n > 0 {
						return
					}
				}
			}
		}
		// a branch whose condition is decided by what this path knows (a later
		// test of the failed error, a flag / enum returned by a phase helper)
		if len(b.Instrs) > 0 && len(b.Succs) == 2 {
			if ifi, ok := b.Instrs[len(b.Instrs)-1].(*ssa.If); ok {
				if val, ok := evalCond(ifi.Cond, known, 0); ok {
					if val {
						dfs(b.Succs[0], 0, b, nsel, known, ctx, up, depth+1)
					} else {
						dfs(b.Succs[1], 0, b, nsel, known, ctx, up, depth+1)
					}
					return
				}
			}
		}
		for _, s := range b.Succs {
			ev := doneEdge(b, s)
			if ev {
				ctxDone++
			}
			dfs(s, 0, b, nsel, known, ctx, up, depth+1)
			if ev {
				ctxDone--
			}
		}
	}
	dfs(start, 0, prev, map[*ssa.Phi]ssa.Value{}, map[ssa.Value]c19Known{}, 0, 0, 0)
	return out
}

func (x *c19) checkX5() {
	r := x.r
	var fns []*ssa.Function
	for _, fn := range x.fns {
		if x.reach[fn] && !x.underFetch[fn] {
			fns = append(fns, fn)
		}
	}
	const minute = int64(60_000_000_000)
	const retry = int64(10_000_000_000)

	type point struct {
		construct string
		pos       string
		alts      []c19Lin
	}
	var points []point
	var realClock []string
	nWake := 0
	var wakeWhy []string
	wakePos := "-"
	one, minusOne := big.NewRat(1, 1), big.NewRat(-1, 1)

	for _, fn := range fns {
		nW, nC := 0, 0
		allInstrs(fn, func(in ssa.Instruction) {
			switch t := in.(type) {
			case *ssa.BinOp:
				// duration comparisons such as renewAt.Sub(now) <= 0
				switch t.Op {
				case token.LSS, token.LEQ, token.GTR, token.GEQ:
				default:
					return
				}
				if namedKey(t.X.Type()) != "time.Duration" {
					return
				}
				var alts []c19Lin
				for _, l := range c19Cross(x.evalLin(t.X, nil), x.evalLin(t.Y, nil), func(a, b c19Lin) c19Lin { return c19LinAdd(a, b, -1) }) {
					if l.unknown != "" {
						continue
					}
					switch c := l.get("now"); {
					case c.Cmp(minusOne) == 0:
						alts = append(alts, c19LinAdd(l, c19LinSym("now"), 1))
					case c.Cmp(one) == 0:
						alts = append(alts, c19LinAdd(c19LinSym("now"), l, -1))
					}
				}
				if len(alts) > 0 {
					nC++
					points = append(points, point{fmt.Sprintf("%s clock comparison #%d", x.name(fn), nC), x.pos(in), alts})
				}
			case *ssa.Call:
				obj := calleeObj(t)
				if obj == nil || obj.Pkg() == nil {
					return
				}
				path, name := obj.Pkg().Path(), obj.Name()
				static := staticCallee(t)
				if path == "time" && static != nil && static.Signature.Recv() == nil {
					switch name {
					case "Now", "After", "Sleep", "NewTimer", "Tick", "NewTicker", "Since", "Until", "AfterFunc":
						realClock = append(realClock, "time."+name+" in "+x.name(fn)+" at "+x.pos(in))
					}
				}
				// comparisons of the clock with a point in time
				if path == "time" && static != nil && static.Signature.Recv() != nil && typeBaseName(static.Signature.Recv().Type()) == "Time" && len(t.Call.Args) == 2 {
					switch name {
					case "Before", "After", "Equal", "Compare":
						a, b := x.evalLin(t.Call.Args[0], nil), x.evalLin(t.Call.Args[1], nil)
						isNow := func(ls []c19Lin) bool {
							if len(ls) == 0 {
								return false
							}
							for _, l := range ls {
								if l.unknown != "" || len(l.coef) != 1 || l.get("now").Cmp(one) != 0 {
									return false
								}
							}
							return true
						}
						switch {
						case isNow(a) && !isNow(b):
							nC++
							points = append(points, point{fmt.Sprintf("%s clock comparison #%d", x.name(fn), nC), x.pos(in), b})
						case isNow(b) && !isNow(a):
							nC++
							points = append(points, point{fmt.Sprintf("%s clock comparison #%d", x.name(fn), nC), x.pos(in), a})
						}
					}
				}
				// waits on the clock: each provably <= 1 minute
				d, ok := c19ClockWait(t)
				if !ok {
					return
				}
				nWake++
				nW++
				if wakePos == "-" {
					wakePos = x.pos(in)
				}
				if !x.atMost(d, nil, minute, 0) {
					// decide between "definitely longer" and "not evaluable"
					definite := false
					var parts []c19SinkVal
					x.durParts(d, nil, 0, &parts)
					for _, pv := range parts {
						if x.atMost(pv.v, pv.fr, minute, 0) {
							continue
						}
						for _, l := range x.evalLin(pv.v, pv.fr) {
							if k, isK := l.isConst(); isK && k > minute {
								definite = true
							}
						}
					}
					if len(parts) == 1 {
						for _, l := range x.evalLin(d, nil) {
							if l.unknown == "" && l.get("now").Sign() != 0 {
								definite = true // an unclamped "time until X"
							}
						}
					}
					if definite {
						wakeWhy = append(wakeWhy, "the wait at "+x.pos(in)+" in "+x.name(fn)+" is not bounded by one minute")
					} else {
						x.undecide("%s: the wait at %s is not provably <= 1 minute (shape not recognised)", x.name(fn), x.pos(in))
					}
				}
				var parts []c19SinkVal
				x.durParts(d, nil, 0, &parts)
				var alts []c19Lin
				for _, pv := range parts {
					for _, l := range x.evalLin(pv.v, pv.fr) {
						if l.unknown != "" {
							continue
						}
						if l.get("now").Cmp(minusOne) == 0 {
							alts = append(alts, c19LinAdd(l, c19LinSym("now"), 1))
						}
					}
				}
				if len(alts) > 0 {
					points = append(points, point{fmt.Sprintf("%s wake-up #%d", x.name(fn), nW), x.pos(in), alts})
				}
			}
		})
	}

	// ---- renewal points
	for _, pt := range points {
		var bad, badCert, und []string
		early := false
		for _, l := range pt.alts {
			v, oc, why := c19ClassifyPoint(l)
			switch v {
			case "bad":
				if oc == "bad" {
					badCert = append(badCert, why)
				} else {
					bad = append(bad, why)
				}
			case "unknown":
				und = append(und, why)
			case "early":
				early = true
			}
		}
		for _, u := range c19Dedup(und) {
			x.undecide("%s at %s: renewal point %s", pt.construct, pt.pos, u)
		}
		r.Check(len(badCert) == 0, "C19.X6-renewal-args", pt.construct, pt.pos,
			"the renewal point is computed from NotBefore and NotAfter of one certificate",
			"the renewal point "+strings.Join(c19Dedup(badCert), "; ")+" — renewal can be requested later than half of the validity (e.g. for back-dated certificates)")
		if len(badCert) == 0 {
			okMsg := "notBefore + (notAfter-notBefore)/2"
			if early {
				okMsg = "at or before half of the validity"
			}
			r.Check(len(bad) == 0, "C19.X5-constants", pt.construct, pt.pos, okMsg, "the renewal point "+strings.Join(c19Dedup(bad), "; "))
		}
	}
	if len(points) == 0 {
		x.undecide("the rotation code neither compares the injected clock with a renewal point nor sleeps towards one: renewal law wiring not recognised")
	}

	// ---- wake-up and clock
	sort.Strings(realClock)
	if nWake == 0 {
		x.undecide("no wait on the injected clock in the code reachable from Run: rotation loop not recognised")
	} else {
		why := strings.Join(c19Dedup(wakeWhy), "; ")
		if len(realClock) > 0 {
			if why != "" {
				why += "; "
			}
			why += "uses the real clock instead of the injected one (" + strings.Join(realClock, ", ") + ")"
		}
		r.Check(len(wakeWhy) == 0 && len(realClock) == 0, "C19.X5-constants", "crypto/spiffe rotation wake-up", wakePos, fmt.Sprintf("%d wait(s) on the injected clock, each provably <= 1 minute", nWake),
			"the rotation loop no longer wakes at least every minute on the injected clock (renewal could be requested later than one minute after half-life): "+why)
	}

	// ---- retry: after a failed fetch the next wait on every path is exactly 10 s
	waits := x.closure(func(fn *ssa.Function) bool {
		found := false
		allInstrs(fn, func(in ssa.Instruction) {
			if c, ok := in.(*ssa.Call); ok {
				if _, ok := c19ClockWait(c); ok {
					found = true
				}
			}
		})
		return found
	})
	nEdges, nNext := 0, 0
	var retryWhy []string
	retryPos := "-"
	for _, fn := range fns {
		var tested []ssa.Value
		for _, ev := range x.fetchErrors(fn) {
			tested = append(tested, ev)
			// the error may travel through a variable cell (named result, captured variable)
			for _, rr := range refs(ev) {
				if st, ok := rr.(*ssa.Store); ok && st.Val == ev {
					if cell, ok := st.Addr.(*ssa.Alloc); ok {
						for _, r2 := range refs(cell) {
							if ld, ok := r2.(*ssa.UnOp); ok && ld.Op == token.MUL && instrDominates(st, ld) {
								tested = append(tested, ld)
							}
						}
					}
				}
			}
		}
		for _, ev := range tested {
			for _, rr := range refs(ev) {
				bo, ok := rr.(*ssa.BinOp)
				if !ok || (bo.Op != token.EQL && bo.Op != token.NEQ) || !(isNilConst(bo.X) || isNilConst(bo.Y)) {
					continue
				}
				for _, r2 := range refs(bo) {
					ifi, ok := r2.(*ssa.If)
					if !ok {
						continue
					}
					blk := ifi.Block()
					succ := blk.Succs[0] // err != nil taken
					if bo.Op == token.EQL {
						succ = blk.Succs[1]
					}
					nEdges++
					// is this the error of a fetch made after readiness (a renewal)?
					late := false
					var fc ssa.Value = ev
					if ex, ok := fc.(*ssa.Extract); ok {
						fc = ex.Tuple
					}
					if call, ok := fc.(*ssa.Call); ok {
						late = x.lateInstr[call] || x.lateFn[call.Parent()]
					}
					for _, nw := range x.nextWaits(succ, blk, waits, ev, late) {
						nNext++
						if retryPos == "-" {
							retryPos = x.pos(nw.at)
						}
						if nw.note != "" {
							retryWhy = append(retryWhy, "after a failed fetch "+nw.note+" (at "+x.pos(nw.at)+")")
							continue
						}
						for _, l := range nw.alts {
							k, isK := l.isConst()
							switch {
							case l.unknown == "min()" || l.unknown == "max()":
								retryWhy = append(retryWhy, "the first wait after a failed fetch (at "+x.pos(nw.at)+") is the clamped "+l.unknown+" of the regular wake-up, not a constant 10 s")
							case l.unknown != "":
								x.undecide("the delay of the wait at %s that follows a failed renewal is not evaluable (%s)", x.pos(nw.at), l.unknown)
							case !isK || k != retry:
								retryWhy = append(retryWhy, "the first wait after a failed fetch (at "+x.pos(nw.at)+") lasts "+l.String()+", not 10 s")
							}
						}
					}
				}
			}
		}
	}
	switch {
	case nNext > 0:
		r.Check(len(retryWhy) == 0, "C19.X5-constants", "crypto/spiffe rotation retry", retryPos, "after a failed renewal the next wait on every path is 10 s", "failed renewals are no longer retried after exactly 10 seconds: "+strings.Join(c19Dedup(retryWhy), "; "))
	case nEdges == 0:
		x.undecide("no test of a fetch error against nil in the rotation code: the 10 s retry is not decided")
	default:
		x.undecide("no clock wait follows the error path of a fetch in its own function (the error is handled elsewhere): the 10 s retry is not decided")
	}
}
