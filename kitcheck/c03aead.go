package main

// C03 — aescbcaead (RFC 7518 §5.2 AES-CBC + HMAC-SHA2 AEAD).
//
// Nothing here is anchored on unexported names. The implementation is found by
// ROLE: the exported constructors are interpreted with a right-sized key, the
// object they return (whatever its type and field names) becomes the receiver,
// and its cipher.AEAD methods are looked up through its dynamic type. The
// RFC 7518 parameters are then checked by BEHAVIOUR (what reaches
// aes.NewCipher / hmac.New / the hash, how many tag bytes are produced and
// compared), not by reading a parameter literal.

import (
	"fmt"
	"strings"

	"golang.org/x/tools/go/ssa"
)

type c03AEADVariant struct {
	ctor                    string
	key, enc, mac, tag, hid int64
	hname                   string
}

// c03HashOfFunc identifies the hash a `func() hash.Hash` value constructs.
func (e *c03Env) hashOfFunc(v c03V) (int64, bool) {
	if v.Fn == nil {
		return 0, false
	}
	n := v.Fn.String()
	switch {
	case strings.HasPrefix(n, "(crypto.Hash).New$bound") && len(v.FV) == 1 && v.FV[0].K == c03Int:
		return v.FV[0].I, true
	case n == "crypto/sha1.New":
		return 3, true
	case n == "crypto/sha256.New224":
		return 4, true
	case n == "crypto/sha256.New":
		return 5, true
	case n == "crypto/sha512.New384":
		return 6, true
	case n == "crypto/sha512.New":
		return 7, true
	}
	if e.p.InModule(v.Fn) && len(v.Fn.Params) == 0 {
		x := newC03Exec(e.p, e.kwScenario(false))
		for _, o := range x.RunWith(v.Fn, nil, v.FV, nil) {
			if o.Panic == "" && len(o.Res) == 1 && strings.HasPrefix(o.Res[0].G, "hash:") {
				var k int64
				fmt.Sscanf(o.Res[0].G, "hash:%d", &k)
				return k, true
			}
		}
	}
	return 0, false
}

func (e *c03Env) checkAEAD() {
	p := e.p
	rel := "crypto/aescbcaead"
	variants := []c03AEADVariant{
		{"NewAESCBC128SHA256", 32, 16, 16, 16, e.hashConst("SHA256"), "SHA-256"},
		{"NewAESCBC192SHA384", 48, 24, 24, 24, e.hashConst("SHA384"), "SHA-384"},
		{"NewAESCBC256SHA512", 64, 32, 32, 32, e.hashConst("SHA512"), "SHA-512"},
	}
	type built struct {
		v                                   c03AEADVariant
		obj                                 c03V
		mem                                 map[ssa.Value]c03V
		open, seal, nonceSize, overheadFunc *ssa.Function
	}
	var objs []built
	und := func(construct, pos, why string) {
		e.r.Undecide("%s %s: %s", c03RAead, construct, why)
		e.r.Trivial(c03RAead, construct, pos, "undecided")
	}

	// constructors: build the object, check the key size contract
	var vKey c03Verdict
	for _, va := range variants {
		fn := p.Func(rel, va.ctor) // exported anchor
		construct := rel + "." + va.ctor + " parameters"
		pos := p.Pos(fn.Pos())
		if len(fn.Params) != 1 {
			undecided("%s.%s no longer takes the key as its only parameter", rel, va.ctor)
		}
		run := e.run(e.kwScenario(false), fn, []c03V{c03SliceV(va.key)}, fmt.Sprintf("%d-byte key", va.key))
		var b *built
		for _, o := range run.outs {
			if c03Success(o) && o.Res[0].Ty != nil {
				b = &built{v: va, obj: o.Res[0], mem: o.Mem}
				break
			}
		}
		if b == nil {
			hasOut := false
			for _, o := range run.outs {
				if c03Success(o) {
					hasOut = true
				}
			}
			if hasOut || run.truncated {
				und(construct, pos, "the object the constructor returns could not be followed (dynamic type unknown)")
			} else {
				e.r.Violation(c03RAead, construct, pos, fmt.Sprintf("the constructor rejects a %d-byte key, the size RFC 7518 prescribes for this algorithm (enc+mac key sizes do not add up)", va.key))
			}
			continue
		}
		for _, m := range []struct {
			name string
			dst  **ssa.Function
		}{{"Open", &b.open}, {"Seal", &b.seal}, {"NonceSize", &b.nonceSize}, {"Overhead", &b.overheadFunc}} {
			f := p.SSA.LookupMethod(b.obj.Ty, nil, m.name)
			if f == nil || len(f.Blocks) == 0 {
				undecided("method %s of the cipher.AEAD implementation returned by %s.%s not found", m.name, rel, va.ctor)
			}
			*m.dst = origin(f)
		}
		objs = append(objs, *b)
		for _, kl := range c03Without([]int64{0, 16, 24, 32, 40, 48, 56, 64, va.key - 1, va.key + 1}, va.key) {
			vKey.merge(e.allRejected(e.run(e.kwScenario(false), fn, []c03V{c03SliceV(kl)}, fmt.Sprintf("%s with a %d-byte key", va.ctor, kl)), ""))
		}
	}
	if len(objs) == 0 {
		return
	}
	e.settle(c03RAead, rel+" constructors wrong key size", p.Pos(objs[0].open.Pos()), vKey, "every constructor returns an error for a key that is not encKey+macKey bytes long", "a constructor accepts a key of the wrong size")

	oargs := func(b built, nonce, ct int64, ad c03V) []c03V {
		return []c03V{b.obj, c03NilV(), c03SliceV(nonce), c03SliceV(ct), ad}
	}
	ad5 := c03SliceV(5)
	oname := rel + " cipher.AEAD.Open"
	sname := rel + " cipher.AEAD.Seal"
	pos := p.Pos(objs[0].open.Pos())

	var vNonce, vBlocks, vShort, vFail, vAcc, vWhole, vSeal, vGet, vMAC c03Verdict
	for _, b := range objs {
		va := b.v
		if len(b.open.Params) != 5 || len(b.seal.Params) != 5 {
			undecided("Open/Seal of the cipher.AEAD implementation no longer have the cipher.AEAD signature")
		}
		sc := func(fail bool) *c03Scenario { s := e.kwScenario(fail); return s }
		for _, nl := range []int64{0, 8, 12, 15, 17, 24} {
			vNonce.merge(e.allRejected(e.runMem(sc(false), b.open, oargs(b, nl, 32+va.tag, ad5), b.mem, fmt.Sprintf("%s, %d-byte nonce, tag over it valid", va.ctor, nl)), ""))
		}
		for _, extra := range []int64{1, 7, 15, 17, 40} {
			vBlocks.merge(e.allRejected(e.runMem(sc(false), b.open, oargs(b, 16, extra+va.tag, ad5), b.mem, fmt.Sprintf("%s, %d ciphertext bytes before the tag, tag valid", va.ctor, extra)), ""))
		}
		for _, ct := range []int64{0, 1, va.tag - 1} {
			vShort.merge(e.allRejected(e.runMem(sc(false), b.open, oargs(b, 16, ct, ad5), b.mem, fmt.Sprintf("%s, %d-byte input", va.ctor, ct)), ""))
		}
		frun := e.runMem(sc(true), b.open, oargs(b, 16, 32+va.tag, ad5), b.mem, va.ctor+", tag mismatch")
		vFail.merge(e.cmpGuard(frun, e.noSuccess(frun)))
		arun := e.runMem(sc(false), b.open, oargs(b, 16, 32+va.tag, ad5), b.mem, va.ctor+", 16-byte nonce, 32+tag bytes")
		vAcc.merge(e.accepted(arun))
		vWhole.merge(e.wholeCompared(arun, va.tag, "authentication tag"))

		for _, pl := range []int64{0, 7, 16, 33} {
			run := e.runMem(sc(false), b.seal, []c03V{b.obj, c03NilV(), c03SliceV(16), c03SliceV(pl), ad5}, b.mem, fmt.Sprintf("%s, %d-byte plaintext", va.ctor, pl))
			w := e.accepted(run)
			for _, o := range run.outs {
				if got, want := c03KnownLen(o.Res0()), pl+16-pl%16+va.tag; c03Success(o) && got >= 0 && got != want && w.bad == "" {
					w.bad = fmt.Sprintf("%s: Seal returns %d bytes, padded ciphertext plus tag is %d", run.desc, got, want)
				}
			}
			vSeal.merge(w)
		}

		// NonceSize / Overhead
		for _, g := range []struct {
			fn   *ssa.Function
			want int64
			what string
		}{{b.nonceSize, 16, "NonceSize()"}, {b.overheadFunc, va.tag, "Overhead()"}} {
			run := e.runMem(sc(false), g.fn, []c03V{b.obj}, b.mem, va.ctor+" "+g.what)
			w := c03Verdict{truncated: run.truncated, n: len(run.outs)}
			for _, o := range run.outs {
				switch {
				case o.Panic != "" || len(o.Res) != 1:
					w.bad = run.desc + ": " + e.describe(o)
				case o.Res[0].K != c03Int:
					w.imprecise = run.desc + ": the returned value is not a constant the interpreter can derive"
				case o.Res[0].I != g.want:
					w.bad = fmt.Sprintf("%s returns %d, must be %d: the callers' nonce and tag guards compare against it, so right-sized nonces/tags would be refused or wrong ones let through", run.desc, o.Res[0].I, g.want)
				}
			}
			vGet.merge(w)
		}

		// RFC 7518 parameters by behaviour + MAC input layout, both directions,
		// for empty, nil and non-empty associated data
		for _, adv := range []struct {
			v    c03V
			n    int64
			what string
		}{{c03SliceV(5), 5, "5 bytes of associated data"}, {c03SliceV(0), 0, "empty associated data"}, {c03NilV(), 0, "nil associated data"}} {
			for _, d := range []struct {
				fn   *ssa.Function
				args []c03V
				dir  string
			}{
				{b.open, oargs(b, 16, 48+va.tag, adv.v), "Open"},
				{b.seal, []c03V{b.obj, c03NilV(), c03SliceV(16), c03SliceV(40), adv.v}, "Seal"},
			} {
				run := e.runMem(sc(false), d.fn, d.args, b.mem, va.ctor+" "+d.dir+", "+adv.what)
				vMAC.merge(e.macVerdict(run, va, adv.n, 48))
			}
		}
	}
	e.settle(c03RAead, oname+" wrong nonce size", pos, vNonce, "a nonce that is not 16 bytes always yields an error", "Open does not return an error for a nonce of the wrong size")
	e.settle(c03RAead, oname+" partial block", pos, vBlocks, "a ciphertext that is not whole blocks always yields an error", "Open does not return an error for a ciphertext that is not a whole number of AES blocks")
	e.settle(c03RAead, oname+" short input", pos, vShort, "an input shorter than the tag yields an error", "Open does not return an error for an input shorter than the tag")
	e.settle(c03RAead, oname+" tag mismatch", pos, vFail, "a tag mismatch never reaches the plaintext return", "Open can return plaintext although the tag comparison reported a mismatch")
	e.settle(c03RAead, oname+" whole tag compared", pos, vWhole, "the accepting path compares tagSize bytes of the received tag with tagSize bytes of the computed one (tag sizes 16, 24, 32)", "Open accepts without comparing the whole tag")
	e.settle(c03RAead, oname+" well-formed input", pos, vAcc, "well-formed input reaches the plaintext return and no panic", "Open rejects or panics on well-formed input")
	e.settle(c03RAead, sname+" well-formed input", p.Pos(objs[0].seal.Pos()), vSeal, "Seal produces padded-ciphertext+tag bytes for every plaintext length without reaching a panicking precondition", "Seal fails on well-formed input")
	e.settle(c03RAead, rel+" cipher.AEAD NonceSize/Overhead", p.Pos(objs[0].nonceSize.Pos()), vGet, "NonceSize() is the AES block size and Overhead() the RFC 7518 tag size", "NonceSize()/Overhead() do not report the RFC 7518 sizes")
	e.settle(c03RAead, rel+" RFC 7518 parameters and MAC input", pos, vMAC, "Seal and Open use an AES key of the RFC 7518 size, HMAC with the RFC 7518 hash and key size, and MAC A || IV || E || AL for empty and non-empty associated data", "the AEAD is not the RFC 7518 construction (ciphertexts/tags do not interoperate, or part of the input is not authenticated)")

	// NOTE only: MAC-then-decrypt order
	{
		b := objs[0]
		run := e.runMem(e.kwScenario(false), b.open, oargs(b, 16, 32+b.v.tag, ad5), b.mem, "order")
		for _, o := range run.outs {
			if !c03Success(o) {
				continue
			}
			eq, dec := -1, -1
			for k, ev := range o.Events {
				if c03Comparators[ev.Name] && eq < 0 {
					eq = k
				}
				if ev.Name == "crypto/cipher.NewCBCDecrypter" && dec < 0 {
					dec = k
				}
			}
			if eq >= 0 && dec >= 0 && dec < eq {
				e.r.Note("aescbcaead Open decrypts before it compares the tag (not required by C03's statement; good practice is MAC-then-decrypt)")
			}
		}
	}
}

// macVerdict examines the success outcomes of one Seal/Open run: which key
// sizes and hash reach the primitives and what is fed to the MAC.
func (e *c03Env) macVerdict(run c03Run, va c03AEADVariant, adLen, ctLen int64) c03Verdict {
	w := c03Verdict{truncated: run.truncated, n: len(run.outs)}
	seen := false
	for _, o := range run.outs {
		if !c03Success(o) {
			continue
		}
		seen = true
		msg := ""
		var segs []int64
		var sum int64
		unknown := false
		al, sawAL := int64(-1), false
		sawAES, sawHMAC := false, false
		for _, ev := range o.Events {
			switch {
			case ev.Name == "crypto/aes.NewCipher" && len(ev.Args) == 1:
				sawAES = true
				if k := c03KnownLen(ev.Args[0]); k < 0 {
					w.imprecise = run.desc + ": length of the AES key unknown to the interpreter"
				} else if k != va.enc && msg == "" {
					msg = fmt.Sprintf("AES is keyed with %d bytes, RFC 7518 requires ENC_KEY_LEN = %d", k, va.enc)
				}
			case ev.Name == "crypto/hmac.New" && len(ev.Args) == 2:
				sawHMAC = true
				if k := c03KnownLen(ev.Args[1]); k < 0 {
					w.imprecise = run.desc + ": length of the MAC key unknown to the interpreter"
				} else if k != va.mac && msg == "" {
					msg = fmt.Sprintf("HMAC is keyed with %d bytes, RFC 7518 requires MAC_KEY_LEN = %d", k, va.mac)
				}
				if h, ok := e.hashOfFunc(ev.Args[0]); !ok {
					w.imprecise = run.desc + ": the hash constructor handed to hmac.New is not recognised"
				} else if h != va.hid && msg == "" {
					msg = fmt.Sprintf("the MAC uses crypto.Hash(%d), RFC 7518 requires HMAC-%s", h, va.hname)
				}
			case (ev.Name == "io.Writer.Write" || ev.Name == "hash.Hash.Write") && len(ev.Args) == 2:
				n := c03KnownLen(ev.Args[1])
				switch {
				case n < 0:
					unknown = true
				case len(ev.Args[1].Segs) > 0: // a buffer assembled by append: its pieces in order
					segs = append(segs, ev.Args[1].Segs...)
					sum += n
				case n > 0: // writing zero bytes does not change the MAC input
					segs = append(segs, n)
					sum += n
				}
			case strings.HasPrefix(ev.Name, "encoding/binary.") && (strings.HasSuffix(ev.Name, "PutUint64") || strings.HasSuffix(ev.Name, "AppendUint64")) && len(ev.Args) == 3 && ev.Args[2].K == c03Int:
				al, sawAL = ev.Args[2].I, true
			}
		}
		var expect []int64
		if adLen > 0 {
			expect = append(expect, adLen)
		}
		expect = append(expect, 16, ctLen, 8)
		wantSum := adLen + 16 + ctLen + 8
		same := len(segs) == len(expect)
		for k := 0; same && k < len(segs); k++ {
			same = segs[k] == expect[k]
		}
		switch {
		case msg != "":
		case !sawAES || !sawHMAC:
			w.imprecise = run.desc + ": the success path does not go through aes.NewCipher and hmac.New (another construction of the primitives is in use)"
		case unknown:
			w.imprecise = run.desc + ": a Write of unknown length; MAC layout not decidable"
		case sum != wantSum:
			msg = fmt.Sprintf("the MAC is fed %d bytes (pieces %v); RFC 7518 §5.2.2.1 always MACs A || IV || E || AL = %d+16+%d+8 = %d bytes — associated data, IV, ciphertext and the 8-byte AL block (all zero for empty associated data) are part of the input on every path", sum, segs, adLen, ctLen, wantSum)
		case !same && len(segs) == len(expect):
			msg = fmt.Sprintf("MAC input is written as pieces of %v bytes; RFC 7518 §5.2.2.1 requires A(%d) || IV(16) || E(%d) || AL(8)", segs, adLen, ctLen)
		case !same:
			w.imprecise = fmt.Sprintf("%s: the MAC input has the right total length but is written in %d pieces (%v); order not decidable", run.desc, len(segs), segs)
		case sawAL && al != 8*adLen, !sawAL && adLen != 0:
			msg = fmt.Sprintf("AL encodes %d, RFC 7518 requires the bit length of the associated data (%d)", al, 8*adLen)
		}
		if msg != "" && w.bad == "" {
			w.bad = run.desc + ": " + msg
		}
	}
	if !seen && w.bad == "" && !run.truncated {
		// reported by the well-formed-input obligations
		w.imprecise = ""
	}
	return w
}
