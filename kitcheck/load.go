package main

import (
	"fmt"
	"go/ast"
	"go/token"
	"go/types"
	"os"
	"sort"
	"strings"

	"golang.org/x/tools/go/packages"
	"golang.org/x/tools/go/ssa"
	"golang.org/x/tools/go/ssa/ssautil"
)

// Prog is one loaded, type-checked and SSA-lowered view of a module.
type Prog struct {
	Dir     string
	Tags    string
	ModPath string // module path prefix of the packages under analysis
	Pkgs    []*packages.Package
	All     map[string]*packages.Package // every package reachable (by path)
	SSA     *ssa.Program
	Fset    *token.FileSet
	Funcs   []*ssa.Function // every source function of the module (incl. closures, inits)
	funcSet map[*ssa.Function]bool
	parent  map[*ssa.Function]*ssa.Function
}

// UndecidedError is returned (or panicked) when the checker cannot decide.
type UndecidedError struct{ Reason string }

func (u *UndecidedError) Error() string { return u.Reason }

func undecided(format string, args ...any) {
	panic(&UndecidedError{Reason: fmt.Sprintf(format, args...)})
}

// Load loads dir/... with the given build tags.
func Load(dir, modPath, tags string, patterns ...string) (*Prog, error) {
	if len(patterns) == 0 {
		patterns = []string{"./..."}
	}
	env := append(os.Environ(), "GOFLAGS=-mod=mod", "GOWORK=off", "GOPROXY=off", "GOSUMDB=off", "GOTOOLCHAIN=local")
	cfg := &packages.Config{
		Mode:  packages.LoadAllSyntax,
		Dir:   dir,
		Env:   env,
		Tests: false,
	}
	if tags != "" {
		cfg.BuildFlags = []string{"-tags=" + tags}
	}
	pkgs, err := packages.Load(cfg, patterns...)
	if err != nil {
		return nil, &UndecidedError{Reason: "load failed: " + err.Error()}
	}
	if len(pkgs) == 0 {
		return nil, &UndecidedError{Reason: "no packages loaded from " + dir}
	}
	all := map[string]*packages.Package{}
	var errs []string
	packages.Visit(pkgs, nil, func(p *packages.Package) {
		all[p.PkgPath] = p
		if strings.HasPrefix(p.PkgPath, modPath) {
			for _, e := range p.Errors {
				errs = append(errs, e.Error())
			}
		}
	})
	if len(errs) > 0 {
		return nil, &UndecidedError{Reason: "type-check errors: " + strings.Join(errs, "; ")}
	}
	prog, _ := ssautil.AllPackages(pkgs, 0)
	prog.Build()
	p := &Prog{Dir: dir, Tags: tags, ModPath: modPath, Pkgs: pkgs, All: all, SSA: prog, Fset: prog.Fset,
		funcSet: map[*ssa.Function]bool{}, parent: map[*ssa.Function]*ssa.Function{}}
	p.enumerate()
	return p, nil
}

func (p *Prog) addFunc(f *ssa.Function) {
	if f == nil || p.funcSet[f] {
		return
	}
	p.funcSet[f] = true
	p.Funcs = append(p.Funcs, f)
	for _, a := range f.AnonFuncs {
		p.parent[a] = f
		p.addFunc(a)
	}
}

// enumerate collects every source function of the module packages from
// syntax (TypesInfo.Defs), not from ssautil.AllFunctions, which omits methods
// of generic types reached only through interfaces.
func (p *Prog) enumerate() {
	for _, pkg := range p.Pkgs {
		if !strings.HasPrefix(pkg.PkgPath, p.ModPath) {
			continue
		}
		var objs []*types.Func
		for _, obj := range pkg.TypesInfo.Defs {
			if fn, ok := obj.(*types.Func); ok {
				objs = append(objs, fn)
			}
		}
		sort.Slice(objs, func(i, j int) bool { return objs[i].Pos() < objs[j].Pos() })
		for _, fn := range objs {
			p.addFunc(p.SSA.FuncValue(fn))
		}
		if sp := p.SSA.Package(pkg.Types); sp != nil {
			if init := sp.Func("init"); init != nil {
				p.addFunc(init)
			}
		}
	}
}

// InModule reports whether fn is one of the module's source functions.
func (p *Prog) InModule(fn *ssa.Function) bool {
	if fn == nil {
		return false
	}
	if o := fn.Origin(); o != nil {
		fn = o
	}
	return p.funcSet[fn]
}

// Pkg returns the module package with path ModPath+"/"+rel (rel "" = root).
func (p *Prog) Pkg(rel string) *packages.Package {
	path := p.ModPath
	if rel != "" {
		path += "/" + rel
	}
	pkg := p.All[path]
	if pkg == nil {
		undecided("anchor package %s no longer resolves", path)
	}
	return pkg
}

// HasPkg reports whether the module package exists.
func (p *Prog) HasPkg(rel string) bool {
	path := p.ModPath
	if rel != "" {
		path += "/" + rel
	}
	return p.All[path] != nil
}

// Func resolves "pkgrel.Name" or "pkgrel.Type.Method" to its SSA function.
func (p *Prog) Func(rel, name string) *ssa.Function {
	f := p.FuncOpt(rel, name)
	if f == nil {
		undecided("anchor function %s.%s no longer resolves", rel, name)
	}
	return f
}

func (p *Prog) FuncOpt(rel, name string) *ssa.Function {
	if !p.HasPkg(rel) {
		return nil
	}
	pkg := p.Pkg(rel)
	parts := strings.Split(name, ".")
	scope := pkg.Types.Scope()
	switch len(parts) {
	case 1:
		if fn, ok := scope.Lookup(parts[0]).(*types.Func); ok {
			return p.SSA.FuncValue(fn)
		}
	case 2:
		tn, ok := scope.Lookup(parts[0]).(*types.TypeName)
		if !ok {
			return nil
		}
		named, ok := tn.Type().(*types.Named)
		if !ok {
			return nil
		}
		for i := 0; i < named.NumMethods(); i++ {
			m := named.Method(i)
			if m.Name() == parts[1] {
				return p.SSA.FuncValue(m)
			}
		}
	}
	return nil
}

// Anon returns the k-th (1-based, "$k") anonymous function nested in fn,
// following the SSA naming (fn$1, fn$1$2...).
func (p *Prog) FuncByFullName(full string) *ssa.Function {
	for _, f := range p.Funcs {
		if FuncName(p, f) == full {
			return f
		}
	}
	return nil
}

// Named resolves a named type of a module package.
func (p *Prog) Named(rel, name string) *types.Named {
	pkg := p.Pkg(rel)
	tn, ok := pkg.Types.Scope().Lookup(name).(*types.TypeName)
	if !ok {
		undecided("anchor type %s.%s no longer resolves", rel, name)
	}
	n, ok := tn.Type().(*types.Named)
	if !ok {
		undecided("anchor type %s.%s is not a named type", rel, name)
	}
	return n
}

// RelPath strips the module prefix from a package path.
func (p *Prog) RelPath(pkgPath string) string {
	if pkgPath == p.ModPath {
		return ""
	}
	return strings.TrimPrefix(pkgPath, p.ModPath+"/")
}

// FuncName gives a stable, position-free name: "rel/pkg.Type.Method$1".
func FuncName(p *Prog, f *ssa.Function) string {
	if f == nil {
		return "<nil>"
	}
	if o := f.Origin(); o != nil {
		f = o
	}
	if par := f.Parent(); par != nil {
		// anonymous: parent name + suffix after the parent's own name
		pn := FuncName(p, par)
		suffix := strings.TrimPrefix(f.Name(), par.Name())
		return pn + suffix
	}
	pkgPath := ""
	if f.Pkg != nil {
		pkgPath = f.Pkg.Pkg.Path()
	} else if f.Object() != nil && f.Object().Pkg() != nil {
		pkgPath = f.Object().Pkg().Path()
	}
	rel := pkgPath
	if p != nil {
		rel = p.RelPath(pkgPath)
	}
	name := f.Name()
	if recv := f.Signature.Recv(); recv != nil {
		name = typeBaseName(recv.Type()) + "." + f.Name()
	}
	if rel == "" {
		return name
	}
	return rel + "." + name
}

func typeBaseName(t types.Type) string {
	t = deref(t)
	if n, ok := t.(*types.Named); ok {
		return n.Obj().Name()
	}
	if a, ok := t.(*types.Alias); ok {
		return a.Obj().Name()
	}
	return t.String()
}

func deref(t types.Type) types.Type {
	for {
		pt, ok := t.Underlying().(*types.Pointer)
		if !ok {
			// unwrap alias
			return types.Unalias(t)
		}
		t = pt.Elem()
	}
}

// Pos renders a position relative to the analysed directory.
func (p *Prog) Pos(pos token.Pos) string {
	if !pos.IsValid() {
		return "-"
	}
	ps := p.Fset.Position(pos)
	fn := strings.TrimPrefix(ps.Filename, p.Dir+"/")
	return fmt.Sprintf("%s:%d", fn, ps.Line)
}

// FileOf returns the syntax file containing pos.
func (p *Prog) FileOf(pkg *packages.Package, pos token.Pos) *ast.File {
	for _, f := range pkg.Syntax {
		if f.Pos() <= pos && pos <= f.End() {
			return f
		}
	}
	return nil
}

// FuncsOfPkg returns module functions whose package is rel.
func (p *Prog) FuncsOfPkg(rel string) []*ssa.Function {
	var out []*ssa.Function
	path := p.ModPath
	if rel != "" {
		path += "/" + rel
	}
	for _, f := range p.Funcs {
		if f.Pkg != nil && f.Pkg.Pkg.Path() == path {
			out = append(out, f)
		}
	}
	return out
}
