package main

// Path explorer used by the C13 rules: a small path-sensitive abstract
// interpreter over go/ssa that treats same-module callees as inlined.
//
// It enumerates the paths of a root function (cycles are cut when a block is
// re-entered with the same abstract state on the same path) and reports every
// executed instruction to the rule's hooks, together with a uint64 abstract
// state the hooks thread along the path. What makes the rules shape
// independent:
//
//   - static calls, immediately invoked closures, calls of function values
//     whose target is known (local closures, bound methods) and the argument of
//     sync.Once.Do are followed as if their body stood at the call site;
//   - deferred calls are executed at rundefers, in LIFO order, exactly those
//     registered on the path;
//   - values are resolved along the path: phis through the edge taken,
//     parameters through the actual arguments, free variables through the
//     closure bindings, results of followed calls through the values returned
//     on the path, local variable cells through the last store. Branches whose
//     condition resolves to a constant are followed in one direction only, so
//     `if !c.acquire(ctx) { return err }` is as precise as the inlined select.
//
// A call that cannot be followed (dynamic target, recursion, depth) is
// reported through Hooks.Unfollowed; the rules then answer UNDECIDED rather
// than VIOLATION when a construct they need was not seen.

import (
	"fmt"
	"go/constant"
	"go/token"
	"go/types"
	"sort"
	"strings"

	"golang.org/x/tools/go/ssa"
)

// C13Hooks are the callbacks of one exploration.
type C13Hooks struct {
	// Instr is called for every executed instruction except phis and control
	// transfers. Deferred calls are reported when they run (as the *ssa.Defer),
	// not when they are registered. Calls are reported before their body is entered.
	Instr func(x *C13Ctx, in ssa.Instruction, st uint64) uint64
	// Branch is called when the path takes the true/false edge of an If.
	Branch func(x *C13Ctx, ifi *ssa.If, taken bool, st uint64) uint64
	// Return is called when the root function returns (after its deferred calls).
	Return func(x *C13Ctx, ret *ssa.Return, results []ssa.Value, st uint64)
	// Unfollowed is called for a call into module code (or a dynamic call)
	// whose body could not be entered.
	Unfollowed func(x *C13Ctx, call ssa.CallInstruction, st uint64)
	// RangeFunc (optional) is called when the path runs a range-over-func loop
	// over a standard iterator (`for v := range maps.Values(m)`): ctor is the
	// call that built the iterator, yield the loop body. The body is then
	// explored zero times and once.
	RangeFunc func(x *C13Ctx, call ssa.CallInstruction, ctor *ssa.Call, yield *ssa.Function, st uint64) uint64
	// Opaque (optional): bodies of these module functions are not entered (the
	// rule models the call itself, e.g. fifo.Mutex.Lock as a lock operation).
	Opaque func(fn *ssa.Function) bool
}

// C13Explorer runs explorations over one program.
type C13Explorer struct {
	P        *Prog
	MaxDepth int
	MaxSteps int

	steps      int
	Incomplete []string // reasons why the enumeration is not exhaustive
	hooks      *C13Hooks
}

// callSites indexes the static call sites (call, go, defer) of every module function.
var c13SitesCache = map[*Prog]map[*ssa.Function][]ssa.CallInstruction{}

func c13CallSites(p *Prog) map[*ssa.Function][]ssa.CallInstruction {
	if idx, ok := c13SitesCache[p]; ok {
		return idx
	}
	idx := map[*ssa.Function][]ssa.CallInstruction{}
	for _, fn := range p.Funcs {
		allInstrs(fn, func(in ssa.Instruction) {
			if ci, ok := in.(ssa.CallInstruction); ok {
				if cal := staticCallee(ci); cal != nil {
					idx[cal] = append(idx[cal], ci)
				}
			}
		})
	}
	c13SitesCache[p] = idx
	return idx
}

// staticArg: the value a parameter of a function that is not being executed
// on the path denotes, when every static call site of the function passes the
// same thing (the same value, or a load of the same struct field).
func (e *C13Explorer) staticArg(p *c13Path, pa *ssa.Parameter, depth int) ssa.Value {
	fn := pa.Parent()
	if fn == nil {
		return nil
	}
	idx := -1
	for i, q := range fn.Params {
		if q == pa {
			idx = i
		}
	}
	sites := c13CallSites(e.P)[origin(fn)]
	if idx < 0 || len(sites) == 0 {
		return nil
	}
	var first ssa.Value
	for _, s := range sites {
		args := s.Common().Args
		if idx >= len(args) {
			return nil
		}
		v := e.resolve(p, args[idx], depth+1)
		if first == nil {
			first = v
			continue
		}
		if first == v {
			continue
		}
		a, _, ok1 := fieldOfValue(c13StripConv(first))
		b, _, ok2 := fieldOfValue(c13StripConv(v))
		if !ok1 || !ok2 || a != b {
			return nil
		}
	}
	return first
}

func NewC13Explorer(p *Prog) *C13Explorer {
	return &C13Explorer{P: p, MaxDepth: 8, MaxSteps: 400000}
}

type c13Frame struct {
	fn       *ssa.Function
	parent   *c13Frame
	call     ssa.CallInstruction
	viaDefer bool
	once     bool
	args     []ssa.Value
	binds    []ssa.Value
	env      map[ssa.Value]ssa.Value
	tuples   map[ssa.Value][]ssa.Value
	defers   []*ssa.Defer
	pending  []*ssa.Defer
	resumeB  *ssa.BasicBlock
	resumeI  int
	prev     *ssa.BasicBlock
	phis     map[int]string // block index -> signature of the values its phis currently have
}

func (f *c13Frame) clone() *c13Frame {
	if f == nil {
		return nil
	}
	g := *f
	g.parent = f.parent.clone()
	g.env = make(map[ssa.Value]ssa.Value, len(f.env))
	for k, v := range f.env {
		g.env[k] = v
	}
	g.tuples = make(map[ssa.Value][]ssa.Value, len(f.tuples))
	for k, v := range f.tuples {
		g.tuples[k] = v
	}
	if f.phis != nil {
		g.phis = make(map[int]string, len(f.phis))
		for k, v := range f.phis {
			g.phis[k] = v
		}
	}
	g.defers = append([]*ssa.Defer(nil), f.defers...)
	g.pending = append([]*ssa.Defer(nil), f.pending...)
	return &g
}

func (f *c13Frame) depth() int {
	n := 0
	for ; f != nil; f = f.parent {
		n++
	}
	return n
}

type c13FieldCell struct {
	base *ssa.Alloc
	idx  int
}

// c13Path is the state of one path under exploration.
type c13Path struct {
	top   *c13Frame
	st    uint64
	cells map[*ssa.Alloc]ssa.Value // last value stored into a local variable cell on this path
	// last value stored into a field of a struct allocated locally (var resp T; resp.err = ...)
	fcells map[c13FieldCell]ssa.Value
	// variable cells allocated on this path (their content is what p.cells says, or the zero value)
	allocd map[*ssa.Alloc]bool
	facts  map[string]ssa.Value // rule-defined facts (cloned with the path)
	// outcomes of tests made on this path: a value compared with nil, a
	// boolean value branched on (so that a second test of the same value, or
	// the classification of a returned value, agrees with the first)
	knownNil  map[ssa.Value]bool
	knownBool map[ssa.Value]bool
	// actuals / bindings of the most recent completed execution of a function
	// on this path: values it returned may still mention its parameters
	retArgs  map[*ssa.Function][]ssa.Value
	retBinds map[*ssa.Function][]ssa.Value
	seen     map[string]bool // (stack, block, state) configurations already on this path
}

func (p *c13Path) clone() *c13Path {
	q := &c13Path{top: p.top.clone(), st: p.st,
		cells: make(map[*ssa.Alloc]ssa.Value, len(p.cells)),
		facts: make(map[string]ssa.Value, len(p.facts)),
		seen:  make(map[string]bool, len(p.seen))}
	for k, v := range p.cells {
		q.cells[k] = v
	}
	q.allocd = make(map[*ssa.Alloc]bool, len(p.allocd))
	for k, v := range p.allocd {
		q.allocd[k] = v
	}
	q.fcells = make(map[c13FieldCell]ssa.Value, len(p.fcells))
	for k, v := range p.fcells {
		q.fcells[k] = v
	}
	for k, v := range p.facts {
		q.facts[k] = v
	}
	for k, v := range p.seen {
		q.seen[k] = v
	}
	q.knownNil = make(map[ssa.Value]bool, len(p.knownNil))
	for k, v := range p.knownNil {
		q.knownNil[k] = v
	}
	q.knownBool = make(map[ssa.Value]bool, len(p.knownBool))
	for k, v := range p.knownBool {
		q.knownBool[k] = v
	}
	q.retArgs = make(map[*ssa.Function][]ssa.Value, len(p.retArgs))
	for k, v := range p.retArgs {
		q.retArgs[k] = v
	}
	q.retBinds = make(map[*ssa.Function][]ssa.Value, len(p.retBinds))
	for k, v := range p.retBinds {
		q.retBinds[k] = v
	}
	return q
}

func (p *c13Path) key(b *ssa.BasicBlock) string {
	var sb strings.Builder
	for f := p.top; f != nil; f = f.parent {
		sb.WriteString(f.fn.String())
		if f != p.top && f.resumeB != nil {
			fmt.Fprintf(&sb, "@%d.%d", f.resumeB.Index, f.resumeI)
		}
		if len(f.phis) > 0 {
			idxs := make([]int, 0, len(f.phis))
			for i := range f.phis {
				idxs = append(idxs, i)
			}
			sort.Ints(idxs)
			for _, i := range idxs {
				fmt.Fprintf(&sb, "~%d%s", i, f.phis[i])
			}
		}
		sb.WriteByte('|')
	}
	fmt.Fprintf(&sb, "#%d/%x", b.Index, p.st)
	// facts take part in the configuration (they are few)
	if len(p.facts) > 0 {
		ks := make([]string, 0, len(p.facts))
		for k, v := range p.facts {
			n := "nil"
			if v != nil {
				n = v.Name()
				if fn := c13ValueParent(v); fn != nil {
					n = fn.Name() + "." + n
				}
			}
			ks = append(ks, k+"="+n)
		}
		sort.Strings(ks)
		sb.WriteString(strings.Join(ks, ","))
	}
	return sb.String()
}

// C13Ctx is what the hooks see of the current path.
type C13Ctx struct {
	X *C13Explorer
	p *c13Path
}

// Resolve follows v to the value it denotes on the current path.
func (x *C13Ctx) Resolve(v ssa.Value) ssa.Value { return x.X.resolve(x.p, v, 0) }

// Fact / SetFact / DelFact: rule-defined per-path facts.
func (x *C13Ctx) Fact(k string) ssa.Value { return x.p.facts[k] }
func (x *C13Ctx) SetFact(k string, v ssa.Value) {
	x.p.facts[k] = v
}
func (x *C13Ctx) DelFact(k string) { delete(x.p.facts, k) }
func (x *C13Ctx) DelFactsWithPrefix(pre string) {
	for k := range x.p.facts {
		if strings.HasPrefix(k, pre) {
			delete(x.p.facts, k)
		}
	}
}

// FuncTarget resolves a function value to the function it denotes on this path.
func (x *C13Ctx) FuncTarget(v ssa.Value) *ssa.Function {
	fn, _ := x.X.funcTarget(x.p, v)
	return fn
}

// HasFact reports whether fact k is set (facts may carry a nil value).
func (x *C13Ctx) HasFact(k string) bool { _, ok := x.p.facts[k]; return ok }

// Fn is the function whose body is currently executing; Root the explored one.
func (x *C13Ctx) Fn() *ssa.Function { return x.p.top.fn }
func (x *C13Ctx) Root() *ssa.Function {
	f := x.p.top
	for f.parent != nil {
		f = f.parent
	}
	return f.fn
}

// InOnce: the current code runs as the argument of a sync.Once.Do.
func (x *C13Ctx) InOnce() bool {
	for f := x.p.top; f != nil; f = f.parent {
		if f.once {
			return true
		}
	}
	return false
}

// OnStack reports whether fn's body is being executed (at any depth).
func (x *C13Ctx) OnStack(fn *ssa.Function) bool {
	for f := x.p.top; f != nil; f = f.parent {
		if f.fn == fn {
			return true
		}
	}
	return false
}

// Executed reports whether the value-defining instruction v was executed on
// this path inside the exploration (as opposed to before it started, e.g. in
// the function that created the explored closure).
func (x *C13Ctx) Executed(v ssa.Value) bool {
	_, ok := x.p.facts["exec:"+c13ValueKey(v)]
	return ok
}
func (x *C13Ctx) MarkExecuted(v ssa.Value) { x.p.facts["exec:"+c13ValueKey(v)] = nil }

func c13ValueKey(v ssa.Value) string {
	if fn := c13ValueParent(v); fn != nil {
		return fn.String() + "." + v.Name()
	}
	return v.Name()
}

func c13ValueParent(v ssa.Value) *ssa.Function {
	switch x := v.(type) {
	case *ssa.Parameter:
		return x.Parent()
	case *ssa.FreeVar:
		return x.Parent()
	case ssa.Instruction:
		return x.Parent()
	}
	return nil
}

// Explore enumerates the paths of root.
func (e *C13Explorer) Explore(root *ssa.Function, entry uint64, h *C13Hooks) {
	e.ExploreBound(root, nil, entry, h)
}

// FuncTargetBinds is FuncTarget plus the resolved closure bindings (for ExploreBound).
func (x *C13Ctx) FuncTargetBinds(v ssa.Value) (*ssa.Function, []ssa.Value) {
	return x.X.funcTarget(x.p, v)
}

// ExploreBound explores a closure / bound method value: binds are the values
// of root's free variables.
func (e *C13Explorer) ExploreBound(root *ssa.Function, binds []ssa.Value, entry uint64, h *C13Hooks) {
	root = origin(root)
	if root == nil || len(root.Blocks) == 0 {
		e.Incomplete = append(e.Incomplete, "function without body")
		return
	}
	e.hooks = h
	p := &c13Path{top: c13NewFrame(root, nil), st: entry, cells: map[*ssa.Alloc]ssa.Value{}, facts: map[string]ssa.Value{}, seen: map[string]bool{},
		knownNil: map[ssa.Value]bool{}, knownBool: map[ssa.Value]bool{}, retArgs: map[*ssa.Function][]ssa.Value{}, retBinds: map[*ssa.Function][]ssa.Value{}}
	p.top.binds = binds
	e.exec(p, root.Blocks[0], 0)
}

func c13NewFrame(fn *ssa.Function, parent *c13Frame) *c13Frame {
	return &c13Frame{fn: fn, parent: parent, env: map[ssa.Value]ssa.Value{}, tuples: map[ssa.Value][]ssa.Value{}}
}

func (e *C13Explorer) incomplete(why string) {
	for _, w := range e.Incomplete {
		if w == why {
			return
		}
	}
	e.Incomplete = append(e.Incomplete, why)
}

func (e *C13Explorer) exec(p *c13Path, b *ssa.BasicBlock, i int) {
	for {
		f := p.top
		if i == 0 {
			phiSig := ""
			if f.prev != nil {
				pi := -1
				for j, pr := range b.Preds {
					if pr == f.prev {
						pi = j
					}
				}
				if pi >= 0 {
					vals := map[ssa.Value]ssa.Value{}
					for _, in := range b.Instrs {
						phi, ok := in.(*ssa.Phi)
						if !ok {
							break
						}
						vals[phi] = e.resolve(p, phi.Edges[pi], 0)
						// the values the phis take are part of the configuration (a loop
						// driven by a variable holding the next step must not be cut)
						phiSig += "," + c13ValueKey(c13StripConv(vals[phi]))
						if c, ok := vals[phi].(*ssa.Const); ok {
							phiSig += "=" + c.String()
						}
					}
					for k, v := range vals {
						f.env[k] = v
					}
				}
			}
			if phiSig != "" {
				// the valuation of the frame's phis is part of the configuration: the
				// blocks of a counted loop's body differ between iterations only by it
				if f.phis == nil {
					f.phis = map[int]string{}
				}
				f.phis[b.Index] = phiSig
			}
			k := p.key(b)
			if p.seen[k] {
				return
			}
			p.seen[k] = true
			for _, in := range b.Instrs {
				if v, ok := in.(ssa.Value); ok {
					if _, isPhi := in.(*ssa.Phi); isPhi {
						continue
					}
					delete(p.knownNil, v)
					delete(p.knownBool, v)
				}
			}
		}
		if i >= len(b.Instrs) {
			return
		}
		e.steps++
		if e.steps > e.MaxSteps {
			e.incomplete("step budget exhausted")
			return
		}
		in := b.Instrs[i]
		x := &C13Ctx{X: e, p: p}
		switch v := in.(type) {
		case *ssa.Phi:
			i++
		case *ssa.Jump:
			f.prev = b
			b, i = b.Succs[0], 0
		case *ssa.If:
			val, known := e.evalBool(p, v.Cond)
			var todo []bool
			for _, br := range []bool{true, false} {
				if !known || val == br {
					// a select case on a nil channel never fires
					if sel, k, ok := C13SelectFired(v, br); ok && isNilConst(c13StripConv(e.resolve(p, sel.States[k].Chan, 0))) {
						continue
					}
					todo = append(todo, br)
				}
			}
			for n, br := range todo {
				q := p
				if n < len(todo)-1 {
					q = p.clone()
				}
				if e.hooks.Branch != nil {
					q.st = e.hooks.Branch(&C13Ctx{X: e, p: q}, v, br, q.st)
				}
				e.learn(q, v.Cond, br)
				e.learnSelect(q, v, br)
				q.top.prev = b
				succ := b.Succs[0]
				if !br {
					succ = b.Succs[1]
				}
				e.exec(q, succ, 0)
			}
			return
		case *ssa.Panic:
			return
		case *ssa.Return:
			res := make([]ssa.Value, len(v.Results))
			for j, r := range v.Results {
				res[j] = e.resolve(p, r, 0)
			}
			if f.parent == nil {
				if e.hooks.Return != nil {
					e.hooks.Return(x, v, res, p.st)
				}
				return
			}
			par := f.parent
			p.top = par
			if f.args != nil {
				p.retArgs[f.fn] = f.args
			}
			if f.binds != nil {
				p.retBinds[f.fn] = f.binds
			}
			if f.viaDefer {
				b, i = e.nextDefer(p)
			} else {
				if cv, ok := f.call.(*ssa.Call); ok {
					if len(res) == 1 {
						par.env[cv] = res[0]
					} else if len(res) > 1 {
						par.tuples[cv] = res
					}
				}
				b, i = par.resumeB, par.resumeI
			}
		case *ssa.Defer:
			f.defers = append(f.defers, v)
			i++
		case *ssa.RunDefers:
			f.pending = f.pending[:0]
			for j := len(f.defers) - 1; j >= 0; j-- {
				f.pending = append(f.pending, f.defers[j])
			}
			f.defers = nil
			f.resumeB, f.resumeI = b, i+1
			b, i = e.nextDefer(p)
		case *ssa.Call:
			if e.hooks.Instr != nil {
				p.st = e.hooks.Instr(x, v, p.st)
			}
			f.resumeB, f.resumeI = b, i+1
			if ctor, yf, ybinds := e.seqCall(p, v); yf != nil && p.top.depth() < e.MaxDepth && e.frameOf(p, yf) == nil {
				// an iterator of the standard library drives the loop body (the yield
				// function): zero iterations, or the body (further iterations repeat it)
				if e.hooks.RangeFunc != nil {
					p.st = e.hooks.RangeFunc(x, v, ctor, yf, p.st)
				}
				q := p.clone()
				e.exec(q, b, i+1)
				nf := c13NewFrame(yf, p.top)
				nf.call, nf.binds = v, ybinds
				p.top = nf
				b, i = yf.Blocks[0], 0
				continue
			}
			if nf := e.enter(p, v, false); nf != nil {
				b, i = nf.fn.Blocks[0], 0
			} else {
				i++
			}
		case *ssa.Store:
			if e.hooks.Instr != nil {
				p.st = e.hooks.Instr(x, v, p.st)
			}
			switch a := e.resolve(p, v.Addr, 0).(type) {
			case *ssa.Alloc:
				p.cells[a] = e.resolve(p, v.Val, 0)
				for k := range p.fcells {
					if k.base == a {
						delete(p.fcells, k) // the whole value was replaced
					}
				}
			case *ssa.FieldAddr:
				if base, ok := e.resolve(p, a.X, 0).(*ssa.Alloc); ok {
					if p.fcells == nil {
						p.fcells = map[c13FieldCell]ssa.Value{}
					}
					p.fcells[c13FieldCell{base, a.Field}] = e.resolve(p, v.Val, 0)
				}
			case *ssa.IndexAddr:
				if base, idx, ok := e.tableSlot(p, a); ok {
					if p.fcells == nil {
						p.fcells = map[c13FieldCell]ssa.Value{}
					}
					p.fcells[c13FieldCell{base, -1 - idx}] = e.resolve(p, v.Val, 0)
				}
			}
			i++
		default:
			if a, ok := in.(*ssa.Alloc); ok {
				if p.allocd == nil {
					p.allocd = map[*ssa.Alloc]bool{}
				}
				p.allocd[a] = true
				delete(p.cells, a)
				for k := range p.fcells {
					if k.base == a {
						delete(p.fcells, k)
					}
				}
			}
			if u, ok := in.(*ssa.UnOp); ok && u.Op == token.MUL {
				// a load denotes what the variable holds now, not after later stores
				delete(f.env, u)
				f.env[u] = e.resolve(p, u, 0)
			}
			if e.hooks.Instr != nil {
				p.st = e.hooks.Instr(x, in, p.st)
			}
			if u, ok := in.(*ssa.UnOp); ok && u.Op == token.ARROW {
				e.noteDone(p, u.X)
			}
			i++
		}
	}
}

// nextDefer runs the pending deferred calls of the top frame; returns where
// execution continues.
func (e *C13Explorer) nextDefer(p *c13Path) (*ssa.BasicBlock, int) {
	f := p.top
	for len(f.pending) > 0 {
		d := f.pending[0]
		f.pending = f.pending[1:]
		if e.hooks.Instr != nil {
			p.st = e.hooks.Instr(&C13Ctx{X: e, p: p}, d, p.st)
		}
		if nf := e.enter(p, d, true); nf != nil {
			return nf.fn.Blocks[0], 0
		}
	}
	return f.resumeB, f.resumeI
}

// enter pushes a frame for the callee of c if its body can be followed.
func (e *C13Explorer) enter(p *c13Path, c ssa.CallInstruction, viaDefer bool) *c13Frame {
	cc := c.Common()
	var target *ssa.Function
	var binds []ssa.Value
	args := cc.Args
	if cc.IsInvoke() {
		// an interface call: followed when the dynamic value is known on the path
		// or when the (module) interface has a single implementation
		recv, m := e.invokeTarget(p, cc)
		if m == nil {
			if e.hooks.Unfollowed != nil && e.moduleIface(cc) {
				e.hooks.Unfollowed(&C13Ctx{X: e, p: p}, c, p.st)
			}
			return nil
		}
		target = m
		args = append([]ssa.Value{recv}, cc.Args...)
	} else {
		if _, ok := cc.Value.(*ssa.Builtin); ok {
			return nil
		}
		target, binds = e.funcTarget(p, cc.Value)
	}
	once := false
	if target != nil && funcIs(c13ObjOf(target), "sync", "Once", "Do") && len(cc.Args) == 2 {
		// once.Do(f): f runs here (at most once over all calls)
		t2, b2 := e.funcTarget(p, cc.Args[1])
		if t2 == nil {
			if e.hooks.Unfollowed != nil {
				e.hooks.Unfollowed(&C13Ctx{X: e, p: p}, c, p.st)
			}
			return nil
		}
		target, binds, args, once = t2, b2, nil, true
	}
	if target == nil {
		if e.hooks.Unfollowed != nil {
			e.hooks.Unfollowed(&C13Ctx{X: e, p: p}, c, p.st)
		}
		return nil
	}
	if e.hooks.Opaque != nil && e.hooks.Opaque(target) {
		return nil
	}
	// bound-method wrappers and thunks (x.M as a value, T.M) only forward to the
	// method: they are entered whatever package the method belongs to, so that
	// the hooks see the real call with its receiver
	wrapper := target.Synthetic != "" && (strings.HasPrefix(target.Synthetic, "bound method wrapper") || strings.HasPrefix(target.Synthetic, "wrapper for") || strings.HasPrefix(target.Synthetic, "thunk for"))
	if len(target.Blocks) == 0 || !(e.P.InModule(target) || wrapper || target.Synthetic != "" && strings.HasPrefix(c13PkgPathOf(target), e.P.ModPath)) {
		return nil // library function: the hooks have seen the call
	}
	for f := p.top; f != nil; f = f.parent {
		if f.fn == target {
			e.incomplete("recursive call of " + target.Name())
			if e.hooks.Unfollowed != nil {
				e.hooks.Unfollowed(&C13Ctx{X: e, p: p}, c, p.st)
			}
			return nil
		}
	}
	if p.top.depth() >= e.MaxDepth {
		e.incomplete("call depth limit at " + target.Name())
		if e.hooks.Unfollowed != nil {
			e.hooks.Unfollowed(&C13Ctx{X: e, p: p}, c, p.st)
		}
		return nil
	}
	nf := c13NewFrame(target, p.top)
	nf.call, nf.viaDefer, nf.once = c, viaDefer, once
	for _, a := range args {
		nf.args = append(nf.args, e.resolve(p, a, 0))
	}
	nf.binds = binds
	p.top = nf
	return nf
}

func c13ObjOf(fn *ssa.Function) *types.Func {
	if fn == nil {
		return nil
	}
	o, _ := fn.Object().(*types.Func)
	return o
}

func c13PkgPathOf(fn *ssa.Function) string {
	if fn.Pkg != nil {
		return fn.Pkg.Pkg.Path()
	}
	if o := fn.Object(); o != nil && o.Pkg() != nil {
		return o.Pkg().Path()
	}
	if fn.Parent() != nil {
		return c13PkgPathOf(fn.Parent())
	}
	// bound-method / thunk wrappers: take the package of the wrapped method
	for _, b := range fn.Blocks {
		for _, in := range b.Instrs {
			if c, ok := in.(ssa.CallInstruction); ok {
				if cal := staticCallee(c); cal != nil && cal != fn {
					return c13PkgPathOf(cal)
				}
			}
		}
	}
	return ""
}

func (e *C13Explorer) moduleIface(cc *ssa.CallCommon) bool {
	return cc.Method != nil && cc.Method.Pkg() != nil && strings.HasPrefix(cc.Method.Pkg().Path(), e.P.ModPath)
}

// funcTarget resolves a function value to the function it denotes on this
// path and the (resolved) closure bindings.
func (e *C13Explorer) funcTarget(p *c13Path, v ssa.Value) (*ssa.Function, []ssa.Value) {
	v = e.resolve(p, v, 0)
	for {
		if ct, ok := v.(*ssa.ChangeType); ok {
			v = e.resolve(p, ct.X, 0)
			continue
		}
		break
	}
	switch t := v.(type) {
	case *ssa.Function:
		return origin(t), nil
	case *ssa.MakeClosure:
		fn, _ := t.Fn.(*ssa.Function)
		if fn == nil {
			return nil, nil
		}
		var binds []ssa.Value
		for _, b := range t.Bindings {
			binds = append(binds, e.resolve(p, b, 0))
		}
		return origin(fn), binds
	}
	return nil, nil
}

// StaticFuncTarget resolves a function value without a path (single-store
// cells, closure bindings).
func (e *C13Explorer) StaticFuncTarget(v ssa.Value) *ssa.Function {
	p := &c13Path{top: nil, cells: map[*ssa.Alloc]ssa.Value{}, facts: map[string]ssa.Value{}, knownNil: map[ssa.Value]bool{}, knownBool: map[ssa.Value]bool{}}
	fn, _ := e.funcTarget(p, v)
	return fn
}

func (e *C13Explorer) frameOf(p *c13Path, fn *ssa.Function) *c13Frame {
	for f := p.top; f != nil; f = f.parent {
		if f.fn == fn {
			return f
		}
	}
	return nil
}

// resolve follows v along the current path.
func (e *C13Explorer) resolve(p *c13Path, v ssa.Value, depth int) ssa.Value {
	if v == nil || depth > 24 {
		return v
	}
	switch t := v.(type) {
	case *ssa.Const, *ssa.Function, *ssa.Global, *ssa.Builtin:
		return v
	case *ssa.Parameter:
		if f := e.frameOf(p, t.Parent()); f != nil && f.args != nil {
			for i, pa := range f.fn.Params {
				if pa == t && i < len(f.args) {
					return f.args[i]
				}
			}
			return v
		}
		if args, ok := p.retArgs[t.Parent()]; ok {
			for i, pa := range t.Parent().Params {
				if pa == t && i < len(args) {
					return args[i]
				}
			}
		}
		if depth < 12 {
			if a := e.staticArg(p, t, depth); a != nil {
				return a
			}
		}
		return v
	case *ssa.FreeVar:
		fn := t.Parent()
		idx := -1
		for i, fv := range fn.FreeVars {
			if fv == t {
				idx = i
			}
		}
		if f := e.frameOf(p, fn); f != nil && f.binds != nil && idx >= 0 && idx < len(f.binds) {
			return f.binds[idx]
		}
		if b, ok := p.retBinds[fn]; ok && idx >= 0 && idx < len(b) {
			return b[idx]
		}
		if b := resolveFreeVar(t); b != nil {
			return e.resolve(p, b, depth+1)
		}
		return v
	case *ssa.Phi:
		if f := e.frameOf(p, t.Parent()); f != nil {
			if r, ok := f.env[t]; ok {
				return r
			}
		}
		// not on the path: all edges agree?
		var first ssa.Value
		for _, ed := range t.Edges {
			r := e.resolve(p, ed, depth+1)
			if first == nil {
				first = r
			} else if first != r {
				return v
			}
		}
		if first != nil {
			return first
		}
		return v
	case *ssa.Call:
		if f := e.frameOf(p, t.Parent()); f != nil {
			if r, ok := f.env[t]; ok {
				return r
			}
		}
		if b, ok := t.Call.Value.(*ssa.Builtin); ok && b.Name() == "len" && len(t.Call.Args) == 1 {
			x := c13StripConv(e.resolve(p, t.Call.Args[0], depth+1))
			if ld, isLd := x.(*ssa.UnOp); isLd && ld.Op == token.MUL {
				if g, isG := ld.X.(*ssa.Global); isG {
					if val := c13OnlyStore(e.P, "g:"+g.String()); val != nil {
						x = c13StripConv(val)
					}
				}
			}
			if sl, ok := x.(*ssa.Slice); ok && sl.Low == nil && sl.High == nil {
				if arr, ok := c13Deref(sl.X.Type()).Underlying().(*types.Array); ok {
					return ssa.NewConst(constant.MakeInt64(arr.Len()), t.Type())
				}
			}
		}
		return v
	case *ssa.Extract:
		if f := e.frameOf(p, t.Parent()); f != nil {
			if tup, ok := f.tuples[t.Tuple]; ok && t.Index < len(tup) {
				return tup[t.Index]
			}
		}
		return v
	case *ssa.ChangeType:
		return v
	case *ssa.BinOp:
		// integer arithmetic on constants (loop counters over literal tables)
		a, ok1 := e.resolve(p, t.X, depth+1).(*ssa.Const)
		b, ok2 := e.resolve(p, t.Y, depth+1).(*ssa.Const)
		if ok1 && ok2 && a.Value != nil && b.Value != nil && a.Value.Kind() == constant.Int && b.Value.Kind() == constant.Int {
			switch t.Op {
			case token.ADD, token.SUB, token.MUL:
				// small values only: a counted loop whose bound is not known must
				// stop producing new configurations
				if r := constant.BinaryOp(a.Value, t.Op, b.Value); constant.Compare(r, token.LEQ, constant.MakeInt64(64)) && constant.Compare(r, token.GEQ, constant.MakeInt64(-64)) {
					return ssa.NewConst(r, t.Type())
				}
			}
		}
		return v
	case *ssa.Field:
		// a field of a struct value copied out of a local struct variable whose
		// fields were assigned on this path (a small struct of function values
		// returned by a helper)
		x := e.resolve(p, t.X, depth+1)
		if ld, ok := x.(*ssa.UnOp); ok && ld.Op == token.MUL {
			if base, ok := e.resolve(p, ld.X, depth+1).(*ssa.Alloc); ok {
				if r, ok := p.fcells[c13FieldCell{base, t.Field}]; ok && r != nil {
					return r
				}
			}
		}
		return v
	case *ssa.UnOp:
		switch t.Op {
		case token.MUL:
			if f := e.frameOf(p, t.Parent()); f != nil {
				if r, ok := f.env[t]; ok {
					return r
				}
			}
			addr := e.resolve(p, t.X, depth+1)
			// a function value kept in a package-level variable or in a struct
			// field that is assigned exactly once in the whole module (a method
			// expression table, a handler installed by the constructor)
			if c13IsFuncType(t.Type()) {
				switch a := addr.(type) {
				case *ssa.Global:
					if val := c13OnlyStore(e.P, "g:"+a.String()); val != nil {
						return e.resolve(p, val, depth+1)
					}
				case *ssa.FieldAddr:
					if id := fieldIDOfAddr(a); id.Type != "" {
						if _, isAlloc := e.resolve(p, a.X, depth+1).(*ssa.Alloc); !isAlloc {
							if val := c13OnlyStore(e.P, "f:"+id.Type+"."+id.Field); val != nil {
								return e.resolve(p, val, depth+1)
							}
						}
					}
				}
			}
			// an element of a literal table at a constant index
			if ia, ok := addr.(*ssa.IndexAddr); ok {
				if r := e.tableElem(p, ia, depth); r != nil {
					return r
				}
			}
			if cell, ok := addr.(*ssa.Alloc); ok {
				if r, ok := p.cells[cell]; ok && r != nil {
					return r
				}
				if p.allocd[cell] && !c13AddrEscapes(cell) {
					// allocated on this path and not stored to yet: the zero value
					if z := c13ZeroConst(c13Deref(cell.Type())); z != nil {
						return z
					}
					return v
				}
				// a cell with a single store in its function
				if only := c13CellSingleStore(cell); only != nil {
					return e.resolve(p, only, depth+1)
				}
			}
			if fa, ok := addr.(*ssa.FieldAddr); ok {
				if base, ok := e.resolve(p, fa.X, depth+1).(*ssa.Alloc); ok {
					if r, ok := p.fcells[c13FieldCell{base, fa.Field}]; ok && r != nil {
						return r
					}
					// zero value of a field: only when the struct was allocated on this
					// path, never assigned as a whole (a by-value parameter or a copy) and
					// its address is not handed to anything that could fill it in
					if _, whole := p.cells[base]; p.allocd[base] && !whole && !c13AddrEscapes(base) {
						if z := c13ZeroConst(t.Type()); z != nil {
							return z
						}
					}
				}
			}
			if addr != t.X {
				// the address came from another frame (a parameter holding &x.f):
				// present the load as a load of that address when possible
				if fa, ok := addr.(*ssa.FieldAddr); ok {
					for _, r := range refs(fa) {
						if ld, ok := r.(*ssa.UnOp); ok && ld.Op == token.MUL && ld.X == fa {
							return ld
						}
					}
				}
			}
			return v
		case token.NOT:
			if b, ok := e.evalBool(p, t); ok {
				return ssa.NewConst(constant.MakeBool(b), types.Typ[types.Bool])
			}
		}
		return v
	}
	return v
}

// c13CellStoredElsewhere: the cell is captured by a closure that stores to it.
func c13CellStoredElsewhere(cell *ssa.Alloc) bool {
	for _, r := range refs(cell) {
		mc, ok := r.(*ssa.MakeClosure)
		if !ok {
			continue
		}
		fn, _ := mc.Fn.(*ssa.Function)
		if fn == nil {
			return true
		}
		for i, b := range mc.Bindings {
			if b != ssa.Value(cell) || i >= len(fn.FreeVars) {
				continue
			}
			if c13FreeVarStored(fn.FreeVars[i], 0) {
				return true
			}
		}
	}
	return false
}

func c13FreeVarStored(fv *ssa.FreeVar, depth int) bool {
	if depth > 4 {
		return true
	}
	for _, r := range refs(fv) {
		switch x := r.(type) {
		case *ssa.Store:
			if x.Addr == ssa.Value(fv) {
				return true
			}
		case *ssa.MakeClosure:
			fn, _ := x.Fn.(*ssa.Function)
			if fn == nil {
				return true
			}
			for i, b := range x.Bindings {
				if b == ssa.Value(fv) && i < len(fn.FreeVars) && c13FreeVarStored(fn.FreeVars[i], depth+1) {
					return true
				}
			}
		}
	}
	return false
}

// learn records what taking the branch br of cond tells about the values tested.
func (e *C13Explorer) learn(p *c13Path, cond ssa.Value, br bool) {
	c, pol := c13StripNot(e.resolve(p, cond, 0), br)
	c, pol = c13StripNot(e.resolve(p, c, 0), pol)
	if _, isConst := c.(*ssa.Const); isConst {
		return
	}
	if bo, ok := c.(*ssa.BinOp); ok {
		if bo.Op != token.EQL && bo.Op != token.NEQ {
			return
		}
		a, b := e.resolve(p, bo.X, 0), e.resolve(p, bo.Y, 0)
		eq := (bo.Op == token.EQL) == pol
		if isNilConst(b) && !isNilConst(a) {
			p.knownNil[a] = eq
		} else if isNilConst(a) && !isNilConst(b) {
			p.knownNil[b] = eq
		}
		return
	}
	p.knownBool[c] = pol
}

// learnSelect: when the case `<-c.Done()` of a select fires, c.Err() is
// non-nil from then on (contract of context.Context).
func (e *C13Explorer) learnSelect(p *c13Path, ifi *ssa.If, br bool) {
	sel, k, ok := C13SelectFired(ifi, br)
	if !ok || sel.States[k].Dir != types.RecvOnly {
		return
	}
	e.noteDone(p, sel.States[k].Chan)
}

func (e *C13Explorer) noteDone(p *c13Path, ch ssa.Value) {
	call, ok := c13StripConv(e.resolve(p, ch, 0)).(*ssa.Call)
	if !ok || !call.Call.IsInvoke() || call.Call.Method == nil || call.Call.Method.Name() != "Done" || namedKey(call.Call.Value.Type()) != "context.Context" {
		return
	}
	p.facts["ctxdone:"+e.objKey(p, call.Call.Value, 0)] = nil
}

// objKey names the object a value denotes so that two loads of the same
// variable / field of the same object get the same name.
func (e *C13Explorer) objKey(p *c13Path, v ssa.Value, depth int) string {
	v = c13StripConv(e.resolve(p, v, 0))
	if depth < 4 {
		if u, ok := v.(*ssa.UnOp); ok && u.Op == token.MUL {
			switch a := e.resolve(p, u.X, 0).(type) {
			case *ssa.FieldAddr:
				return "field:" + fieldIDOfAddr(a).String() + "@" + e.objKey(p, a.X, depth+1)
			case *ssa.Alloc:
				return "cell:" + c13ValueKey(a)
			}
		}
	}
	return c13ValueKey(v)
}

// errAfterDone: v is c.Err() of a context whose Done channel was seen closed on this path.
func (e *C13Explorer) errAfterDone(p *c13Path, v ssa.Value) bool {
	call, ok := v.(*ssa.Call)
	if !ok || !call.Call.IsInvoke() || call.Call.Method == nil || call.Call.Method.Name() != "Err" || namedKey(call.Call.Value.Type()) != "context.Context" {
		return false
	}
	_, done := p.facts["ctxdone:"+e.objKey(p, call.Call.Value, 0)]
	return done
}

// KnownNil reports what earlier tests on this path established about v == nil.
func (x *C13Ctx) KnownNil(v ssa.Value) (isNil, known bool) {
	v = x.Resolve(v)
	if isNilConst(v) {
		return true, true
	}
	if x.X.errAfterDone(x.p, v) {
		return false, true
	}
	r, ok := x.p.knownNil[v]
	return r, ok
}

// evalBool evaluates a condition on the current path.
func (e *C13Explorer) evalBool(p *c13Path, v ssa.Value) (bool, bool) {
	if r, ok := p.knownBool[v]; ok {
		return r, true
	}
	switch t := v.(type) {
	case *ssa.Const:
		if t.Value != nil && t.Value.Kind() == constant.Bool {
			return constant.BoolVal(t.Value), true
		}
		return false, false
	case *ssa.UnOp:
		if t.Op == token.NOT {
			b, ok := e.evalBool(p, t.X)
			return !b, ok
		}
	case *ssa.BinOp:
		if t.Op == token.LSS || t.Op == token.LEQ || t.Op == token.GTR || t.Op == token.GEQ {
			a, ok1 := e.resolve(p, t.X, 0).(*ssa.Const)
			b, ok2 := e.resolve(p, t.Y, 0).(*ssa.Const)
			if ok1 && ok2 && a.Value != nil && b.Value != nil && a.Value.Kind() == constant.Int && b.Value.Kind() == constant.Int {
				return constant.Compare(a.Value, t.Op, b.Value), true
			}
			return false, false
		}
		if t.Op != token.EQL && t.Op != token.NEQ {
			return false, false
		}
		a, b := e.resolve(p, t.X, 0), e.resolve(p, t.Y, 0)
		eq, ok := c13ConstEqual(a, b)
		if !ok {
			if isNilConst(b) {
				eq, ok = p.knownNil[a]
				if !ok && e.errAfterDone(p, a) {
					eq, ok = false, true
				}
			} else if isNilConst(a) {
				eq, ok = p.knownNil[b]
				if !ok && e.errAfterDone(p, b) {
					eq, ok = false, true
				}
			}
		}
		if !ok {
			return false, false
		}
		if t.Op == token.NEQ {
			eq = !eq
		}
		return eq, true
	}
	r := e.resolve(p, v, 0)
	if r != v {
		return e.evalBool(p, r)
	}
	return false, false
}

// c13ConstEqual decides a == b for resolved values when both are constants, or
// one is nil and the other a value that is never nil.
func c13ConstEqual(a, b ssa.Value) (bool, bool) {
	ca, oka := a.(*ssa.Const)
	cb, okb := b.(*ssa.Const)
	if oka && okb {
		if ca.IsNil() || cb.IsNil() {
			return ca.IsNil() && cb.IsNil(), true
		}
		if ca.Value != nil && cb.Value != nil && ca.Value.Kind() == cb.Value.Kind() {
			return constant.Compare(ca.Value, token.EQL, cb.Value), true
		}
		return false, false
	}
	if oka && ca.IsNil() && c13NeverNil(b) || okb && cb.IsNil() && c13NeverNil(a) {
		return false, true
	}
	return false, false
}

func c13NeverNil(v ssa.Value) bool {
	switch t := v.(type) {
	case *ssa.ChangeType:
		return c13NeverNil(t.X)
	case *ssa.Alloc, *ssa.MakeClosure, *ssa.MakeChan, *ssa.MakeMap, *ssa.MakeSlice, *ssa.MakeInterface, *ssa.Function, *ssa.FieldAddr, *ssa.IndexAddr:
		return true
	}
	return false
}

// C13SelectFired: the edge (ifi, taken) is the one on which case k of a select
// fired (the true edge of `index == k`).
func C13SelectFired(ifi *ssa.If, taken bool) (*ssa.Select, int, bool) {
	if !taken {
		return nil, 0, false
	}
	bo, ok := ifi.Cond.(*ssa.BinOp)
	if !ok || bo.Op != token.EQL {
		return nil, 0, false
	}
	ex, ok := bo.X.(*ssa.Extract)
	if !ok || ex.Index != 0 {
		return nil, 0, false
	}
	sel, ok := ex.Tuple.(*ssa.Select)
	if !ok {
		return nil, 0, false
	}
	k, ok := bo.Y.(*ssa.Const)
	if !ok || k.Value == nil {
		return nil, 0, false
	}
	n := int(k.Int64())
	if n < 0 || n >= len(sel.States) {
		return nil, 0, false
	}
	return sel, n, true
}

// c13StripNot returns the value under leading `!` and the polarity.
func c13StripNot(v ssa.Value, branch bool) (ssa.Value, bool) {
	for {
		if u, ok := v.(*ssa.UnOp); ok && u.Op == token.NOT {
			v, branch = u.X, !branch
			continue
		}
		// b == true, b != false, b == false, true == b (switch b { case true: ... })
		if bo, ok := v.(*ssa.BinOp); ok && (bo.Op == token.EQL || bo.Op == token.NEQ) {
			for _, pr := range [][2]ssa.Value{{bo.X, bo.Y}, {bo.Y, bo.X}} {
				k, isK := pr[1].(*ssa.Const)
				if !isK || k.Value == nil || k.Value.Kind() != constant.Bool {
					continue
				}
				if _, alsoK := pr[0].(*ssa.Const); alsoK {
					continue
				}
				same := constant.BoolVal(k.Value) == (bo.Op == token.EQL)
				v = pr[0]
				if !same {
					branch = !branch
				}
				goto again
			}
		}
		return v, branch
	again:
	}
}

func c13StripConv(v ssa.Value) ssa.Value {
	for {
		switch t := v.(type) {
		case *ssa.ChangeType:
			v = t.X
			continue
		case *ssa.MakeInterface:
			v = t.X
			continue
		}
		return v
	}
}

// c13ZeroConst returns the zero value of t as a constant, for the types whose
// zero value the rules reason about (booleans, integers, nil-able references).
func c13ZeroConst(t types.Type) *ssa.Const {
	switch u := t.Underlying().(type) {
	case *types.Basic:
		switch {
		case u.Info()&types.IsBoolean != 0:
			return ssa.NewConst(constant.MakeBool(false), t)
		case u.Info()&types.IsInteger != 0:
			return ssa.NewConst(constant.MakeInt64(0), t)
		}
	case *types.Pointer, *types.Map, *types.Chan, *types.Slice, *types.Signature, *types.Interface:
		return ssa.NewConst(nil, t)
	}
	return nil
}

// c13CellSingleStore: the one value ever stored into a variable cell (ignoring
// the `x = x` self-stores go/ssa emits for named results), or nil.
func c13CellSingleStore(cell *ssa.Alloc) ssa.Value {
	var only ssa.Value
	n := 0
	for _, r := range refs(cell) {
		st, ok := r.(*ssa.Store)
		if !ok || st.Addr != ssa.Value(cell) {
			continue
		}
		if ld, ok := st.Val.(*ssa.UnOp); ok && ld.Op == token.MUL && ld.X == ssa.Value(cell) {
			continue
		}
		n++
		only = st.Val
	}
	if n == 1 && !c13CellStoredElsewhere(cell) {
		return only
	}
	return nil
}

var c13EscapeCache = map[*ssa.Alloc]bool{}

// c13AddrEscapes: the address of the local (or of one of its fields) is used
// other than for loads, stores, field selection and capture by a closure of
// the same function, so something the explorer does not model may assign it.
func c13AddrEscapes(a *ssa.Alloc) bool {
	if r, ok := c13EscapeCache[a]; ok {
		return r
	}
	var esc func(v ssa.Value, depth int) bool
	esc = func(v ssa.Value, depth int) bool {
		if depth > 3 {
			return true
		}
		for _, r := range refs(v) {
			switch u := r.(type) {
			case *ssa.Store:
				if u.Val == v {
					return true // the address itself is stored somewhere
				}
			case *ssa.UnOp, *ssa.DebugRef:
			case *ssa.FieldAddr:
				if esc(u, depth+1) {
					return true
				}
			case *ssa.IndexAddr:
				if esc(u, depth+1) {
					return true
				}
			case *ssa.MakeClosure:
				// captured variable: stores inside the closure go through the explorer
			default:
				return true
			}
		}
		return false
	}
	r := esc(a, 0)
	c13EscapeCache[a] = r
	return r
}

func c13IsFuncType(t types.Type) bool {
	_, ok := t.Underlying().(*types.Signature)
	return ok
}

var c13StoreIdx = map[*Prog]map[string][]ssa.Value{}

// c13OnlyStore: the one value ever stored (anywhere in the module) into the
// package-level variable / struct field named by key, or nil.
func c13OnlyStore(p *Prog, key string) ssa.Value {
	idx, ok := c13StoreIdx[p]
	if !ok {
		idx = map[string][]ssa.Value{}
		for _, fn := range p.Funcs {
			allInstrs(fn, func(in ssa.Instruction) {
				st, ok := in.(*ssa.Store)
				if !ok {
					return
				}
				switch a := st.Addr.(type) {
				case *ssa.Global:
					idx["g:"+a.String()] = append(idx["g:"+a.String()], st.Val)
				case *ssa.FieldAddr:
					if id := fieldIDOfAddr(a); id.Type != "" && c13IsFuncType(c13Deref(a.Type())) {
						k := "f:" + id.Type + "." + id.Field
						idx[k] = append(idx[k], st.Val)
					}
				}
			})
		}
		c13StoreIdx[p] = idx
	}
	if vs := idx[key]; len(vs) == 1 {
		return vs[0]
	}
	return nil
}

// tableSlot: the array backing ia and the constant index, when both are known.
func (e *C13Explorer) tableSlot(p *c13Path, ia *ssa.IndexAddr) (*ssa.Alloc, int, bool) {
	k, ok := e.resolve(p, ia.Index, 0).(*ssa.Const)
	if !ok || k.Value == nil || k.Value.Kind() != constant.Int {
		return nil, 0, false
	}
	base := c13StripConv(e.resolve(p, ia.X, 0))
	if sl, ok := base.(*ssa.Slice); ok && sl.Low == nil && sl.High == nil {
		base = e.resolve(p, sl.X, 0)
	}
	a, ok := base.(*ssa.Alloc)
	if !ok {
		return nil, 0, false
	}
	return a, int(k.Int64()), true
}

// tableElem: the value of element ia of a literal table (array / slice
// literal whose elements are assigned at constant indices).
func (e *C13Explorer) tableElem(p *c13Path, ia *ssa.IndexAddr, depth int) ssa.Value {
	base, idx, ok := e.tableSlot(p, ia)
	if !ok {
		// a package-level array / slice variable initialised by a literal
		k, isK := e.resolve(p, ia.Index, 0).(*ssa.Const)
		if !isK || k.Value == nil || k.Value.Kind() != constant.Int {
			return nil
		}
		x := c13StripConv(e.resolve(p, ia.X, 0))
		if ld, isLd := x.(*ssa.UnOp); isLd && ld.Op == token.MUL {
			if g, isG := ld.X.(*ssa.Global); isG {
				if val := c13OnlyStore(e.P, "g:"+g.String()); val != nil {
					x = c13StripConv(val)
				}
			}
		}
		if sl, isSl := x.(*ssa.Slice); isSl && sl.Low == nil && sl.High == nil {
			x = sl.X
		}
		switch b := x.(type) {
		case *ssa.Alloc:
			base, idx = b, int(k.Int64())
		case *ssa.Global:
			return c13StaticElem(b, int(k.Int64()))
		default:
			return nil
		}
	}
	if r, ok := p.fcells[c13FieldCell{base, -1 - idx}]; ok && r != nil {
		return r
	}
	if !p.allocd[base] {
		if r := c13StaticElem(base, idx); r != nil {
			return e.resolve(p, r, depth+1)
		}
	}
	return nil
}

// c13StaticElem: the single value stored at constant index idx of the array base.
func c13StaticElem(base ssa.Value, idx int) ssa.Value {
	var only ssa.Value
	n := 0
	for _, r := range refs(base) {
		ia, ok := r.(*ssa.IndexAddr)
		if !ok {
			continue
		}
		k, ok := ia.Index.(*ssa.Const)
		if !ok || k.Value == nil || int(k.Int64()) != idx {
			continue
		}
		for _, rr := range refs(ia) {
			if st, ok := rr.(*ssa.Store); ok && st.Addr == ssa.Value(ia) {
				n++
				only = st.Val
			}
		}
	}
	if n == 1 {
		return only
	}
	return nil
}

// invokeTarget resolves an interface method call to the method of the
// concrete value known on the path, or of the single implementation of a
// module interface.
func (e *C13Explorer) invokeTarget(p *c13Path, cc *ssa.CallCommon) (ssa.Value, *ssa.Function) {
	if cc.Method == nil {
		return nil, nil
	}
	v := e.resolve(p, cc.Value, 0)
	for i := 0; i < 4; i++ {
		switch t := v.(type) {
		case *ssa.MakeInterface:
			recv := e.resolve(p, t.X, 0)
			if fn := e.P.SSA.LookupMethod(t.X.Type(), cc.Method.Pkg(), cc.Method.Name()); fn != nil && len(origin(fn).Blocks) > 0 {
				return recv, origin(fn)
			}
			return nil, nil
		case *ssa.ChangeInterface:
			v = e.resolve(p, t.X, 0)
			continue
		case *ssa.UnOp:
			// an interface-typed field assigned once
			if t.Op == token.MUL {
				if fa, ok := e.resolve(p, t.X, 0).(*ssa.FieldAddr); ok {
					if val := c13OnlyIfaceStore(e.P, fieldIDOfAddr(fa)); val != nil {
						v = val
						continue
					}
				}
			}
		}
		break
	}
	if !e.moduleIface(cc) {
		return nil, nil
	}
	// single implementation of an unexported module interface
	iface, _ := cc.Value.Type().Underlying().(*types.Interface)
	if iface == nil {
		return nil, nil
	}
	var impl types.Type
	n := 0
	for _, pkg := range e.P.Pkgs {
		if pkg.Types != cc.Method.Pkg() {
			continue
		}
		sc := pkg.Types.Scope()
		for _, name := range sc.Names() {
			tn, ok := sc.Lookup(name).(*types.TypeName)
			if !ok || tn.IsAlias() {
				continue
			}
			if _, isIface := tn.Type().Underlying().(*types.Interface); isIface {
				continue
			}
			if named, ok := tn.Type().(*types.Named); ok && named.TypeParams().Len() > 0 {
				continue
			}
			for _, cand := range []types.Type{tn.Type(), types.NewPointer(tn.Type())} {
				if types.Implements(cand, iface) {
					impl = cand
					n++
					break
				}
			}
		}
	}
	if n != 1 {
		return nil, nil
	}
	if fn := e.P.SSA.LookupMethod(impl, cc.Method.Pkg(), cc.Method.Name()); fn != nil && len(origin(fn).Blocks) > 0 {
		return v, origin(fn)
	}
	return nil, nil
}

var c13IfaceStoreIdx = map[*Prog]map[FieldID][]ssa.Value{}

// c13OnlyIfaceStore: the single value ever stored into an interface-typed struct field.
func c13OnlyIfaceStore(p *Prog, id FieldID) ssa.Value {
	idx, ok := c13IfaceStoreIdx[p]
	if !ok {
		idx = map[FieldID][]ssa.Value{}
		for _, fn := range p.Funcs {
			allInstrs(fn, func(in ssa.Instruction) {
				if st, ok := in.(*ssa.Store); ok {
					if fa, ok := st.Addr.(*ssa.FieldAddr); ok {
						if _, isI := c13Deref(fa.Type()).Underlying().(*types.Interface); isI {
							f := fieldIDOfAddr(fa)
							idx[f] = append(idx[f], st.Val)
						}
					}
				}
			})
		}
		c13IfaceStoreIdx[p] = idx
	}
	if vs := idx[id]; len(vs) == 1 && id.Type != "" {
		return vs[0]
	}
	return nil
}

// seqCall recognises `seq(yield)` where seq is the iter.Seq / iter.Seq2 built
// by a library function (maps.Values, maps.Keys, maps.All, slices.Values,
// slices.All, slices.Backward, ...) and yield a function value of the module.
func (e *C13Explorer) seqCall(p *c13Path, c *ssa.Call) (*ssa.Call, *ssa.Function, []ssa.Value) {
	cc := c.Common()
	if cc.IsInvoke() || len(cc.Args) != 1 {
		return nil, nil, nil
	}
	ctor, ok := c13StripConv(e.resolve(p, cc.Value, 0)).(*ssa.Call)
	if !ok {
		return nil, nil, nil
	}
	switch namedKey(ctor.Type()) {
	case "iter.Seq", "iter.Seq2":
	default:
		return nil, nil, nil
	}
	cal := staticCallee(ctor)
	if cal == nil || e.P.InModule(cal) {
		return nil, nil, nil // module iterators are followed like any other function
	}
	yf, binds := e.funcTarget(p, cc.Args[0])
	if yf == nil || len(yf.Blocks) == 0 || !e.P.InModule(yf) {
		return nil, nil, nil
	}
	return ctor, yf, binds
}
