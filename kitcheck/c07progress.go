package main

// C07.N6-input-progress — a loop `for len(x) > 0 { ..., x, ... = f(x) }` that
// consumes its input through a module function terminates only if f hands
// back something other than what it was given. A return of f that passes its
// own parameter back unchanged, with every other result nil/zero (so that
// nothing in the loop body can tell the difference and leave), makes the loop
// spin forever on that input.

import (
	"fmt"
	"go/token"

	"golang.org/x/tools/go/ssa"
)

const c07N6p = "C07.N6-input-progress"

func (st *c07State) checkInputProgress() {
	p, r := st.p, st.r
	for _, fn := range st.sc.List {
		name := FuncName(p, fn)
		n := 0
		for _, h := range fn.Blocks {
			if len(h.Instrs) == 0 || len(h.Succs) != 2 || !c07InCycle(h) {
				continue
			}
			ifi, ok := h.Instrs[len(h.Instrs)-1].(*ssa.If)
			if !ok {
				continue
			}
			for _, in := range h.Instrs {
				phi, ok := in.(*ssa.Phi)
				if !ok || !c07IsLenType(phi.Type()) {
					continue
				}
				// the loop test looks at len(phi) (or phi != "")
				if !c07LenTest(ifi.Cond, phi) {
					continue
				}
				// back-edge values that come out of a module call fed with the phi
				seen := map[*ssa.Call]bool{}
				for i, ed := range phi.Edges {
					if !h.Dominates(h.Preds[i]) {
						continue
					}
					ex, ok := ed.(*ssa.Extract)
					var call *ssa.Call
					ri := 0
					if ok {
						call, _ = ex.Tuple.(*ssa.Call)
						ri = ex.Index
					} else if c, ok := ed.(*ssa.Call); ok {
						call = c
					}
					if call == nil || seen[call] {
						continue
					}
					g := st.eng.calleeOf(call)
					if g == nil || !p.InModule(g) || g.Blocks == nil {
						continue
					}
					shift := 0
					if ts := st.eng.fv.callTargets(call); len(ts) == 1 {
						shift = ts[0].Shift
					}
					var par *ssa.Parameter
					for ai, a := range call.Call.Args {
						if c07SameLen(a) == ssa.Value(phi) && ai+shift < len(g.Params) {
							par = g.Params[ai+shift]
						}
					}
					if par == nil {
						continue
					}
					seen[call] = true
					n++
					construct := fmt.Sprintf("%s loop consuming %s through %s", name, st.describeVal(phi.Edges[0], 0), FuncName(p, g))
					if n > 1 {
						construct = fmt.Sprintf("%s #%d", construct, n)
					}
					pos := p.Pos(instrPos(call))
					verdict, msg := st.progressVerdict(fn, h, call, g, par, ri)
					switch verdict {
					case "ok":
						r.OK(c07N6p, construct, pos, msg)
					case "violation":
						r.Violation(c07N6p, construct, pos, msg, "input: a value on which "+FuncName(p, g)+" takes that return (for PEM: a well-formed block of another type)")
					default:
						r.Trivial(c07N6p, construct, pos, "unclassified: "+msg)
						st.unclassified(c07N6p, construct, msg)
					}
				}
			}
		}
	}
}

// c07LenTest: cond compares len(v) with a constant (or v with "").
func c07LenTest(cond ssa.Value, v ssa.Value) bool {
	cmp, ok := decodeCond(cond, true)
	if !ok {
		return false
	}
	for _, side := range []ssa.Value{cmp.X, cmp.Y} {
		if a, ok := c07LenArg(c07Settle(side)); ok && c07SameLen(a) == v {
			return true
		}
		if c07SameLen(side) == v {
			return true
		}
	}
	return false
}

func (st *c07State) progressVerdict(fn *ssa.Function, h *ssa.BasicBlock, call *ssa.Call, g *ssa.Function, par *ssa.Parameter, ri int) (string, string) {
	p := st.p
	var stuck *ssa.Return
	for _, b := range g.Blocks {
		ret, ok := b.Instrs[len(b.Instrs)-1].(*ssa.Return)
		if !ok || ri >= len(ret.Results) {
			continue
		}
		if c07SameLen(ret.Results[ri]) != ssa.Value(par) {
			continue
		}
		// the parameter goes back unchanged; can the loop tell?
		stuck = ret
		break
	}
	if stuck == nil {
		return "ok", "no return of " + FuncName(p, g) + " hands its input back unchanged"
	}
	// every other result of that return must be a nil/zero constant, and every
	// way out of the loop body must be a test `result != nil/zero` of those
	zero := map[int]bool{}
	for i, v := range stuck.Results {
		if i == ri {
			continue
		}
		c, ok := v.(*ssa.Const)
		if !ok {
			return "", "a return hands the input back unchanged together with a result the engine cannot evaluate"
		}
		if c.IsNil() || c.Value == nil {
			zero[i] = true
			continue
		}
		return "", "a return hands the input back unchanged together with a non-zero result the loop may react to"
	}
	region := c07LoopRegion(h, nil)
	for b := range region {
		if b == h || len(b.Succs) != 2 {
			continue
		}
		ifi, ok := b.Instrs[len(b.Instrs)-1].(*ssa.If)
		if !ok {
			continue
		}
		for si, s := range b.Succs {
			if region[s] {
				continue
			}
			// an exit edge: it must be the `!= nil` side of a test of a zero result
			cmp, ok := decodeCond(ifi.Cond, si == 0)
			if !ok {
				return "", "the loop has an exit the engine cannot relate to the results of the call"
			}
			x, y := cmp.X, cmp.Y
			if isNilConst(x) {
				x, y = y, x
			}
			ex, isEx := c07LoadedFrom(x).(*ssa.Extract)
			if !isEx || ex.Tuple != ssa.Value(call) || !zero[ex.Index] || !isNilConst(y) || cmp.Op != token.NEQ {
				return "", "the loop has an exit the engine cannot relate to the results of the call"
			}
		}
	}
	return "violation", fmt.Sprintf("%s can return its input unchanged (return at %s) with every other result nil: the loop in %s that runs while the input is non-empty gets the same input back, no exit of its body is taken, and it spins forever instead of returning",
		FuncName(p, g), p.Pos(instrPos(stuck)), FuncName(p, fn))
}
