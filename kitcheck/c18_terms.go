package main

// C18 helper: symbolic "path terms" for string values, so that file-system
// operations can be compared by the path they act on (not by local names).

import (
	"fmt"
	"go/constant"
	"go/token"
	"go/types"
	"sort"
	"strconv"
	"strings"

	"golang.org/x/tools/go/ssa"
)

// c18T is a small term tree.
//
//	lit    Lit = string constant
//	const  Lit = other constant
//	field  Lit = "pkg.Type.field" (value loaded from that field, any instance)
//	deref  Args[0] = pointer term (string loaded through a pointer)
//	cat    string concatenation, flattened, adjacent literals merged
//	join   filepath.Join, flattened
//	fmt    fmt.Sprintf/Sprint
//	pathfn Lit = Dir|Base|Clean|Abs, Args[0]
//	str    strconv formatting of Args[0]
//	now    time.Now()
//	method Lit = method name, Args[0] = receiver (time.Time chain)
//	fresh  Lit = creator (os.MkdirTemp, rand...)
//	param  Lit = "#i"
//	key/val range key / value of Args[0]
//	phi    Args = sorted alternatives
//	call   Lit = callee, Args
//	unknown Lit = description
type c18T struct {
	Op   string
	Lit  string
	Args []*c18T
}

func (t *c18T) String() string {
	if t == nil {
		return "?"
	}
	switch t.Op {
	case "lit":
		return strconv.Quote(t.Lit)
	case "const":
		return t.Lit
	case "field":
		return "F(" + t.Lit + ")"
	case "deref":
		return "*" + t.Args[0].String()
	case "now":
		return "time.Now()" + t.Lit
	case "method":
		return t.Args[0].String() + "." + t.Lit + "()"
	case "fresh":
		return "fresh<" + t.Lit + ">"
	case "param":
		return "param" + t.Lit
	case "unknown":
		return "?<" + t.Lit + ">"
	}
	var a []string
	for _, x := range t.Args {
		a = append(a, x.String())
	}
	name := t.Op
	if t.Op == "pathfn" || t.Op == "call" {
		name = t.Lit
	}
	return name + "(" + strings.Join(a, ",") + ")"
}

func (t *c18T) walk(f func(*c18T)) {
	if t == nil {
		return
	}
	f(t)
	for _, a := range t.Args {
		a.walk(f)
	}
}

// c18Terms computes terms for the values of one analysis.
type c18Terms struct {
	p     *Prog
	stack map[ssa.Value]bool
	// inlining context (call sites of the in-module helpers being expanded) and
	// the ordinals of the dynamic sources (time.Now, temp names) met so far:
	// two evaluations of time.Now() are two different values, so each source is
	// identified by (chain of call sites, instruction), numbered in order of
	// first encounter (deterministic, position-free).
	ctx []*ssa.Call
	ids map[string]int
	// cur: parameter bindings of the frame whose values are being evaluated (see c18Frame)
	cur   c18Env
	iter  map[*ssa.Phi]int64 // index bindings of the unrolled walks of the current frame
	tag   c18Tag             // the return site the results of an expanded call are read from
	fr    *c18Frame          // the frame being evaluated (nil outside the graph)
	g     *c18Graph
	saved []c18TermCtx
	// subst: construction-time fields of the writer's state, replaced by the
	// term the constructor stored (in terms of the constructor's inputs)
	subst map[string]*c18T
}

type c18TermCtx struct {
	fr   *c18Frame
	cur  c18Env
	ctx  []*ssa.Call
	iter map[*ssa.Phi]int64
	tag  c18Tag
}

// enter/leave: evaluate terms in the context of an expanded frame.
func (tt *c18Terms) enter(fr *c18Frame) {
	tt.saved = append(tt.saved, c18TermCtx{tt.fr, tt.cur, tt.ctx, tt.iter, tt.tag})
	tt.fr = fr
	tt.cur, tt.ctx, tt.iter, tt.tag = fr.env, append([]*ssa.Call{}, fr.chain...), fr.iter, c18Tag{}
}

func (tt *c18Terms) leave() {
	s := tt.saved[len(tt.saved)-1]
	tt.saved = tt.saved[:len(tt.saved)-1]
	tt.fr, tt.cur, tt.ctx, tt.iter, tt.tag = s.fr, s.cur, s.ctx, s.iter, s.tag
}

// enterNode: evaluate terms at a graph node: its frame, and the return site its tag remembers.
func (tt *c18Terms) enterNode(n *c18Node) {
	tt.enter(n.fr)
	tt.tag = n.tag
}

// tagged: v is a result of the expanded call whose return site is remembered: its term at that site.
func (tt *c18Terms) tagged(v ssa.Value, depth int) *c18T {
	if tt.tag.call == nil || tt.tag.ret == nil {
		return nil
	}
	ret := tt.tag.ret.in.(*ssa.Return)
	idx := -1
	switch x := v.(type) {
	case *ssa.Extract:
		if x.Tuple == ssa.Value(tt.tag.call) {
			idx = x.Index
		}
	case *ssa.Call:
		if x == tt.tag.call && len(ret.Results) == 1 {
			idx = 0
		}
	}
	if idx < 0 || idx >= len(ret.Results) {
		return nil
	}
	tt.enterNode(tt.tag.ret)
	defer tt.leave()
	return tt.term(ret.Results[idx], tt.cur, depth+1)
}

func (tt *c18Terms) field(id FieldID) *c18T {
	if s, ok := tt.subst[id.String()]; ok {
		return s
	}
	return &c18T{Op: "field", Lit: id.String()}
}

func newC18Terms(p *Prog) *c18Terms {
	return &c18Terms{p: p, stack: map[ssa.Value]bool{}, ids: map[string]int{}}
}

func (tt *c18Terms) sourceID(c *ssa.Call) string {
	// the source is identified by the chain of call sites that OWN it: the call site whose callee
	// contains the instruction, then the call site whose callee contains that call, … (a value
	// computed in an outer frame and read through a parameter or a captured variable from a deeper
	// frame is still the same evaluation)
	var owners []*ssa.Call
	cur := ssa.Instruction(c)
	limit := len(tt.ctx)
	for {
		k := limit
		for ; k > 0; k-- {
			if f := staticCallee(tt.ctx[k-1]); f != nil && origin(f) == origin(cur.Parent()) {
				break
			}
		}
		if k == 0 {
			break
		}
		owners = append([]*ssa.Call{tt.ctx[k-1]}, owners...)
		cur = tt.ctx[k-1]
		limit = k - 1
	}
	key := ""
	for _, x := range owners {
		key += fmt.Sprintf("%p/", x)
	}
	key += fmt.Sprintf("%p", c)
	if _, ok := tt.ids[key]; !ok {
		tt.ids[key] = len(tt.ids) + 1
	}
	return "#" + strconv.Itoa(tt.ids[key])
}

type c18Env map[*ssa.Parameter]*c18T

func c18Unknown(s string) *c18T { return &c18T{Op: "unknown", Lit: s} }

func (tt *c18Terms) Term(v ssa.Value) *c18T { return tt.term(v, tt.cur, 0) }

func (tt *c18Terms) term(v ssa.Value, env c18Env, depth int) *c18T {
	if v == nil {
		return c18Unknown("nil-value")
	}
	if depth > 12 {
		return c18Unknown("deep")
	}
	if tt.stack[v] {
		return c18Unknown("cycle")
	}
	tt.stack[v] = true
	defer delete(tt.stack, v)
	rec := func(x ssa.Value) *c18T { return tt.term(x, env, depth+1) }
	if tv := tt.tagged(v, depth); tv != nil {
		return tv
	}

	switch x := v.(type) {
	case *ssa.Const:
		if x.Value == nil {
			return &c18T{Op: "const", Lit: "nil"}
		}
		if x.Value.Kind() == constant.String {
			return &c18T{Op: "lit", Lit: constant.StringVal(x.Value)}
		}
		return &c18T{Op: "const", Lit: x.Value.ExactString()}
	case *ssa.Parameter:
		if env != nil {
			if t, ok := env[x]; ok {
				return t
			}
		}
		for i, pa := range x.Parent().Params {
			if pa == x {
				return &c18T{Op: "param", Lit: "#" + strconv.Itoa(i)}
			}
		}
		return c18Unknown("param")
	case *ssa.FreeVar:
		if b := resolveFreeVar(x); b != nil {
			return rec(b)
		}
		return c18Unknown("freevar")
	case *ssa.Field:
		return tt.field(fieldIDOfField(x))
	case *ssa.UnOp:
		if x.Op != token.MUL {
			return c18Unknown("unop " + x.Op.String())
		}
		if tt.g != nil && tt.fr != nil {
			if el, ef := tt.g.literalElem(tt.fr, x); el != nil {
				// element of a literal slice at a known index (unrolled loop, or a constant index)
				if ef == tt.fr {
					return rec(el)
				}
				tt.enter(ef)
				defer tt.leave()
				return tt.term(el, tt.cur, depth+1)
			}
		}
		if m, _, _, ok := c18KeyElement(x); ok {
			// element of a complete walk over the (sorted) keys of m: the key of this iteration
			return &c18T{Op: "key", Args: []*c18T{rec(m)}}
		}
		return tt.load(x.X, env, depth)
	case *ssa.BinOp:
		if x.Op == token.ADD {
			if b, ok := x.Type().Underlying().(*types.Basic); ok && b.Info()&types.IsString != 0 {
				return c18Cat(rec(x.X), rec(x.Y))
			}
		}
		return c18Unknown("binop " + x.Op.String())
	case *ssa.MakeInterface:
		return rec(x.X)
	case *ssa.ChangeType:
		return rec(x.X)
	case *ssa.Convert:
		return rec(x.X)
	case *ssa.Phi:
		var alts []*c18T
		for _, e := range x.Edges {
			alts = append(alts, rec(e))
		}
		return c18Phi(alts)
	case *ssa.Extract:
		switch tup := x.Tuple.(type) {
		case *ssa.Next:
			if rg, ok := tup.Iter.(*ssa.Range); ok {
				op := map[int]string{1: "key", 2: "val"}[x.Index]
				if op != "" {
					return &c18T{Op: op, Args: []*c18T{rec(rg.X)}}
				}
			}
			return c18Unknown("next")
		case *ssa.Call:
			return tt.call(tup, x.Index, env, depth)
		}
		return c18Unknown("extract")
	case *ssa.Call:
		return tt.call(x, 0, env, depth)
	case *ssa.Lookup:
		// m[k] with k the key of the current iteration over the same map = the value of that iteration
		if _, isMap := x.X.Type().Underlying().(*types.Map); isMap && !x.CommaOk {
			m, k := rec(x.X), rec(x.Index)
			if k.Op == "key" && len(k.Args) == 1 && k.Args[0].String() == m.String() {
				return &c18T{Op: "val", Args: []*c18T{m}}
			}
			return &c18T{Op: "call", Lit: "lookup", Args: []*c18T{m, k}}
		}
		return c18Unknown("string index")
	case *ssa.Alloc:
		// address of a cell: describe by content
		return &c18T{Op: "call", Lit: "addr", Args: []*c18T{tt.load(x, env, depth)}}
	}
	return c18Unknown(strings.TrimPrefix(strings.TrimPrefix(typeOfInstr(v), "*ssa."), "ssa."))
}

func typeOfInstr(v ssa.Value) string {
	switch v.(type) {
	case *ssa.Lookup:
		return "map/string index"
	case *ssa.Slice:
		return "slice"
	case *ssa.Global:
		return "global"
	case *ssa.TypeAssert:
		return "type assertion"
	case *ssa.MakeClosure, *ssa.Function:
		return "function value"
	}
	return "value"
}

// load: the value stored at address a.
func (tt *c18Terms) load(a ssa.Value, env c18Env, depth int) *c18T {
	switch x := a.(type) {
	case *ssa.FieldAddr:
		return tt.field(fieldIDOfAddr(x))
	case *ssa.Alloc:
		var alts []*c18T
		for _, r := range refs(x) {
			if st, ok := r.(*ssa.Store); ok && st.Addr == x {
				alts = append(alts, tt.term(st.Val, env, depth+1))
			}
		}
		if len(alts) == 0 {
			return c18Unknown("uninitialised cell")
		}
		return c18Phi(alts)
	case *ssa.FreeVar:
		if b := resolveFreeVar(x); b != nil {
			return tt.load(b, env, depth+1)
		}
	case *ssa.Global:
		return &c18T{Op: "unknown", Lit: "global " + x.Name()}
	case *ssa.UnOp:
		if x.Op == token.MUL {
			return &c18T{Op: "deref", Args: []*c18T{tt.load(x.X, env, depth+1)}}
		}
	case *ssa.Parameter, *ssa.Phi, *ssa.Call, *ssa.Extract:
		return &c18T{Op: "deref", Args: []*c18T{tt.term(a, env, depth+1)}}
	}
	return c18Unknown("load")
}

// c18Varargs decodes the elements of a varargs slice built at the call site.
func c18Varargs(v ssa.Value) ([]ssa.Value, bool) {
	if c, ok := v.(*ssa.Const); ok && c.IsNil() {
		return nil, true
	}
	sl, ok := v.(*ssa.Slice)
	if !ok || sl.Low != nil || sl.High != nil {
		return nil, false
	}
	al, ok := sl.X.(*ssa.Alloc)
	if !ok {
		return nil, false
	}
	arr, ok := al.Type().Underlying().(*types.Pointer).Elem().Underlying().(*types.Array)
	if !ok {
		return nil, false
	}
	out := make([]ssa.Value, arr.Len())
	for _, r := range refs(al) {
		ia, ok := r.(*ssa.IndexAddr)
		if !ok {
			continue
		}
		k, ok := ia.Index.(*ssa.Const)
		if !ok {
			return nil, false
		}
		for _, rr := range refs(ia) {
			if st, ok := rr.(*ssa.Store); ok && st.Addr == ia {
				i := int(k.Int64())
				if i < 0 || i >= len(out) || out[i] != nil {
					return nil, false
				}
				out[i] = st.Val
			}
		}
	}
	for _, o := range out {
		if o == nil {
			return nil, false
		}
	}
	return out, true
}

func (tt *c18Terms) args(call *ssa.Call, env c18Env, depth int) []*c18T {
	var out []*c18T
	sig := call.Call.Signature()
	n := len(call.Call.Args)
	for i, a := range call.Call.Args {
		if sig.Variadic() && i == n-1 {
			if els, ok := c18Varargs(a); ok {
				for _, e := range els {
					out = append(out, tt.term(e, env, depth+1))
				}
				continue
			}
			out = append(out, c18Unknown("variadic"))
			continue
		}
		out = append(out, tt.term(a, env, depth+1))
	}
	return out
}

func (tt *c18Terms) call(c *ssa.Call, idx int, env c18Env, depth int) *c18T {
	obj := calleeObj(c)
	if obj == nil || obj.Pkg() == nil {
		if b := builtinName(c); b != "" {
			return c18Unknown("builtin " + b)
		}
		return c18Unknown("dynamic call")
	}
	pkg, name := obj.Pkg().Path(), obj.Name()
	sig := obj.Type().(*types.Signature)
	isMethod := sig.Recv() != nil
	full := pkg + "." + name
	if isMethod {
		full = pkg + "." + typeBaseName(sig.Recv().Type()) + "." + name
	}
	switch {
	case full == "path/filepath.Join" || full == "path.Join":
		var flat []*c18T
		for _, a := range tt.args(c, env, depth) {
			if a.Op == "join" {
				flat = append(flat, a.Args...)
			} else {
				flat = append(flat, a)
			}
		}
		return &c18T{Op: "join", Args: flat}
	case full == "fmt.Sprintf" || full == "fmt.Sprint":
		return &c18T{Op: "fmt", Args: tt.args(c, env, depth)}
	case (pkg == "path/filepath" || pkg == "path") && !isMethod && (name == "Dir" || name == "Base" || name == "Clean" || name == "Abs"):
		if idx != 0 {
			return c18Unknown("error result")
		}
		return &c18T{Op: "pathfn", Lit: name, Args: tt.args(c, env, depth)}
	case full == "time.Now":
		return &c18T{Op: "now", Lit: tt.sourceID(c)}
	case pkg == "time" && isMethod && typeBaseName(sig.Recv().Type()) == "Time":
		if len(c.Call.Args) > 0 {
			return &c18T{Op: "method", Lit: name, Args: []*c18T{tt.term(c.Call.Args[0], env, depth+1)}}
		}
	case pkg == "strconv" && (name == "Itoa" || name == "FormatInt" || name == "FormatUint"):
		a := tt.args(c, env, depth)
		return &c18T{Op: "str", Args: a[:1]}
	case full == "os.MkdirTemp" || full == "os.CreateTemp" || full == "io/ioutil.TempDir":
		if idx == 0 {
			return &c18T{Op: "fresh", Lit: full + tt.sourceID(c)}
		}
	case pkg == "math/rand" || pkg == "math/rand/v2" || pkg == "crypto/rand" || strings.HasSuffix(pkg, "/uuid"):
		return &c18T{Op: "fresh", Lit: full + tt.sourceID(c)}
	}
	// in-module pure helper: substitute
	if fn := staticCallee(c); fn != nil && tt.p.InModule(fn) && len(fn.Blocks) > 0 && depth < 8 {
		nenv := c18Env{}
		for k, v := range env {
			nenv[k] = v
		}
		for i, pa := range fn.Params {
			if i < len(c.Call.Args) {
				nenv[pa] = tt.term(c.Call.Args[i], env, depth+1)
			}
		}
		var alts []*c18T
		tt.ctx = append(tt.ctx, c)
		var all, okOnly []*c18T
		allInstrs(fn, func(in ssa.Instruction) {
			if ret, ok := in.(*ssa.Return); ok && idx < len(ret.Results) {
				tv := tt.term(ret.Results[idx], nenv, depth+1)
				all = append(all, tv)
				// (value, error) results: the value of a return that yields a non-nil error is not
				// what callers use (they test the error first)
				n := len(ret.Results)
				if idx < n-1 && c18IsErrorType(ret.Results[n-1]) && c18ReturnErrKind(ret, nil) == "nonnil" {
					return
				}
				okOnly = append(okOnly, tv)
			}
		})
		alts = all
		if len(okOnly) > 0 {
			alts = okOnly
		}
		tt.ctx = tt.ctx[:len(tt.ctx)-1]
		if len(alts) > 0 {
			return c18Phi(alts)
		}
	}
	return &c18T{Op: "call", Lit: full, Args: tt.args(c, env, depth)}
}

func c18Cat(a, b *c18T) *c18T {
	var flat []*c18T
	for _, x := range []*c18T{a, b} {
		if x.Op == "cat" {
			flat = append(flat, x.Args...)
		} else {
			flat = append(flat, x)
		}
	}
	var out []*c18T
	for _, x := range flat {
		if n := len(out); n > 0 && out[n-1].Op == "lit" && x.Op == "lit" {
			out[n-1] = &c18T{Op: "lit", Lit: out[n-1].Lit + x.Lit}
			continue
		}
		out = append(out, x)
	}
	if len(out) == 1 {
		return out[0]
	}
	// a + "/" + b  (string(filepath.Separator) is the constant "/")  ==  filepath.Join(a, b) for clean operands
	var segs [][]*c18T
	cur := []*c18T{}
	sep := false
	for _, x := range out {
		if x.Op == "lit" && strings.Contains(x.Lit, "/") {
			parts := strings.Split(x.Lit, "/")
			for i, part := range parts {
				if i > 0 {
					segs = append(segs, cur)
					cur = []*c18T{}
					sep = true
				}
				if part != "" {
					cur = append(cur, &c18T{Op: "lit", Lit: part})
				}
			}
			continue
		}
		cur = append(cur, x)
	}
	segs = append(segs, cur)
	for _, s := range segs {
		if len(s) == 0 {
			sep = false // leading/trailing/double separator: leave the concatenation as it is (an outer + may complete it)
		}
	}
	if sep {
		j := &c18T{Op: "join"}
		for _, s := range segs {
			switch len(s) {
			case 0:
			case 1:
				if s[0].Op == "join" {
					j.Args = append(j.Args, s[0].Args...)
				} else {
					j.Args = append(j.Args, s[0])
				}
			default:
				j.Args = append(j.Args, &c18T{Op: "cat", Args: s})
			}
		}
		if len(j.Args) == 1 {
			return j.Args[0]
		}
		return j
	}
	return &c18T{Op: "cat", Args: out}
}

func c18Phi(alts []*c18T) *c18T {
	seen := map[string]*c18T{}
	var keys []string
	for _, a := range alts {
		if a.Op == "phi" {
			for _, b := range a.Args {
				if _, ok := seen[b.String()]; !ok {
					seen[b.String()] = b
					keys = append(keys, b.String())
				}
			}
			continue
		}
		if _, ok := seen[a.String()]; !ok {
			seen[a.String()] = a
			keys = append(keys, a.String())
		}
	}
	sort.Strings(keys)
	if len(keys) == 1 {
		return seen[keys[0]]
	}
	t := &c18T{Op: "phi"}
	for _, k := range keys {
		t.Args = append(t.Args, seen[k])
	}
	return t
}

// Classification of a term with respect to "is it the same on every call".
const (
	c18Invariant = iota // only constants and construction-time fields
	c18Fresh            // contains a per-call unique component
	c18Varying          // depends on inputs / unknowns
)

// c18Classify: frozen = fields that are written only by the constructor.
func c18Classify(t *c18T, frozen map[string]bool) int {
	fresh, varying := false, false
	t.walk(func(x *c18T) {
		switch x.Op {
		case "now", "fresh":
			fresh = true
		case "field":
			if !frozen[x.Lit] {
				varying = true
			}
		case "unknown", "param", "key", "val", "call", "deref", "phi":
			varying = true
		}
	})
	switch {
	case fresh:
		return c18Fresh
	case varying:
		return c18Varying
	}
	return c18Invariant
}

// c18TimeMethods returns, for every time.Now() chain in t, the method names applied.
func c18TimeMethods(t *c18T) [][]string {
	var out [][]string
	var rec func(x *c18T) []string
	rec = func(x *c18T) []string {
		if x.Op == "now" {
			return []string{}
		}
		if x.Op == "method" {
			if ch := rec(x.Args[0]); ch != nil {
				return append(ch, x.Lit)
			}
		}
		return nil
	}
	var visit func(x *c18T, top bool)
	visit = func(x *c18T, top bool) {
		if x.Op == "method" || x.Op == "now" {
			if ch := rec(x); ch != nil {
				out = append(out, ch)
				return
			}
		}
		for _, a := range x.Args {
			visit(a, false)
		}
	}
	visit(t, true)
	return out
}
