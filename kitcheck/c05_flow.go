package main

// c05Flow: a small interprocedural powerset dataflow over the functions of
// one package, path-sensitive on up to two tracked boolean SSA values per
// function (a load of a flag, or the boolean result of a same-package helper).
//
// A state is (g, l): g < G is the rule's "global" abstract state, carried
// across calls (callee summaries are relations entry g -> exit g, return
// truth); l is the truth (unknown/true/false) of the function's tracked
// booleans. A branch on a tracked boolean prunes the states that disagree, so
//
//	was := c.running; if !was { c.running = true }; unlock; if was { return }; start()
//
// reaches start() only with the states that went through the store.
// Entry states of a function are the union over its static call sites
// (context-insensitive) and over the roots given to Run.

import (
	"go/constant"
	"go/token"
	"go/types"

	"golang.org/x/tools/go/ssa"
)

const c05L = 9 // 3^2 local truth assignments

type c05Exit struct{ g, rt int }

type c05Flow struct {
	a *c05
	G int
	// Step: effect of an instruction on g. For calls to same-package functions
	// the summary is applied unless Step returns handled=true.
	Step func(in ssa.Instruction, g int) (g2 int, handled bool)
	// Cond: a tracked boolean v was observed with truth tv on a branch of ifi.
	Cond func(at ssa.Instruction, v ssa.Value, tv bool, g int) int
	// Tracked: is v (a load or a call result of type bool) worth tracking?
	Tracked func(v ssa.Value) bool
	// Exit: rewrite g at the returns of fn (optional).
	Exit func(fn *ssa.Function, g int) int
	// GoEntry: state handed to the goroutine started by g (ok=false: start from Fresh).
	GoEntry func(goi *ssa.Go, g int) (int, bool)
	// Fresh: entry state of goroutines / address-taken functions.
	Fresh int
	// NoDefaultRoots: only the roots given to Run start the propagation.
	NoDefaultRoots bool

	funcs   map[*ssa.Function]bool
	sum     map[*ssa.Function]map[int][]c05Exit
	active  map[*ssa.Function]map[int]bool
	entry   map[*ssa.Function]uint64
	at      map[ssa.Instruction]uint64
	atRepl  map[ssa.Instruction]uint64 // state when a deferred call is replayed
	tracked map[*ssa.Function][]ssa.Value
	// Imprecise: functions with more tracked booleans than the engine can follow.
	Imprecise map[*ssa.Function]bool
}

func (f *c05Flow) init() {
	if f.funcs != nil {
		return
	}
	f.funcs = map[*ssa.Function]bool{}
	for _, fn := range f.a.funcs {
		f.funcs[fn] = true
	}
	f.sum = map[*ssa.Function]map[int][]c05Exit{}
	f.active = map[*ssa.Function]map[int]bool{}
	f.entry = map[*ssa.Function]uint64{}
	f.at = map[ssa.Instruction]uint64{}
	f.atRepl = map[ssa.Instruction]uint64{}
	f.tracked = map[*ssa.Function][]ssa.Value{}
	f.Imprecise = map[*ssa.Function]bool{}
}

// condValue strips !, == true/false and returns the underlying value and polarity.
func c05CondValue(cond ssa.Value) (ssa.Value, bool) {
	pol := true
	for i := 0; i < 8; i++ {
		switch x := cond.(type) {
		case *ssa.UnOp:
			if x.Op == token.NOT {
				cond, pol = x.X, !pol
				continue
			}
		case *ssa.BinOp:
			if x.Op == token.EQL || x.Op == token.NEQ {
				v, k := x.X, x.Y
				if _, isC := v.(*ssa.Const); isC {
					v, k = k, v
				}
				if kc, ok := k.(*ssa.Const); ok && kc.Value != nil && kc.Value.Kind() == constant.Bool {
					same := constant.BoolVal(kc.Value)
					if x.Op == token.NEQ {
						same = !same
					}
					if !same {
						pol = !pol
					}
					cond = v
					continue
				}
			}
		}
		break
	}
	return cond, pol
}

func (f *c05Flow) trackedOf(fn *ssa.Function) []ssa.Value {
	if t, ok := f.tracked[fn]; ok {
		return t
	}
	var out []ssa.Value
	seen := map[ssa.Value]bool{}
	// only booleans that actually decide a branch or are returned
	consider := func(v ssa.Value) {
		v, _ = c05CondValue(v)
		if seen[v] || f.Tracked == nil || !f.Tracked(v) {
			return
		}
		seen[v] = true
		out = append(out, v)
	}
	allInstrs(fn, func(in ssa.Instruction) {
		switch x := in.(type) {
		case *ssa.If:
			consider(x.Cond)
		case *ssa.Return:
			if len(x.Results) == 1 {
				if b, ok := x.Results[0].Type().Underlying().(*types.Basic); ok && b.Kind() == types.Bool {
					consider(c05ResolveLocal(x.Results[0]))
				}
			}
		}
	})
	if len(out) > 2 {
		f.Imprecise[fn] = true
		out = out[:2]
	}
	f.tracked[fn] = out
	return out
}

func c05Digit(l, k int) int {
	if k == 0 {
		return l % 3
	}
	return (l / 3) % 3
}

func c05SetDigit(l, k, d int) int {
	if k == 0 {
		return l - l%3 + d
	}
	return l%3 + 3*d
}

// runFn runs the intraprocedural flow of fn from the given entry global states.
// record: store per-instruction states and propagate entries to callees.
func (f *c05Flow) runFn(fn *ssa.Function, entryG uint64, record bool, contrib func(h *ssa.Function, g int)) []c05Exit {
	tr := f.trackedOf(fn)
	idx := func(v ssa.Value) int {
		for i, t := range tr {
			if t == v {
				return i
			}
		}
		return -1
	}
	var entry uint64
	for g := 0; g < f.G; g++ {
		if entryG&(1<<uint(g)) != 0 {
			entry |= 1 << uint(g*c05L)
		}
	}
	var ff *FlagFlow
	ff = &FlagFlow{Fn: fn, Must: false, Entry: entry,
		Transfer: func(in ssa.Instruction, st uint64) uint64 {
			if _, isDefer := in.(*ssa.Defer); isDefer && !ff.Replaying {
				return st
			}
			if record && ff.Replaying {
				f.atRepl[in] |= st
			}
			var out uint64
			k := -1
			if v, ok := in.(ssa.Value); ok {
				k = idx(v)
			}
			for s := 0; s < f.G*c05L; s++ {
				if st&(1<<uint(s)) == 0 {
					continue
				}
				g, l := s/c05L, s%c05L
				if k >= 0 {
					l = c05SetDigit(l, k, 0)
				}
				g2, handled := g, false
				if f.Step != nil {
					g2, handled = f.Step(in, g)
				}
				ci, isCall := in.(ssa.CallInstruction)
				if isCall && !handled {
					h := staticCallee(ci)
					// callbacks handed to synchronous higher-order library functions
					// (sort.Slice, slices.SortFunc, ...) run during the call, in this state
					if cbs := f.a.syncCallbacks(ci); len(cbs) > 0 {
						acc := uint64(1) << uint(g2*c05L+l)
						for _, cb := range cbs {
							if contrib != nil {
								contrib(cb, g2)
							}
							for _, ex := range f.summary(cb, g2) {
								acc |= 1 << uint(ex.g*c05L+l)
							}
						}
						out |= acc
						continue
					}
					if goi, isGo := in.(*ssa.Go); isGo {
						if h != nil && f.funcs[h] && contrib != nil {
							ge, ok := f.Fresh, false
							if f.GoEntry != nil {
								ge, ok = f.GoEntry(goi, g)
							}
							if !ok {
								ge = f.Fresh
							}
							contrib(h, ge)
						}
						out |= 1 << uint(g2*c05L+l)
						continue
					}
					if h != nil && f.funcs[h] {
						if contrib != nil {
							contrib(h, g2)
						}
						for _, ex := range f.summary(h, g2) {
							l2 := l
							if k >= 0 && ex.rt != 0 {
								l2 = c05SetDigit(l2, k, ex.rt)
							}
							out |= 1 << uint(ex.g*c05L+l2)
						}
						continue
					}
				}
				out |= 1 << uint(g2*c05L+l)
			}
			return out
		},
		EdgeTransfer: func(from, to *ssa.BasicBlock, st uint64) uint64 {
			if len(from.Instrs) == 0 || len(from.Succs) != 2 || from.Succs[0] == from.Succs[1] {
				return st
			}
			ifi, ok := from.Instrs[len(from.Instrs)-1].(*ssa.If)
			if !ok {
				return st
			}
			v, pol := c05CondValue(ifi.Cond)
			k := idx(v)
			if k < 0 {
				return st
			}
			tv := (from.Succs[0] == to) == pol
			want := 2
			if tv {
				want = 1
			}
			var out uint64
			for s := 0; s < f.G*c05L; s++ {
				if st&(1<<uint(s)) == 0 {
					continue
				}
				g, l := s/c05L, s%c05L
				d := c05Digit(l, k)
				if d != 0 && d != want {
					continue // infeasible
				}
				l = c05SetDigit(l, k, want)
				if f.Cond != nil {
					g = f.Cond(ifi, v, tv, g)
				}
				out |= 1 << uint(g*c05L+l)
			}
			return out
		}}
	ff.Run()
	if record {
		allInstrs(fn, func(in ssa.Instruction) {
			if st, ok := ff.Before(in); ok {
				f.at[in] |= st
			}
		})
	}
	var exits []c05Exit
	seen := map[c05Exit]bool{}
	ff.AtReturns(func(ret *ssa.Return, st uint64) {
		for s := 0; s < f.G*c05L; s++ {
			if st&(1<<uint(s)) == 0 {
				continue
			}
			g, l := s/c05L, s%c05L
			emit := func(g, rt int) {
				if f.Exit != nil {
					g = f.Exit(fn, g)
				}
				ex := c05Exit{g, rt}
				if !seen[ex] {
					seen[ex] = true
					exits = append(exits, ex)
				}
			}
			if len(ret.Results) == 1 {
				v, pol := c05CondValue(c05ResolveLocal(ret.Results[0]))
				if kc, ok := v.(*ssa.Const); ok && kc.Value != nil && kc.Value.Kind() == constant.Bool {
					if constant.BoolVal(kc.Value) == pol {
						emit(g, 1)
					} else {
						emit(g, 2)
					}
					continue
				}
				if k := idx(v); k >= 0 {
					d := c05Digit(l, k)
					truths := []int{d}
					if d == 0 {
						truths = []int{1, 2} // returned flag not yet tested: both outcomes, each with its consequence
					}
					for _, t := range truths {
						g2 := g
						if d == 0 && f.Cond != nil {
							g2 = f.Cond(ret, v, t == 1, g)
						}
						rt := t
						if !pol {
							rt = 3 - t
						}
						emit(g2, rt)
					}
					continue
				}
			}
			emit(g, 0)
		}
	})
	return exits
}

// summary: exits of h when entered in global state g.
func (f *c05Flow) summary(h *ssa.Function, g int) []c05Exit {
	if m := f.sum[h]; m != nil {
		if ex, ok := m[g]; ok {
			return ex
		}
	}
	if f.active[h] == nil {
		f.active[h] = map[int]bool{}
	}
	if f.active[h][g] || len(h.Blocks) == 0 {
		return []c05Exit{{g, 0}} // recursion / no body: identity
	}
	f.active[h][g] = true
	ex := f.runFn(h, 1<<uint(g), false, nil)
	delete(f.active[h], g)
	if f.sum[h] == nil {
		f.sum[h] = map[int][]c05Exit{}
	}
	f.sum[h][g] = ex
	return ex
}

// Run propagates entry states from the roots (exported functions, goroutine
// bodies, address-taken functions start in Fresh unless given) to every function.
func (f *c05Flow) Run(roots map[*ssa.Function]int) {
	f.init()
	var work []*ssa.Function
	add := func(h *ssa.Function, g int) {
		if f.entry[h]&(1<<uint(g)) == 0 {
			f.entry[h] |= 1 << uint(g)
			work = append(work, h)
		}
	}
	for fn, g := range roots {
		add(fn, g)
	}
	for _, fn := range f.a.funcs {
		if f.NoDefaultRoots {
			break
		}
		if f.a.syncCallbackOnly(fn) {
			continue
		}
		if isExportedFunc(fn) || f.a.addrTaken[fn] || fn.Name() == "init" {
			add(fn, f.Fresh)
		} else if fn.Parent() != nil && len(f.a.sites[fn]) == 0 && !f.a.syncCallbackOnly(fn) {
			add(fn, f.Fresh) // closure used as a value
		}
	}
	for n := 0; len(work) > 0 && n < 10000; n++ {
		fn := work[0]
		work = work[1:]
		// clear what was recorded for fn, then re-run with the full entry set
		allInstrs(fn, func(in ssa.Instruction) { delete(f.at, in); delete(f.atRepl, in) })
		f.runFn(fn, f.entry[fn], true, add)
	}
}

// At: states before instruction in (0 if unreachable from the roots).
func (f *c05Flow) At(in ssa.Instruction) uint64 { return f.at[in] }

// Globals: the set of global states among st.
func (f *c05Flow) Globals(st uint64) []int {
	var out []int
	seen := map[int]bool{}
	for s := 0; s < f.G*c05L; s++ {
		if st&(1<<uint(s)) != 0 && !seen[s/c05L] {
			seen[s/c05L] = true
			out = append(out, s/c05L)
		}
	}
	return out
}

// All: every state before in satisfies pred; reached=false when in is not reached at all.
func (f *c05Flow) All(in ssa.Instruction, pred func(g int) bool) (ok, reached bool) {
	gs := f.Globals(f.at[in])
	if len(gs) == 0 {
		return true, false
	}
	for _, g := range gs {
		if !pred(g) {
			return false, true
		}
	}
	return true, true
}

// EntryGlobals: the global states in which fn is entered.
func (f *c05Flow) EntryGlobals(fn *ssa.Function) []int {
	var out []int
	for g := 0; g < f.G; g++ {
		if f.entry[fn]&(1<<uint(g)) != 0 {
			out = append(out, g)
		}
	}
	return out
}

// c05ResolveLocal: a load of a local cell (named result in a function with
// defer) is replaced by the value last stored into the cell in the same block.
func c05ResolveLocal(v ssa.Value) ssa.Value {
	u, ok := v.(*ssa.UnOp)
	if !ok || u.Op != token.MUL {
		return v
	}
	cell, ok := u.X.(*ssa.Alloc)
	if !ok {
		return v
	}
	b := u.Block()
	for i := instrIndex(u) - 1; i >= 0; i-- {
		if st, ok := b.Instrs[i].(*ssa.Store); ok && st.Addr == ssa.Value(cell) {
			return st.Val
		}
	}
	return v
}
