package main

// c05Flow: an interprocedural powerset dataflow over the functions of one
// package, path-sensitive on a few tracked booleans per function.
//
// A state is (g, l): g < G is the rule's "global" abstract state, carried
// across calls (callee summaries are relations entry g -> exit g, truth of the
// boolean result); l holds the truth (unknown/true/false) of
//
//   - digit 0 (if Cells): one SHARED CELL — a boolean local captured by a
//     closure, through which a callback reports to its caller
//     (`var already bool; c.locked(func(){ if c.running { already = true; return }; ... }); if already { return }`);
//     it is carried into and out of callees that use the same cell;
//   - the function's tracked booleans: loads of a flag, boolean results of
//     same-package helpers (also one component of a result tuple), flag
//     variables (boolean phis, assigned on the incoming edge), nil tests of phis.
//
// A branch on a tracked boolean prunes the states that disagree. Calls are
// followed through static callees, closures bound to parameters (summarised
// per binding), func-typed fields and callbacks of sort/slices. State sets are
// 1024-bit sets with a per-function encoding (only the digits a function
// needs), so G*3^digits <= 1024; at most five tracked facts per function.
// Enum-like variables (an integer phi fed by constants and helper results,
// compared with constants) are tracked as facts "x == K". A branch that depends
// on a helper result and is not interpreted marks the function Imprecise: rules
// then answer UNDECIDED instead of VIOLATION.

import (
	"fmt"
	"go/constant"
	"go/token"
	"go/types"
	"strings"

	"golang.org/x/tools/go/ssa"
)

const c05Cap = 1024

type c05Bits [c05Cap / 64]uint64

func (b c05Bits) has(i int) bool { return b[i/64]&(1<<uint(i%64)) != 0 }
func (b *c05Bits) set(i int)     { b[i/64] |= 1 << uint(i%64) }
func (b c05Bits) isZero() bool {
	for _, w := range b {
		if w != 0 {
			return false
		}
	}
	return true
}
func (b *c05Bits) or(o c05Bits) {
	for i := range b {
		b[i] |= o[i]
	}
}

// c05Exit: one way a function returns: global state, truth of its boolean
// result, shared-cell digit, and the constants it returns ("i=val;" per
// constant result i) so that a caller comparing an enum-like result stays
// correlated with what the helper did.
type c05Exit struct {
	g, rt, cd int
	rc        string
}

type c05Flow struct {
	a *c05
	G int
	// Step: effect of an instruction on g. For calls to same-package functions
	// the summary is applied unless Step returns handled=true.
	Step func(in ssa.Instruction, g int) (g2 int, handled bool)
	// Cond: a tracked boolean v was observed with truth tv at instruction at.
	Cond func(at ssa.Instruction, v ssa.Value, tv bool, g int) int
	// Tracked: is v (a load, a phi, ...) worth tracking? Boolean results of
	// same-package calls are always tracked.
	Tracked func(v ssa.Value) bool
	// Exit: rewrite g at the returns of fn (optional).
	Exit func(fn *ssa.Function, g int) int
	// GoEntry: state handed to the goroutine started by g (ok=false: start from Fresh).
	GoEntry func(goi *ssa.Go, g int) (int, bool)
	// Fresh: entry state of goroutines / address-taken functions.
	Fresh int
	// NoDefaultRoots: only the roots given to Run start the propagation.
	NoDefaultRoots bool
	// K: number of tracked booleans per function (default: as many as fit, <= 3).
	K int
	// Cells: track one shared boolean cell per calling context (digit 0).
	Cells bool
	// EdgeG: effect of taking the CFG edge from->to on g. Optional.
	EdgeG func(from, to *ssa.BasicBlock, g int) int

	funcs   map[*ssa.Function]bool
	sum     map[string][]c05Exit
	active  map[string]bool
	entry   map[*ssa.Function]uint64
	at      map[ssa.Instruction]uint64 // global states seen before each instruction
	eqAtoms map[*ssa.Function][]c05EqAtom
	tracked map[*ssa.Function][]ssa.Value
	cells   map[*ssa.Function]*ssa.Alloc
	// Imprecise: functions with more tracked booleans than the engine can follow.
	Imprecise map[*ssa.Function]bool
}

func (f *c05Flow) cellDigits() int {
	if f.Cells {
		return 1
	}
	return 0
}

// kmax: number of tracked (local) booleans per function.
func (f *c05Flow) kmax() int {
	if f.K > 0 {
		return f.K
	}
	k, l := 0, 1
	for i := 0; i < f.cellDigits(); i++ {
		l *= 3
	}
	for k < 5 && f.G*l*3 <= c05Cap {
		k++
		l *= 3
	}
	return k
}

// L: number of local truth assignments.
func (f *c05Flow) L() int {
	l := 1
	for i := 0; i < f.kmax()+f.cellDigits(); i++ {
		l *= 3
	}
	return l
}

// c05CanonBool: a boolean phi all of whose incoming values (other than itself)
// are one and the same phi is that phi (the copy of a flag a loop header makes
// for a path that does not change it).
func c05CanonBool(v ssa.Value) ssa.Value {
	for i := 0; i < 6; i++ {
		p, ok := v.(*ssa.Phi)
		if !ok {
			return v
		}
		var only ssa.Value
		same := true
		for _, ed := range p.Edges {
			if ed == ssa.Value(p) {
				continue
			}
			if only == nil {
				only = ed
			} else if only != ed {
				same = false
			}
		}
		if !same || only == nil {
			return v
		}
		if _, isPhi := only.(*ssa.Phi); !isPhi {
			return v
		}
		v = only
	}
	return v
}

func (f *c05Flow) init() {
	if f.funcs != nil {
		return
	}
	f.funcs = map[*ssa.Function]bool{}
	for _, fn := range f.a.funcs {
		f.funcs[fn] = true
	}
	f.sum = map[string][]c05Exit{}
	f.active = map[string]bool{}
	f.entry = map[*ssa.Function]uint64{}
	f.at = map[ssa.Instruction]uint64{}
	f.eqAtoms = map[*ssa.Function][]c05EqAtom{}
	f.tracked = map[*ssa.Function][]ssa.Value{}
	f.cells = map[*ssa.Function]*ssa.Alloc{}
	f.Imprecise = map[*ssa.Function]bool{}
}

// c05CondValue strips !, == true/false, and nil comparisons, and returns the
// underlying value and polarity (for X != nil: the fact "X is non-nil").
func c05CondValue(cond ssa.Value) (ssa.Value, bool) {
	pol := true
	for i := 0; i < 8; i++ {
		switch x := cond.(type) {
		case *ssa.UnOp:
			if x.Op == token.NOT {
				cond, pol = x.X, !pol
				continue
			}
		case *ssa.BinOp:
			if x.Op == token.EQL || x.Op == token.NEQ {
				v, k := x.X, x.Y
				if _, isC := v.(*ssa.Const); isC {
					v, k = k, v
				}
				if kc, ok := k.(*ssa.Const); ok && kc.IsNil() {
					if x.Op == token.EQL {
						pol = !pol
					}
					return v, pol
				}
				if kc, ok := k.(*ssa.Const); ok && kc.Value != nil && kc.Value.Kind() == constant.Bool {
					same := constant.BoolVal(kc.Value)
					if x.Op == token.NEQ {
						same = !same
					}
					if !same {
						pol = !pol
					}
					cond = v
					continue
				}
			}
		}
		break
	}
	return cond, pol
}

// c05BoolCellOf: if addr denotes a boolean local variable cell (directly or as
// a captured variable), that cell.
func c05BoolCellOf(addr ssa.Value) *ssa.Alloc {
	if fv, ok := addr.(*ssa.FreeVar); ok {
		addr = resolveFreeVar(fv)
	}
	al, ok := addr.(*ssa.Alloc)
	if !ok {
		return nil
	}
	pt, ok := al.Type().Underlying().(*types.Pointer)
	if !ok || !c05IsBool(pt.Elem()) {
		return nil
	}
	return al
}

// c05CellLoad: v is a load of a boolean cell.
func c05CellLoad(v ssa.Value) *ssa.Alloc {
	u, ok := v.(*ssa.UnOp)
	if !ok || u.Op != token.MUL {
		return nil
	}
	return c05BoolCellOf(u.X)
}

// cellOf: the shared cell of fn's calling context: a boolean variable captured
// by a closure that fn reads in a condition or assigns a constant; for a
// callback helper without one, that of the callback it is bound to.
func (f *c05Flow) cellOf(fn *ssa.Function, bind map[*ssa.Parameter]*ssa.Function) *ssa.Alloc {
	if !f.Cells {
		return nil
	}
	c, done := f.cells[fn]
	if !done {
		var cands []*ssa.Alloc
		add := func(al *ssa.Alloc) {
			if al == nil {
				return
			}
			captured := false
			for _, r := range refs(al) {
				if _, ok := r.(*ssa.MakeClosure); ok {
					captured = true
				}
			}
			if !captured {
				return
			}
			for _, x := range cands {
				if x == al {
					return
				}
			}
			cands = append(cands, al)
		}
		allInstrs(fn, func(in ssa.Instruction) {
			switch x := in.(type) {
			case *ssa.Store:
				if _, isK := x.Val.(*ssa.Const); isK {
					add(c05BoolCellOf(x.Addr))
				}
			case *ssa.If:
				for _, at := range append([]c05Atom{{x.Cond, true}}, c05ExpandCond(x.Cond, true, 0)...) {
					v, _ := c05CondValue(at.v)
					add(c05CellLoad(v))
				}
			}
		})
		if len(cands) > 0 {
			c = cands[0]
		}
		if len(cands) > 1 {
			f.Imprecise[fn] = true
		}
		f.cells[fn] = c
	}
	if c == nil {
		for _, cb := range bind {
			if cc := f.cellOf(cb, nil); cc != nil {
				return cc
			}
		}
	}
	return c
}

func (f *c05Flow) engineTracked(v ssa.Value) bool {
	switch x := v.(type) {
	case *ssa.Call:
		if !c05IsBool(x.Type()) {
			return false
		}
		for _, h := range f.a.calleesOf(x) {
			if f.funcs[h] {
				return true
			}
		}
	case *ssa.Extract:
		if !c05IsBool(x.Type()) {
			return false
		}
		if call, ok := x.Tuple.(*ssa.Call); ok {
			for _, h := range f.a.calleesOf(call) {
				if f.funcs[h] {
					return true
				}
			}
		}
	case *ssa.BinOp:
		if _, _, ok := f.resultCompare(x); ok {
			return true
		}
	}
	return f.Tracked != nil && f.Tracked(v)
}

// resultCompare: b compares (==, !=) a result of a same-package call with a
// constant: the call, the result index.
func (f *c05Flow) resultCompare(b *ssa.BinOp) (*ssa.Call, int, bool) {
	if b.Op != token.EQL && b.Op != token.NEQ {
		return nil, 0, false
	}
	v, k := b.X, b.Y
	if _, isC := v.(*ssa.Const); isC {
		v, k = k, v
	}
	kc, ok := k.(*ssa.Const)
	if !ok || kc.Value == nil {
		return nil, 0, false
	}
	var call *ssa.Call
	idx := 0
	switch x := v.(type) {
	case *ssa.Call:
		call = x
	case *ssa.Extract:
		call, _ = x.Tuple.(*ssa.Call)
		idx = x.Index
	}
	if call == nil {
		return nil, 0, false
	}
	for _, h := range f.a.calleesOf(call) {
		if f.funcs[h] {
			return call, idx, true
		}
	}
	return nil, 0, false
}

func c05CompareConst(b *ssa.BinOp) string {
	if kc, ok := b.Y.(*ssa.Const); ok && kc.Value != nil {
		return kc.Value.ExactString()
	}
	if kc, ok := b.X.(*ssa.Const); ok && kc.Value != nil {
		return kc.Value.ExactString()
	}
	return ""
}

func (f *c05Flow) trackedOf(fn *ssa.Function) []ssa.Value {
	if t, ok := f.tracked[fn]; ok {
		return t
	}
	var out []ssa.Value
	seen := map[ssa.Value]bool{}
	consider := func(v ssa.Value) {
		v, _ = c05CondValue(v)
		v = c05CanonBool(v)
		if seen[v] || c05CellLoad(v) != nil || !f.engineTracked(v) {
			return
		}
		seen[v] = true
		out = append(out, v)
	}
	allInstrs(fn, func(in ssa.Instruction) {
		switch x := in.(type) {
		case *ssa.If:
			consider(x.Cond)
			for _, at := range c05ExpandCond(x.Cond, true, 0) {
				consider(at.v)
			}
		case *ssa.Return:
			if k := c05BoolResult(fn); k >= 0 && k < len(x.Results) {
				consider(c05ResolveLocal(x.Results[k]))
			}
		}
	})
	// a tracked phi gets its truth from its operands: the boolean phis feeding it
	// have to be tracked as well
	for i := 0; i < len(out); i++ {
		if p, ok := out[i].(*ssa.Phi); ok {
			for _, ed := range p.Edges {
				e, _ := c05CondValue(ed)
				if _, isPhi := e.(*ssa.Phi); isPhi {
					consider(e)
				}
			}
		}
	}
	maxK := f.kmax()
	// flag variables (phis fed only by constants and other flags) before
	// expression phis (`a && b` used as a value), which the branch filter
	// decomposes into their operands anyway
	isFlag := func(v ssa.Value) bool {
		p, ok := v.(*ssa.Phi)
		if !ok {
			return true
		}
		for _, ed := range p.Edges {
			e, _ := c05CondValue(ed)
			switch e.(type) {
			case *ssa.Const, *ssa.Phi:
			default:
				return false
			}
		}
		return true
	}
	var flags, exprs []ssa.Value
	for _, v := range out {
		if isFlag(v) {
			flags = append(flags, v)
		} else {
			exprs = append(exprs, v)
		}
	}
	if len(flags) <= maxK {
		out = append(flags, exprs...)
		if len(out) > maxK {
			out = out[:maxK] // expression phis beyond the budget are not a loss of precision
		}
	} else {
		out = append(flags, exprs...)
	}
	if len(out) > maxK {
		f.Imprecise[fn] = true
		out = out[:maxK]
	}
	// enum-like VARIABLES: an integer phi fed by constants and by results of
	// same-package helpers, compared with constants (step := stepWait; for step ==
	// stepWait { now, step = c.serve(...) }; if step == stepExit { return })
	var eqs []c05EqAtom
	var addEq func(x ssa.Value, k string, depth int)
	addEq = func(x ssa.Value, k string, depth int) {
		x = c05CanonBool(x)
		for _, e := range eqs {
			if e.x == x && e.k == k {
				return
			}
		}
		switch y := x.(type) {
		case *ssa.Phi:
			if depth > 4 {
				return
			}
			eqs = append(eqs, c05EqAtom{x, k})
			for _, ed := range y.Edges {
				if _, isC := ed.(*ssa.Const); !isC {
					addEq(ed, k, depth+1)
				}
			}
		case *ssa.Extract:
			if call, ok := y.Tuple.(*ssa.Call); ok && depth > 0 {
				for _, h := range f.a.calleesOf(call) {
					if f.funcs[h] {
						eqs = append(eqs, c05EqAtom{x, k})
						return
					}
				}
			}
		case *ssa.Call:
			if depth > 0 {
				for _, h := range f.a.calleesOf(y) {
					if f.funcs[h] {
						eqs = append(eqs, c05EqAtom{x, k})
						return
					}
				}
			}
		}
	}
	allInstrs(fn, func(in ssa.Instruction) {
		ifi, ok := in.(*ssa.If)
		if !ok {
			return
		}
		for _, at := range append([]c05Atom{{ifi.Cond, true}}, c05ExpandCond(ifi.Cond, true, 0)...) {
			v, _ := c05CondValue(at.v)
			if x, k, _, ok := c05IntCompare(v); ok {
				if _, isPhi := c05CanonBool(x).(*ssa.Phi); isPhi {
					addEq(x, k, 0)
				}
			}
		}
	})
	if len(out)+len(eqs) > maxK {
		f.Imprecise[fn] = true
		n := maxK - len(out)
		if n < 0 {
			n = 0
		}
		eqs = eqs[:n]
	}
	// honesty: a branch whose condition depends on the result of a same-package
	// helper (directly, through a variable or a comparison) and that the engine
	// does NOT interpret means paths are not pruned exactly; a violation found
	// through such a function is reported as UNDECIDED by the rules
	interpreted := func(v ssa.Value) bool {
		v = c05CanonBool(v)
		for _, t := range out {
			if t == v {
				return true
			}
		}
		if x, k, _, ok := c05IntCompare(v); ok {
			x = c05CanonBool(x)
			for _, e := range eqs {
				if e.x == x && e.k == k {
					return true
				}
			}
		}
		return false
	}
	var dependsOnHelper func(v ssa.Value, depth int) bool
	dependsOnHelper = func(v ssa.Value, depth int) bool {
		if depth > 4 {
			return false
		}
		switch x := v.(type) {
		case *ssa.Call:
			for _, h := range f.a.calleesOf(x) {
				if f.funcs[h] {
					return true
				}
			}
		case *ssa.Extract:
			if call, ok := x.Tuple.(*ssa.Call); ok {
				return dependsOnHelper(call, depth+1)
			}
		case *ssa.Phi:
			for _, ed := range x.Edges {
				if ed != v && dependsOnHelper(ed, depth+1) {
					return true
				}
			}
		case *ssa.BinOp:
			return dependsOnHelper(x.X, depth+1) || dependsOnHelper(x.Y, depth+1)
		case *ssa.UnOp:
			if x.Op == token.NOT {
				return dependsOnHelper(x.X, depth+1)
			}
		}
		return false
	}
	allInstrs(fn, func(in ssa.Instruction) {
		ifi, ok := in.(*ssa.If)
		if !ok {
			return
		}
		for _, at := range append([]c05Atom{{ifi.Cond, true}}, c05ExpandCond(ifi.Cond, true, 0)...) {
			v, _ := c05CondValue(at.v)
			if !interpreted(v) && dependsOnHelper(v, 0) {
				f.Imprecise[fn] = true
			}
		}
	})
	f.eqAtoms[fn] = eqs
	f.tracked[fn] = out
	return out
}

// ImpreciseAmong: one of fns branches on something the engine does not follow exactly.
func (f *c05Flow) ImpreciseAmong(fns map[*ssa.Function]bool) *ssa.Function {
	var found *ssa.Function
	for fn := range fns {
		if f.Imprecise[fn] && (found == nil || fn.Name() < found.Name()) {
			found = fn
		}
	}
	return found
}

// c05EqAtom: the tracked fact "x == k" for an enum-like value x.
type c05EqAtom struct {
	x ssa.Value
	k string
}

// c05IntCompare: v is `x == K` / `x != K` with a non-boolean, non-nil constant K.
func c05IntCompare(v ssa.Value) (x ssa.Value, k string, neq bool, ok bool) {
	b, isB := v.(*ssa.BinOp)
	if !isB || (b.Op != token.EQL && b.Op != token.NEQ) {
		return nil, "", false, false
	}
	x, kv := b.X, b.Y
	if _, isC := x.(*ssa.Const); isC {
		x, kv = kv, x
	}
	kc, isC := kv.(*ssa.Const)
	if !isC || kc.Value == nil || kc.Value.Kind() == constant.Bool {
		return nil, "", false, false
	}
	return x, kc.Value.ExactString(), b.Op == token.NEQ, true
}

// c05BoolResult: index of the single boolean result of fn, or -1.
func c05BoolResult(fn *ssa.Function) int {
	res := fn.Signature.Results()
	k := -1
	for i := 0; i < res.Len(); i++ {
		if c05IsBool(res.At(i).Type()) {
			if k >= 0 {
				return -1
			}
			k = i
		}
	}
	return k
}

func c05Digit(l, k int) int {
	for i := 0; i < k; i++ {
		l /= 3
	}
	return l % 3
}

func c05SetDigit(l, k, d int) int {
	p := 1
	for i := 0; i < k; i++ {
		p *= 3
	}
	return l - ((l/p)%3)*p + d*p
}

// c05MiniFlow: forward may-dataflow of c05Bits over fn's blocks with deferred
// calls replayed at rundefers (the c05Bits counterpart of FlagFlow).
type c05MiniFlow struct {
	fn        *ssa.Function
	entry     c05Bits
	transfer  func(in ssa.Instruction, st c05Bits) c05Bits
	edge      func(from, to *ssa.BasicBlock, st c05Bits) c05Bits
	replaying bool
	before    map[ssa.Instruction]c05Bits
}

func (m *c05MiniFlow) run() {
	fn := m.fn
	n := len(fn.Blocks)
	in := make([]c05Bits, n)
	outs := make([]c05Bits, n)
	visited := make([]bool, n)
	computed := make([]bool, n)
	m.before = map[ssa.Instruction]c05Bits{}
	if n == 0 {
		return
	}
	var defers []*ssa.Defer
	allInstrs(fn, func(x ssa.Instruction) {
		if d, ok := x.(*ssa.Defer); ok {
			defers = append(defers, d)
		}
	})
	reach := map[*ssa.BasicBlock]map[*ssa.BasicBlock]bool{}
	in[0] = m.entry
	visited[0] = true
	work := []int{0}
	for len(work) > 0 {
		bi := work[0]
		work = work[1:]
		b := fn.Blocks[bi]
		st := in[bi]
		for _, instr := range b.Instrs {
			m.before[instr] = st
			st = m.transfer(instr, st)
			if _, ok := instr.(*ssa.RunDefers); ok {
				for i := len(defers) - 1; i >= 0; i-- {
					d := defers[i]
					if d.Block() != b {
						r := reach[d.Block()]
						if r == nil {
							r = reachableFrom(d.Block(), nil)
							reach[d.Block()] = r
						}
						if !r[b] {
							continue
						}
					}
					m.replaying = true
					st = m.transfer(d, st)
					m.replaying = false
				}
			}
		}
		if computed[bi] && st == outs[bi] {
			continue
		}
		computed[bi] = true
		outs[bi] = st
		for _, s := range b.Succs {
			es := m.edge(b, s, st)
			ns := es
			if visited[s.Index] {
				ns = in[s.Index]
				ns.or(es)
			}
			if !visited[s.Index] || ns != in[s.Index] || !computed[s.Index] {
				visited[s.Index] = true
				in[s.Index] = ns
				work = append(work, s.Index)
			}
		}
	}
}

// runFn runs the intraprocedural flow of fn from the given entry global states
// (shared-cell digit cdIn). record: store per-instruction states and propagate
// entries to callees.
func (f *c05Flow) runFn(fn *ssa.Function, entryG uint64, cdIn int, record bool, contrib func(h *ssa.Function, g int), bind map[*ssa.Parameter]*ssa.Function) []c05Exit {
	tr := f.trackedOf(fn)
	cell := f.cellOf(fn, bind)
	off := f.cellDigits()
	eqs := f.eqAtoms[fn]
	L := 1
	for i := 0; i < off+len(tr)+len(eqs); i++ {
		L *= 3 // per-function encoding: only the digits this function needs
	}
	eqPos := func(x ssa.Value, k string) int {
		x = c05CanonBool(x)
		for i, e := range eqs {
			if e.x == x && e.k == k {
				return off + len(tr) + i
			}
		}
		return -1
	}
	idx := func(v ssa.Value) int {
		if cell != nil {
			if c := c05CellLoad(v); c != nil && c == cell {
				return 0
			}
		}
		v = c05CanonBool(v)
		for i, t := range tr {
			if t == v {
				return off + i
			}
		}
		return -1
	}
	var entry c05Bits
	for g := 0; g < f.G; g++ {
		if entryG&(1<<uint(g)) != 0 {
			l := 0
			if off == 1 {
				l = c05SetDigit(0, 0, cdIn)
			}
			entry.set(g*L + l)
		}
	}
	each := func(st c05Bits, fn func(g, l int)) {
		for s := 0; s < f.G*L; s++ {
			if st.has(s) {
				fn(s/L, s%L)
			}
		}
	}
	mf := &c05MiniFlow{fn: fn, entry: entry}
	mf.transfer = func(in ssa.Instruction, st c05Bits) c05Bits {
		if _, isDefer := in.(*ssa.Defer); isDefer && !mf.replaying {
			return st
		}
		var out c05Bits
		k := -1
		if v, ok := in.(ssa.Value); ok {
			switch bo := in.(type) {
			case *ssa.Phi, *ssa.Extract: // truth assigned on the incoming edge / by the call
			case *ssa.BinOp:
				if _, _, isCmp := f.resultCompare(bo); !isCmp && c05CellLoad(v) == nil {
					k = idx(v)
				}
			default:
				if c05CellLoad(v) == nil {
					k = idx(v)
				}
			}
		}
		// a store to the shared cell
		cellStore, cellD, cellSrc, cellNeg := false, 0, -1, false
		if stI, ok := in.(*ssa.Store); ok && cell != nil && c05BoolCellOf(stI.Addr) == cell {
			cellStore = true
			v, pol := c05CondValue(stI.Val)
			if kc, ok := v.(*ssa.Const); ok && kc.Value != nil && kc.Value.Kind() == constant.Bool {
				if constant.BoolVal(kc.Value) == pol {
					cellD = 1
				} else {
					cellD = 2
				}
			} else if sk := idx(v); sk >= 0 {
				cellSrc, cellNeg = sk, !pol
			}
		}
		ci, isCall := in.(ssa.CallInstruction)
		// the tracked value that receives the callee's boolean result
		resK := func(h *ssa.Function) int {
			call, ok := in.(*ssa.Call)
			if !ok {
				return -1
			}
			bi := c05BoolResult(h)
			if bi < 0 {
				return -1
			}
			if h.Signature.Results().Len() == 1 {
				return idx(call)
			}
			for _, r := range refs(call) {
				if ex, ok := r.(*ssa.Extract); ok && ex.Index == bi {
					return idx(ex)
				}
			}
			return -1
		}
		each(st, func(g, l int) {
			if k >= off {
				l = c05SetDigit(l, k, 0)
			}
			if cellStore {
				d := cellD
				if cellSrc >= 0 {
					d = c05Digit(l, cellSrc)
					if d != 0 && cellNeg {
						d = 3 - d
					}
				}
				l = c05SetDigit(l, 0, d)
			}
			g2, handled := g, false
			if f.Step != nil {
				g2, handled = f.Step(in, g)
			}
			if isCall && !handled {
				h := staticCallee(ci)
				if cbs := f.a.syncCallbacks(ci); len(cbs) > 0 {
					out.set(g2*L + l)
					for _, cb := range cbs {
						if contrib != nil {
							contrib(cb, g2)
						}
						for _, ex := range f.summary(cb, g2, 0, nil) {
							out.set(ex.g*L + l)
						}
					}
					return
				}
				var targets []*ssa.Function
				sequential := false
				if h != nil {
					h = f.a.unwrapBound(h)
					if f.funcs[h] {
						targets = []*ssa.Function{h}
					}
				} else if ci.Common().IsInvoke() {
					if m := f.a.seamTarget(ci); m != nil && f.funcs[m] {
						targets = []*ssa.Function{m}
					}
				} else if tab := f.a.tableTargets(ci); len(tab) > 0 {
					// a literal table of steps run in order: the whole sequence
					targets, sequential = tab, true
					for _, t := range tab {
						if !f.funcs[t] {
							targets = nil
						}
					}
				} else if par, isPar := ci.Common().Value.(*ssa.Parameter); isPar && bind[par] != nil {
					targets = []*ssa.Function{bind[par]} // the callback this call of the helper was given
				} else {
					for _, t := range f.a.dynTargets(ci) {
						if f.funcs[t] {
							targets = append(targets, t)
						}
					}
				}
				if goi, isGo := in.(*ssa.Go); isGo {
					for _, t := range targets {
						if contrib == nil {
							break
						}
						ge, ok := f.Fresh, false
						if f.GoEntry != nil && t == h {
							ge, ok = f.GoEntry(goi, g)
						}
						if !ok {
							ge = f.Fresh
						}
						contrib(t, ge)
					}
					out.set(g2*L + l)
					return
				}
				if len(targets) > 0 && sequential {
					cur := map[int]bool{g2: true}
					for _, t := range targets {
						next := map[int]bool{}
						for gg := range cur {
							if contrib != nil {
								contrib(t, gg)
							}
							for _, ex := range f.summary(t, gg, 0, nil) {
								next[ex.g] = true
							}
						}
						cur = next
					}
					for gg := range cur {
						out.set(gg*L + l)
					}
					return
				}
				if len(targets) > 0 {
					cmps := f.compares(fn, in)
					for _, t := range targets {
						if contrib != nil {
							contrib(t, g2)
						}
						b := f.a.callbackBinding(ci, t)
						tcell := f.cellOf(t, b)
						pass := cell != nil && tcell == cell
						cd := 0
						if pass {
							cd = c05Digit(l, 0)
						}
						rk := -1
						if len(targets) == 1 {
							rk = resK(t)
						}
						for _, ex := range f.summary(t, g2, cd, b) {
							l2 := l
							if rk >= off {
								l2 = c05SetDigit(l2, rk, ex.rt)
							}
							if call, isC := in.(*ssa.Call); isC {
								for i, e := range eqs {
									ri := -1
									if e.x == ssa.Value(call) {
										ri = 0
									} else if ex2, ok := e.x.(*ssa.Extract); ok && ex2.Tuple == ssa.Value(call) {
										ri = ex2.Index
									}
									if ri < 0 {
										continue
									}
									d := 0
									if len(targets) == 1 {
										if val, ok := c05RcLookup(ex.rc, ri); ok {
											if val == e.k {
												d = 1
											} else {
												d = 2
											}
										}
									}
									l2 = c05SetDigit(l2, off+len(tr)+i, d)
								}
							}
							for _, cm := range cmps {
								if ck := idx(cm.b); ck >= off {
									d := 0
									if len(targets) == 1 {
										if val, ok := c05RcLookup(ex.rc, cm.idx); ok {
											if (val == cm.k) == (cm.b.Op == token.EQL) {
												d = 1
											} else {
												d = 2
											}
										}
									}
									l2 = c05SetDigit(l2, ck, d)
								}
							}
							if pass {
								l2 = c05SetDigit(l2, 0, ex.cd)
							} else if cell != nil && f.touchesCell(t, b, cell) {
								l2 = c05SetDigit(l2, 0, 0)
							}
							out.set(ex.g*L + l2)
						}
					}
					return
				}
			}
			out.set(g2*L + l)
		})
		return out
	}
	mf.edge = func(from, to *ssa.BasicBlock, st c05Bits) c05Bits {
		// (1) the branch taken at the end of `from`
		if len(from.Instrs) > 0 && len(from.Succs) == 2 && from.Succs[0] != from.Succs[1] {
			if ifi, ok := from.Instrs[len(from.Instrs)-1].(*ssa.If); ok {
				atoms := append([]c05Atom{{ifi.Cond, from.Succs[0] == to}}, c05ExpandCond(ifi.Cond, from.Succs[0] == to, 0)...)
				done := map[ssa.Value]bool{}
				for _, at := range atoms {
					v, pol := c05CondValue(at.v)
					if done[v] {
						continue
					}
					done[v] = true
					k := idx(v)
					if x, kk, neq, isCmp := c05IntCompare(v); isCmp && k < 0 {
						if k = eqPos(x, kk); k >= 0 && neq {
							pol = !pol
						}
					}
					if k < 0 {
						continue
					}
					tv := at.tv == pol
					want := 2
					if tv {
						want = 1
					}
					var out c05Bits
					each(st, func(g, l int) {
						d := c05Digit(l, k)
						if d != 0 && d != want {
							return // infeasible
						}
						l = c05SetDigit(l, k, want)
						if f.Cond != nil {
							g = f.Cond(ifi, v, tv, g)
						}
						out.set(g*L + l)
					})
					st = out
				}
			}
		}
		// (2) assignments expressed by the edge: rule hook, then tracked phis of `to`
		pi := -1
		for i, p := range to.Preds {
			if p == from {
				pi = i
			}
		}
		type asg struct {
			k   int
			src int
			neg bool
			d   int
		}
		var asgs []asg
		if pi >= 0 {
			for _, in := range to.Instrs {
				phi, ok := in.(*ssa.Phi)
				if !ok {
					break
				}
				if c05CanonBool(phi) != ssa.Value(phi) {
					continue // an alias of another flag: no truth of its own
				}
				k := idx(phi)
				if k < 0 || pi >= len(phi.Edges) {
					continue
				}
				ed, pol := c05CondValue(phi.Edges[pi])
				a1 := asg{k: k, src: -1}
				switch x := ed.(type) {
				case *ssa.Const:
					switch {
					case x.IsNil():
						a1.d = 2
					case x.Value != nil && x.Value.Kind() == constant.Bool:
						if constant.BoolVal(x.Value) == pol {
							a1.d = 1
						} else {
							a1.d = 2
						}
					}
				default:
					if sk := idx(ed); sk >= 0 {
						a1.src, a1.neg = sk, !pol
					}
				}
				asgs = append(asgs, a1)
			}
		}
		if pi >= 0 {
			for i, e := range eqs {
				phi, ok := e.x.(*ssa.Phi)
				if !ok || phi.Block() != to || pi >= len(phi.Edges) {
					continue
				}
				a1 := asg{k: off + len(tr) + i, src: -1}
				switch ev := phi.Edges[pi].(type) {
				case *ssa.Const:
					if ev.Value != nil {
						if ev.Value.ExactString() == e.k {
							a1.d = 1
						} else {
							a1.d = 2
						}
					}
				default:
					if sp := eqPos(ev, e.k); sp >= 0 {
						a1.src = sp
					}
				}
				asgs = append(asgs, a1)
			}
		}
		if f.EdgeG == nil && len(asgs) == 0 {
			return st
		}
		var out c05Bits
		each(st, func(g, l int) {
			if f.EdgeG != nil {
				g = f.EdgeG(from, to, g)
			}
			l2 := l
			for _, a1 := range asgs {
				d := a1.d
				if a1.src >= 0 {
					d = c05Digit(l, a1.src)
					if d != 0 && a1.neg {
						d = 3 - d
					}
				}
				l2 = c05SetDigit(l2, a1.k, d)
			}
			out.set(g*L + l2)
		})
		return out
	}
	mf.run()
	if record {
		allInstrs(fn, func(in ssa.Instruction) {
			if st, ok := mf.before[in]; ok {
				cur := f.at[in]
				each(st, func(g, l int) { cur |= 1 << uint(g) })
				f.at[in] = cur
			}
		})
	}
	var exits []c05Exit
	seen := map[c05Exit]bool{}
	bres := c05BoolResult(fn)
	for _, b := range fn.Blocks {
		if len(b.Instrs) == 0 {
			continue
		}
		ret, ok := b.Instrs[len(b.Instrs)-1].(*ssa.Return)
		if !ok {
			continue
		}
		st, ok := mf.before[ret]
		if !ok {
			continue
		}
		st = mf.transfer(ret, st) // effects a rule attaches to the return itself
		each(st, func(g, l int) {
			cd := 0
			if off == 1 {
				cd = c05Digit(l, 0)
			}
			rc := ""
			for i, rv := range ret.Results {
				if kc, ok := c05ResolveLocal(rv).(*ssa.Const); ok && kc.Value != nil {
					rc += fmt.Sprintf("%d=%s;", i, kc.Value.ExactString())
				}
			}
			emit := func(g, rt int) {
				if f.Exit != nil {
					g = f.Exit(fn, g)
				}
				ex := c05Exit{g, rt, cd, rc}
				if !seen[ex] {
					seen[ex] = true
					exits = append(exits, ex)
				}
			}
			if bres >= 0 && bres < len(ret.Results) {
				v, pol := c05CondValue(c05ResolveLocal(ret.Results[bres]))
				if kc, ok := v.(*ssa.Const); ok && kc.Value != nil && kc.Value.Kind() == constant.Bool {
					if constant.BoolVal(kc.Value) == pol {
						emit(g, 1)
					} else {
						emit(g, 2)
					}
					return
				}
				if k := idx(v); k >= 0 {
					d := c05Digit(l, k)
					truths := []int{d}
					if d == 0 {
						truths = []int{1, 2} // returned flag not yet tested: both outcomes, each with its consequence
					}
					for _, t := range truths {
						g2 := g
						if d == 0 && f.Cond != nil {
							g2 = f.Cond(ret, v, t == 1, g)
						}
						rt := t
						if !pol {
							rt = 3 - t
						}
						emit(g2, rt)
					}
					return
				}
			}
			emit(g, 0)
		})
	}
	return exits
}

// touchesCell: t (or a callback bound to it) stores to the cell.
func (f *c05Flow) touchesCell(t *ssa.Function, bind map[*ssa.Parameter]*ssa.Function, cell *ssa.Alloc) bool {
	hit := false
	chk := func(fn *ssa.Function) {
		allInstrs(fn, func(in ssa.Instruction) {
			if st, ok := in.(*ssa.Store); ok && c05BoolCellOf(st.Addr) == cell {
				hit = true
			}
		})
	}
	chk(t)
	for _, cb := range bind {
		chk(cb)
	}
	return hit
}

// summary: exits of h entered in global state g with shared-cell digit cd, its
// callback parameters bound as in bind (a helper such as withLock is
// summarised per binding, so that callers sharing it do not see each other's
// callbacks).
func (f *c05Flow) summary(h *ssa.Function, g, cd int, bind map[*ssa.Parameter]*ssa.Function) []c05Exit {
	key := fmt.Sprintf("%p|%d|%d", h, g, cd)
	for _, pa := range h.Params {
		if b := bind[pa]; b != nil {
			key += fmt.Sprintf("|%p", b)
		}
	}
	if ex, ok := f.sum[key]; ok {
		return ex
	}
	if f.active[key] || len(h.Blocks) == 0 {
		return []c05Exit{{g, 0, cd, ""}} // recursion / no body: identity
	}
	f.active[key] = true
	ex := f.runFn(h, 1<<uint(g), cd, false, nil, bind)
	delete(f.active, key)
	f.sum[key] = ex
	return ex
}

// Run propagates entry states from the roots (exported functions, goroutine
// bodies, address-taken functions start in Fresh unless given) to every function.
func (f *c05Flow) Run(roots map[*ssa.Function]int) {
	f.init()
	var work []*ssa.Function
	add := func(h *ssa.Function, g int) {
		if f.entry[h]&(1<<uint(g)) == 0 {
			f.entry[h] |= 1 << uint(g)
			work = append(work, h)
		}
	}
	for fn, g := range roots {
		add(fn, g)
	}
	for _, fn := range f.a.funcs {
		if f.NoDefaultRoots {
			break
		}
		if f.a.syncCallbackOnly(fn) || (f.a.dynCalled[fn] && !isExportedFunc(fn)) {
			continue // runs in its caller's state
		}
		if isExportedFunc(fn) || f.a.addrTaken[fn] || fn.Name() == "init" {
			add(fn, f.Fresh)
		} else if fn.Parent() != nil && len(f.a.sites[fn]) == 0 {
			add(fn, f.Fresh) // closure used as a value
		}
	}
	for n := 0; len(work) > 0 && n < 10000; n++ {
		fn := work[0]
		work = work[1:]
		allInstrs(fn, func(in ssa.Instruction) { delete(f.at, in) })
		f.runFn(fn, f.entry[fn], 0, true, add, nil)
	}
}

// At: the global states before instruction in, as a bit set over g (0 if
// unreachable from the roots).
func (f *c05Flow) At(in ssa.Instruction) uint64 { return f.at[in] }

// Globals: the global states in the set st.
func (f *c05Flow) Globals(st uint64) []int {
	var out []int
	for g := 0; g < f.G; g++ {
		if st&(1<<uint(g)) != 0 {
			out = append(out, g)
		}
	}
	return out
}

// All: every state before in satisfies pred; reached=false when in is not reached at all.
func (f *c05Flow) All(in ssa.Instruction, pred func(g int) bool) (ok, reached bool) {
	gs := f.Globals(f.at[in])
	if len(gs) == 0 {
		return true, false
	}
	for _, g := range gs {
		if !pred(g) {
			return false, true
		}
	}
	return true, true
}

// EntryGlobals: the global states in which fn is entered.
func (f *c05Flow) EntryGlobals(fn *ssa.Function) []int {
	var out []int
	for g := 0; g < f.G; g++ {
		if f.entry[fn]&(1<<uint(g)) != 0 {
			out = append(out, g)
		}
	}
	return out
}

// c05ResolveLocal: a load of a local cell (named result in a function with
// defer) is replaced by the value last stored into the cell in the same block.
func c05ResolveLocal(v ssa.Value) ssa.Value {
	u, ok := v.(*ssa.UnOp)
	if !ok || u.Op != token.MUL {
		return v
	}
	cell, ok := u.X.(*ssa.Alloc)
	if !ok {
		return v
	}
	b := u.Block()
	for i := instrIndex(u) - 1; i >= 0; i-- {
		if st, ok := b.Instrs[i].(*ssa.Store); ok && st.Addr == ssa.Value(cell) {
			return st.Val
		}
	}
	return v
}

type c05Cmp struct {
	b   *ssa.BinOp
	idx int
	k   string
}

// compares: the tracked comparisons in fn of a result of the call `in` with a constant.
func (f *c05Flow) compares(fn *ssa.Function, in ssa.Instruction) []c05Cmp {
	call, ok := in.(*ssa.Call)
	if !ok {
		return nil
	}
	var out []c05Cmp
	for _, t := range f.trackedOf(fn) {
		b, ok := t.(*ssa.BinOp)
		if !ok {
			continue
		}
		if c, i, ok := f.resultCompare(b); ok && c == call {
			out = append(out, c05Cmp{b, i, c05CompareConst(b)})
		}
	}
	return out
}

// c05RcLookup: the constant returned as result #idx according to rc.
func c05RcLookup(rc string, idx int) (string, bool) {
	pre := fmt.Sprintf("%d=", idx)
	for _, part := range strings.Split(rc, ";") {
		if strings.HasPrefix(part, pre) {
			return part[len(pre):], true
		}
	}
	return "", false
}
