package main

// c05Flow: a small interprocedural powerset dataflow over the functions of
// one package, path-sensitive on up to two tracked boolean SSA values per
// function (a load of a flag, or the boolean result of a same-package helper).
//
// A state is (g, l): g < G is the rule's "global" abstract state, carried
// across calls (callee summaries are relations entry g -> exit g, return
// truth); l is the truth (unknown/true/false) of the function's tracked
// booleans. A branch on a tracked boolean prunes the states that disagree, so
//
//	was := c.running; if !was { c.running = true }; unlock; if was { return }; start()
//
// reaches start() only with the states that went through the store.
// Entry states of a function are the union over its static call sites
// (context-insensitive) and over the roots given to Run.

import (
	"fmt"
	"go/constant"
	"go/token"
	"go/types"

	"golang.org/x/tools/go/ssa"
)

type c05Exit struct{ g, rt int }

type c05Flow struct {
	a *c05
	G int
	// Step: effect of an instruction on g. For calls to same-package functions
	// the summary is applied unless Step returns handled=true.
	Step func(in ssa.Instruction, g int) (g2 int, handled bool)
	// Cond: a tracked boolean v was observed with truth tv on a branch of ifi.
	Cond func(at ssa.Instruction, v ssa.Value, tv bool, g int) int
	// Tracked: is v (a load or a call result of type bool) worth tracking?
	Tracked func(v ssa.Value) bool
	// Exit: rewrite g at the returns of fn (optional).
	Exit func(fn *ssa.Function, g int) int
	// GoEntry: state handed to the goroutine started by g (ok=false: start from Fresh).
	GoEntry func(goi *ssa.Go, g int) (int, bool)
	// Fresh: entry state of goroutines / address-taken functions.
	Fresh int
	// NoDefaultRoots: only the roots given to Run start the propagation.
	NoDefaultRoots bool
	// K: number of tracked booleans per function (1 or 2, default 2); G*3^K <= 64.
	K int
	// EdgeG: effect of taking the CFG edge from->to on g (e.g. an assignment
	// expressed by a phi edge). Optional.
	EdgeG func(from, to *ssa.BasicBlock, g int) int

	funcs   map[*ssa.Function]bool
	sum     map[*ssa.Function]map[int][]c05Exit
	active  map[*ssa.Function]map[int]bool
	entry   map[*ssa.Function]uint64
	at      map[ssa.Instruction]uint64
	atRepl  map[ssa.Instruction]uint64 // state when a deferred call is replayed
	tracked map[*ssa.Function][]ssa.Value
	sumB    map[string][]c05Exit
	activeB map[string]bool
	// Imprecise: functions with more tracked booleans than the engine can follow.
	Imprecise map[*ssa.Function]bool
}

// kmax: number of tracked booleans per function: K if set, else the largest
// k <= 3 with G*3^k <= 64.
func (f *c05Flow) kmax() int {
	if f.K > 0 {
		return f.K
	}
	k, l := 0, 1
	for k < 3 && f.G*l*3 <= 64 {
		k++
		l *= 3
	}
	return k
}

// L: number of local truth assignments (3^kmax).
func (f *c05Flow) L() int {
	l := 1
	for i := 0; i < f.kmax(); i++ {
		l *= 3
	}
	return l
}

// c05CanonBool: a boolean phi all of whose incoming values (other than itself)
// are one and the same value is that value (the copy of a flag a loop header
// makes for a path that does not change it).
func c05CanonBool(v ssa.Value) ssa.Value {
	for i := 0; i < 6; i++ {
		p, ok := v.(*ssa.Phi)
		if !ok {
			return v
		}
		var only ssa.Value
		same := true
		for _, ed := range p.Edges {
			if ed == ssa.Value(p) {
				continue
			}
			if only == nil {
				only = ed
			} else if only != ed {
				same = false
			}
		}
		if !same || only == nil {
			return v
		}
		if _, isPhi := only.(*ssa.Phi); !isPhi {
			return v
		}
		v = only
	}
	return v
}

func (f *c05Flow) init() {
	if f.funcs != nil {
		return
	}
	f.funcs = map[*ssa.Function]bool{}
	for _, fn := range f.a.funcs {
		f.funcs[fn] = true
	}
	f.sum = map[*ssa.Function]map[int][]c05Exit{}
	f.active = map[*ssa.Function]map[int]bool{}
	f.entry = map[*ssa.Function]uint64{}
	f.at = map[ssa.Instruction]uint64{}
	f.atRepl = map[ssa.Instruction]uint64{}
	f.tracked = map[*ssa.Function][]ssa.Value{}
	f.Imprecise = map[*ssa.Function]bool{}
}

// condValue strips !, == true/false and returns the underlying value and polarity.
func c05CondValue(cond ssa.Value) (ssa.Value, bool) {
	pol := true
	for i := 0; i < 8; i++ {
		switch x := cond.(type) {
		case *ssa.UnOp:
			if x.Op == token.NOT {
				cond, pol = x.X, !pol
				continue
			}
		case *ssa.BinOp:
			if x.Op == token.EQL || x.Op == token.NEQ {
				v, k := x.X, x.Y
				if _, isC := v.(*ssa.Const); isC {
					v, k = k, v
				}
				if kc, ok := k.(*ssa.Const); ok && kc.IsNil() {
					// X != nil: the tracked fact is "X is non-nil"
					if x.Op == token.EQL {
						pol = !pol
					}
					return v, pol
				}
				if kc, ok := k.(*ssa.Const); ok && kc.Value != nil && kc.Value.Kind() == constant.Bool {
					same := constant.BoolVal(kc.Value)
					if x.Op == token.NEQ {
						same = !same
					}
					if !same {
						pol = !pol
					}
					cond = v
					continue
				}
			}
		}
		break
	}
	return cond, pol
}

func (f *c05Flow) trackedOf(fn *ssa.Function) []ssa.Value {
	if t, ok := f.tracked[fn]; ok {
		return t
	}
	var out []ssa.Value
	seen := map[ssa.Value]bool{}
	// only booleans that actually decide a branch or are returned
	consider := func(v ssa.Value) {
		v, _ = c05CondValue(v)
		v = c05CanonBool(v)
		if seen[v] || f.Tracked == nil || !f.Tracked(v) {
			return
		}
		seen[v] = true
		out = append(out, v)
	}
	allInstrs(fn, func(in ssa.Instruction) {
		switch x := in.(type) {
		case *ssa.If:
			consider(x.Cond)
			for _, at := range c05ExpandCond(x.Cond, true, 0) {
				consider(at.v)
			}
		case *ssa.Return:
			if len(x.Results) == 1 {
				if b, ok := x.Results[0].Type().Underlying().(*types.Basic); ok && b.Kind() == types.Bool {
					consider(c05ResolveLocal(x.Results[0]))
				}
			}
		}
	})
	// a tracked phi gets its truth from its operands: the boolean phis feeding it
	// have to be tracked as well
	for i := 0; i < len(out); i++ {
		if p, ok := out[i].(*ssa.Phi); ok {
			for _, ed := range p.Edges {
				e, _ := c05CondValue(ed)
				if _, isPhi := e.(*ssa.Phi); isPhi {
					consider(e)
				}
			}
		}
	}
	maxK := f.kmax()
	// flag variables (phis fed only by constants and other flags) before
	// expression phis (`a && b` used as a value), which the branch filter
	// decomposes into their operands anyway
	isFlag := func(v ssa.Value) bool {
		p, ok := v.(*ssa.Phi)
		if !ok {
			return true
		}
		for _, ed := range p.Edges {
			e, _ := c05CondValue(ed)
			switch e.(type) {
			case *ssa.Const, *ssa.Phi:
			default:
				return false
			}
		}
		return true
	}
	var flags, exprs []ssa.Value
	for _, v := range out {
		if isFlag(v) {
			flags = append(flags, v)
		} else {
			exprs = append(exprs, v)
		}
	}
	if len(flags) <= maxK {
		// expression phis beyond the budget are not a loss of precision
		out = append(flags, exprs...)
		if len(out) > maxK {
			out = out[:maxK]
		}
	} else {
		out = append(flags, exprs...)
	}
	if len(out) > maxK {
		f.Imprecise[fn] = true
		out = out[:maxK]
	}
	f.tracked[fn] = out
	return out
}

func c05Digit(l, k int) int {
	for i := 0; i < k; i++ {
		l /= 3
	}
	return l % 3
}

func c05SetDigit(l, k, d int) int {
	p := 1
	for i := 0; i < k; i++ {
		p *= 3
	}
	return l - ((l/p)%3)*p + d*p
}

// runFn runs the intraprocedural flow of fn from the given entry global states.
// record: store per-instruction states and propagate entries to callees.
func (f *c05Flow) runFn(fn *ssa.Function, entryG uint64, record bool, contrib func(h *ssa.Function, g int), bind map[*ssa.Parameter]*ssa.Function) []c05Exit {
	tr := f.trackedOf(fn)
	idx := func(v ssa.Value) int {
		v = c05CanonBool(v)
		for i, t := range tr {
			if t == v {
				return i
			}
		}
		return -1
	}
	var entry uint64
	for g := 0; g < f.G; g++ {
		if entryG&(1<<uint(g)) != 0 {
			entry |= 1 << uint(g*f.L())
		}
	}
	var ff *FlagFlow
	ff = &FlagFlow{Fn: fn, Must: false, Entry: entry,
		Transfer: func(in ssa.Instruction, st uint64) uint64 {
			if _, isDefer := in.(*ssa.Defer); isDefer && !ff.Replaying {
				return st
			}
			if record && ff.Replaying {
				f.atRepl[in] |= st
			}
			var out uint64
			k := -1
			if v, ok := in.(ssa.Value); ok {
				if _, isPhi := in.(*ssa.Phi); !isPhi { // a phi's truth is assigned on the incoming edge
					k = idx(v)
				}
			}
			for s := 0; s < f.G*f.L(); s++ {
				if st&(1<<uint(s)) == 0 {
					continue
				}
				g, l := s/f.L(), s%f.L()
				if k >= 0 {
					l = c05SetDigit(l, k, 0)
				}
				g2, handled := g, false
				if f.Step != nil {
					g2, handled = f.Step(in, g)
				}
				ci, isCall := in.(ssa.CallInstruction)
				if isCall && !handled {
					h := staticCallee(ci)
					// callbacks handed to synchronous higher-order library functions
					// (sort.Slice, slices.SortFunc, ...) run during the call, in this state
					if cbs := f.a.syncCallbacks(ci); len(cbs) > 0 {
						acc := uint64(1) << uint(g2*f.L()+l)
						for _, cb := range cbs {
							if contrib != nil {
								contrib(cb, g2)
							}
							for _, ex := range f.summary(cb, g2) {
								acc |= 1 << uint(ex.g*f.L()+l)
							}
						}
						out |= acc
						continue
					}
					var targets []*ssa.Function
					if h != nil {
						if f.funcs[h] {
							targets = []*ssa.Function{h}
						}
					} else if par, isPar := ci.Common().Value.(*ssa.Parameter); isPar && bind[par] != nil {
						targets = []*ssa.Function{bind[par]} // the callback this call of the helper was given
					} else {
						for _, t := range f.a.dynTargets(ci) {
							if f.funcs[t] {
								targets = append(targets, t)
							}
						}
					}
					if goi, isGo := in.(*ssa.Go); isGo {
						for _, t := range targets {
							if contrib == nil {
								break
							}
							ge, ok := f.Fresh, false
							if f.GoEntry != nil && t == h {
								ge, ok = f.GoEntry(goi, g)
							}
							if !ok {
								ge = f.Fresh
							}
							contrib(t, ge)
						}
						out |= 1 << uint(g2*f.L()+l)
						continue
					}
					if len(targets) > 0 {
						for _, t := range targets {
							if contrib != nil {
								contrib(t, g2)
							}
							var exits []c05Exit
							if b := f.a.callbackBinding(ci, t); len(b) > 0 {
								exits = f.summaryBound(t, g2, b)
							} else {
								exits = f.summary(t, g2)
							}
							for _, ex := range exits {
								l2 := l
								if k >= 0 && ex.rt != 0 && len(targets) == 1 {
									l2 = c05SetDigit(l2, k, ex.rt)
								}
								out |= 1 << uint(ex.g*f.L()+l2)
							}
						}
						continue
					}
				}
				out |= 1 << uint(g2*f.L()+l)
			}
			return out
		},
		EdgeTransfer: func(from, to *ssa.BasicBlock, st uint64) uint64 {
			// (1) the branch taken at the end of `from`
			if len(from.Instrs) > 0 && len(from.Succs) == 2 && from.Succs[0] != from.Succs[1] {
				if ifi, ok := from.Instrs[len(from.Instrs)-1].(*ssa.If); ok {
					atoms := append([]c05Atom{{ifi.Cond, from.Succs[0] == to}}, c05ExpandCond(ifi.Cond, from.Succs[0] == to, 0)...)
					done := map[ssa.Value]bool{}
					for _, at := range atoms {
						v, pol := c05CondValue(at.v)
						if done[v] {
							continue
						}
						done[v] = true
						k := idx(v)
						if k < 0 {
							continue
						}
						tv := at.tv == pol
						want := 2
						if tv {
							want = 1
						}
						var out uint64
						for s := 0; s < f.G*f.L(); s++ {
							if st&(1<<uint(s)) == 0 {
								continue
							}
							g, l := s/f.L(), s%f.L()
							d := c05Digit(l, k)
							if d != 0 && d != want {
								continue // infeasible
							}
							l = c05SetDigit(l, k, want)
							if f.Cond != nil {
								g = f.Cond(ifi, v, tv, g)
							}
							out |= 1 << uint(g*f.L()+l)
						}
						st = out
					}
				}
			}
			// (2) assignments expressed by the edge: rule hook, then tracked phis of `to`
			pi := -1
			for i, p := range to.Preds {
				if p == from {
					pi = i
				}
			}
			type asg struct {
				k   int
				src int // tracked index to copy from (-1: constant d)
				neg bool
				d   int
			}
			var asgs []asg
			if pi >= 0 {
				for _, in := range to.Instrs {
					phi, ok := in.(*ssa.Phi)
					if !ok {
						break
					}
					if c05CanonBool(phi) != ssa.Value(phi) {
						continue // an alias of another flag: no truth of its own
					}
					k := idx(phi)
					if k < 0 || pi >= len(phi.Edges) {
						continue
					}
					ed, pol := c05CondValue(phi.Edges[pi])
					a1 := asg{k: k, src: -1}
					switch x := ed.(type) {
					case *ssa.Const:
						switch {
						case x.IsNil():
							a1.d = 2
						case x.Value != nil && x.Value.Kind() == constant.Bool:
							if constant.BoolVal(x.Value) == pol {
								a1.d = 1
							} else {
								a1.d = 2
							}
						}
					default:
						if sk := idx(ed); sk >= 0 {
							a1.src, a1.neg = sk, !pol
						}
					}
					asgs = append(asgs, a1)
				}
			}
			if f.EdgeG == nil && len(asgs) == 0 {
				return st
			}
			var out uint64
			for s := 0; s < f.G*f.L(); s++ {
				if st&(1<<uint(s)) == 0 {
					continue
				}
				g, l := s/f.L(), s%f.L()
				if f.EdgeG != nil {
					g = f.EdgeG(from, to, g)
				}
				l2 := l
				for _, a1 := range asgs {
					d := a1.d
					if a1.src >= 0 {
						d = c05Digit(l, a1.src)
						if d != 0 && a1.neg {
							d = 3 - d
						}
					}
					l2 = c05SetDigit(l2, a1.k, d)
				}
				out |= 1 << uint(g*f.L()+l2)
			}
			return out
		}}
	ff.Run()
	if record {
		allInstrs(fn, func(in ssa.Instruction) {
			if st, ok := ff.Before(in); ok {
				f.at[in] |= st
			}
		})
	}
	var exits []c05Exit
	seen := map[c05Exit]bool{}
	ff.AtReturns(func(ret *ssa.Return, st uint64) {
		for s := 0; s < f.G*f.L(); s++ {
			if st&(1<<uint(s)) == 0 {
				continue
			}
			g, l := s/f.L(), s%f.L()
			emit := func(g, rt int) {
				if f.Exit != nil {
					g = f.Exit(fn, g)
				}
				ex := c05Exit{g, rt}
				if !seen[ex] {
					seen[ex] = true
					exits = append(exits, ex)
				}
			}
			if len(ret.Results) == 1 {
				v, pol := c05CondValue(c05ResolveLocal(ret.Results[0]))
				if kc, ok := v.(*ssa.Const); ok && kc.Value != nil && kc.Value.Kind() == constant.Bool {
					if constant.BoolVal(kc.Value) == pol {
						emit(g, 1)
					} else {
						emit(g, 2)
					}
					continue
				}
				if k := idx(v); k >= 0 {
					d := c05Digit(l, k)
					truths := []int{d}
					if d == 0 {
						truths = []int{1, 2} // returned flag not yet tested: both outcomes, each with its consequence
					}
					for _, t := range truths {
						g2 := g
						if d == 0 && f.Cond != nil {
							g2 = f.Cond(ret, v, t == 1, g)
						}
						rt := t
						if !pol {
							rt = 3 - t
						}
						emit(g2, rt)
					}
					continue
				}
			}
			emit(g, 0)
		}
	})
	return exits
}

// summary: exits of h when entered in global state g.
func (f *c05Flow) summary(h *ssa.Function, g int) []c05Exit {
	if m := f.sum[h]; m != nil {
		if ex, ok := m[g]; ok {
			return ex
		}
	}
	if f.active[h] == nil {
		f.active[h] = map[int]bool{}
	}
	if f.active[h][g] || len(h.Blocks) == 0 {
		return []c05Exit{{g, 0}} // recursion / no body: identity
	}
	f.active[h][g] = true
	ex := f.runFn(h, 1<<uint(g), false, nil, nil)
	delete(f.active[h], g)
	if f.sum[h] == nil {
		f.sum[h] = map[int][]c05Exit{}
	}
	f.sum[h][g] = ex
	return ex
}

// Run propagates entry states from the roots (exported functions, goroutine
// bodies, address-taken functions start in Fresh unless given) to every function.
func (f *c05Flow) Run(roots map[*ssa.Function]int) {
	f.init()
	var work []*ssa.Function
	add := func(h *ssa.Function, g int) {
		if f.entry[h]&(1<<uint(g)) == 0 {
			f.entry[h] |= 1 << uint(g)
			work = append(work, h)
		}
	}
	for fn, g := range roots {
		add(fn, g)
	}
	for _, fn := range f.a.funcs {
		if f.NoDefaultRoots {
			break
		}
		if f.a.syncCallbackOnly(fn) {
			continue
		}
		if isExportedFunc(fn) || f.a.addrTaken[fn] || fn.Name() == "init" {
			add(fn, f.Fresh)
		} else if fn.Parent() != nil && len(f.a.sites[fn]) == 0 && !f.a.syncCallbackOnly(fn) {
			add(fn, f.Fresh) // closure used as a value
		}
	}
	for n := 0; len(work) > 0 && n < 10000; n++ {
		fn := work[0]
		work = work[1:]
		// clear what was recorded for fn, then re-run with the full entry set
		allInstrs(fn, func(in ssa.Instruction) { delete(f.at, in); delete(f.atRepl, in) })
		f.runFn(fn, f.entry[fn], true, add, nil)
	}
}

// At: states before instruction in (0 if unreachable from the roots).
func (f *c05Flow) At(in ssa.Instruction) uint64 { return f.at[in] }

// Globals: the set of global states among st.
func (f *c05Flow) Globals(st uint64) []int {
	var out []int
	seen := map[int]bool{}
	for s := 0; s < f.G*f.L(); s++ {
		if st&(1<<uint(s)) != 0 && !seen[s/f.L()] {
			seen[s/f.L()] = true
			out = append(out, s/f.L())
		}
	}
	return out
}

// All: every state before in satisfies pred; reached=false when in is not reached at all.
func (f *c05Flow) All(in ssa.Instruction, pred func(g int) bool) (ok, reached bool) {
	gs := f.Globals(f.at[in])
	if len(gs) == 0 {
		return true, false
	}
	for _, g := range gs {
		if !pred(g) {
			return false, true
		}
	}
	return true, true
}

// EntryGlobals: the global states in which fn is entered.
func (f *c05Flow) EntryGlobals(fn *ssa.Function) []int {
	var out []int
	for g := 0; g < f.G; g++ {
		if f.entry[fn]&(1<<uint(g)) != 0 {
			out = append(out, g)
		}
	}
	return out
}

// c05ResolveLocal: a load of a local cell (named result in a function with
// defer) is replaced by the value last stored into the cell in the same block.
func c05ResolveLocal(v ssa.Value) ssa.Value {
	u, ok := v.(*ssa.UnOp)
	if !ok || u.Op != token.MUL {
		return v
	}
	cell, ok := u.X.(*ssa.Alloc)
	if !ok {
		return v
	}
	b := u.Block()
	for i := instrIndex(u) - 1; i >= 0; i-- {
		if st, ok := b.Instrs[i].(*ssa.Store); ok && st.Addr == ssa.Value(cell) {
			return st.Val
		}
	}
	return v
}

// summaryBound: exits of h entered in g when its callback parameters are bound
// to specific functions (one call site of a helper such as withLock): the
// helper is summarised per binding, so that callers sharing it do not see each
// other's callbacks.
func (f *c05Flow) summaryBound(h *ssa.Function, g int, bind map[*ssa.Parameter]*ssa.Function) []c05Exit {
	key := fmt.Sprintf("%p|%d", h, g)
	for _, pa := range h.Params {
		if b := bind[pa]; b != nil {
			key += fmt.Sprintf("|%p", b)
		}
	}
	if f.sumB == nil {
		f.sumB = map[string][]c05Exit{}
		f.activeB = map[string]bool{}
	}
	if ex, ok := f.sumB[key]; ok {
		return ex
	}
	if f.activeB[key] || len(h.Blocks) == 0 {
		return []c05Exit{{g, 0}}
	}
	f.activeB[key] = true
	ex := f.runFn(h, 1<<uint(g), false, nil, bind)
	delete(f.activeB, key)
	f.sumB[key] = ex
	return ex
}
