package main

import (
	"go/token"
	"go/types"
	"strings"

	"golang.org/x/tools/go/ssa"
)

// origin normalises instantiations of generic functions to their origin.
func origin(f *ssa.Function) *ssa.Function {
	if f == nil {
		return nil
	}
	if o := f.Origin(); o != nil {
		return o
	}
	return f
}

// staticCallee returns the statically resolved callee (origin-normalised) of a
// call instruction, or nil for dynamic calls. Immediately invoked closures
// resolve to the closure's function.
func staticCallee(c ssa.CallInstruction) *ssa.Function {
	cc := c.Common()
	if cc.IsInvoke() {
		return nil
	}
	switch v := cc.Value.(type) {
	case *ssa.Function:
		return origin(v)
	case *ssa.MakeClosure:
		if f, ok := v.Fn.(*ssa.Function); ok {
			return origin(f)
		}
	}
	return nil
}

// calleeObj returns the types.Func called (static function, method or
// interface method), or nil.
func calleeObj(c ssa.CallInstruction) *types.Func {
	cc := c.Common()
	if cc.IsInvoke() {
		return cc.Method
	}
	if f := staticCallee(c); f != nil {
		if obj, ok := f.Object().(*types.Func); ok {
			return obj
		}
	}
	return nil
}

// funcIs reports whether obj is pkgPath.[recv.]name. recv "" = plain function.
func funcIs(obj *types.Func, pkgPath, recv, name string) bool {
	if obj == nil || obj.Name() != name {
		return false
	}
	if obj.Pkg() == nil || obj.Pkg().Path() != pkgPath {
		return false
	}
	sig := obj.Type().(*types.Signature)
	if recv == "" {
		return sig.Recv() == nil
	}
	if sig.Recv() == nil {
		return false
	}
	return typeBaseName(sig.Recv().Type()) == recv
}

// callIs reports whether instruction c calls pkgPath.[recv.]name (statically or
// through the interface method of that name).
func callIs(c ssa.CallInstruction, pkgPath, recv, name string) bool {
	return funcIs(calleeObj(c), pkgPath, recv, name)
}

// builtinName returns the builtin called by c, or "".
func builtinName(c ssa.CallInstruction) string {
	if b, ok := c.Common().Value.(*ssa.Builtin); ok {
		return b.Name()
	}
	return ""
}

// FieldID identifies a struct field by (origin named type, field name).
type FieldID struct {
	Type  string // "pkgpath.TypeName" ("" for unnamed structs)
	Field string
}

func (f FieldID) String() string {
	t := f.Type
	if i := strings.LastIndex(t, "/"); i >= 0 {
		t = t[i+1:]
	}
	return t + "." + f.Field
}

func namedKey(t types.Type) string {
	t = deref(t)
	switch n := t.(type) {
	case *types.Named:
		o := n.Origin().Obj()
		if o.Pkg() == nil {
			return o.Name()
		}
		return o.Pkg().Path() + "." + o.Name()
	}
	return ""
}

func structOf(t types.Type) *types.Struct {
	t = deref(t)
	s, _ := t.Underlying().(*types.Struct)
	return s
}

// fieldIDOfAddr returns the FieldID for a FieldAddr instruction.
func fieldIDOfAddr(fa *ssa.FieldAddr) FieldID {
	st := structOf(fa.X.Type())
	name := "?"
	if st != nil && fa.Field < st.NumFields() {
		name = st.Field(fa.Field).Name()
	}
	return FieldID{Type: namedKey(fa.X.Type()), Field: name}
}

func fieldIDOfField(f *ssa.Field) FieldID {
	st := structOf(f.X.Type())
	name := "?"
	if st != nil && f.Field < st.NumFields() {
		name = st.Field(f.Field).Name()
	}
	return FieldID{Type: namedKey(f.X.Type()), Field: name}
}

// fieldOfValue chases v through loads to the field it was read from:
// *(&x.f) -> (T,f). ok=false if v does not come straight from a field.
func fieldOfValue(v ssa.Value) (FieldID, *ssa.FieldAddr, bool) {
	switch x := v.(type) {
	case *ssa.FieldAddr:
		return fieldIDOfAddr(x), x, true
	case *ssa.UnOp:
		if x.Op == token.MUL {
			if fa, ok := x.X.(*ssa.FieldAddr); ok {
				return fieldIDOfAddr(fa), fa, true
			}
		}
	case *ssa.ChangeType:
		return fieldOfValue(x.X)
	}
	return FieldID{}, nil, false
}

// resolveFreeVar maps a closure's free variable to the value bound in the
// enclosing function (through MakeClosure), or nil.
func resolveFreeVar(fv *ssa.FreeVar) ssa.Value {
	fn := fv.Parent()
	par := fn.Parent()
	if par == nil {
		return nil
	}
	idx := -1
	for i, f := range fn.FreeVars {
		if f == fv {
			idx = i
		}
	}
	if idx < 0 {
		return nil
	}
	for _, b := range par.Blocks {
		for _, in := range b.Instrs {
			if mc, ok := in.(*ssa.MakeClosure); ok && mc.Fn == fn && idx < len(mc.Bindings) {
				return mc.Bindings[idx]
			}
		}
	}
	return nil
}

// refs returns the referrers of v (nil-safe).
func refs(v ssa.Value) []ssa.Instruction {
	r := v.Referrers()
	if r == nil {
		return nil
	}
	return *r
}

// instrPos returns the best source position for an instruction.
func instrPos(in ssa.Instruction) token.Pos {
	if in.Pos().IsValid() {
		return in.Pos()
	}
	if v, ok := in.(ssa.Value); ok {
		for _, r := range refs(v) {
			if r.Pos().IsValid() {
				return r.Pos()
			}
		}
	}
	// fall back to any positioned instruction in the block
	if b := in.Block(); b != nil {
		for _, j := range b.Instrs {
			if j.Pos().IsValid() {
				return j.Pos()
			}
		}
	}
	if f := in.Parent(); f != nil {
		return f.Pos()
	}
	return token.NoPos
}

// allInstrs iterates over all instructions of fn.
func allInstrs(fn *ssa.Function, f func(ssa.Instruction)) {
	for _, b := range fn.Blocks {
		for _, in := range b.Instrs {
			f(in)
		}
	}
}

// isNilConst reports whether v is the nil constant.
func isNilConst(v ssa.Value) bool {
	c, ok := v.(*ssa.Const)
	return ok && c.IsNil()
}

// edgeDominates reports whether the CFG edge from->to dominates block b, i.e.
// every path to b passes through that edge. Holds when `to` has from as its
// only predecessor and dominates b.
func edgeDominates(from, to, b *ssa.BasicBlock) bool {
	if len(to.Preds) != 1 || to.Preds[0] != from {
		return false
	}
	return to.Dominates(b)
}

// reachableFrom computes the set of blocks reachable from start (inclusive),
// not passing through blocks in stop.
func reachableFrom(start *ssa.BasicBlock, stop map[*ssa.BasicBlock]bool) map[*ssa.BasicBlock]bool {
	seen := map[*ssa.BasicBlock]bool{}
	var walk func(b *ssa.BasicBlock)
	walk = func(b *ssa.BasicBlock) {
		if seen[b] || stop[b] {
			return
		}
		seen[b] = true
		for _, s := range b.Succs {
			walk(s)
		}
	}
	walk(start)
	return seen
}

// instrIndex returns the index of in within its block.
func instrIndex(in ssa.Instruction) int {
	for i, j := range in.Block().Instrs {
		if j == in {
			return i
		}
	}
	return -1
}

// instrDominates reports whether a dominates b (same function).
func instrDominates(a, b ssa.Instruction) bool {
	if a.Block() == b.Block() {
		return instrIndex(a) < instrIndex(b)
	}
	return a.Block().Dominates(b.Block())
}

// isExported reports whether fn is callable from outside its package:
// exported name, and for methods any receiver (unexported receiver types are
// routinely handed out behind interfaces).
func isExportedFunc(fn *ssa.Function) bool {
	if fn.Parent() != nil {
		return false
	}
	obj := fn.Object()
	if obj == nil {
		return false
	}
	return obj.Exported()
}

// unspill: with defers, go/ssa spills results into local slots and reloads
// them after rundefers. Given a value, returns the values that may have been
// stored into the slot it was loaded from (or the value itself).
func unspill(v ssa.Value) []ssa.Value {
	u, ok := v.(*ssa.UnOp)
	if !ok || u.Op != token.MUL {
		return []ssa.Value{v}
	}
	a, ok := u.X.(*ssa.Alloc)
	if !ok {
		return []ssa.Value{v}
	}
	var out []ssa.Value
	for _, r := range refs(a) {
		if st, ok := r.(*ssa.Store); ok && st.Addr == a {
			out = append(out, st.Val)
		}
	}
	if len(out) == 0 {
		return []ssa.Value{v}
	}
	return out
}
