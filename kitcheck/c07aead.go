package main

// C07.N5-aead-nonce — cipher.AEAD Seal/Open of the standard constructions
// panic on a nonce of the wrong length. Every Seal/Open in scope whose nonce
// is caller-supplied must be preceded by a length test that belongs to THAT
// AEAD: either len(nonce) == aead.NonceSize() on the same value, or — when the
// AEAD comes out of a module function together with an error — on every return
// of that function that can carry a nil error the constructor's nonce size
// (chacha20poly1305.New 12, NewX 24, cipher.NewGCM 12) has been established
// for the nonce that was handed in.

import (
	"fmt"
	"go/token"
	"go/types"

	"golang.org/x/tools/go/ssa"
)

const c07N5n = "C07.N5-aead-nonce"

var c07AEADCtors = map[string]int64{
	"golang.org/x/crypto/chacha20poly1305.New":  12,
	"golang.org/x/crypto/chacha20poly1305.NewX": 24,
	"crypto/cipher.NewGCM":                      12,
}

func c07IsAEADMethod(ci ssa.CallInstruction, name string) bool {
	cc := ci.Common()
	if !cc.IsInvoke() || cc.Method == nil || cc.Method.Name() != name {
		return false
	}
	return namedKey(cc.Value.Type()) == "crypto/cipher.AEAD"
}

// c07EdgeConds: conditions known on the edge from -> to.
func c07EdgeConds(from, to *ssa.BasicBlock) []DomCond {
	out := domConds(from)
	if len(from.Instrs) > 0 && len(from.Succs) == 2 && from.Succs[0] != from.Succs[1] {
		if ifi, ok := from.Instrs[len(from.Instrs)-1].(*ssa.If); ok {
			out = append(out, DomCond{ifi, from.Succs[0] == to})
		}
	}
	return out
}

func c07CondsSayNonNil(conds []DomCond, v ssa.Value) bool {
	for _, dc := range conds {
		if cmp, ok := decodeCond(dc.If.Cond, dc.Branch); ok && cmp.Op == token.NEQ {
			x, y := c07LoadedFrom(cmp.X), c07LoadedFrom(cmp.Y)
			if (x == v && isNilConst(y)) || (y == v && isNilConst(x)) {
				return true
			}
		}
	}
	return false
}

func c07CondsSayLen(conds []DomCond, v ssa.Value) (int64, bool) {
	for _, dc := range conds {
		cmp, ok := decodeCond(dc.If.Cond, dc.Branch)
		if !ok || cmp.Op != token.EQL {
			continue
		}
		x, y := cmp.X, cmp.Y
		if _, isC := c07ConstInt(x); isC {
			x, y = y, x
		}
		if a, ok := c07LenArg(c07Settle(x)); ok && c07SameLen(a) == c07SameLen(v) {
			if c, ok := c07ConstInt(y); ok {
				return c, true
			}
		}
	}
	return 0, false
}

// aeadCtorSize: the nonce size of the constructor that produced v.
func (st *c07State) aeadCtorSize(v ssa.Value) (int64, string, bool) {
	v = c07Settle(v)
	var call *ssa.Call
	switch x := v.(type) {
	case *ssa.Extract:
		call, _ = x.Tuple.(*ssa.Call)
	case *ssa.Call:
		call = x
	}
	if call == nil {
		return 0, "", false
	}
	ext := st.extCallees(call)
	if len(ext) != 1 {
		return 0, "", false
	}
	n, ok := c07AEADCtors[ext[0]]
	return n, ext[0], ok
}

func (st *c07State) checkAEADNonce() {
	p, r := st.p, st.r
	for _, fn := range st.sc.List {
		name := FuncName(p, fn)
		k := 0
		allInstrs(fn, func(in ssa.Instruction) {
			ci, ok := in.(*ssa.Call)
			if !ok {
				return
			}
			method := ""
			for _, m := range []string{"Seal", "Open"} {
				if c07IsAEADMethod(ci, m) {
					method = m
				}
			}
			if method == "" || len(ci.Call.Args) < 2 {
				return
			}
			k++
			construct := fmt.Sprintf("%s AEAD.%s nonce #%d", name, method, k)
			pos := p.Pos(instrPos(ci))
			recv, nonce := ci.Call.Value, ci.Call.Args[1]
			verdict, msg := st.aeadNonceVerdict(fn, ci, recv, nonce)
			switch verdict {
			case "ok":
				r.OK(c07N5n, construct, pos, msg)
			case "violation":
				r.Violation(c07N5n, construct, pos, msg, "input: a nonce of the length of the sibling variant (12 <-> 24 bytes)")
			default:
				r.Trivial(c07N5n, construct, pos, "unclassified: "+msg)
				st.unclassified(c07N5n, construct, msg)
			}
		})
	}
}

func (st *c07State) aeadNonceVerdict(fn *ssa.Function, site *ssa.Call, recv, nonce ssa.Value) (string, string) {
	p := st.p
	blk := site.Block()
	// (a) len(nonce) == recv.NonceSize() / a constant that is the constructor's size
	for _, dc := range domConds(blk) {
		cmp, ok := decodeCond(dc.If.Cond, dc.Branch)
		if !ok || cmp.Op != token.EQL {
			continue
		}
		for _, pr := range [][2]ssa.Value{{cmp.X, cmp.Y}, {cmp.Y, cmp.X}} {
			a, ok := c07LenArg(c07Settle(pr[0]))
			if !ok || c07SameLen(a) != c07SameLen(nonce) {
				continue
			}
			if ns, ok := c07Settle(pr[1]).(*ssa.Call); ok && c07IsAEADMethod(ns, "NonceSize") && c07Settle(ns.Call.Value) == c07Settle(recv) {
				return "ok", "len(nonce) == aead.NonceSize() of the same AEAD holds on every path to the call"
			}
			if c, ok := c07ConstInt(pr[1]); ok {
				if n, ctor, ok := st.aeadCtorSize(recv); ok {
					if n == c {
						return "ok", fmt.Sprintf("len(nonce) == %d, the nonce size of %s, holds on every path to the call", c, ctor)
					}
					return "violation", fmt.Sprintf("the nonce is checked against %d bytes but the AEAD built by %s takes %d: its Seal/Open panics on the accepted length instead of returning an error", c, ctor, n)
				}
			}
		}
	}
	// (b) the AEAD comes out of a module function together with an error
	ex, ok := c07Settle(recv).(*ssa.Extract)
	if !ok {
		return "", "AEAD of unknown origin"
	}
	call, ok := ex.Tuple.(*ssa.Call)
	if !ok {
		return "", "AEAD of unknown origin"
	}
	g := st.eng.calleeOf(call)
	if g == nil || !p.InModule(g) || g.Blocks == nil {
		return "", "AEAD returned by a function the engine does not read"
	}
	res := g.Signature.Results()
	ej := -1
	for j := 0; j < res.Len(); j++ {
		if types.Identical(res.At(j).Type(), types.Universe.Lookup("error").Type()) {
			ej = j
		}
	}
	if ej < 0 || ej == ex.Index {
		return "", "the function that returns the AEAD has no error result"
	}
	var errEx ssa.Value
	for _, rf := range refs(call) {
		if e2, ok := rf.(*ssa.Extract); ok && e2.Index == ej {
			errEx = e2
		}
	}
	if errEx == nil || !errKnownNil(blk, errEx) {
		return "", "the error returned with the AEAD is not known to be nil at the call"
	}
	// which parameter of g receives the nonce?
	shift := 0
	if ts := st.eng.fv.callTargets(call); len(ts) == 1 {
		shift = ts[0].Shift
	}
	var par *ssa.Parameter
	for i, a := range call.Call.Args {
		if c07SameLen(a) == c07SameLen(nonce) && i+shift < len(g.Params) {
			par = g.Params[i+shift]
		}
	}
	if par == nil {
		return "", "the nonce is not handed to the function that builds the AEAD"
	}
	type miss struct {
		ctor string
		size int64
		pos  string
	}
	var missing []miss
	nCases := 0
	for _, b := range g.Blocks {
		ret, ok := b.Instrs[len(b.Instrs)-1].(*ssa.Return)
		if !ok || len(ret.Results) <= ej || len(ret.Results) <= ex.Index {
			continue
		}
		av, ev := ret.Results[ex.Index], ret.Results[ej]
		if isNilConst(av) {
			continue
		}
		type cs struct {
			a, e  ssa.Value
			conds []DomCond
		}
		var cases []cs
		if phi, ok := ev.(*ssa.Phi); ok && phi.Block() == b {
			for i, ed := range phi.Edges {
				a := av
				if aphi, ok := av.(*ssa.Phi); ok && aphi.Block() == b {
					a = aphi.Edges[i]
				}
				cases = append(cases, cs{a, ed, c07EdgeConds(b.Preds[i], b)})
			}
		} else if aphi, ok := av.(*ssa.Phi); ok && aphi.Block() == b {
			for i, ed := range aphi.Edges {
				cases = append(cases, cs{ed, ev, c07EdgeConds(b.Preds[i], b)})
			}
		} else if len(b.Preds) > 1 {
			// several ways into the return (a && / || chain): one case per edge
			for _, pr := range b.Preds {
				cases = append(cases, cs{av, ev, c07EdgeConds(pr, b)})
			}
		} else {
			cases = append(cases, cs{av, ev, domConds(b)})
		}
		for _, c := range cases {
			if isNilConst(c.a) || c07CertainlyNonNil(c.e) || c07CondsSayNonNil(c.conds, c07LoadedFrom(c.e)) {
				continue
			}
			size, ctor, ok := st.aeadCtorSize(c.a)
			if !ok {
				return "", "an AEAD constructor the engine has no nonce size for (or chosen through a table)"
			}
			nCases++
			if got, ok := c07CondsSayLen(c.conds, par); ok && got == size {
				continue
			}
			// is this path really one on which the constructor succeeds? A condition
			// on the constructor's own arguments (the key) may decide that — the
			// engine does not know the constructor's error behaviour
			if cc, ok := c07CtorCall(c.a); ok {
				for _, dc := range c.conds {
					if c07Depends(dc.If.Cond, cc, 4) {
						continue // a test of the constructor's own results (err == nil)
					}
					for _, a := range cc.Call.Args {
						if c07Depends(dc.If.Cond, c07SameLen(a), 5) {
							return "", "whether the constructor succeeds on the path without the nonce test depends on a condition on its arguments"
						}
					}
				}
			}
			if len(st.eng.opaqueGuards(g, b, par, []c07flowKey{{kind: c07Len, v: par}})) > 0 {
				return "", "the nonce is tested in " + FuncName(p, g) + " by a condition the engine cannot interpret"
			}
			missing = append(missing, miss{ctor, size, p.Pos(instrPos(ret))})
		}
	}
	if nCases == 0 {
		return "", "no successful return of " + FuncName(p, g) + " recognised"
	}
	if len(missing) == 0 {
		return "ok", "every return of " + FuncName(p, g) + " that can carry a nil error has established len(nonce) == the nonce size of the constructor it used"
	}
	// is the length established by the caller chain instead?
	m := missing[0]
	allSame := true
	for _, x := range missing {
		if x.size != m.size {
			allSame = false
		}
	}
	root := c07SameLen(nonce)
	st.eng.ignoreDep = call
	defer func() { st.eng.ignoreDep = nil }()
	if allSame {
		switch v, chain := st.lenFree(fn, root, blk, 0, m.size); v {
		case "checked":
			return "ok", "len(nonce) == " + fmt.Sprint(m.size) + " is established by " + chain
		case "free":
		default:
			return "", "the nonce is not traceable to a caller-supplied parameter"
		}
	} else if v, _ := st.lenFree(fn, root, blk, 0, -1); v != "free" {
		return "", "the nonce is not traceable to a caller-supplied parameter"
	}
	return "violation", fmt.Sprintf("%s can return the AEAD built by %s (nonce size %d) with a nil error without having established len(nonce) == %d (return at %s), and no such test lies between the caller-supplied nonce and this call: a nonce of another accepted length (the sibling variant's) makes Seal/Open panic (\"bad nonce length\") instead of returning an error",
		FuncName(p, g), m.ctor, m.size, m.size, m.pos)
}

func c07CtorCall(v ssa.Value) (*ssa.Call, bool) {
	switch x := c07Settle(v).(type) {
	case *ssa.Extract:
		c, ok := x.Tuple.(*ssa.Call)
		return c, ok
	case *ssa.Call:
		return x, true
	}
	return nil, false
}
