package main

// C14 — ring.Buffered bookkeeping rules. Everything is resolved by ROLE:
//
//   - the ring field       = the field of Buffered whose type is *Ring[...]
//   - the count field      = the field Buffered.Len returns (fallback: the int
//                            field AppendBack adds 1 to)
//   - immutable fields     = fields only stored on freshly allocated objects
//                            (configuration such as the buffer size)
//   - the Ring API         = New and the methods of Ring (exported anchors);
//                            every other function of the package is a helper
//                            of Buffered and is looked through (callee bodies
//                            are treated as inlined, parameters are resolved
//                            through the call sites).

import (
	"go/token"
	"go/types"
	"sort"
	"strings"

	"golang.org/x/tools/go/ssa"
)

type c14Buf struct {
	c  *Ctx
	p  *Prog
	r  *Report
	bt string // namedKey of Buffered
	// own: Buffered and the named structs of the package it groups its state
	// in (by value, by pointer or embedded); byValue[T] = structs T contains by value
	own     map[string]bool
	byValue map[string]map[string]bool
	rt      string // namedKey of Ring
	fns     []*ssa.Function
	// helper universe: package functions that are not part of the Ring API
	helper map[*ssa.Function]bool
	sites  map[*ssa.Function][]ssa.CallInstruction
	ringF  FieldID
	endF   FieldID
	fields []FieldID
	// stores per field over the whole package
	stores map[FieldID][]*ssa.Store
	// unknownShape: a classifier met a store whose value has a shape it does not
	// model (as opposed to a value that is positively wrong)
	unknownShape string
	// viaValue: functions that are (also) invoked through a function value;
	// their parameters are not resolved through the call sites (a bound
	// receiver shifts the argument list)
	viaValue map[*ssa.Function]bool
}

func c14Buffered(c *Ctx) {
	b := &c14Buf{c: c, p: c.P, r: c.R}
	p := c.P
	named := p.Named("ring", "Buffered")
	ringNamed := p.Named("ring", "Ring")
	b.bt = namedKey(named)
	b.rt = namedKey(ringNamed)
	if _, ok := named.Underlying().(*types.Struct); !ok {
		undecided("ring.Buffered is no longer a struct")
	}
	var ringFields []FieldID
	b.own = map[string]bool{}
	b.byValue = map[string]map[string]bool{}
	var walkT func(n *types.Named)
	walkT = func(n *types.Named) {
		key := namedKey(n)
		if b.own[key] {
			return
		}
		b.own[key] = true
		b.byValue[key] = map[string]bool{}
		st, ok := n.Underlying().(*types.Struct)
		if !ok {
			return
		}
		for i := 0; i < st.NumFields(); i++ {
			f := st.Field(i)
			id := FieldID{key, f.Name()}
			ft := f.Type()
			isPtr := false
			if pt, ok := ft.Underlying().(*types.Pointer); ok {
				ft, isPtr = pt.Elem(), true
			}
			if isPtr && namedKey(ft) == b.rt {
				b.fields = append(b.fields, id)
				ringFields = append(ringFields, id)
				continue
			}
			if sub, ok := types.Unalias(ft).(*types.Named); ok && sub.Obj().Pkg() == named.Obj().Pkg() && namedKey(sub) != b.rt {
				if _, isStruct := sub.Underlying().(*types.Struct); isStruct {
					// state grouped in a sub-struct: its fields play the roles
					walkT(sub.Origin())
					if !isPtr {
						b.byValue[key][namedKey(sub)] = true
						for k := range b.byValue[namedKey(sub)] {
							b.byValue[key][k] = true
						}
					} else {
						b.fields = append(b.fields, id)
					}
					continue
				}
			}
			b.fields = append(b.fields, id)
		}
	}
	walkT(named.Origin())
	if len(ringFields) != 1 {
		undecided("ring.Buffered has %d fields of type *Ring: the head field cannot be resolved by role", len(ringFields))
	}
	b.ringF = ringFields[0]
	b.fns = p.FuncsOfPkg("ring")
	b.helper = map[*ssa.Function]bool{}
	b.sites = map[*ssa.Function][]ssa.CallInstruction{}
	b.stores = map[FieldID][]*ssa.Store{}
	for _, fn := range b.fns {
		if !b.isRingAPIFunc(fn) && fn.Name() != "init" {
			b.helper[fn] = true
		}
		allInstrs(fn, func(in ssa.Instruction) {
			if ci, ok := in.(ssa.CallInstruction); ok {
				if cal := staticCallee(ci); cal != nil {
					b.sites[cal] = append(b.sites[cal], ci)
				}
			}
			if s, ok := in.(*ssa.Store); ok {
				if fa, ok := s.Addr.(*ssa.FieldAddr); ok {
					if id := fieldIDOfAddr(fa); b.own[id.Type] {
						b.stores[id] = append(b.stores[id], s)
					}
				}
			}
		})
	}
	// calls through function values with visible targets are call sites too
	b.viaValue = map[*ssa.Function]bool{}
	for _, fn := range b.fns {
		allInstrs(fn, func(in ssa.Instruction) {
			ci, ok := in.(ssa.CallInstruction)
			if !ok || staticCallee(ci) != nil {
				return
			}
			if ts, known := b.callees(ci); known {
				for _, t := range ts {
					b.sites[t] = append(b.sites[t], ci)
					b.viaValue[t] = true
				}
			}
		})
	}
	app := p.Func("ring", "Buffered.AppendBack")
	rem := p.Func("ring", "Buffered.RemoveFront")
	lenFn := p.Func("ring", "Buffered.Len")
	nb := p.Func("ring", "NewBuffered")
	_ = nb

	// ---- the count field, by role
	lenField, lenOK := b.returnsField(lenFn)
	if lenOK {
		b.endF = lenField
	} else {
		// fallback: the unique int field AppendBack adds 1 to
		var cands []FieldID
		for _, id := range b.fields {
			if id == b.ringF {
				continue
			}
			if set := b.pathCount(app, b.deltaClassifier(id, 1), map[*ssa.Function]bool{}); set&(1<<1) != 0 {
				cands = append(cands, id)
			}
		}
		if len(cands) != 1 {
			undecided("the element-count field of ring.Buffered cannot be resolved by role (Len does not return a field and AppendBack increments %d fields)", len(cands))
		}
		b.endF = cands[0]
	}
	r := b.r
	r.Stats["buffered_roles"] = "head=" + b.ringF.String() + " count=" + b.endF.String()

	// ---- count rules
	b.unknownShape = ""
	b.checkOnce(b.pathCount(app, b.deltaClassifier(b.endF, 1), map[*ssa.Function]bool{}), "ring.Buffered.AppendBack end", p.Pos(app.Pos()),
		"the count field is incremented exactly once on every path (helpers followed)", "AppendBack does not count the appended element exactly once (Len and the position of the next element go wrong)")
	b.checkOnce(b.pathCount(rem, b.deltaClassifier(b.endF, -1), map[*ssa.Function]bool{}), "ring.Buffered.RemoveFront end", p.Pos(rem.Pos()),
		"the count field is decremented exactly once on every path (helpers followed)", "RemoveFront does not count the removed element out exactly once")
	// head advance: on every path exactly one store to the head field, of Next(head) (or Move(head, 1))
	headSet := b.pathCount(rem, func(in ssa.Instruction) int {
		st, ok := in.(*ssa.Store)
		if !ok {
			return 0
		}
		fa, ok := st.Addr.(*ssa.FieldAddr)
		if !ok || fieldIDOfAddr(fa) != b.ringF {
			return 0
		}
		for _, v := range b.origins(st.Val, 0) {
			call, ok := v.(*ssa.Call)
			if !ok || staticCallee(call) == nil || !b.isRingAPIFunc(staticCallee(call)) {
				if id, _, isField := fieldOfValue(v); !(isField && id == b.ringF) && !isNilConst(v) {
					b.unknownShape = "the value stored into the head field at " + b.p.Pos(instrPos(st)) + " is not the result of a Ring method"
				}
				return 99
			}
			switch {
			case b.isRingAPICall(call, "Next") && len(call.Call.Args) == 1:
			case b.isRingAPICall(call, "Move") && len(call.Call.Args) == 2 && c14ConstIs(call.Call.Args[1], 1):
			default:
				return 99
			}
			if !b.isLoadOf(call.Call.Args[0], b.ringF) {
				return 99
			}
		}
		return 1
	}, map[*ssa.Function]bool{})
	b.checkOnce(headSet, "ring.Buffered.RemoveFront head", p.Pos(rem.Pos()), "head advances by exactly one Next() on every path", "RemoveFront does not advance the head of the ring by exactly one element")
	// Len returns the count field
	okLen := lenOK && lenField == b.endF
	r.Check(okLen, "C14.buffered-count", "ring.Buffered.Len", p.Pos(lenFn.Pos()), "Len returns the count field", "Len no longer returns the element count")

	// ---- the vacated slot is cleared (slots outside the live window stay zero)
	b.checkVacate(rem, p.Func("ring", "Buffered.Front"))

	// ---- Range follows the count
	b.checkRangeCount(p.Func("ring", "Buffered.Range"))

	// ---- growth increment >= 1
	b.checkGrowth(app)

	// ---- capacity decisions
	for _, spec := range []struct {
		fn            *ssa.Function
		callee, other string
		otherFn       *ssa.Function
	}{{app, "Link", "Unlink", rem}, {rem, "Unlink", "Link", app}} {
		b.checkDecision(spec.fn, spec.callee, spec.otherFn, spec.other)
	}
}

// isRingAPIFunc: fn is New or a method of Ring (the container/ring port).
func (b *c14Buf) isRingAPIFunc(fn *ssa.Function) bool {
	fn = origin(fn)
	for fn.Parent() != nil {
		fn = fn.Parent()
	}
	if recv := fn.Signature.Recv(); recv != nil {
		return namedKey(recv.Type()) == b.rt
	}
	// plain function: part of the Ring API if it returns *Ring and takes no Buffered
	res := fn.Signature.Results()
	if res.Len() == 1 {
		if pt, ok := res.At(0).Type().Underlying().(*types.Pointer); ok && namedKey(pt.Elem()) == b.rt && fn.Object() != nil && fn.Object().Exported() {
			return true
		}
	}
	return false
}

func (b *c14Buf) isRingAPICall(call ssa.CallInstruction, name string) bool {
	cal := staticCallee(call)
	if cal == nil || !b.isRingAPIFunc(cal) {
		return false
	}
	return cal.Name() == name
}

func c14ConstIs(v ssa.Value, k int64) bool {
	c, ok := v.(*ssa.Const)
	return ok && c.Value != nil && c.Value.Kind().String() == "Int" && c.Int64() == k
}

// origins expands v through phis, helper parameters (call-site arguments),
// helper calls (returned values), type changes and result spills to the set of
// values it may originate from.
func (b *c14Buf) origins(v ssa.Value, depth int) []ssa.Value {
	if depth > 8 {
		return []ssa.Value{v}
	}
	switch x := v.(type) {
	case *ssa.ChangeType:
		return b.origins(x.X, depth+1)
	case *ssa.Phi:
		var out []ssa.Value
		for _, e := range x.Edges {
			if e == v {
				continue
			}
			out = append(out, b.origins(e, depth+1)...)
		}
		return out
	case *ssa.Parameter:
		fn := x.Parent()
		if !b.helper[fn] || isExportedFunc(fn) && fn.Signature.Recv() == nil {
			return []ssa.Value{v}
		}
		idx := -1
		for i, pa := range fn.Params {
			if pa == x {
				idx = i
			}
		}
		sites := b.sites[fn]
		if idx < 0 || len(sites) == 0 || (fn.Object() != nil && fn.Object().Exported()) || b.viaValue[fn] {
			return []ssa.Value{v}
		}
		var out []ssa.Value
		for _, s := range sites {
			args := s.Common().Args
			if idx >= len(args) {
				return []ssa.Value{v}
			}
			out = append(out, b.origins(args[idx], depth+1)...)
		}
		return out
	case *ssa.Call:
		cal := staticCallee(x)
		if cal == nil && depth < 4 && builtinName(x) == "" && !x.Call.IsInvoke() {
			if _, isParam := x.Call.Value.(*ssa.Parameter); !isParam {
				if ts, known := b.funcTargets(x.Call.Value, depth+1); known && len(ts) == 1 {
					cal = ts[0]
				}
			}
		}
		if cal == nil || !b.helper[cal] || len(cal.Blocks) == 0 || cal.Signature.Results().Len() != 1 {
			return []ssa.Value{v}
		}
		var out []ssa.Value
		allInstrs(cal, func(in ssa.Instruction) {
			if ret, ok := in.(*ssa.Return); ok && len(ret.Results) == 1 {
				for _, u := range unspill(ret.Results[0]) {
					out = append(out, b.origins(u, depth+1)...)
				}
			}
		})
		if len(out) == 0 {
			return []ssa.Value{v}
		}
		return out
	case *ssa.UnOp:
		if x.Op == token.MUL {
			if _, ok := x.X.(*ssa.Alloc); ok {
				us := unspill(x)
				if len(us) == 1 && us[0] == v {
					return []ssa.Value{v}
				}
				var out []ssa.Value
				for _, u := range us {
					out = append(out, b.origins(u, depth+1)...)
				}
				return out
			}
		}
	}
	return []ssa.Value{v}
}

// isLoadOf: every origin of v is a load of field f.
func (b *c14Buf) isLoadOf(v ssa.Value, f FieldID) bool {
	os := b.origins(v, 0)
	if len(os) == 0 {
		return false
	}
	for _, o := range os {
		if id, _, ok := fieldOfValue(o); !ok || id != f {
			return false
		}
		if _, isAddr := o.(*ssa.FieldAddr); isAddr {
			return false
		}
	}
	return true
}

// returnsField: every return of fn yields a load of one and the same Buffered field.
func (b *c14Buf) returnsField(fn *ssa.Function) (FieldID, bool) {
	var got FieldID
	n, ok := 0, true
	allInstrs(fn, func(in ssa.Instruction) {
		ret, isRet := in.(*ssa.Return)
		if !isRet {
			return
		}
		if len(ret.Results) != 1 {
			ok = false
			return
		}
		for _, u := range unspill(ret.Results[0]) {
			for _, o := range b.origins(u, 0) {
				id, _, isField := fieldOfValue(o)
				if _, isAddr := o.(*ssa.FieldAddr); !isField || isAddr || !b.own[id.Type] {
					ok = false
					return
				}
				if n > 0 && id != got {
					ok = false
				}
				got = id
				n++
			}
		}
	})
	return got, ok && n > 0
}

// deltaClassifier: classifies stores to field f: 1 = `f = f + delta` (delta = ±1), 99 = any other store to f.
func (b *c14Buf) deltaClassifier(f FieldID, delta int) func(ssa.Instruction) int {
	return func(in ssa.Instruction) int {
		st, ok := in.(*ssa.Store)
		if !ok {
			return 0
		}
		fa, ok := st.Addr.(*ssa.FieldAddr)
		if !ok || fieldIDOfAddr(fa) != f {
			return 0
		}
		if isFreshBase(fa.X) {
			return 0 // initialisation of a new object
		}
		for _, o := range b.origins(st.Val, 0) {
			d, ok := b.offsetFrom(o, f, 0)
			if !ok {
				if _, isConst := o.(*ssa.Const); !isConst {
					b.unknownShape = "the value stored into " + f.String() + " at " + b.p.Pos(instrPos(st)) + " is not of the form " + f.Field + " ± constant"
				}
				return 99
			}
			if d != int64(delta) {
				return 99
			}
		}
		return 1
	}
}

// checkOnce records the exactly-once verdict: OK, VIOLATION, or — when the
// only problem is a stored value of an unmodelled shape — UNDECIDED.
func (b *c14Buf) checkOnce(set uint64, construct, pos, okMsg, badMsg string) {
	switch {
	case set == 1<<1:
		b.r.OK("C14.buffered-count", construct, pos, okMsg)
	case b.unknownShape != "" && set&(1<<3) != 0 && set&^(1<<3|1<<1) == 0:
		b.r.Undecide("C14.buffered-count %s: %s", construct, b.unknownShape)
	default:
		b.r.Violation("C14.buffered-count", construct, pos, badMsg)
	}
	b.unknownShape = ""
}

// offsetFrom: v == load(f) + k for a constant k.
func (b *c14Buf) offsetFrom(v ssa.Value, f FieldID, depth int) (int64, bool) {
	if depth > 6 {
		return 0, false
	}
	if b.isLoadOf(v, f) {
		return 0, true
	}
	bo, ok := v.(*ssa.BinOp)
	if !ok {
		return 0, false
	}
	kOf := func(x ssa.Value) (int64, bool) {
		c, ok := x.(*ssa.Const)
		if !ok || c.Value == nil {
			return 0, false
		}
		return c.Int64(), true
	}
	switch bo.Op {
	case token.ADD:
		if k, ok := kOf(bo.Y); ok {
			if d, ok := b.offsetFrom(bo.X, f, depth+1); ok {
				return d + k, true
			}
		}
		if k, ok := kOf(bo.X); ok {
			if d, ok := b.offsetFrom(bo.Y, f, depth+1); ok {
				return d + k, true
			}
		}
	case token.SUB:
		if k, ok := kOf(bo.Y); ok {
			if d, ok := b.offsetFrom(bo.X, f, depth+1); ok {
				return d - k, true
			}
		}
	}
	return 0, false
}

// pathCount: the set of abstract counts {0, 1, 2+ (bit 2), bad (bit 3)} of
// instructions classified 1 along the paths through fn, helper callees
// included (call = the callee's own set composed with the caller's state;
// deferred calls are replayed at the exits).
func (b *c14Buf) pathCount(fn *ssa.Function, classify func(ssa.Instruction) int, active map[*ssa.Function]bool) uint64 {
	if active[fn] || len(fn.Blocks) == 0 {
		return 1 << 3
	}
	active[fn] = true
	defer delete(active, fn)
	bump := func(st uint64, d int) uint64 {
		return mapStates(st, func(n int) int {
			if d == 99 || n == 3 {
				return 3
			}
			if n+d >= 2 {
				return 2
			}
			return n + d
		})
	}
	var ff *FlagFlow
	ff = &FlagFlow{Fn: fn, Must: false, Entry: 1 << 0, Transfer: func(in ssa.Instruction, st uint64) uint64 {
		if d := classify(in); d != 0 {
			return bump(st, d)
		}
		ci, ok := in.(ssa.CallInstruction)
		if !ok {
			return st
		}
		if _, isGo := in.(*ssa.Go); isGo {
			return st
		}
		if _, isDefer := in.(*ssa.Defer); isDefer && !ff.Replaying {
			return st
		}
		cals, _ := b.callees(ci)
		var out uint64
		any := false
		for _, cal := range cals {
			if !b.helper[cal] {
				continue
			}
			any = true
			sub := b.pathCount(cal, classify, active)
			for d := 0; d < 4; d++ {
				if sub&(1<<uint(d)) != 0 {
					dd := d
					if d == 3 {
						dd = 99
					}
					out |= bump(st, dd)
				}
			}
		}
		if !any {
			return st
		}
		return out
	}}
	ff.Run()
	var set uint64
	n := 0
	ff.AtReturns(func(ret *ssa.Return, st uint64) {
		n++
		set |= st
	})
	if n == 0 {
		return 1 << 3
	}
	return set
}

// closure: fn and the helper functions it reaches through static calls;
// dyn = number of calls whose target is not known.
func (b *c14Buf) closure(fn *ssa.Function) (fns []*ssa.Function, dyn int) {
	seen := map[*ssa.Function]bool{}
	var walk func(f *ssa.Function)
	walk = func(f *ssa.Function) {
		if seen[f] {
			return
		}
		seen[f] = true
		fns = append(fns, f)
		allInstrs(f, func(in ssa.Instruction) {
			if mc, ok := in.(*ssa.MakeClosure); ok {
				if g, ok := mc.Fn.(*ssa.Function); ok && b.helper[origin(g)] {
					walk(origin(g))
				}
			}
			ci, ok := in.(ssa.CallInstruction)
			if !ok {
				return
			}
			if builtinName(ci) != "" {
				return
			}
			cals, known := b.callees(ci)
			if !known {
				dyn++
				return
			}
			for _, cal := range cals {
				if b.helper[cal] {
					walk(cal)
				}
			}
		})
	}
	walk(fn)
	return fns, dyn
}

// apiCalls: the calls to Ring API function `name` in the closure of fn.
func (b *c14Buf) apiCalls(fn *ssa.Function, name string) (calls []*ssa.Call, dyn int) {
	fns, dyn := b.closure(fn)
	for _, f := range fns {
		allInstrs(f, func(in ssa.Instruction) {
			if call, ok := in.(*ssa.Call); ok && b.isRingAPICall(call, name) {
				calls = append(calls, call)
			}
		})
	}
	return calls, dyn
}

// pointerFieldStoresOutsideAPI: the closure of fn manipulates the link fields of Ring directly.
func (b *c14Buf) ringFieldStores(fn *ssa.Function) bool {
	fns, _ := b.closure(fn)
	found := false
	for _, f := range fns {
		allInstrs(f, func(in ssa.Instruction) {
			if s, ok := in.(*ssa.Store); ok {
				if fa, ok := s.Addr.(*ssa.FieldAddr); ok {
					id := fieldIDOfAddr(fa)
					if id.Type == b.rt {
						if st := structOf(fa.X.Type()); st != nil && fa.Field < st.NumFields() && !st.Field(fa.Field).Exported() {
							found = true
						}
					}
				}
			}
		})
	}
	return found
}

// ---- growth increment

const c14Unknown = int64(-1 << 40)

// c14LB is a lower bound; known=false when the value has a shape the
// analysis does not model (as opposed to a value that is known to be
// unconstrained, such as a parameter of an exported function).
type c14LB struct {
	lo    int64
	known bool
	why   string
}

func (b *c14Buf) checkGrowth(app *ssa.Function) {
	r, p := b.r, b.p
	construct := "ring.Buffered growth increment >= 1"
	links, dyn := b.apiCalls(app, "Link")
	if len(links) == 0 {
		// reported by the Link decision rule
		r.Note("C14.buffered-capacity: no Link call reachable from AppendBack; growth increment not examined")
		return
	}
	bad, unknown := "", ""
	n := 0
	for _, lk := range links {
		if len(lk.Call.Args) != 2 {
			continue
		}
		for _, o := range b.origins(lk.Call.Args[1], 0) {
			nw, ok := o.(*ssa.Call)
			if !ok || !b.isRingAPICall(nw, "New") || len(nw.Call.Args) != 1 {
				unknown = "the ring linked at " + p.Pos(instrPos(lk)) + " is not the result of New(...)"
				continue
			}
			n++
			lb := b.lowerBound(nw.Call.Args[0], nw.Block(), 0)
			switch {
			case !lb.known:
				unknown = "the size passed to New at " + p.Pos(instrPos(nw)) + " has a shape that is not modelled (" + lb.why + ")"
			case lb.lo < 1:
				bad = "the size passed to New at " + p.Pos(instrPos(nw)) + " can be below 1 (" + lb.why + ")"
			}
		}
	}
	_ = dyn
	switch {
	case bad != "":
		r.Violation("C14.buffered-capacity", construct, p.Pos(app.Pos()),
			"the buffer size used for growth can be below 1: AppendBack on a full ring then links New(0) (nil), the ring does not grow, and the next element is written over the front element while Len keeps counting", bad)
	case unknown != "" || n == 0:
		r.Undecide("C14.buffered-capacity: growth increment: %s", unknown)
	default:
		r.OK("C14.buffered-capacity", construct, p.Pos(app.Pos()), "every ring linked on growth is New(k) with k >= 1 (stores to the size field followed)")
	}
}

// lowerBound of the integer value v as seen in block at.
func (b *c14Buf) lowerBound(v ssa.Value, at *ssa.BasicBlock, depth int) c14LB {
	if depth > 10 {
		return c14LB{c14Unknown, false, "too deep"}
	}
	res := b.lowerBound0(v, at, depth)
	// a dominating branch fact about v can only improve the bound
	if at != nil {
		for _, dc := range domConds(at) {
			if k, ok := c14FactLB(dc, v); ok && (k > res.lo || !res.known) {
				res = c14LB{k, true, "guarded by a dominating comparison"}
			}
		}
	}
	return res
}

// c14FactLB: the branch fact dc gives v >= k. The other operand may be any
// value whose own lower bound `other` can establish (nil: constants only).
func c14FactLB(dc DomCond, v ssa.Value, other ...func(ssa.Value) (int64, bool)) (int64, bool) {
	cmp, ok := decodeCond(dc.If.Cond, dc.Branch)
	if !ok {
		return 0, false
	}
	kOf := func(x ssa.Value) (int64, bool) {
		if c, ok := x.(*ssa.Const); ok {
			if c.Value == nil {
				return 0, false
			}
			return c.Int64(), true
		}
		for _, f := range other {
			if k, ok := f(x); ok {
				return k, true
			}
		}
		return 0, false
	}
	if cmp.X == v {
		if k, ok := kOf(cmp.Y); ok {
			switch cmp.Op {
			case token.GEQ:
				return k, true
			case token.GTR:
				return k + 1, true
			case token.EQL:
				return k, true
			}
		}
	}
	if cmp.Y == v {
		if k, ok := kOf(cmp.X); ok {
			switch cmp.Op {
			case token.LEQ: // k <= v
				return k, true
			case token.LSS: // k < v
				return k + 1, true
			case token.EQL:
				return k, true
			}
		}
	}
	return 0, false
}

func (b *c14Buf) lowerBound0(v ssa.Value, at *ssa.BasicBlock, depth int) c14LB {
	switch x := v.(type) {
	case *ssa.Const:
		if x.Value != nil {
			return c14LB{x.Int64(), true, "constant"}
		}
	case *ssa.ChangeType:
		return b.lowerBound(x.X, at, depth+1)
	case *ssa.Convert:
		return c14LB{c14Unknown, false, "conversion"}
	case *ssa.BinOp:
		kOf := func(y ssa.Value) (int64, bool) {
			c, ok := y.(*ssa.Const)
			if !ok || c.Value == nil {
				return 0, false
			}
			return c.Int64(), true
		}
		if x.Op == token.ADD {
			if k, ok := kOf(x.Y); ok {
				if lb := b.lowerBound(x.X, at, depth+1); lb.known {
					return c14LB{lb.lo + k, true, lb.why}
				}
			}
			if k, ok := kOf(x.X); ok {
				if lb := b.lowerBound(x.Y, at, depth+1); lb.known {
					return c14LB{lb.lo + k, true, lb.why}
				}
			}
		}
		if x.Op == token.SUB {
			if k, ok := kOf(x.Y); ok {
				if lb := b.lowerBound(x.X, at, depth+1); lb.known {
					return c14LB{lb.lo - k, true, lb.why}
				}
			}
		}
		return c14LB{c14Unknown, false, "arithmetic " + x.Op.String()}
	case *ssa.Call:
		switch builtinName(x) {
		case "max":
			best := c14LB{c14Unknown, false, "max()"}
			for _, a := range x.Call.Args {
				if lb := b.lowerBound(a, at, depth+1); lb.known && (!best.known || lb.lo > best.lo) {
					best = lb
				}
			}
			// max is at least its largest known argument; unknown arguments cannot lower it
			if best.known && best.lo >= 1 {
				return best
			}
			// all arguments must be known to state a bound below 1
			all := true
			lo := int64(c14Unknown)
			why := ""
			for _, a := range x.Call.Args {
				lb := b.lowerBound(a, at, depth+1)
				if !lb.known {
					all = false
				} else if lb.lo > lo {
					lo, why = lb.lo, lb.why
				}
			}
			if all {
				return c14LB{lo, true, "max of " + why}
			}
			return c14LB{c14Unknown, false, "max() of unmodelled values"}
		case "min":
			lo := int64(1 << 40)
			why := ""
			for _, a := range x.Call.Args {
				lb := b.lowerBound(a, at, depth+1)
				if !lb.known {
					return lb
				}
				if lb.lo < lo {
					lo, why = lb.lo, lb.why
				}
			}
			return c14LB{lo, true, "min of " + why}
		}
		cal := staticCallee(x)
		if cal != nil && b.p.funcSet[cal] && len(cal.Blocks) > 0 && cal.Signature.Results().Len() == 1 {
			lo := int64(1 << 40)
			why := ""
			n := 0
			var res *c14LB
			allInstrs(cal, func(in ssa.Instruction) {
				ret, ok := in.(*ssa.Return)
				if !ok || len(ret.Results) != 1 || res != nil {
					return
				}
				for _, u := range unspill(ret.Results[0]) {
					lb := b.lowerBoundIn(u, ret.Block(), depth+1, x)
					if !lb.known {
						res = &lb
						return
					}
					n++
					if lb.lo < lo {
						lo, why = lb.lo, lb.why
					}
				}
			})
			if res != nil {
				return *res
			}
			if n > 0 {
				return c14LB{lo, true, "result of " + cal.Name() + ": " + why}
			}
		}
		return c14LB{c14Unknown, false, "result of a call that is not modelled"}
	case *ssa.Phi:
		lo := int64(1 << 40)
		why := ""
		for i, ed := range x.Edges {
			if ed == v {
				continue
			}
			pred := x.Block().Preds[i]
			lb := b.lowerBound(ed, pred, depth+1)
			for _, dc := range c14EdgeCond(pred, x.Block()) {
				if k, ok := c14FactLB(dc, ed); ok && (!lb.known || k > lb.lo) {
					lb = c14LB{k, true, "guarded on the incoming edge"}
				}
			}
			if !lb.known {
				return lb
			}
			if lb.lo < lo {
				lo, why = lb.lo, lb.why
			}
		}
		return c14LB{lo, true, why}
	case *ssa.Parameter:
		fn := x.Parent()
		idx := -1
		for i, pa := range fn.Params {
			if pa == x {
				idx = i
			}
		}
		exported := fn.Parent() == nil && fn.Object() != nil && fn.Object().Exported()
		sites := b.sites[origin(fn)]
		if exported || len(sites) == 0 || idx < 0 {
			return c14LB{c14Unknown, true, "parameter " + x.Name() + " of " + fn.Name() + " is not constrained"}
		}
		lo := int64(1 << 40)
		why := ""
		for _, s := range sites {
			args := s.Common().Args
			if idx >= len(args) {
				return c14LB{c14Unknown, false, "call site shape"}
			}
			lb := b.lowerBound(args[idx], s.Block(), depth+1)
			if !lb.known {
				return lb
			}
			if lb.lo < lo {
				lo, why = lb.lo, lb.why
			}
		}
		return c14LB{lo, true, why}
	case *ssa.UnOp:
		if x.Op == token.MUL {
			if id, fa, ok := fieldOfValue(x); ok && b.own[id.Type] {
				_ = fa
				return b.fieldLB(id, depth)
			}
			if _, ok := x.X.(*ssa.Alloc); ok {
				us := unspill(x)
				if !(len(us) == 1 && us[0] == v) {
					lo := int64(1 << 40)
					why := ""
					for _, u := range us {
						var blk *ssa.BasicBlock
						if in, ok := u.(ssa.Instruction); ok {
							blk = in.Block()
						}
						lb := b.lowerBound(u, blk, depth+1)
						if !lb.known {
							return lb
						}
						if lb.lo < lo {
							lo, why = lb.lo, lb.why
						}
					}
					return c14LB{lo, true, why}
				}
			}
		}
	}
	return c14LB{c14Unknown, false, "value of an unmodelled shape"}
}

// lowerBoundIn evaluates v inside a callee for the given call: parameters
// take the bound of the call's arguments unless a dominating fact in the
// callee is better.
func (b *c14Buf) lowerBoundIn(v ssa.Value, at *ssa.BasicBlock, depth int, call *ssa.Call) c14LB {
	if pa, ok := v.(*ssa.Parameter); ok {
		fn := pa.Parent()
		best := c14LB{c14Unknown, false, "parameter"}
		for i, q := range fn.Params {
			if q == pa && i < len(call.Call.Args) {
				best = b.lowerBound(call.Call.Args[i], call.Block(), depth+1)
			}
		}
		other := func(y ssa.Value) (int64, bool) {
			if y == v || depth > 8 {
				return 0, false
			}
			if _, isParam := y.(*ssa.Parameter); !isParam {
				return 0, false
			}
			lb := b.lowerBoundIn(y, nil, depth+2, call)
			return lb.lo, lb.known && lb.lo > c14Unknown
		}
		if at != nil {
			for _, dc := range domConds(at) {
				if k, ok := c14FactLB(dc, v, other); ok && (!best.known || k > best.lo) {
					best = c14LB{k, true, "guarded in " + fn.Name()}
				}
			}
		}
		return best
	}
	if ph, ok := v.(*ssa.Phi); ok {
		lo := int64(1 << 40)
		why := ""
		for i, ed := range ph.Edges {
			pred := ph.Block().Preds[i]
			lb := b.lowerBoundIn(ed, pred, depth+1, call)
			for _, dc := range c14EdgeCond(pred, ph.Block()) {
				if k, ok := c14FactLB(dc, ed); ok && (!lb.known || k > lb.lo) {
					lb = c14LB{k, true, "guarded on the incoming edge"}
				}
			}
			if !lb.known {
				return lb
			}
			if lb.lo < lo {
				lo, why = lb.lo, lb.why
			}
		}
		return c14LB{lo, true, why}
	}
	if c, ok := v.(*ssa.Call); ok && builtinName(c) == "max" {
		best := c14LB{c14Unknown, false, "max()"}
		all := true
		for _, a := range c.Call.Args {
			lb := b.lowerBoundIn(a, at, depth+1, call)
			if !lb.known {
				all = false
				continue
			}
			if !best.known || lb.lo > best.lo {
				best = lb
			}
		}
		if best.known && (best.lo >= 1 || all) {
			return best
		}
		return c14LB{c14Unknown, false, "max() of unmodelled values"}
	}
	return b.lowerBound(v, at, depth)
}

// fieldLB: the minimum of everything ever stored into field f (0 if some
// allocation of Buffered leaves it zero).
func (b *c14Buf) fieldLB(f FieldID, depth int) c14LB {
	lo := int64(1 << 40)
	why := ""
	for _, st := range b.stores[f] {
		lb := b.lowerBound(st.Val, st.Block(), depth+1)
		if !lb.known {
			return c14LB{c14Unknown, false, "a store to " + f.String() + " at " + b.p.Pos(instrPos(st)) + ": " + lb.why}
		}
		if lb.lo < lo {
			lo, why = lb.lo, "stored into "+f.String()+" at "+b.p.Pos(instrPos(st))+": "+lb.why
		}
	}
	// allocations that never store f leave it zero
	for _, fn := range b.fns {
		allInstrs(fn, func(in ssa.Instruction) {
			al, ok := in.(*ssa.Alloc)
			if !ok {
				return
			}
			// an allocation of the struct itself (not of a cell holding a pointer to it)
			pt, ok := al.Type().Underlying().(*types.Pointer)
			if !ok {
				return
			}
			if _, isPtr := pt.Elem().Underlying().(*types.Pointer); isPtr {
				return
			}
			// the allocated struct declares f, or contains the declaring struct by value
			if at := namedKey(pt.Elem()); !b.own[at] || (at != f.Type && !b.byValue[at][f.Type]) {
				return
			}
			stored := false
			for _, st := range b.stores[f] {
				if c14RootBase(st.Addr) == ssa.Value(al) {
					stored = true
				}
			}
			// or the new object is handed to a helper that always stores the field
			for _, ref := range refs(al) {
				if ci, ok := ref.(*ssa.Call); ok {
					if cal := staticCallee(ci); cal != nil && b.helper[cal] && b.storesAlways(cal, f) {
						stored = true
					}
				}
			}
			if !stored && 0 < lo {
				lo, why = 0, f.String()+" is left zero by the allocation at "+b.p.Pos(instrPos(al))
			}
		})
	}
	if lo == 1<<40 {
		return c14LB{0, true, f.String() + " is never stored"}
	}
	return c14LB{lo, true, why}
}

// ---- capacity decisions

// fieldsReadBy: the Buffered fields the value v depends on (helper calls:
// every field their closure reads, plus the arguments).
func (b *c14Buf) fieldsReadBy(v ssa.Value, out map[FieldID]bool, seen map[ssa.Value]bool) {
	if v == nil || seen[v] {
		return
	}
	seen[v] = true
	if id, _, ok := fieldOfValue(v); ok && b.own[id.Type] {
		out[id] = true
		return
	}
	if call, ok := v.(*ssa.Call); ok {
		cals, _ := b.callees(call)
		for _, cal := range cals {
			if !b.helper[cal] {
				continue
			}
			fns, _ := b.closure(cal)
			for _, f := range fns {
				allInstrs(f, func(in ssa.Instruction) {
					if u, ok := in.(*ssa.UnOp); ok && u.Op == token.MUL {
						if id, _, ok := fieldOfValue(u); ok && b.own[id.Type] {
							out[id] = true
						}
					}
				})
			}
		}
	}
	if pa, ok := v.(*ssa.Parameter); ok {
		for _, o := range b.origins(pa, 0) {
			if o != v {
				b.fieldsReadBy(o, out, seen)
			}
		}
		return
	}
	if in, ok := v.(ssa.Instruction); ok {
		for _, op := range in.Operands(nil) {
			b.fieldsReadBy(*op, out, seen)
		}
	}
}

// controlling: the branch conditions that decide whether `in` executes within
// the API method root: dominating conditions in its own function and, for a
// helper, those of every call site up to root.
func (b *c14Buf) controlling(in ssa.Instruction, root *ssa.Function, seen map[*ssa.Function]bool) []ssa.Value {
	var out []ssa.Value
	for _, dc := range domConds(in.Block()) {
		out = append(out, dc.If.Cond)
	}
	fn := in.Parent()
	if fn == root || seen[fn] {
		return out
	}
	seen[fn] = true
	inClosure := map[*ssa.Function]bool{}
	fns, _ := b.closure(root)
	for _, f := range fns {
		inClosure[f] = true
	}
	for _, s := range b.sites[origin(fn)] {
		if inClosure[s.Parent()] {
			out = append(out, b.controlling(s, root, seen)...)
		}
	}
	return out
}

// mutableFields: Buffered fields stored on objects that are not freshly allocated.
func (b *c14Buf) mutable(f FieldID) bool {
	for _, st := range b.stores[f] {
		if !b.isInitStore(st) {
			return true
		}
	}
	return false
}

// isInitStore: the store writes a field of an object that was allocated in
// the same function, or in every caller of the (unexported) helper that
// receives the object as a parameter: part of construction, not a mutation.
func (b *c14Buf) isInitStore(st *ssa.Store) bool {
	fa, ok := st.Addr.(*ssa.FieldAddr)
	if !ok {
		return false
	}
	os := b.origins(fa.X, 0)
	if len(os) == 0 {
		return false
	}
	for _, o := range os {
		if !isFreshBase(o) {
			return false
		}
	}
	return true
}

// storesAlways: every path through helper h stores field f (h's own
// stores or those of helpers it calls).
func (b *c14Buf) storesAlways(h *ssa.Function, f FieldID) bool {
	set := b.pathCount(h, func(in ssa.Instruction) int {
		if st, ok := in.(*ssa.Store); ok {
			if fa, ok := st.Addr.(*ssa.FieldAddr); ok && fieldIDOfAddr(fa) == f {
				return 1
			}
		}
		return 0
	}, map[*ssa.Function]bool{})
	return set&(1<<0) == 0 && set&(1<<3) == 0
}

// maintainedWith: in the closure of root some function stores f (itself or
// through a helper) in, or in a block dominated by, the block where it
// performs the Ring API call `api` (itself or through a helper).
func (b *c14Buf) maintainedWith(root *ssa.Function, f FieldID, api string) bool {
	fns, _ := b.closure(root)
	does := func(g *ssa.Function, pred func(ssa.Instruction) bool) bool {
		gs, _ := b.closure(g)
		found := false
		for _, h := range gs {
			allInstrs(h, func(in ssa.Instruction) {
				if pred(in) {
					found = true
				}
			})
		}
		return found
	}
	isAPI := func(in ssa.Instruction) bool {
		c, ok := in.(*ssa.Call)
		return ok && b.isRingAPICall(c, api)
	}
	isStore := func(in ssa.Instruction) bool {
		st, ok := in.(*ssa.Store)
		if !ok {
			return false
		}
		fa, ok := st.Addr.(*ssa.FieldAddr)
		return ok && fieldIDOfAddr(fa) == f
	}
	for _, g := range fns {
		var lps, sps []ssa.Instruction
		allInstrs(g, func(in ssa.Instruction) {
			if isAPI(in) {
				lps = append(lps, in)
			}
			if isStore(in) {
				sps = append(sps, in)
			}
			if ci, ok := in.(*ssa.Call); ok {
				cals, _ := b.callees(ci)
				for _, cal := range cals {
					if !b.helper[cal] || cal == g {
						continue
					}
					if does(cal, isAPI) {
						lps = append(lps, in)
					}
					if does(cal, isStore) {
						sps = append(sps, in)
					}
				}
			}
		})
		for _, lp := range lps {
			for _, sp := range sps {
				if lp.Block() == sp.Block() || lp.Block().Dominates(sp.Block()) {
					return true
				}
				// recomputed from the live ring on every call, before the (un)link
				if st, ok := sp.(*ssa.Store); ok && sp.Block().Dominates(lp.Block()) {
					for _, o := range b.origins(st.Val, 0) {
						if c, ok := o.(*ssa.Call); ok && b.isRingAPICall(c, "Len") {
							return true
						}
					}
				}
			}
		}
	}
	return false
}

func (b *c14Buf) checkDecision(fn *ssa.Function, api string, otherFn *ssa.Function, otherAPI string) {
	r, p := b.r, b.p
	construct := FuncName(p, fn) + " " + api + " decision"
	calls, dyn := b.apiCalls(fn, api)
	if len(calls) == 0 {
		switch {
		case dyn > 0:
			r.Undecide("C14.buffered-capacity: %s: no %s call found, but %d calls in the reachable helpers have unknown targets", construct, api, dyn)
		case b.ringFieldStores(fn):
			r.Undecide("C14.buffered-capacity: %s: no %s call found, but the link fields of Ring are written directly", construct, api)
		default:
			r.Violation("C14.buffered-capacity", construct, p.Pos(fn.Pos()), "the ring is no longer "+strings.ToLower(api)+"ed (no call in the method or in any helper it reaches): the buffer cannot grow/shrink")
		}
		return
	}
	why := ""
	var whyPos token.Pos
	for _, call := range calls {
		reads := map[FieldID]bool{}
		seen := map[ssa.Value]bool{}
		for _, cond := range b.controlling(call, fn, map[*ssa.Function]bool{}) {
			b.fieldsReadBy(cond, reads, seen)
		}
		var ids []FieldID
		for id := range reads {
			ids = append(ids, id)
		}
		sort.Slice(ids, func(i, j int) bool { return ids[i].Field < ids[j].Field })
		for _, id := range ids {
			if id == b.ringF || id == b.endF || !b.mutable(id) {
				continue
			}
			// a cached, mutable field: it must be maintained where the ring is linked and where it is unlinked
			if !b.maintainedWith(fn, id, api) || !b.maintainedWith(otherFn, id, otherAPI) {
				why = "the decision reads " + id.String() + ", which is not updated both where the ring is linked (grown) and where it is unlinked (shrunk): after the first shrink/growth the cached value no longer equals the ring's real length, elements are written over live ones or Front/RemoveFront return the wrong element"
				whyPos = instrPos(call)
			}
		}
	}
	pos := p.Pos(instrPos(calls[0]))
	if why != "" {
		pos = p.Pos(whyPos)
	}
	r.Check(why == "", "C14.buffered-capacity", construct, pos, "decision depends only on the count, the live ring, immutable configuration (or on fields maintained on both growth and shrink)", why)
}

// c14RootBase: the object a (possibly nested) field address belongs to.
func c14RootBase(v ssa.Value) ssa.Value {
	for {
		fa, ok := v.(*ssa.FieldAddr)
		if !ok {
			return v
		}
		v = fa.X
	}
}

// callees: the functions a call may invoke. Besides static calls, calls
// through a function VALUE whose targets are visible in the package are
// resolved: a closure or method value held in a local, handed in as a
// parameter of an unexported helper, or kept in a func-typed field of
// Buffered (every value ever stored into that field). known=false when some
// target cannot be determined.
func (b *c14Buf) callees(ci ssa.CallInstruction) (fns []*ssa.Function, known bool) {
	if cal := staticCallee(ci); cal != nil {
		return []*ssa.Function{cal}, true
	}
	cc := ci.Common()
	if cc.IsInvoke() || builtinName(ci) != "" {
		return nil, false
	}
	return b.funcTargets(cc.Value, 0)
}

func (b *c14Buf) funcTargets(v ssa.Value, depth int) ([]*ssa.Function, bool) {
	if depth > 6 {
		return nil, false
	}
	var out []*ssa.Function
	for _, o := range b.origins(v, 0) {
		switch x := o.(type) {
		case *ssa.Function:
			out = append(out, origin(x))
		case *ssa.MakeClosure:
			f, ok := x.Fn.(*ssa.Function)
			if !ok {
				return nil, false
			}
			// a method value m.f: the synthetic bound wrapper stands for the method
			if f.Synthetic != "" && len(f.Blocks) > 0 {
				var inner *ssa.Function
				allInstrs(f, func(in ssa.Instruction) {
					if c, ok := in.(*ssa.Call); ok {
						if cal := staticCallee(c); cal != nil {
							inner = cal
						}
					}
				})
				if inner == nil {
					return nil, false
				}
				out = append(out, inner)
				continue
			}
			out = append(out, origin(f))
		case *ssa.UnOp:
			// a func-typed field of Buffered: whatever is stored into it anywhere
			id, _, ok := fieldOfValue(x)
			if !ok || !b.own[id.Type] || len(b.stores[id]) == 0 {
				return nil, false
			}
			if _, isSig := x.Type().Underlying().(*types.Signature); !isSig {
				return nil, false
			}
			for _, st := range b.stores[id] {
				ts, ok := b.funcTargets(st.Val, depth+1)
				if !ok {
					return nil, false
				}
				out = append(out, ts...)
			}
		default:
			return nil, false
		}
	}
	return out, len(out) > 0
}
