package main

// c04eval: a constant evaluator over go/ssa for small pure functions
// (constant propagation through helpers, E6). It folds integer/boolean/string
// constants through BinOp/UnOp/Convert/Phi/If/Jump/Return, local struct
// cells, loads of package-level tables given by the caller, and static calls
// to other module functions. Anything it cannot fold becomes a poison value;
// a poison value that reaches a branch condition aborts the evaluation (the
// caller reports UNDECIDED). With `Override` the caller fixes the value of
// chosen SSA values (boolean atoms): evaluating a boolean function for all
// assignments of its atoms is a truth-table proof, not a sample.

import (
	"fmt"
	"go/constant"
	"go/token"
	"go/types"
	"strings"

	"golang.org/x/tools/go/ssa"
)

type c04Int struct {
	V      uint64 // truncated to Bits
	Bits   uint
	Signed bool
}

type c04Struct struct{ F []any }

type c04Cell struct{ V any }

type c04Ptr struct {
	Cell *c04Cell
	Path []int
}

type c04Poison struct{ Why string }

type c04Nil struct{}

type c04Tuple []any

type c04Eval struct {
	// Globals maps a package-level variable to its (constant) value.
	Globals map[*ssa.Global]any
	// Override fixes SSA values (atoms).
	Override map[ssa.Value]any
	// InModule tells whether a callee may be entered.
	InModule func(*ssa.Function) bool
	steps    int
	depth    int
}

type c04EvalError struct{ msg string }

func (e *c04EvalError) Error() string { return e.msg }

func c04fail(format string, args ...any) { panic(&c04EvalError{fmt.Sprintf(format, args...)}) }

// Run evaluates fn(args...) and returns its result (a c04Tuple for several
// results) or an error when the evaluation depends on a non-constant.
func (ev *c04Eval) Run(fn *ssa.Function, args []any) (res any, err error) {
	defer func() {
		if x := recover(); x != nil {
			if e, ok := x.(*c04EvalError); ok {
				err = e
				return
			}
			panic(x)
		}
	}()
	ev.steps = 0
	return ev.call(fn, args), nil
}

func c04IntOf(t types.Type) (bits uint, signed bool, ok bool) {
	b, isB := t.Underlying().(*types.Basic)
	if !isB {
		return 0, false, false
	}
	switch b.Kind() {
	case types.Int, types.Int64:
		return 64, true, true
	case types.Int32:
		return 32, true, true
	case types.Int16:
		return 16, true, true
	case types.Int8:
		return 8, true, true
	case types.Uint, types.Uint64, types.Uintptr:
		return 64, false, true
	case types.Uint32:
		return 32, false, true
	case types.Uint16:
		return 16, false, true
	case types.Uint8:
		return 8, false, true
	}
	return 0, false, false
}

func c04mask(v uint64, bits uint) uint64 {
	if bits >= 64 {
		return v
	}
	return v & (1<<bits - 1)
}

func (i c04Int) signedVal() int64 {
	if i.Bits >= 64 {
		return int64(i.V)
	}
	if i.V&(1<<(i.Bits-1)) != 0 {
		return int64(i.V | ^uint64(0)<<i.Bits)
	}
	return int64(i.V)
}

func c04MkInt(t types.Type, v uint64) any {
	bits, signed, ok := c04IntOf(t)
	if !ok {
		return c04Poison{"non-integer type " + t.String()}
	}
	return c04Int{V: c04mask(v, bits), Bits: bits, Signed: signed}
}

func c04Zero(t types.Type) any {
	switch u := t.Underlying().(type) {
	case *types.Basic:
		switch {
		case u.Info()&types.IsBoolean != 0:
			return false
		case u.Info()&types.IsString != 0:
			return ""
		case u.Info()&types.IsInteger != 0:
			return c04MkInt(t, 0)
		}
	case *types.Struct:
		s := &c04Struct{}
		for i := 0; i < u.NumFields(); i++ {
			s.F = append(s.F, c04Zero(u.Field(i).Type()))
		}
		return s
	case *types.Pointer, *types.Map, *types.Slice, *types.Interface, *types.Chan, *types.Signature:
		return c04Nil{}
	}
	return c04Poison{"zero of " + t.String()}
}

func c04ConstVal(c *ssa.Const) any {
	if c.Value == nil {
		if _, ok := c.Type().Underlying().(*types.Struct); ok {
			return c04Zero(c.Type())
		}
		if b, ok := c.Type().Underlying().(*types.Basic); ok && b.Kind() != types.UntypedNil {
			return c04Zero(c.Type())
		}
		return c04Nil{}
	}
	switch c.Value.Kind() {
	case constant.Bool:
		return constant.BoolVal(c.Value)
	case constant.String:
		return constant.StringVal(c.Value)
	case constant.Int:
		if u, ok := constant.Uint64Val(c.Value); ok {
			return c04MkInt(c.Type(), u)
		}
		if i, ok := constant.Int64Val(c.Value); ok {
			return c04MkInt(c.Type(), uint64(i))
		}
	}
	return c04Poison{"constant " + c.String()}
}

type c04Frame struct {
	fn   *ssa.Function
	vals map[ssa.Value]any
}

func (ev *c04Eval) get(fr *c04Frame, v ssa.Value) any {
	if o, ok := ev.Override[v]; ok {
		return o
	}
	switch x := v.(type) {
	case *ssa.Const:
		return c04ConstVal(x)
	case *ssa.Global:
		if g, ok := ev.Globals[x]; ok {
			return c04Ptr{Cell: &c04Cell{V: g}}
		}
		return c04Poison{"global " + x.Name()}
	case *ssa.Function:
		return x
	}
	if val, ok := fr.vals[v]; ok {
		return val
	}
	return c04Poison{"undefined " + v.Name()}
}

func c04load(p c04Ptr) any {
	v := p.Cell.V
	for _, i := range p.Path {
		s, ok := v.(*c04Struct)
		if !ok || i >= len(s.F) {
			return c04Poison{"load through non-struct"}
		}
		v = s.F[i]
	}
	return v
}

func c04storeIn(v any, path []int, nv any) any {
	if len(path) == 0 {
		return nv
	}
	s, ok := v.(*c04Struct)
	if !ok || path[0] >= len(s.F) {
		return c04Poison{"store through non-struct"}
	}
	cp := &c04Struct{F: append([]any(nil), s.F...)}
	cp.F[path[0]] = c04storeIn(s.F[path[0]], path[1:], nv)
	return cp
}

func (ev *c04Eval) call(fn *ssa.Function, args []any) any {
	if len(fn.Blocks) == 0 {
		return c04Poison{"external function " + fn.String()}
	}
	ev.depth++
	defer func() { ev.depth-- }()
	if ev.depth > 12 {
		c04fail("call depth exceeded in %s", fn.Name())
	}
	fr := &c04Frame{fn: fn, vals: map[ssa.Value]any{}}
	for i, p := range fn.Params {
		if i < len(args) {
			fr.vals[p] = args[i]
		} else {
			fr.vals[p] = c04Poison{"parameter " + p.Name()}
		}
	}
	for _, fv := range fn.FreeVars {
		fr.vals[fv] = c04Poison{"free variable " + fv.Name()}
	}
	var prev *ssa.BasicBlock
	b := fn.Blocks[0]
	for {
		var next *ssa.BasicBlock
		// phis first, evaluated simultaneously
		phiVals := map[*ssa.Phi]any{}
		for _, in := range b.Instrs {
			ph, ok := in.(*ssa.Phi)
			if !ok {
				break
			}
			idx := -1
			for i, pb := range b.Preds {
				if pb == prev {
					idx = i
				}
			}
			if idx < 0 {
				c04fail("phi without predecessor in %s", fn.Name())
			}
			phiVals[ph] = ev.get(fr, ph.Edges[idx])
		}
		for ph, v := range phiVals {
			if _, ok := ev.Override[ph]; !ok {
				fr.vals[ph] = v
			}
		}
		for _, in := range b.Instrs {
			ev.steps++
			if ev.steps > 200000 {
				c04fail("step budget exceeded in %s", fn.Name())
			}
			switch x := in.(type) {
			case *ssa.Phi:
				continue
			case *ssa.If:
				c := ev.get(fr, x.Cond)
				bv, ok := c.(bool)
				if !ok {
					c04fail("%s: branch on a non-constant (%v)", fn.Name(), c04Describe(c))
				}
				if bv {
					next = b.Succs[0]
				} else {
					next = b.Succs[1]
				}
			case *ssa.Jump:
				next = b.Succs[0]
			case *ssa.Return:
				switch len(x.Results) {
				case 0:
					return nil
				case 1:
					return ev.get(fr, x.Results[0])
				}
				var t c04Tuple
				for _, rv := range x.Results {
					t = append(t, ev.get(fr, rv))
				}
				return t
			case *ssa.Panic:
				c04fail("%s: reaches a panic", fn.Name())
			case *ssa.Store:
				a := ev.get(fr, x.Addr)
				p, ok := a.(c04Ptr)
				if !ok {
					continue // store through an unknown pointer: has no effect on foldable state
				}
				p.Cell.V = c04storeIn(p.Cell.V, p.Path, ev.get(fr, x.Val))
			case *ssa.DebugRef:
				continue
			case ssa.Value:
				if _, ok := ev.Override[x]; ok {
					continue
				}
				fr.vals[x] = ev.value(fr, x)
			default:
				// Go, Defer, Send, MapUpdate, RunDefers...: not foldable
				if _, ok := in.(*ssa.RunDefers); ok {
					continue
				}
				c04fail("%s: unsupported instruction %T", fn.Name(), in)
			}
		}
		if next == nil {
			c04fail("%s: block without terminator", fn.Name())
		}
		prev, b = b, next
	}
}

func c04Describe(v any) string {
	switch x := v.(type) {
	case c04Poison:
		return "not constant: " + x.Why
	case c04Int:
		return fmt.Sprintf("%#x", x.V)
	}
	return fmt.Sprintf("%v", v)
}

func (ev *c04Eval) value(fr *c04Frame, v ssa.Value) any {
	switch x := v.(type) {
	case *ssa.Alloc:
		return c04Ptr{Cell: &c04Cell{V: c04Zero(deref1(x.Type()))}}
	case *ssa.FieldAddr:
		b := ev.get(fr, x.X)
		if p, ok := b.(c04Ptr); ok {
			return c04Ptr{Cell: p.Cell, Path: append(append([]int(nil), p.Path...), x.Field)}
		}
		return c04Poison{"field of unknown object"}
	case *ssa.Field:
		b := ev.get(fr, x.X)
		if s, ok := b.(*c04Struct); ok && x.Field < len(s.F) {
			return s.F[x.Field]
		}
		return c04Poison{"field of unknown struct"}
	case *ssa.UnOp:
		a := ev.get(fr, x.X)
		switch x.Op {
		case token.MUL:
			if p, ok := a.(c04Ptr); ok {
				return c04load(p)
			}
			return c04Poison{"load through unknown pointer"}
		case token.NOT:
			if b, ok := a.(bool); ok {
				return !b
			}
		case token.XOR:
			if i, ok := a.(c04Int); ok {
				return c04Int{V: c04mask(^i.V, i.Bits), Bits: i.Bits, Signed: i.Signed}
			}
		case token.SUB:
			if i, ok := a.(c04Int); ok {
				return c04Int{V: c04mask(-i.V, i.Bits), Bits: i.Bits, Signed: i.Signed}
			}
		}
		return c04Poison{"unary " + x.Op.String() + " of non-constant"}
	case *ssa.BinOp:
		return c04BinOp(x.Op, ev.get(fr, x.X), ev.get(fr, x.Y), x.Type())
	case *ssa.Convert:
		a := ev.get(fr, x.X)
		if i, ok := a.(c04Int); ok {
			if bits, signed, ok := c04IntOf(x.Type()); ok {
				val := i.V
				if i.Signed {
					val = uint64(i.signedVal())
				}
				return c04Int{V: c04mask(val, bits), Bits: bits, Signed: signed}
			}
		}
		return c04Poison{"conversion of non-constant"}
	case *ssa.ChangeType:
		a := ev.get(fr, x.X)
		if i, ok := a.(c04Int); ok {
			if bits, signed, ok := c04IntOf(x.Type()); ok {
				return c04Int{V: c04mask(i.V, bits), Bits: bits, Signed: signed}
			}
		}
		return a
	case *ssa.MakeInterface:
		return ev.get(fr, x.X)
	case *ssa.ChangeInterface:
		return ev.get(fr, x.X)
	case *ssa.Extract:
		t := ev.get(fr, x.Tuple)
		if tt, ok := t.(c04Tuple); ok && x.Index < len(tt) {
			return tt[x.Index]
		}
		return c04Poison{"extract of non-constant"}
	case *ssa.Call:
		if b, ok := x.Call.Value.(*ssa.Builtin); ok {
			if b.Name() == "len" && len(x.Call.Args) == 1 {
				if s, ok := ev.get(fr, x.Call.Args[0]).(string); ok {
					return c04MkInt(x.Type(), uint64(len(s)))
				}
			}
			return c04Poison{"builtin " + b.Name()}
		}
		callee := staticCallee(x)
		if callee == nil || x.Call.IsInvoke() {
			return c04Poison{"dynamic call"}
		}
		if ev.InModule == nil || !ev.InModule(callee) {
			// a few pure standard-library string functions on constants
			var sargs []string
			for _, a := range x.Call.Args {
				if sv, ok := ev.get(fr, a).(string); ok {
					sargs = append(sargs, sv)
				}
			}
			if callee.Pkg != nil && callee.Pkg.Pkg.Path() == "strings" && len(sargs) == len(x.Call.Args) {
				switch {
				case callee.Name() == "HasPrefix" && len(sargs) == 2:
					return strings.HasPrefix(sargs[0], sargs[1])
				case callee.Name() == "HasSuffix" && len(sargs) == 2:
					return strings.HasSuffix(sargs[0], sargs[1])
				case callee.Name() == "ToLower" && len(sargs) == 1:
					return strings.ToLower(sargs[0])
				case callee.Name() == "ToUpper" && len(sargs) == 1:
					return strings.ToUpper(sargs[0])
				case callee.Name() == "TrimSpace" && len(sargs) == 1:
					return strings.TrimSpace(sargs[0])
				}
			}
			return c04Poison{"call to " + callee.String()}
		}
		if _, isClosure := x.Call.Value.(*ssa.MakeClosure); isClosure {
			return c04Poison{"closure call"}
		}
		var args []any
		for _, a := range x.Call.Args {
			args = append(args, ev.get(fr, a))
		}
		return ev.call(callee, args)
	}
	return c04Poison{fmt.Sprintf("%T", v)}
}

func deref1(t types.Type) types.Type {
	if p, ok := t.Underlying().(*types.Pointer); ok {
		return p.Elem()
	}
	return t
}

func c04BinOp(op token.Token, a, b any, rt types.Type) any {
	switch x := a.(type) {
	case bool:
		y, ok := b.(bool)
		if !ok {
			break
		}
		switch op {
		case token.EQL:
			return x == y
		case token.NEQ:
			return x != y
		case token.AND:
			return x && y
		case token.OR:
			return x || y
		}
	case string:
		y, ok := b.(string)
		if !ok {
			break
		}
		switch op {
		case token.EQL:
			return x == y
		case token.NEQ:
			return x != y
		case token.ADD:
			return x + y
		}
	case c04Nil:
		if _, ok := b.(c04Nil); ok {
			switch op {
			case token.EQL:
				return true
			case token.NEQ:
				return false
			}
		}
	case c04Int:
		y, ok := b.(c04Int)
		if !ok {
			break
		}
		mk := func(v uint64) any { return c04Int{V: c04mask(v, x.Bits), Bits: x.Bits, Signed: x.Signed} }
		switch op {
		case token.ADD:
			return mk(x.V + y.V)
		case token.SUB:
			return mk(x.V - y.V)
		case token.MUL:
			return mk(x.V * y.V)
		case token.QUO, token.REM:
			if y.V == 0 {
				return c04Poison{"division by zero"}
			}
			if x.Signed {
				p, q := x.signedVal(), y.signedVal()
				if op == token.QUO {
					return mk(uint64(p / q))
				}
				return mk(uint64(p % q))
			}
			if op == token.QUO {
				return mk(x.V / y.V)
			}
			return mk(x.V % y.V)
		case token.AND:
			return mk(x.V & y.V)
		case token.OR:
			return mk(x.V | y.V)
		case token.XOR:
			return mk(x.V ^ y.V)
		case token.AND_NOT:
			return mk(x.V &^ y.V)
		case token.SHL:
			if y.Signed && y.signedVal() < 0 {
				return c04Poison{"negative shift"}
			}
			if y.V >= uint64(x.Bits) {
				return mk(0)
			}
			return mk(x.V << y.V)
		case token.SHR:
			if y.Signed && y.signedVal() < 0 {
				return c04Poison{"negative shift"}
			}
			if x.Signed {
				s := y.V
				if s > 63 {
					s = 63
				}
				return mk(uint64(x.signedVal() >> s))
			}
			if y.V >= uint64(x.Bits) {
				return mk(0)
			}
			return mk(x.V >> y.V)
		case token.EQL:
			return x.V == y.V
		case token.NEQ:
			return x.V != y.V
		case token.LSS, token.LEQ, token.GTR, token.GEQ:
			var lt, eq bool
			if x.Signed {
				lt, eq = x.signedVal() < y.signedVal(), x.V == y.V
			} else {
				lt, eq = x.V < y.V, x.V == y.V
			}
			switch op {
			case token.LSS:
				return lt
			case token.LEQ:
				return lt || eq
			case token.GTR:
				return !lt && !eq
			default:
				return !lt
			}
		}
	}
	return c04Poison{"binary " + op.String() + " on non-constants"}
}
