package main

// c04eval: a constant evaluator over go/ssa for small pure functions
// (constant propagation through helpers, E6). It folds integer/boolean/string
// constants through BinOp/UnOp/Convert/Phi/If/Jump/Return, local struct
// cells, loads of package-level tables given by the caller, and static calls
// to other module functions. Anything it cannot fold becomes a poison value;
// a poison value that reaches a branch condition aborts the evaluation (the
// caller reports UNDECIDED). With `Override` the caller fixes the value of
// chosen SSA values (boolean atoms): evaluating a boolean function for all
// assignments of its atoms is a truth-table proof, not a sample.

import (
	"fmt"
	"go/constant"
	"go/token"
	"go/types"
	"strings"

	"golang.org/x/tools/go/ssa"
)

type c04Int struct {
	V      uint64 // truncated to Bits
	Bits   uint
	Signed bool
}

type c04Struct struct {
	F    []any
	Type string // "pkgpath.Name" for named struct types
}

type c04Cell struct{ V any }

type c04Ptr struct {
	Cell  *c04Cell
	Path  []int
	Names []string // "pkgpath.Type.Field" of each step of Path (for symbolic struct values)
}

type c04Poison struct{ Why string }

// c04SymV is a symbolic value: a term over the symbolic arguments of the
// evaluation (see c04term.go). Operations on symbolic values build larger
// terms; the Resolve hook of the evaluator may map a term to a concrete value
// (this is how boolean atoms get their truth-table assignment wherever the
// atom is computed — in the function itself or in a helper).
type c04SymV struct{ T *c04T }

type c04Nil struct{}

// c04Closure is a function value with its bound free variables.
type c04Closure struct {
	Fn   *ssa.Function
	Bind []any
}

// c04Map is a map with constant keys (package-level lookup tables).
type c04Map struct {
	M       map[string]any
	Unknown bool // written with a non-constant key
}

// c04Slice is a slice of a known backing array.
type c04Slice struct {
	Ptr c04Ptr // the backing array
	Lo  int
	Len int
}

// c04PathDead ends the evaluation of one path (panic reached): not an error.
type c04PathDead struct{ Why string }

type c04Tuple []any

type c04Eval struct {
	// Globals maps a package-level variable to its (constant) value.
	Globals map[*ssa.Global]any
	// Override fixes SSA values (atoms).
	Override map[ssa.Value]any
	// InModule tells whether a callee may be entered.
	InModule func(*ssa.Function) bool
	// Resolve may give a symbolic term a concrete value.
	Resolve func(*c04T) (any, bool)
	// Outer gives the value of an SSA value defined outside an evaluated region.
	Outer func(ssa.Value) (any, bool)
	// Tolerant: instructions the evaluator does not model yield unknown symbolic values / are skipped
	// instead of aborting (abstract interpretation of initialisers and of whole entry points).
	Tolerant bool
	// GlobalCells: the package-level variables as left by an evaluated init (shared store).
	GlobalCells map[*ssa.Global]*c04Cell
	// Opaque callees are not entered: their results are symbolic applications. With
	// OpaqueErrNil their error results are nil (the success path is followed).
	Opaque       func(*ssa.Function) bool
	OpaqueErrNil bool
	// Decide chooses the outcome of a branch whose condition stays symbolic (path exploration).
	Decide func(cond *c04T) (bool, bool)
	// RootBind: the values bound to the free variables of the function given to Run (a closure / method value).
	RootBind []any
	// Targets resolves a call through an interface to its single implementation, if any.
	Targets func(ssa.CallInstruction) []*ssa.Function
	// ArgTerm may name a non-scalar argument of an opaque call (e.g. a table value).
	ArgTerm func(v any) (*c04T, bool)
	steps   int
	depth   int
}

type c04EvalError struct{ msg string }

func (e *c04EvalError) Error() string { return e.msg }

func c04fail(format string, args ...any) { panic(&c04EvalError{fmt.Sprintf(format, args...)}) }

// Run evaluates fn(args...) and returns its result (a c04Tuple for several
// results) or an error when the evaluation depends on a non-constant.
func (ev *c04Eval) Run(fn *ssa.Function, args []any) (res any, err error) {
	defer func() {
		if x := recover(); x != nil {
			if e, ok := x.(*c04EvalError); ok {
				err = e
				return
			}
			if d, ok := x.(*c04PathDead); ok {
				res, err = d, nil
				return
			}
			panic(x)
		}
	}()
	ev.steps = 0
	return ev.callBound(fn, args, ev.RootBind), nil
}

func c04IntOf(t types.Type) (bits uint, signed bool, ok bool) {
	b, isB := t.Underlying().(*types.Basic)
	if !isB {
		return 0, false, false
	}
	switch b.Kind() {
	case types.Int, types.Int64:
		return 64, true, true
	case types.Int32:
		return 32, true, true
	case types.Int16:
		return 16, true, true
	case types.Int8:
		return 8, true, true
	case types.Uint, types.Uint64, types.Uintptr:
		return 64, false, true
	case types.Uint32:
		return 32, false, true
	case types.Uint16:
		return 16, false, true
	case types.Uint8:
		return 8, false, true
	}
	return 0, false, false
}

func c04mask(v uint64, bits uint) uint64 {
	if bits >= 64 {
		return v
	}
	return v & (1<<bits - 1)
}

func (i c04Int) signedVal() int64 {
	if i.Bits >= 64 {
		return int64(i.V)
	}
	if i.V&(1<<(i.Bits-1)) != 0 {
		return int64(i.V | ^uint64(0)<<i.Bits)
	}
	return int64(i.V)
}

func c04MkInt(t types.Type, v uint64) any {
	bits, signed, ok := c04IntOf(t)
	if !ok {
		return c04Poison{"non-integer type " + t.String()}
	}
	return c04Int{V: c04mask(v, bits), Bits: bits, Signed: signed}
}

func c04Zero(t types.Type) any {
	switch u := t.Underlying().(type) {
	case *types.Basic:
		switch {
		case u.Info()&types.IsBoolean != 0:
			return false
		case u.Info()&types.IsString != 0:
			return ""
		case u.Info()&types.IsInteger != 0:
			return c04MkInt(t, 0)
		}
	case *types.Struct:
		s := &c04Struct{Type: namedKey(t)}
		for i := 0; i < u.NumFields(); i++ {
			s.F = append(s.F, c04Zero(u.Field(i).Type()))
		}
		return s
	case *types.Array:
		if u.Len() > 4096 {
			break
		}
		a := &c04Struct{}
		for i := int64(0); i < u.Len(); i++ {
			a.F = append(a.F, c04Zero(u.Elem()))
		}
		return a
	case *types.Pointer, *types.Map, *types.Slice, *types.Interface, *types.Chan, *types.Signature:
		return c04Nil{}
	}
	return c04Poison{"zero of " + t.String()}
}

func c04ConstVal(c *ssa.Const) any {
	if c.Value == nil {
		if _, ok := c.Type().Underlying().(*types.Struct); ok {
			return c04Zero(c.Type())
		}
		if b, ok := c.Type().Underlying().(*types.Basic); ok && b.Kind() != types.UntypedNil {
			return c04Zero(c.Type())
		}
		return c04Nil{}
	}
	switch c.Value.Kind() {
	case constant.Bool:
		return constant.BoolVal(c.Value)
	case constant.String:
		return constant.StringVal(c.Value)
	case constant.Int:
		if u, ok := constant.Uint64Val(c.Value); ok {
			return c04MkInt(c.Type(), u)
		}
		if i, ok := constant.Int64Val(c.Value); ok {
			return c04MkInt(c.Type(), uint64(i))
		}
	}
	return c04Poison{"constant " + c.String()}
}

type c04Frame struct {
	fn     *ssa.Function
	vals   map[ssa.Value]any
	region bool
}

// c04ValTerm converts an evaluator value to a term (concrete scalars become constants).
func c04ValTerm(v any) (*c04T, bool) {
	switch x := v.(type) {
	case c04SymV:
		return x.T, true
	case c04Sym:
		return &c04T{Op: "leaf", Name: x.Name}, true
	case c04Int:
		if x.Signed {
			return c04KT(x.signedVal()), true
		}
		return c04KT(int64(x.V)), true
	case bool:
		return &c04T{Op: "const", Name: fmt.Sprint(x)}, true
	case string:
		return &c04T{Op: "const", Name: "s:" + x}, true
	case c04Nil:
		return &c04T{Op: "const", Name: "nil"}, true
	}
	return nil, false
}

func c04IsSym(v any) bool {
	switch v.(type) {
	case c04SymV, c04Sym:
		return true
	}
	return false
}

// mk wraps a term as a value, consulting the Resolve hook.
func (ev *c04Eval) mk(t *c04T) any {
	if ev.Resolve != nil {
		if v, ok := ev.Resolve(t); ok {
			return v
		}
	}
	return c04SymV{T: t}
}

func (ev *c04Eval) get(fr *c04Frame, v ssa.Value) any {
	if o, ok := ev.Override[v]; ok {
		return o
	}
	switch x := v.(type) {
	case *ssa.Const:
		return c04ConstVal(x)
	case *ssa.Global:
		if c, ok := ev.GlobalCells[x]; ok {
			return c04Ptr{Cell: c}
		}
		if g, ok := ev.Globals[x]; ok {
			return c04Ptr{Cell: &c04Cell{V: g}}
		}
		return c04SymV{T: &c04T{Op: "addr-global", Name: c04GlobalName(x)}}
	case *ssa.Function:
		return x
	}
	if val, ok := fr.vals[v]; ok {
		return val
	}
	if fr.region && ev.Outer != nil {
		if val, ok := ev.Outer(v); ok {
			fr.vals[v] = val
			return val
		}
	}
	return c04Poison{"undefined " + v.Name()}
}

func c04load(p c04Ptr) any {
	v := p.Cell.V
	for n, i := range p.Path {
		if sv, isSym := v.(c04SymV); isSym && n < len(p.Names) {
			// a field of a symbolic struct value (a struct parameter copied into a local)
			v = c04SymV{T: &c04T{Op: "load", Name: p.Names[n], Args: []*c04T{sv.T}}}
			continue
		}
		s, ok := v.(*c04Struct)
		if !ok || i >= len(s.F) {
			return c04Poison{"load through non-struct"}
		}
		v = s.F[i]
	}
	return v
}

func c04storeIn(v any, path []int, nv any) any {
	if len(path) == 0 {
		return nv
	}
	s, ok := v.(*c04Struct)
	if !ok || path[0] >= len(s.F) {
		return c04Poison{"store through non-struct"}
	}
	cp := &c04Struct{F: append([]any(nil), s.F...), Type: s.Type}
	cp.F[path[0]] = c04storeIn(s.F[path[0]], path[1:], nv)
	return cp
}

func (ev *c04Eval) call(fn *ssa.Function, args []any) any { return ev.callBound(fn, args, nil) }

func (ev *c04Eval) callBound(fn *ssa.Function, args []any, bind []any) any {
	if len(fn.Blocks) == 0 {
		return c04Poison{"external function " + fn.String()}
	}
	ev.depth++
	defer func() { ev.depth-- }()
	if ev.depth > 12 {
		c04fail("call depth exceeded in %s", fn.Name())
	}
	fr := &c04Frame{fn: fn, vals: map[ssa.Value]any{}}
	for i, p := range fn.Params {
		if i < len(args) {
			fr.vals[p] = args[i]
		} else {
			fr.vals[p] = c04Poison{"parameter " + p.Name()}
		}
	}
	for i, fv := range fn.FreeVars {
		if i < len(bind) {
			fr.vals[fv] = bind[i]
		} else {
			fr.vals[fv] = c04Poison{"free variable " + fv.Name()}
		}
	}
	return ev.exec(fr, fn.Blocks[0], nil, nil)
}

// RunRegion evaluates fn from block start (whose phis take their values from
// init) until the branch `stop` is reached and returns the value of its
// condition. Values defined outside the region come from init or from Outer.
func (ev *c04Eval) RunRegion(fn *ssa.Function, start *ssa.BasicBlock, init map[ssa.Value]any, stop *ssa.If) (res any, err error) {
	defer func() {
		if x := recover(); x != nil {
			if e, ok := x.(*c04EvalError); ok {
				err = e
				return
			}
			panic(x)
		}
	}()
	ev.steps = 0
	fr := &c04Frame{fn: fn, vals: map[ssa.Value]any{}, region: true}
	for k, v := range init {
		fr.vals[k] = v
	}
	return ev.exec(fr, start, nil, stop), nil
}

// exec runs the frame from block b (entered from prev; nil = phis are preset).
func (ev *c04Eval) exec(fr *c04Frame, b, prev *ssa.BasicBlock, stop *ssa.If) any {
	fn := fr.fn
	first := true
	for {
		var next *ssa.BasicBlock
		// phis first, evaluated simultaneously
		phiVals := map[*ssa.Phi]any{}
		for _, in := range b.Instrs {
			ph, ok := in.(*ssa.Phi)
			if !ok {
				break
			}
			if first && prev == nil && fr.region {
				continue // preset by the caller of RunRegion
			}
			idx := -1
			for i, pb := range b.Preds {
				if pb == prev {
					idx = i
				}
			}
			if idx < 0 {
				c04fail("phi without predecessor in %s", fn.Name())
			}
			phiVals[ph] = ev.get(fr, ph.Edges[idx])
		}
		for ph, v := range phiVals {
			if _, ok := ev.Override[ph]; !ok {
				fr.vals[ph] = v
			}
		}
		for _, in := range b.Instrs {
			ev.steps++
			if ev.steps > 200000 {
				c04fail("step budget exceeded in %s", fn.Name())
			}
			switch x := in.(type) {
			case *ssa.Phi:
				continue
			case *ssa.If:
				c := ev.get(fr, x.Cond)
				if x == stop {
					return c
				}
				if sv, isSym := c.(c04SymV); isSym && ev.Resolve != nil {
					if rv, ok := ev.Resolve(sv.T); ok {
						c = rv
					}
				}
				bv, ok := c.(bool)
				if !ok && ev.Decide != nil {
					ct, okT := c04ValTerm(c)
					if !okT {
						ct = c04Unknown(c04Describe(c))
					}
					if dv, okD := ev.Decide(ct); okD {
						bv, ok = dv, true
					}
				}
				if !ok {
					c04fail("%s: branch on a non-constant (%v)", fn.Name(), c04Describe(c))
				}
				if bv {
					next = b.Succs[0]
				} else {
					next = b.Succs[1]
				}
			case *ssa.Jump:
				next = b.Succs[0]
			case *ssa.Return:
				switch len(x.Results) {
				case 0:
					return nil
				case 1:
					return ev.get(fr, x.Results[0])
				}
				var t c04Tuple
				for _, rv := range x.Results {
					t = append(t, ev.get(fr, rv))
				}
				return t
			case *ssa.Panic:
				if ev.Tolerant {
					panic(&c04PathDead{fn.Name() + " panics"})
				}
				c04fail("%s: reaches a panic", fn.Name())
			case *ssa.MapUpdate:
				if m, ok := ev.get(fr, x.Map).(*c04Map); ok {
					if k, ok := c04MapKey(ev.get(fr, x.Key)); ok {
						m.M[k] = ev.get(fr, x.Value)
					} else {
						m.Unknown = true
					}
				}
			case *ssa.Store:
				a := ev.get(fr, x.Addr)
				p, ok := a.(c04Ptr)
				if !ok {
					continue // store through an unknown pointer: has no effect on foldable state
				}
				p.Cell.V = c04storeIn(p.Cell.V, p.Path, ev.get(fr, x.Val))
			case *ssa.DebugRef:
				continue
			case ssa.Value:
				if _, ok := ev.Override[x]; ok {
					continue
				}
				fr.vals[x] = ev.value(fr, x)
			default:
				// Go, Defer, Send, MapUpdate, RunDefers...: not foldable
				if _, ok := in.(*ssa.RunDefers); ok {
					continue
				}
				if ev.Tolerant {
					continue
				}
				c04fail("%s: unsupported instruction %T", fn.Name(), in)
			}
		}
		if next == nil {
			c04fail("%s: block without terminator", fn.Name())
		}
		first = false
		prev, b = b, next
	}
}

func c04Describe(v any) string {
	switch x := v.(type) {
	case c04Poison:
		return "not constant: " + x.Why
	case c04SymV:
		return "symbolic: " + x.T.Key()
	case c04Int:
		return fmt.Sprintf("%#x", x.V)
	}
	return fmt.Sprintf("%v", v)
}

func (ev *c04Eval) value(fr *c04Frame, v ssa.Value) any {
	switch x := v.(type) {
	case *ssa.Alloc:
		return c04Ptr{Cell: &c04Cell{V: c04Zero(deref1(x.Type()))}}
	case *ssa.FieldAddr:
		b := ev.get(fr, x.X)
		if p, ok := b.(c04Ptr); ok {
			id := fieldIDOfAddr(x)
			return c04Ptr{Cell: p.Cell, Path: append(append([]int(nil), p.Path...), x.Field), Names: append(append([]string(nil), p.Names...), id.Type+"."+id.Field)}
		}
		if bt, ok := c04ValTerm(b); ok && c04IsSym(b) {
			id := fieldIDOfAddr(x)
			return c04SymV{T: &c04T{Op: "addr", Name: id.Type + "." + id.Field, Args: []*c04T{bt}}}
		}
		return c04Poison{"field of unknown object"}
	case *ssa.Field:
		b := ev.get(fr, x.X)
		if s, ok := b.(*c04Struct); ok && x.Field < len(s.F) {
			return s.F[x.Field]
		}
		if bt, ok := c04ValTerm(b); ok && c04IsSym(b) {
			id := fieldIDOfField(x)
			return ev.mk(&c04T{Op: "load", Name: id.Type + "." + id.Field, Args: []*c04T{bt}})
		}
		return c04Poison{"field of unknown struct"}
	case *ssa.UnOp:
		a := ev.get(fr, x.X)
		switch x.Op {
		case token.MUL:
			if p, ok := a.(c04Ptr); ok {
				return c04load(p)
			}
			if sv, ok := a.(c04SymV); ok {
				switch sv.T.Op {
				case "addr":
					return ev.mk(&c04T{Op: "load", Name: sv.T.Name, Args: sv.T.Args})
				case "addr-global":
					return ev.mk(&c04T{Op: "global", Name: sv.T.Name})
				case "indexaddr":
					return ev.mk(&c04T{Op: "index", Args: sv.T.Args})
				}
				return ev.mk(&c04T{Op: "deref", Args: []*c04T{sv.T}})
			}
			return c04Poison{"load through unknown pointer"}
		case token.NOT:
			if b, ok := a.(bool); ok {
				return !b
			}
		case token.XOR:
			if i, ok := a.(c04Int); ok {
				return c04Int{V: c04mask(^i.V, i.Bits), Bits: i.Bits, Signed: i.Signed}
			}
		case token.SUB:
			if i, ok := a.(c04Int); ok {
				return c04Int{V: c04mask(-i.V, i.Bits), Bits: i.Bits, Signed: i.Signed}
			}
		}
		if c04IsSym(a) {
			at, _ := c04ValTerm(a)
			return ev.mk(&c04T{Op: "un:" + x.Op.String(), Args: []*c04T{at}})
		}
		return c04Poison{"unary " + x.Op.String() + " of non-constant"}
	case *ssa.BinOp:
		a, b := ev.get(fr, x.X), ev.get(fr, x.Y)
		if c04IsSym(a) || c04IsSym(b) {
			at, ok1 := c04ValTerm(a)
			bt, ok2 := c04ValTerm(b)
			if ok1 && ok2 {
				return ev.mk(&c04T{Op: "bin:" + x.Op.String(), Args: []*c04T{at, bt}})
			}
		}
		return c04BinOp(x.Op, a, b, x.Type())
	case *ssa.Convert:
		a := ev.get(fr, x.X)
		if i, ok := a.(c04Int); ok {
			if bits, signed, ok := c04IntOf(x.Type()); ok {
				val := i.V
				if i.Signed {
					val = uint64(i.signedVal())
				}
				return c04Int{V: c04mask(val, bits), Bits: bits, Signed: signed}
			}
		}
		if c04IsSym(a) {
			return a
		}
		return c04Poison{"conversion of non-constant"}
	case *ssa.ChangeType:
		a := ev.get(fr, x.X)
		if i, ok := a.(c04Int); ok {
			if bits, signed, ok := c04IntOf(x.Type()); ok {
				return c04Int{V: c04mask(i.V, bits), Bits: bits, Signed: signed}
			}
		}
		return a
	case *ssa.MakeInterface:
		return ev.get(fr, x.X)
	case *ssa.ChangeInterface:
		return ev.get(fr, x.X)
	case *ssa.Extract:
		t := ev.get(fr, x.Tuple)
		if tt, ok := t.(c04Tuple); ok && x.Index < len(tt) {
			return tt[x.Index]
		}
		if sv, ok := t.(c04SymV); ok {
			if strings.HasPrefix(sv.T.Op, "tm:") {
				if names, ok := c04DateTuple[strings.TrimPrefix(sv.T.Op, "tm:")]; ok && x.Index < len(names) {
					return ev.mk(&c04T{Op: "tm:" + names[x.Index], Args: sv.T.Args[:1]})
				}
			}
			return ev.mk(&c04T{Op: "extract", K: int64(x.Index), IsK: true, Args: []*c04T{sv.T}})
		}
		return c04Poison{"extract of non-constant"}
	case *ssa.Call:
		if b, ok := x.Call.Value.(*ssa.Builtin); ok {
			if b.Name() == "len" && len(x.Call.Args) == 1 {
				switch a := ev.get(fr, x.Call.Args[0]).(type) {
				case string:
					return c04MkInt(x.Type(), uint64(len(a)))
				case c04Slice:
					return c04MkInt(x.Type(), uint64(a.Len))
				case *c04Map:
					if !a.Unknown {
						return c04MkInt(x.Type(), uint64(len(a.M)))
					}
				case c04SymV:
					return ev.mk(&c04T{Op: "builtin:len", Args: []*c04T{a.T}})
				}
			}
			if (b.Name() == "min" || b.Name() == "max") && len(x.Call.Args) > 0 {
				var best c04Int
				okAll := true
				for i, a := range x.Call.Args {
					iv, ok := ev.get(fr, a).(c04Int)
					if !ok {
						okAll = false
						break
					}
					less, _ := c04BinOp(token.LSS, iv, best, nil).(bool)
					if i == 0 || (b.Name() == "min") == less {
						best = iv
					}
				}
				if okAll {
					return best
				}
			}
			if ev.Tolerant {
				var targs []*c04T
				for _, a := range x.Call.Args {
					at, ok := c04ValTerm(ev.get(fr, a))
					if !ok {
						at = c04Unknown("value")
					}
					targs = append(targs, at)
				}
				return c04SymV{T: &c04T{Op: "builtin:" + b.Name(), Args: targs}}
			}
			return c04Poison{"builtin " + b.Name()}
		}
		callee := staticCallee(x)
		var bind []any
		if callee == nil && !x.Call.IsInvoke() {
			// a call through a function value: a function or a closure held in a variable, a table, a field
			switch fv := ev.get(fr, x.Call.Value).(type) {
			case *ssa.Function:
				callee = origin(fv)
			case c04Closure:
				callee, bind = fv.Fn, fv.Bind
			}
		} else if mc, ok := x.Call.Value.(*ssa.MakeClosure); ok && callee != nil {
			if cv, ok := ev.get(fr, mc).(c04Closure); ok {
				bind = cv.Bind
			}
		}
		var recvArg []any
		if x.Call.IsInvoke() && ev.Targets != nil {
			if tg := ev.Targets(x); len(tg) == 1 {
				callee = tg[0]
				recvArg = []any{ev.get(fr, x.Call.Value)}
			}
		}
		if callee == nil || (x.Call.IsInvoke() && recvArg == nil) {
			if ev.Tolerant {
				return c04SymV{T: c04Unknown("dynamic call")}
			}
			return c04Poison{"dynamic call"}
		}
		if ev.InModule == nil || !ev.InModule(callee) {
			// a few pure standard-library string functions on constants
			var sargs []string
			for _, a := range x.Call.Args {
				if sv, ok := ev.get(fr, a).(string); ok {
					sargs = append(sargs, sv)
				}
			}
			if callee.Pkg != nil && callee.Pkg.Pkg.Path() == "strings" && len(sargs) == len(x.Call.Args) {
				switch {
				case callee.Name() == "HasPrefix" && len(sargs) == 2:
					return strings.HasPrefix(sargs[0], sargs[1])
				case callee.Name() == "HasSuffix" && len(sargs) == 2:
					return strings.HasSuffix(sargs[0], sargs[1])
				case callee.Name() == "ToLower" && len(sargs) == 1:
					return strings.ToLower(sargs[0])
				case callee.Name() == "ToUpper" && len(sargs) == 1:
					return strings.ToUpper(sargs[0])
				case callee.Name() == "TrimSpace" && len(sargs) == 1:
					return strings.TrimSpace(sargs[0])
				case callee.Name() == "CutPrefix" && len(sargs) == 2:
					after, found := strings.CutPrefix(sargs[0], sargs[1])
					return c04Tuple{after, found}
				case callee.Name() == "CutSuffix" && len(sargs) == 2:
					before, found := strings.CutSuffix(sargs[0], sargs[1])
					return c04Tuple{before, found}
				case callee.Name() == "TrimPrefix" && len(sargs) == 2:
					return strings.TrimPrefix(sargs[0], sargs[1])
				}
			}
			if callee.Pkg != nil && callee.Pkg.Pkg.Path() == "slices" && (callee.Name() == "Contains" || callee.Name() == "Index") && len(x.Call.Args) == 2 {
				if sl, ok := ev.get(fr, x.Call.Args[0]).(c04Slice); ok {
					if arr, ok := c04load(sl.Ptr).(*c04Struct); ok {
						want := ev.get(fr, x.Call.Args[1])
						idx, allK := -1, true
						for i := 0; i < sl.Len && sl.Lo+i < len(arr.F); i++ {
							eq, isB := c04BinOp(token.EQL, arr.F[sl.Lo+i], want, nil).(bool)
							if !isB {
								allK = false
								break
							}
							if eq && idx < 0 {
								idx = i
							}
						}
						if allK {
							if callee.Name() == "Contains" {
								return idx >= 0
							}
							return c04MkInt(x.Type(), uint64(int64(idx)))
						}
					}
				}
			}
			// any other function without a body in the module: a symbolic application
			var targs []*c04T
			allOK := true
			for _, a := range x.Call.Args {
				at, ok := c04ValTerm(ev.get(fr, a))
				if !ok {
					allOK = false
					break
				}
				targs = append(targs, at)
			}
			if allOK {
				return ev.mk(c04ExtCallTerm(callee, targs))
			}
			if ev.Tolerant {
				return c04SymV{T: c04Unknown("call to " + callee.String())}
			}
			return c04Poison{"call to " + callee.String()}
		}
		args := append([]any(nil), recvArg...)
		for _, a := range x.Call.Args {
			args = append(args, ev.get(fr, a))
		}
		if ev.Opaque != nil && ev.Opaque(callee) {
			// a role the caller wants to see as an application, not entered
			var targs []*c04T
			for _, a := range args {
				at, ok := c04ValTerm(a)
				if !ok && ev.ArgTerm != nil {
					at, ok = ev.ArgTerm(a)
				}
				if !ok {
					at = c04Unknown("value")
				}
				targs = append(targs, at)
			}
			ct := &c04T{Op: "call", Name: callee.Name(), Args: targs, Src: x}
			res := callee.Signature.Results()
			if res.Len() == 1 {
				return c04SymV{T: ct}
			}
			var tup c04Tuple
			for i := 0; i < res.Len(); i++ {
				if ev.OpaqueErrNil && types.Identical(res.At(i).Type(), types.Universe.Lookup("error").Type()) {
					tup = append(tup, c04Nil{})
				} else {
					tup = append(tup, c04SymV{T: &c04T{Op: "extract", K: int64(i), IsK: true, Args: []*c04T{ct}}})
				}
			}
			return tup
		}
		return ev.callBound(callee, args, bind)
	case *ssa.MakeClosure:
		var bind []any
		for _, b := range x.Bindings {
			bind = append(bind, ev.get(fr, b))
		}
		return c04Closure{Fn: x.Fn.(*ssa.Function), Bind: bind}
	case *ssa.MakeMap:
		return &c04Map{M: map[string]any{}}
	case *ssa.Lookup:
		m := ev.get(fr, x.X)
		k := ev.get(fr, x.Index)
		if mm, ok := m.(*c04Map); ok && !mm.Unknown {
			if ks, ok := c04MapKey(k); ok {
				val, found := mm.M[ks]
				if !found {
					val = c04Zero(x.Type())
					if tt, ok := x.Type().(*types.Tuple); ok {
						val = c04Zero(tt.At(0).Type())
					}
				}
				if x.CommaOk {
					return c04Tuple{val, found}
				}
				return val
			}
		}
		if _, isNil := m.(c04Nil); isNil {
			// lookup in a nil map finds nothing
			if x.CommaOk {
				return c04Tuple{c04Zero(x.Type().(*types.Tuple).At(0).Type()), false}
			}
			return c04Zero(x.Type())
		}
		mt, ok1 := c04ValTerm(m)
		kt, ok2 := c04ValTerm(k)
		if ok1 && ok2 {
			lt := &c04T{Op: "lookup", Args: []*c04T{mt, kt}}
			if x.CommaOk {
				return c04SymV{T: lt}
			}
			return ev.mk(lt)
		}
		if ev.Tolerant {
			return c04SymV{T: c04Unknown("map lookup")}
		}
		return c04Poison{"map lookup"}
	case *ssa.IndexAddr:
		base := ev.get(fr, x.X)
		idx, isK := ev.get(fr, x.Index).(c04Int)
		switch b := base.(type) {
		case c04Ptr: // pointer to array
			if isK {
				return c04Ptr{Cell: b.Cell, Path: append(append([]int(nil), b.Path...), int(idx.V)), Names: append(append([]string(nil), b.Names...), "[]")}
			}
		case c04Slice:
			if isK && int(idx.V) < b.Len {
				return c04Ptr{Cell: b.Ptr.Cell, Path: append(append([]int(nil), b.Ptr.Path...), b.Lo+int(idx.V)), Names: append(append([]string(nil), b.Ptr.Names...), "[]")}
			}
		}
		bt, ok1 := c04ValTerm(base)
		it, ok2 := c04ValTerm(ev.get(fr, x.Index))
		if ok1 && ok2 {
			return c04SymV{T: &c04T{Op: "indexaddr", Args: []*c04T{bt, it}}}
		}
		if ev.Tolerant {
			return c04SymV{T: c04Unknown("element address")}
		}
		return c04Poison{"element address"}
	case *ssa.Index:
		base := ev.get(fr, x.X)
		idx, isK := ev.get(fr, x.Index).(c04Int)
		if a, ok := base.(*c04Struct); ok && isK && int(idx.V) < len(a.F) {
			return a.F[idx.V]
		}
		if ev.Tolerant {
			return c04SymV{T: c04Unknown("element")}
		}
		return c04Poison{"element"}
	case *ssa.Slice:
		base := ev.get(fr, x.X)
		if p, ok := base.(c04Ptr); ok && x.Low == nil && x.High == nil {
			if arr, ok := c04load(p).(*c04Struct); ok {
				return c04Slice{Ptr: p, Lo: 0, Len: len(arr.F)}
			}
		}
		if bt, ok := c04ValTerm(base); ok {
			return c04SymV{T: &c04T{Op: "slice", Args: []*c04T{bt}}}
		}
		if ev.Tolerant {
			return c04SymV{T: c04Unknown("slice")}
		}
		return c04Poison{"slice"}
	case *ssa.TypeAssert:
		if ev.Tolerant {
			return c04SymV{T: c04Unknown("type assertion")}
		}
	}
	if ev.Tolerant {
		return c04SymV{T: c04Unknown(fmt.Sprintf("%T", v))}
	}
	return c04Poison{fmt.Sprintf("%T", v)}
}

func deref1(t types.Type) types.Type {
	if p, ok := t.Underlying().(*types.Pointer); ok {
		return p.Elem()
	}
	return t
}

func c04BinOp(op token.Token, a, b any, rt types.Type) any {
	switch x := a.(type) {
	case bool:
		y, ok := b.(bool)
		if !ok {
			break
		}
		switch op {
		case token.EQL:
			return x == y
		case token.NEQ:
			return x != y
		case token.AND:
			return x && y
		case token.OR:
			return x || y
		}
	case string:
		y, ok := b.(string)
		if !ok {
			break
		}
		switch op {
		case token.EQL:
			return x == y
		case token.NEQ:
			return x != y
		case token.ADD:
			return x + y
		}
	case c04Nil:
		if _, ok := b.(c04Nil); ok {
			switch op {
			case token.EQL:
				return true
			case token.NEQ:
				return false
			}
		}
	case c04Int:
		y, ok := b.(c04Int)
		if !ok {
			break
		}
		mk := func(v uint64) any { return c04Int{V: c04mask(v, x.Bits), Bits: x.Bits, Signed: x.Signed} }
		switch op {
		case token.ADD:
			return mk(x.V + y.V)
		case token.SUB:
			return mk(x.V - y.V)
		case token.MUL:
			return mk(x.V * y.V)
		case token.QUO, token.REM:
			if y.V == 0 {
				return c04Poison{"division by zero"}
			}
			if x.Signed {
				p, q := x.signedVal(), y.signedVal()
				if op == token.QUO {
					return mk(uint64(p / q))
				}
				return mk(uint64(p % q))
			}
			if op == token.QUO {
				return mk(x.V / y.V)
			}
			return mk(x.V % y.V)
		case token.AND:
			return mk(x.V & y.V)
		case token.OR:
			return mk(x.V | y.V)
		case token.XOR:
			return mk(x.V ^ y.V)
		case token.AND_NOT:
			return mk(x.V &^ y.V)
		case token.SHL:
			if y.Signed && y.signedVal() < 0 {
				return c04Poison{"negative shift"}
			}
			if y.V >= uint64(x.Bits) {
				return mk(0)
			}
			return mk(x.V << y.V)
		case token.SHR:
			if y.Signed && y.signedVal() < 0 {
				return c04Poison{"negative shift"}
			}
			if x.Signed {
				s := y.V
				if s > 63 {
					s = 63
				}
				return mk(uint64(x.signedVal() >> s))
			}
			if y.V >= uint64(x.Bits) {
				return mk(0)
			}
			return mk(x.V >> y.V)
		case token.EQL:
			return x.V == y.V
		case token.NEQ:
			return x.V != y.V
		case token.LSS, token.LEQ, token.GTR, token.GEQ:
			var lt, eq bool
			if x.Signed {
				lt, eq = x.signedVal() < y.signedVal(), x.V == y.V
			} else {
				lt, eq = x.V < y.V, x.V == y.V
			}
			switch op {
			case token.LSS:
				return lt
			case token.LEQ:
				return lt || eq
			case token.GTR:
				return !lt && !eq
			default:
				return !lt
			}
		}
	}
	return c04Poison{"binary " + op.String() + " on non-constants"}
}

// c04MapKey: a constant map key as a string.
func c04MapKey(k any) (string, bool) {
	switch x := k.(type) {
	case string:
		return "s:" + x, true
	case c04Int:
		return fmt.Sprintf("i:%d", x.V), true
	case bool:
		return fmt.Sprint(x), true
	}
	return "", false
}

// c04Explore runs `run` once per path: run is given a decide function for
// branches whose condition stays symbolic; the first time a decision point is
// met it is taken as true and the alternative is scheduled. Stops after max paths.
func c04Explore(max int, run func(decide func(*c04T) (bool, bool))) (paths int, truncated bool) {
	pending := [][]bool{{}}
	for len(pending) > 0 {
		if paths >= max {
			return paths, true
		}
		script := pending[len(pending)-1]
		pending = pending[:len(pending)-1]
		var taken []bool
		pos := 0
		run(func(*c04T) (bool, bool) {
			v := true
			if pos < len(script) {
				v = script[pos]
			} else {
				alt := append(append([]bool(nil), taken...), false)
				pending = append(pending, alt)
			}
			taken = append(taken, v)
			pos++
			return v, true
		})
		paths++
	}
	return paths, false
}

// RunInit evaluates the package initialiser of pkg tolerantly and keeps the
// resulting package-level variables in ev.GlobalCells.
func (ev *c04Eval) RunInit(pkg *ssa.Package) error {
	if ev.GlobalCells == nil {
		ev.GlobalCells = map[*ssa.Global]*c04Cell{}
	}
	for _, m := range pkg.Members {
		if g, ok := m.(*ssa.Global); ok {
			if _, done := ev.GlobalCells[g]; !done {
				ev.GlobalCells[g] = &c04Cell{V: c04Zero(deref1(g.Type()))}
			}
		}
	}
	init := pkg.Func("init")
	if init == nil {
		return nil
	}
	save := ev.Tolerant
	ev.Tolerant = true
	defer func() { ev.Tolerant = save }()
	_, err := ev.Run(init, nil)
	return err
}
