package main

// Small bit-vector dataflow over SSA blocks, used by the path rules (E3).

import (
	"golang.org/x/tools/go/ssa"
)

// FlagFlow runs a forward dataflow of a uint64 flag set.
//
//	must=true : meet is AND (flag holds on every path), unvisited = top
//	must=false: meet is OR  (flag may hold on some path)
//
// transfer is applied per instruction. RunDefers is expanded: the deferred
// calls are passed to transfer in LIFO order (as the *ssa.Defer instruction),
// after the RunDefers instruction itself.
type FlagFlow struct {
	Fn       *ssa.Function
	Must     bool
	Entry    uint64
	Transfer func(in ssa.Instruction, st uint64) uint64
	// EdgeTransfer (optional) refines the state along the edge from -> to.
	EdgeTransfer func(from, to *ssa.BasicBlock, st uint64) uint64

	// Replaying is true while Transfer is being called for a deferred call that
	// is executed at a rundefers point (as opposed to the Defer instruction being
	// visited at the place where it registers the call).
	Replaying bool

	before  map[ssa.Instruction]uint64
	in      []uint64
	visited []bool
	outs    []uint64
}

func (f *FlagFlow) Run() {
	fn := f.Fn
	n := len(fn.Blocks)
	f.in = make([]uint64, n)
	f.outs = make([]uint64, n)
	f.visited = make([]bool, n)
	f.before = map[ssa.Instruction]uint64{}
	if n == 0 {
		return
	}
	var defers []*ssa.Defer
	allInstrs(fn, func(in ssa.Instruction) {
		if d, ok := in.(*ssa.Defer); ok {
			defers = append(defers, d)
		}
	})
	f.in[0] = f.Entry
	f.visited[0] = true
	computed := make([]bool, n)
	work := []int{0}
	for len(work) > 0 {
		bi := work[0]
		work = work[1:]
		b := fn.Blocks[bi]
		st := f.in[bi]
		for _, instr := range b.Instrs {
			f.before[instr] = st
			st = f.Transfer(instr, st)
			if _, ok := instr.(*ssa.RunDefers); ok {
				for i := len(defers) - 1; i >= 0; i-- {
					// replay only deferred calls that were registered on the way
					// here: for must-flows those that dominate this point, for
					// may-flows those that can reach it
					d := defers[i]
					if f.Must {
						if !instrDominates(d, instr) {
							continue
						}
					} else if d.Block() != b && !reachableFrom(d.Block(), nil)[b] {
						continue
					}
					f.Replaying = true
					st = f.Transfer(d, st)
					f.Replaying = false
				}
			}
		}
		if computed[bi] && st == f.outs[bi] {
			continue
		}
		computed[bi] = true
		f.outs[bi] = st
		for _, s := range b.Succs {
			es := st
			if f.EdgeTransfer != nil {
				es = f.EdgeTransfer(b, s, st)
			}
			var ns uint64
			if !f.visited[s.Index] {
				ns = es
			} else if f.Must {
				ns = f.in[s.Index] & es
			} else {
				ns = f.in[s.Index] | es
			}
			if !f.visited[s.Index] || ns != f.in[s.Index] || !computed[s.Index] {
				f.visited[s.Index] = true
				f.in[s.Index] = ns
				work = append(work, s.Index)
			}
		}
	}
}

// Before returns the flags before instruction in, and whether it is reachable.
func (f *FlagFlow) Before(in ssa.Instruction) (uint64, bool) {
	v, ok := f.before[in]
	return v, ok
}

// Out returns the flags at the end of block b.
func (f *FlagFlow) Out(b *ssa.BasicBlock) (uint64, bool) {
	return f.outs[b.Index], f.visited[b.Index]
}

// AtReturns calls fn for every reachable Return instruction with the flags
// after deferred calls ran (the state before the Return itself).
func (f *FlagFlow) AtReturns(cb func(ret *ssa.Return, st uint64)) {
	for _, b := range f.Fn.Blocks {
		if len(b.Instrs) == 0 {
			continue
		}
		if ret, ok := b.Instrs[len(b.Instrs)-1].(*ssa.Return); ok {
			if st, ok := f.before[ret]; ok {
				cb(ret, st)
			}
		}
	}
}

// mapStates applies f to every abstract state contained in the powerset st
// (bit i = state i) and returns the union of the images.
func mapStates(st uint64, f func(s int) int) uint64 {
	var out uint64
	for i := 0; i < 64; i++ {
		if st&(1<<uint(i)) != 0 {
			out |= 1 << uint(f(i))
		}
	}
	return out
}

// selectEdgeCase: if the edge from->to is the edge on which case k of a
// select fired, returns (select info, k). Only reliable when the case body is
// not shared with another case.
func selectEdgeCases(from, to *ssa.BasicBlock) (*SelectInfo, []int) {
	if len(from.Instrs) == 0 {
		return nil, nil
	}
	ifi, ok := from.Instrs[len(from.Instrs)-1].(*ssa.If)
	if !ok || from.Succs[0] != to {
		return nil, nil
	}
	bo, ok := ifi.Cond.(*ssa.BinOp)
	if !ok {
		return nil, nil
	}
	ex, ok := bo.X.(*ssa.Extract)
	if !ok || ex.Index != 0 {
		return nil, nil
	}
	sel, ok := ex.Tuple.(*ssa.Select)
	if !ok {
		return nil, nil
	}
	k, ok := bo.Y.(*ssa.Const)
	if !ok {
		return nil, nil
	}
	return decodeSelect(sel), []int{int(k.Int64())}
}
