package main

// Evaluation helpers on the C01 cluster graph: forward flow sets, linear
// forms, nil-ness, symbolic evaluation of booleans and lengths relative to
// the predicate P = "the fill count reached the fill limit".

import (
	"fmt"
	"go/constant"
	"go/token"
	"go/types"

	"golang.org/x/tools/go/ssa"
)

// ---------------------------------------------------------------- generic flow

// inputs returns the values cv is directly computed from (resolved): phi /
// return-phi edges, memory, arithmetic and conversion operands.
func (g *cGraph) inputs(cv CV) []CV {
	if edges, ok := g.phiEdges(cv); ok {
		var out []CV
		for _, e := range edges {
			out = append(out, g.res(e.Val))
		}
		return out
	}
	if vals, ok := g.loadVals(cv); ok {
		var out []CV
		for _, v := range vals {
			out = append(out, g.res(v))
		}
		return out
	}
	switch v := cv.V.(type) {
	case *ssa.BinOp:
		return []CV{g.res(CV{cv.C, v.X}), g.res(CV{cv.C, v.Y})}
	case *ssa.Convert:
		return []CV{g.res(CV{cv.C, v.X})}
	case *ssa.ChangeType:
		return []CV{g.res(CV{cv.C, v.X})}
	case *ssa.ChangeInterface:
		return []CV{g.res(CV{cv.C, v.X})}
	case *ssa.MakeInterface:
		return []CV{g.res(CV{cv.C, v.X})}
	}
	return nil
}

// flowFrom computes the least set containing seed and every value of the
// graph accepted by through() one of whose inputs is in the set.
func (g *cGraph) flowFrom(seed []CV, through func(CV) bool) map[CV]bool {
	set := map[CV]bool{}
	for _, s := range seed {
		set[g.res(s)] = true
	}
	var all []CV
	g.eachInstr(func(n *cgNode, in ssa.Instruction) {
		if v, ok := in.(ssa.Value); ok {
			all = append(all, CV{n.C, v})
		}
	})
	for changed := true; changed; {
		changed = false
		for _, y := range all {
			if set[y] || !through(y) {
				continue
			}
			for _, in := range g.inputs(y) {
				if set[in] {
					set[y] = true
					changed = true
					break
				}
			}
		}
	}
	return set
}

// copyOnly: phis, return phis, loads, conversions (no arithmetic).
func (g *cGraph) copyOnly(cv CV) bool {
	switch v := cv.V.(type) {
	case *ssa.Phi, *ssa.Extract, *ssa.Call, *ssa.Field, *ssa.ChangeType, *ssa.ChangeInterface, *ssa.MakeInterface:
		return true
	case *ssa.UnOp:
		return v.Op == token.MUL
	case *ssa.Convert:
		return true
	}
	return false
}

// carries: v is a copy (through phis, returns, cells, fields, interface conversions) of one of targets.
func (g *cGraph) carries(v CV, targets map[CV]bool) bool {
	seen := map[CV]bool{}
	var walk func(x CV, d int) bool
	walk = func(x CV, d int) bool {
		x = g.res(x)
		if targets[x] {
			return true
		}
		if seen[x] || d > 40 || !g.copyOnly(x) {
			return false
		}
		seen[x] = true
		for _, in := range g.inputs(x) {
			if walk(in, d+1) {
				return true
			}
		}
		return false
	}
	return walk(v, 0)
}

// coreFrom: the running total: the seed additions plus every copy of them
// (phis, returns, cells, conversions). A merge point belongs to it when at
// least one incoming value is the total and no other incoming value is
// COMPUTED FROM the total (count-1 …); starting values that are independent
// of it (0, 1, the result of copy(), a parameter) are fine.
func (g *cGraph) coreFrom(seed []CV) map[CV]bool {
	set := map[CV]bool{}
	for _, s := range seed {
		set[g.res(s)] = true
	}
	derived := g.flowFrom(seed, func(CV) bool { return true })
	var all []CV
	g.eachInstr(func(n *cgNode, in ssa.Instruction) {
		if v, ok := in.(ssa.Value); ok {
			all = append(all, CV{n.C, v})
		}
	})
	for changed := true; changed; {
		changed = false
		for _, y := range all {
			if set[y] || !g.copyOnly(y) {
				continue
			}
			ins := g.inputs(y)
			if len(ins) == 0 {
				continue
			}
			any, allOK := false, true
			for _, in := range ins {
				switch {
				case set[in]:
					any = true
				case in == y:
				case derived[in] && !g.onlyThroughCopies(in, y):
					allOK = false
				}
			}
			if any && allOK {
				set[y] = true
				changed = true
			}
		}
	}
	return set
}

// onlyThroughCopies: in is computed from the total only by copying, through merge point y itself
// (a loop-carried or outer phi that will join the set once y does).
func (g *cGraph) onlyThroughCopies(in, y CV) bool {
	seen := map[CV]bool{}
	var walk func(x CV, d int) bool
	walk = func(x CV, d int) bool {
		if seen[x] || d > 12 {
			return true
		}
		seen[x] = true
		if !g.copyOnly(x) {
			return false
		}
		for _, i := range g.inputs(x) {
			if !walk(i, d+1) {
				return false
			}
		}
		return true
	}
	_ = y
	return walk(in, 0)
}

// constLike: a constant, or a phi merging only constants (n := 0; if c { n = 1 }).
func (g *cGraph) constLike(cv CV, d int) bool {
	cv = g.res(cv)
	if c, ok := cv.V.(*ssa.Const); ok {
		return c.Value != nil
	}
	if d > 4 {
		return false
	}
	if _, isPhi := cv.V.(*ssa.Phi); !isPhi {
		return false
	}
	edges, ok := g.phiEdges(cv)
	if !ok || len(edges) == 0 {
		return false
	}
	for _, e := range edges {
		if !g.constLike(e.Val, d+1) {
			return false
		}
	}
	return true
}

// ---------------------------------------------------------------- linear forms

type cgLin struct {
	Base CV // zero CV = pure constant
	K    int64
}

func (l cgLin) isConst() bool { return l.Base.V == nil }

func (g *cGraph) lin(cv CV) cgLin {
	return g.linD(cv, 0)
}

func (g *cGraph) linD(cv CV, d int) cgLin {
	cv = g.deep(cv)
	if d > 12 {
		return cgLin{cv, 0}
	}
	// result of an expanded helper that returns the same expression on every path (func limit() int { return S + 1 })
	if _, isPhi := cv.V.(*ssa.Phi); !isPhi {
		if edges, ok := g.phiEdges(cv); ok && len(edges) > 0 {
			first := g.linD(edges[0].Val, d+1)
			same := true
			for _, e := range edges[1:] {
				if g.linD(e.Val, d+1) != first {
					same = false
				}
			}
			if same {
				return first
			}
		}
	}
	switch x := cv.V.(type) {
	case *ssa.Const:
		if x.Value != nil && x.Value.Kind() == constant.Int {
			if k, ok := constant.Int64Val(x.Value); ok {
				return cgLin{CV{}, k}
			}
		}
	case *ssa.BinOp:
		if x.Op == token.ADD {
			a, b := g.linD(CV{cv.C, x.X}, d+1), g.linD(CV{cv.C, x.Y}, d+1)
			if b.isConst() {
				return cgLin{a.Base, a.K + b.K}
			}
			if a.isConst() {
				return cgLin{b.Base, a.K + b.K}
			}
		}
		if x.Op == token.SUB {
			a, b := g.linD(CV{cv.C, x.X}, d+1), g.linD(CV{cv.C, x.Y}, d+1)
			if b.isConst() {
				return cgLin{a.Base, a.K - b.K}
			}
		}
	case *ssa.Convert:
		_, ok1 := x.Type().Underlying().(*types.Basic)
		_, ok2 := x.X.Type().Underlying().(*types.Basic)
		if ok1 && ok2 {
			return g.linD(CV{cv.C, x.X}, d+1)
		}
	case *ssa.Call:
		// len(x) of a slice value cut with known bounds: High - Low
		if builtinName(x) == "len" && len(x.Call.Args) == 1 {
			if l, ok := g.sliceLenLin(CV{cv.C, x.Call.Args[0]}, d+1); ok {
				return l
			}
		}
		// min(a, b) / max(a, b) of constants
		if b := builtinName(x); (b == "min" || b == "max") && len(x.Call.Args) == 2 {
			a, c := g.linD(CV{cv.C, x.Call.Args[0]}, d+1), g.linD(CV{cv.C, x.Call.Args[1]}, d+1)
			if a.isConst() && c.isConst() {
				if (b == "min") == (a.K < c.K) {
					return a
				}
				return c
			}
		}
	}
	return cgLin{cv, 0}
}

func (g *cGraph) constInt(cv CV) (int64, bool) {
	l := g.lin(cv)
	if l.isConst() {
		return l.K, true
	}
	return 0, false
}

func (g *cGraph) linStr(l cgLin) string {
	if l.isConst() {
		return fmt.Sprint(l.K)
	}
	n := "<" + l.Base.V.String() + ">"
	switch b := l.Base.V.(type) {
	case *ssa.Parameter:
		n = b.Name()
	case *ssa.Phi:
		if b.Comment != "" {
			n = b.Comment
		}
	}
	if l.K == 0 {
		return n
	}
	return fmt.Sprintf("%s%+d", n, l.K)
}

// constString through conversions.
func (g *cGraph) constString(cv CV) (string, bool) {
	cv = g.deep(cv)
	switch x := cv.V.(type) {
	case *ssa.Const:
		if x.Value != nil && x.Value.Kind() == constant.String {
			return constant.StringVal(x.Value), true
		}
	case *ssa.Convert:
		return g.constString(CV{cv.C, x.X})
	case *ssa.ChangeType:
		return g.constString(CV{cv.C, x.X})
	}
	return "", false
}

// ---------------------------------------------------------------- comparisons

type cgCmp struct {
	Op   token.Token
	X, Y CV
}

func c01FlipOp(op token.Token) token.Token {
	switch op {
	case token.LSS:
		return token.GTR
	case token.GTR:
		return token.LSS
	case token.LEQ:
		return token.GEQ
	case token.GEQ:
		return token.LEQ
	}
	return op
}

// stripNot removes leading negations.
func (g *cGraph) stripNot(cv CV, branch bool) (CV, bool) {
	for i := 0; i < 8; i++ {
		cv = g.res(cv)
		u, ok := cv.V.(*ssa.UnOp)
		if !ok || u.Op != token.NOT {
			break
		}
		cv, branch = CV{cv.C, u.X}, !branch
	}
	return cv, branch
}

// decode: cond taken with branch as a comparison.
func (g *cGraph) decode(cond CV, branch bool) (cgCmp, bool) {
	cond, branch = g.stripNot(cond, branch)
	bo, ok := cond.V.(*ssa.BinOp)
	if !ok {
		return cgCmp{}, false
	}
	switch bo.Op {
	case token.EQL, token.NEQ, token.LSS, token.LEQ, token.GTR, token.GEQ:
	default:
		return cgCmp{}, false
	}
	op := bo.Op
	if !branch {
		op = negateOp(op)
	}
	return cgCmp{op, CV{cond.C, bo.X}, CV{cond.C, bo.Y}}, true
}

func (g *cGraph) isNil(cv CV) bool {
	cv = g.res(cv)
	return isNilConst(cv.V)
}

// nonNil: cv is certainly not nil at node at: a freshly made error, a
// package-level error variable (io.EOF, io.ErrUnexpectedEOF, Err* of the
// package), an interface made from a concrete value, or tested != nil on
// every path to at.
func (g *cGraph) nonNil(cv CV, at *cgNode) bool {
	cv = g.deep(cv)
	switch x := cv.V.(type) {
	case *ssa.Call:
		if callIs(x, "fmt", "", "Errorf") || callIs(x, "errors", "", "New") || callIs(x, "errors", "", "Join") {
			return true
		}
	case *ssa.MakeInterface:
		return true
	case *ssa.UnOp:
		if x.Op == token.MUL {
			if gl, ok := x.X.(*ssa.Global); ok && types.Identical(gl.Type().(*types.Pointer).Elem(), types.Universe.Lookup("error").Type()) {
				return true
			}
		}
	}
	if at != nil {
		for _, dc := range g.domConds(at) {
			if cmp, ok := g.decode(dc.Cond, dc.Branch); ok && cmp.Op == token.NEQ {
				a, b := g.deep(cmp.X), g.deep(cmp.Y)
				if (g.sameValue(a, cv) && isNilConst(b.V)) || (g.sameValue(b, cv) && isNilConst(a.V)) {
					return true
				}
			}
		}
	}
	return false
}

// knownNil: cv is nil at node at (constant, or tested == nil on every path, or a copy thereof).
func (g *cGraph) knownNil(cv CV, at *cgNode) bool {
	cv = g.deep(cv)
	if isNilConst(cv.V) {
		return true
	}
	if at != nil {
		for _, dc := range g.domConds(at) {
			if cmp, ok := g.decode(dc.Cond, dc.Branch); ok && cmp.Op == token.EQL {
				a, b := g.deep(cmp.X), g.deep(cmp.Y)
				if (g.sameValue(a, cv) && isNilConst(b.V)) || (g.sameValue(b, cv) && isNilConst(a.V)) {
					return true
				}
			}
		}
	}
	return false
}

// errTest: cond is a test of (a copy of) one of errs: e ==/!= nil, e == X,
// errors.Is/As(e, ...), possibly negated, possibly computed by a same-package
// predicate (func failed(e error) bool) or kept in a boolean first.
func (g *cGraph) errTest(cond CV, errs map[CV]bool) bool {
	return g.errTestD(cond, errs, 0, map[CV]bool{})
}

func (g *cGraph) errTestD(cond CV, errs map[CV]bool, d int, seen map[CV]bool) bool {
	cond, _ = g.stripNot(cond, true)
	if seen[cond] || d > 6 {
		return false
	}
	seen[cond] = true
	if cmp, ok := g.decode(cond, true); ok && (cmp.Op == token.EQL || cmp.Op == token.NEQ) {
		if g.carries(cmp.X, errs) || g.carries(cmp.Y, errs) {
			return true
		}
	}
	if call, ok := cond.V.(*ssa.Call); ok && (callIs(call, "errors", "", "Is") || callIs(call, "errors", "", "As")) && len(call.Call.Args) > 0 {
		return g.carries(CV{cond.C, call.Call.Args[0]}, errs)
	}
	// a boolean computed elsewhere: phi / result of an inlined predicate / variable
	if b, ok := cond.V.Type().Underlying().(*types.Basic); ok && b.Kind() == types.Bool {
		if edges, ok := g.phiEdges(cond); ok {
			for _, e := range edges {
				if g.errTestD(e.Val, errs, d+1, seen) {
					return true
				}
				// a constant chosen under an error test (if e != nil { return true })
				if _, isK := g.res(e.Val).V.(*ssa.Const); isK {
					if j := g.joinOf(cond); j != nil {
						for _, dc := range g.condsOnEdge(e.Pred, j) {
							if dc.At.C == e.Pred.C && dc.At.C != cond.C && g.errTestD(dc.Cond, errs, d+1, seen) {
								return true
							}
						}
					}
				}
			}
		} else if vals, ok := g.loadVals(cond); ok {
			for _, v := range vals {
				if g.errTestD(v, errs, d+1, seen) {
					return true
				}
			}
		}
	}
	return false
}

// ---------------------------------------------------------------- memory objects

// objKey names the memory object a slice / pointer value designates, up to
// windows: Slice and IndexAddr are stripped, loads are named by the address
// they load from. Two values with equal keys designate (windows of) the same
// backing array.
func (g *cGraph) objKey(cv CV) string {
	return g.objKeyD(cv, 0)
}

func (g *cGraph) objKeyD(cv CV, d int) string {
	cv = g.deep(cv)
	if d > 12 {
		return cvKey(cv)
	}
	if edges, ok := g.phiEdges(cv); ok {
		key := ""
		for _, e := range edges {
			if g.isNil(e.Val) {
				continue
			}
			k := g.objKeyD(e.Val, d+1)
			if key != "" && k != key {
				return cvKey(cv)
			}
			key = k
		}
		if key != "" {
			return key
		}
		return cvKey(cv)
	}
	switch x := cv.V.(type) {
	case *ssa.Slice:
		return g.objKeyD(CV{cv.C, x.X}, d+1)
	case *ssa.IndexAddr:
		return g.objKeyD(CV{cv.C, x.X}, d+1)
	case *ssa.UnOp:
		if x.Op == token.MUL {
			return "*(" + g.objKeyD(CV{cv.C, x.X}, d+1) + ")"
		}
	case *ssa.ChangeType:
		return g.objKeyD(CV{cv.C, x.X}, d+1)
	case *ssa.TypeAssert:
		return "assert(" + g.objKeyD(CV{cv.C, x.X}, d+1) + ")"
	case *ssa.FieldAddr:
		return fmt.Sprintf("%s.f%d", g.objKeyD(CV{cv.C, x.X}, d+1), x.Field)
	}
	return cvKey(cv)
}

// fromPool: the object cv designates was obtained from (*sync.Pool).Get.
func (g *cGraph) fromPool(cv CV) bool {
	for v := range g.cone(cv) {
		if c, ok := v.V.(*ssa.Call); ok && callIs(c, "sync", "Pool", "Get") {
			return true
		}
	}
	return false
}

// sliceRoot strips windows (Slice) off a slice value.
func (g *cGraph) sliceRoot(cv CV) CV {
	for i := 0; i < 16; i++ {
		cv = g.deep(cv)
		switch x := cv.V.(type) {
		case *ssa.Slice:
			cv = CV{cv.C, x.X}
			continue
		case *ssa.ChangeType:
			cv = CV{cv.C, x.X}
			continue
		}
		break
	}
	return cv
}

// ---------------------------------------------------------------- the fill predicate

type cgTri int

const (
	triU cgTri = iota // unknown
	triT
	triF
	triP // value == P
	triN // value == !P
	triS // the value being evaluated itself (loop-carried cycle): no information
)

func (t cgTri) String() string { return [...]string{"?", "true", "false", "P", "!P", "self"}[t] }

func triNeg(t cgTri) cgTri {
	switch t {
	case triT:
		return triF
	case triF:
		return triT
	case triP:
		return triN
	case triN:
		return triP
	case triS:
		return triS
	}
	return triU
}

// cgPipe is a segment pipeline: the Read that fills segments, its running
// count, the fill limit B; P = (count >= B).
type cgPipe struct {
	g      *cGraph
	read   CV // the Read call
	nn     CV
	err    CV
	core   map[CV]bool // the running count and its copies
	errs   map[CV]bool
	bound  cgLin
	memo   map[string]cgTri
	inprog map[CV]bool
}

// classify: 1 cond<=>P, -1 cond<=>!P, 2 a comparison of the count with another threshold, 0 unrelated.
func (pp *cgPipe) classify(cond CV) int {
	g := pp.g
	cmp, ok := g.decode(cond, true)
	if !ok {
		return 0
	}
	lx, ly := g.lin(cmp.X), g.lin(cmp.Y)
	op := cmp.Op
	cx, cy := !lx.isConst() && pp.core[lx.Base], !ly.isConst() && pp.core[ly.Base]
	if !cx && cy {
		lx, ly, op = ly, lx, c01FlipOp(op)
		cx, cy = cy, cx
	}
	if !cx || cy {
		return 0
	}
	// count + lx.K  op  ly   ==>  count op ly - lx.K
	t := cgLin{ly.Base, ly.K - lx.K}
	switch op {
	case token.GTR:
		t.K++
		fallthrough
	case token.GEQ, token.EQL:
		if t == pp.bound {
			return 1
		}
		return 2
	case token.LEQ:
		t.K++
		fallthrough
	case token.LSS, token.NEQ:
		if t == pp.bound {
			return -1
		}
		return 2
	}
	return 0
}

// pFact: is P known on every path to n (or along the edge pred->to)?
func (pp *cgPipe) pFact(conds []cgCond, depth int) (val, known bool) {
	v, k, _ := pp.pFactX(conds, depth)
	return v, k
}

// pFactX also reports when the conditions contradict each other about P (an infeasible path, e.g. the
// fall-through of a switch over a two-valued flag).
func (pp *cgPipe) pFactX(conds []cgCond, depth int) (val, known, contra bool) {
	for _, dc := range conds {
		t := pp.evalD(dc.Cond, dc.At, depth+1, false)
		var v bool
		switch t {
		case triP:
			v = dc.Branch
		case triN:
			v = !dc.Branch
		case triT:
			if !dc.Branch {
				contra = true
			}
			continue
		case triF:
			if dc.Branch {
				contra = true
			}
			continue
		default:
			continue
		}
		if known && v != val {
			contra = true
		}
		if !known {
			val, known = v, true
		}
	}
	return val, known, contra
}

// eval evaluates boolean cv as seen at node at.
func (pp *cgPipe) eval(cv CV, at *cgNode) cgTri {
	return pp.evalD(cv, at, 0, true)
}

func (pp *cgPipe) evalD(cv CV, at *cgNode, depth int, refine bool) cgTri {
	g := pp.g
	if depth > 14 {
		return triU
	}
	cv = g.res(cv)
	if c, ok := cv.V.(*ssa.Const); ok && c.Value != nil && c.Value.Kind() == constant.Bool {
		if constant.BoolVal(c.Value) {
			return triT
		}
		return triF
	}
	if u, ok := cv.V.(*ssa.UnOp); ok && u.Op == token.NOT {
		return triNeg(pp.evalD(CV{cv.C, u.X}, at, depth+1, refine))
	}
	var conds []cgCond
	if at != nil {
		conds = g.domConds(at)
	}
	// directly tested on the way to at
	for _, dc := range conds {
		c, br := g.stripNot(dc.Cond, dc.Branch)
		if c == cv {
			if br {
				return triT
			}
			return triF
		}
	}
	res := triU
	switch pp.classify(cv) {
	case 1:
		res = triP
	case -1:
		res = triN
	}
	if res == triU {
		res = pp.evalEnumCmp(cv, at, depth)
	}
	if res == triU {
		if edges, ok := g.phiEdges(cv); ok {
			if pp.inprog == nil {
				pp.inprog = map[CV]bool{}
			}
			if pp.inprog[cv] {
				return triS
			}
			pp.inprog[cv] = true
			res = pp.evalPhi(cv, edges, at, depth)
			delete(pp.inprog, cv)
		} else if leaves, ok := g.valuesAt(cv); ok && len(leaves) > 0 {
			// a variable kept in a local cell / field (of a by-value state struct …): its reaching
			// assignments — including the zero value it starts with — each under the conditions of its path
			if pp.inprog == nil {
				pp.inprog = map[CV]bool{}
			}
			if pp.inprog[cv] {
				return triS
			}
			pp.inprog[cv] = true
			res = pp.evalLeaves(leaves, depth)
			delete(pp.inprog, cv)
		}
	}
	if refine && (res == triP || res == triN) {
		if pv, known := pp.pFact(conds, depth); known {
			if (res == triP) == pv {
				return triT
			}
			return triF
		}
	}
	return res
}

// feasible: can the value of the phi formed at join j have come in over edge
// e, given the conditions established between j and at?
func (pp *cgPipe) feasible(j *cgNode, e cgEdge, at *cgNode, depth int) bool {
	g := pp.g
	if at == nil || j == nil {
		return true
	}
	for _, dc := range g.domConds(at) {
		if !g.dominates(j, dc.At) {
			continue
		}
		c, br := g.stripNot(dc.Cond, dc.Branch)
		// (i) the condition is itself a phi at j
		if g.joinOf(c) == j {
			if sib, ok := g.sibling(c, e); ok {
				t := pp.evalD(sib, e.Pred, depth+1, true)
				if (t == triT && !br) || (t == triF && br) {
					return false
				}
			}
			continue
		}
		// (ii) x ==/!= nil with x a phi at j
		if cmp, ok := g.decode(c, br); ok && (cmp.Op == token.EQL || cmp.Op == token.NEQ) {
			x, y := g.res(cmp.X), g.res(cmp.Y)
			if isNilConst(x.V) {
				x, y = y, x
			}
			if !isNilConst(y.V) || g.joinOf(x) != j {
				continue
			}
			sib, ok := g.sibling(x, e)
			if !ok {
				continue
			}
			wantNil := cmp.Op == token.EQL
			if wantNil && g.nonNil(sib, e.Pred) {
				return false
			}
			if !wantNil && g.knownNil(sib, e.Pred) {
				return false
			}
		}
	}
	return true
}

// sibling: the value phi c (formed at the same join as the phi e belongs to) receives over e's predecessor.
func (g *cGraph) sibling(c CV, e cgEdge) (CV, bool) {
	edges, ok := g.phiEdges(c)
	if !ok {
		return CV{}, false
	}
	for _, x := range edges {
		if x.Pred == e.Pred {
			return x.Val, true
		}
	}
	return CV{}, false
}

func (pp *cgPipe) evalPhi(cv CV, edges []cgEdge, at *cgNode, depth int) cgTri {
	return pp.evalPhiMapped(cv, edges, at, depth, nil)
}

// evalPhiMapped: like evalPhi, with the truth of each incoming value given by mapv (used for `x == K` where x
// is a flag / small enum chosen among constants, e.g. the result of a phase helper).
func (pp *cgPipe) evalPhiMapped(cv CV, edges []cgEdge, at *cgNode, depth int, mapv func(CV) cgTri) cgTri {
	g := pp.g
	j := g.joinOf(cv)
	const (
		none = iota
		tt
		ff
		mixed
	)
	whenP, whenN := none, none
	add := func(slot *int, v bool) {
		k := ff
		if v {
			k = tt
		}
		if *slot == none {
			*slot = k
		} else if *slot != k {
			*slot = mixed
		}
	}
	n := 0
	for _, e := range edges {
		if !g.reachable(e.Pred) || !pp.feasible(j, e, at, depth) {
			continue
		}
		if g.res(e.Val) == cv {
			continue // loop-carried copy of itself
		}
		n++
		var conds []cgCond
		if j != nil {
			conds = g.condsOnEdge(e.Pred, j)
		} else {
			conds = g.domConds(e.Pred)
		}
		var t cgTri
		if mapv != nil {
			t = mapv(e.Val)
		} else {
			t = pp.evalD(e.Val, e.Pred, depth+1, false)
		}
		if t == triU && mapv == nil {
			// maybe decided by the edge condition itself
			for _, dc := range conds {
				c, br := g.stripNot(dc.Cond, dc.Branch)
				if c == g.res(e.Val) {
					t = triF
					if br {
						t = triT
					}
				}
			}
		}
		if t == triS {
			n--
			continue
		}
		pv, known, contra := pp.pFactX(conds, depth)
		if contra {
			n--
			continue
		}
		switch t {
		case triT, triF:
			if !known || pv {
				add(&whenP, t == triT)
			}
			if !known || !pv {
				add(&whenN, t == triT)
			}
		case triP, triN:
			if !known || pv {
				add(&whenP, t == triP)
			}
			if !known || !pv {
				add(&whenN, t == triN)
			}
		default:
			return triU
		}
	}
	if n == 0 || whenP == mixed || whenN == mixed {
		return triU
	}
	if whenP == none {
		whenP = whenN
	}
	if whenN == none {
		whenN = whenP
	}
	switch {
	case whenP == tt && whenN == tt:
		return triT
	case whenP == ff && whenN == ff:
		return triF
	case whenP == tt && whenN == ff:
		return triP
	case whenP == ff && whenN == tt:
		return triN
	}
	return triU
}

// cntLin: linear form relative to the fill count: base "count" is
// represented by pp.read (the Read call) as a marker.
func (pp *cgPipe) marker() CV { return pp.read }

// linWhen evaluates integer cv at node at assuming P == pv, as count+k, B-relative or constant.
func (pp *cgPipe) linWhen(cv CV, at *cgNode, pv bool, depth int) (cgLin, bool) {
	g := pp.g
	if depth > 14 {
		return cgLin{}, false
	}
	l := g.lin(cv)
	if l.isConst() {
		return l, true
	}
	if pp.core[l.Base] {
		return cgLin{pp.marker(), l.K}, true
	}
	// max(x, 0) of a byte count is the count
	if c, ok := l.Base.V.(*ssa.Call); ok && builtinName(c) == "max" && len(c.Call.Args) == 2 {
		for i := 0; i < 2; i++ {
			if k, ok := g.constInt(CV{l.Base.C, c.Call.Args[i]}); ok && k == 0 {
				if ll, ok := pp.linWhen(CV{l.Base.C, c.Call.Args[1-i]}, at, pv, depth+1); ok && ll.Base == pp.marker() {
					return cgLin{ll.Base, ll.K + l.K}, true
				}
			}
		}
	}
	// len(x)
	if c, ok := l.Base.V.(*ssa.Call); ok && builtinName(c) == "len" && len(c.Call.Args) == 1 {
		if ll, ok := pp.lenWhen(CV{l.Base.C, c.Call.Args[0]}, at, pv, depth+1); ok {
			return cgLin{ll.Base, ll.K + l.K}, true
		}
		return cgLin{}, false
	}
	edges, ok := g.phiEdges(l.Base)
	if !ok {
		return l, true
	}
	j := g.joinOf(l.Base)
	var out cgLin
	n := 0
	for _, e := range edges {
		if !g.reachable(e.Pred) || !pp.feasible(j, e, at, depth) {
			continue
		}
		var conds []cgCond
		if j != nil {
			conds = g.condsOnEdge(e.Pred, j)
		} else {
			conds = g.domConds(e.Pred)
		}
		if ev, known, contra := pp.pFactX(conds, depth); contra || (known && ev != pv) {
			continue
		}
		el, ok := pp.linWhen(e.Val, e.Pred, pv, depth+1)
		if !ok {
			return cgLin{}, false
		}
		if n > 0 && el != out {
			return cgLin{}, false
		}
		out = el
		n++
	}
	if n == 0 {
		return cgLin{}, false
	}
	return cgLin{out.Base, out.K + l.K}, true
}

// lenWhen: length of slice value cv assuming P == pv.
func (pp *cgPipe) lenWhen(cv CV, at *cgNode, pv bool, depth int) (cgLin, bool) {
	g := pp.g
	if depth > 14 {
		return cgLin{}, false
	}
	cv = g.deep(cv)
	if isNilConst(cv.V) {
		return cgLin{CV{}, 0}, true
	}
	if edges, ok := g.phiEdges(cv); ok {
		j := g.joinOf(cv)
		var out cgLin
		n := 0
		for _, e := range edges {
			if !g.reachable(e.Pred) || !pp.feasible(j, e, at, depth) {
				continue
			}
			var conds []cgCond
			if j != nil {
				conds = g.condsOnEdge(e.Pred, j)
			} else {
				conds = g.domConds(e.Pred)
			}
			if ev, known, contra := pp.pFactX(conds, depth); contra || (known && ev != pv) {
				continue
			}
			el, ok := pp.lenWhen(e.Val, e.Pred, pv, depth+1)
			if !ok {
				return cgLin{}, false
			}
			if n > 0 && el != out {
				return cgLin{}, false
			}
			out = el
			n++
		}
		return out, n > 0
	}
	if sl, ok := cv.V.(*ssa.Slice); ok && sl.High != nil {
		h, ok := pp.linWhen(CV{cv.C, sl.High}, g.nodeOfValue(cv), pv, depth+1)
		if !ok {
			return cgLin{}, false
		}
		if sl.Low != nil {
			lo, ok := g.constInt(CV{cv.C, sl.Low})
			if !ok {
				return cgLin{}, false
			}
			h.K -= lo
		}
		return h, true
	}
	return cgLin{}, false
}

// sliceLowZero: every window making up slice value cv starts at index 0 of its root.
func (g *cGraph) sliceLowZero(cv CV, depth int) bool {
	cv = g.deep(cv)
	if depth > 10 {
		return false
	}
	if isNilConst(cv.V) {
		return true
	}
	if edges, ok := g.phiEdges(cv); ok {
		for _, e := range edges {
			if !g.sliceLowZero(e.Val, depth+1) {
				return false
			}
		}
		return true
	}
	if sl, ok := cv.V.(*ssa.Slice); ok {
		if sl.Low != nil {
			if k, ok := g.constInt(CV{cv.C, sl.Low}); !ok || k != 0 {
				return false
			}
		}
		if inner, ok := g.deep(CV{cv.C, sl.X}).V.(*ssa.Slice); ok {
			return g.sliceLowZero(CV{cv.C, inner}, depth+1)
		}
		return true
	}
	return true
}

// calleeName gives "pkgpath.[Recv.]Name" of a call's (resolved) callee, "" if dynamic.
func calleeFull(c ssa.CallInstruction) string {
	obj := calleeObj(c)
	if obj == nil || obj.Pkg() == nil {
		return ""
	}
	sig := obj.Type().(*types.Signature)
	if sig.Recv() != nil {
		return obj.Pkg().Path() + "." + typeBaseName(sig.Recv().Type()) + "." + obj.Name()
	}
	return obj.Pkg().Path() + "." + obj.Name()
}

// sliceLenLin: the length of slice value v as a linear form.
func (g *cGraph) sliceLenLin(v CV, d int) (cgLin, bool) {
	v = g.deep(v)
	if d > 12 {
		return cgLin{}, false
	}
	switch x := v.V.(type) {
	case *ssa.MakeSlice:
		return g.linD(CV{v.C, x.Len}, d+1), true
	case *ssa.Alloc:
		if arr, ok := deref(x.Type()).Underlying().(*types.Array); ok {
			return cgLin{CV{}, arr.Len()}, true
		}
	case *ssa.Slice:
		var lo cgLin
		if x.Low != nil {
			lo = g.linD(CV{v.C, x.Low}, d+1)
			if !lo.isConst() {
				return cgLin{}, false
			}
		}
		if x.High != nil {
			h := g.linD(CV{v.C, x.High}, d+1)
			return cgLin{h.Base, h.K - lo.K}, true
		}
		inner, ok := g.sliceLenLin(CV{v.C, x.X}, d+1)
		if !ok {
			return cgLin{}, false
		}
		return cgLin{inner.Base, inner.K - lo.K}, true
	}
	if edges, ok := g.phiEdges(v); ok && len(edges) > 0 {
		var out cgLin
		n := 0
		for _, e := range edges {
			if g.isNil(e.Val) {
				continue
			}
			l, ok := g.sliceLenLin(e.Val, d+1)
			if !ok || (n > 0 && l != out) {
				return cgLin{}, false
			}
			out = l
			n++
		}
		return out, n > 0
	}
	return cgLin{}, false
}

// evalEnumCmp: cv is `x == K` / `x != K` with K a constant and x chosen among constants at a merge point
// (a flag or small enum returned by a phase helper, or assigned in the branches of the decision).
func (pp *cgPipe) evalEnumCmp(cv CV, at *cgNode, depth int) cgTri {
	g := pp.g
	bo, ok := cv.V.(*ssa.BinOp)
	if !ok || (bo.Op != token.EQL && bo.Op != token.NEQ) {
		return triU
	}
	x, k := g.res(CV{cv.C, bo.X}), g.res(CV{cv.C, bo.Y})
	if _, isK := x.V.(*ssa.Const); isK {
		x, k = k, x
	}
	kc, ok := k.V.(*ssa.Const)
	if !ok || kc.Value == nil {
		return triU
	}
	x = g.deep(x)
	edges, ok := g.phiEdges(x)
	if !ok {
		return triU
	}
	if pp.inprog == nil {
		pp.inprog = map[CV]bool{}
	}
	if pp.inprog[x] {
		return triS
	}
	pp.inprog[x] = true
	defer delete(pp.inprog, x)
	var mapv func(v CV) cgTri
	mapv = func(v CV) cgTri {
		v = g.deep(v)
		c, ok := v.V.(*ssa.Const)
		if !ok || c.Value == nil || c.Value.Kind() != kc.Value.Kind() {
			// a nested choice among constants
			if es, ok := g.phiEdges(v); ok && !pp.inprog[v] {
				pp.inprog[v] = true
				t := pp.evalPhiMapped(v, es, nil, depth+1, mapv)
				delete(pp.inprog, v)
				return t
			}
			return triU
		}
		eq := constant.Compare(c.Value, token.EQL, kc.Value)
		if (bo.Op == token.EQL) == eq {
			return triT
		}
		return triF
	}
	return pp.evalPhiMapped(x, edges, at, depth+1, mapv)
}

// errOperands: the error-typed operands a condition tests (e of e != nil, e == X, errors.Is(e, …)).
func (g *cGraph) errOperands(cond CV) []CV {
	cond, _ = g.stripNot(cond, true)
	errT := types.Universe.Lookup("error").Type()
	var out []CV
	if cmp, ok := g.decode(cond, true); ok {
		for _, o := range []CV{cmp.X, cmp.Y} {
			if !g.isNil(o) && types.Identical(o.V.Type(), errT) {
				out = append(out, o)
			}
		}
	}
	if call, ok := cond.V.(*ssa.Call); ok && (callIs(call, "errors", "", "Is") || callIs(call, "errors", "", "As")) && len(call.Call.Args) > 0 {
		out = append(out, CV{cond.C, call.Call.Args[0]})
	}
	if edges, ok := g.phiEdges(cond); ok {
		for _, e := range edges {
			out = append(out, g.errOperands(e.Val)...)
		}
	}
	return out
}

// choiceLeaves: the values v may take (through phis, return phis and local variables), each with the branch
// conditions under which it is chosen.
func (g *cGraph) choiceLeaves(v CV, depth int, seen map[CV]bool) []cgLeaf {
	v = g.res(v)
	if depth > 10 || seen[v] {
		return nil
	}
	seen[v] = true
	if edges, ok := g.phiEdges(v); ok {
		j := g.joinOf(v)
		var out []cgLeaf
		for _, e := range edges {
			var cs []cgCond
			if j != nil {
				cs = g.condsOnEdge(e.Pred, j)
			} else {
				cs = g.domConds(e.Pred)
			}
			for _, l := range g.choiceLeaves(e.Val, depth+1, seen) {
				l.Conds = append(append([]cgCond{}, l.Conds...), cs...)
				out = append(out, l)
			}
		}
		return out
	}
	if lv, ok := g.valuesAt(v); ok {
		var out []cgLeaf
		for _, l := range lv {
			if l.Zero {
				out = append(out, l)
				continue
			}
			for _, sub := range g.choiceLeaves(l.Val, depth+1, seen) {
				sub.Conds = append(append([]cgCond{}, sub.Conds...), l.Conds...)
				out = append(out, sub)
			}
		}
		return out
	}
	if vals, ok := g.loadVals(v); ok && len(vals) > 0 {
		var out []cgLeaf
		for _, sv := range vals {
			n := g.nodeOfValue(g.res(sv))
			var cs []cgCond
			if n != nil {
				cs = g.domConds(n)
			}
			for _, sub := range g.choiceLeaves(sv, depth+1, seen) {
				sub.Conds = append(append([]cgCond{}, sub.Conds...), cs...)
				out = append(out, sub)
			}
		}
		return out
	}
	return []cgLeaf{{Val: v}}
}

// condOnRaw: the condition compares (a copy of) the raw count of a single Read, directly or through a counter
// / flag that was itself updated under such a comparison.
func (g *cGraph) condOnRaw(cond CV, nnSet map[CV]bool, depth int) bool {
	cond, _ = g.stripNot(cond, true)
	if depth > 4 {
		return false
	}
	cmp, ok := g.decode(cond, true)
	if !ok {
		if edges, ok := g.phiEdges(cond); ok {
			for _, e := range edges {
				if g.condOnRaw(e.Val, nnSet, depth+1) {
					return true
				}
			}
		}
		return false
	}
	if g.carries(cmp.X, nnSet) || g.carries(cmp.Y, nnSet) {
		return true
	}
	// a counter (x == K / x >= K) whose increments happen under a test of the raw count
	for _, o := range []CV{cmp.X, cmp.Y} {
		o = g.res(o)
		if _, isK := o.V.(*ssa.Const); isK {
			continue
		}
		for _, lf := range g.choiceLeaves(o, 0, map[CV]bool{}) {
			bo, isAdd := g.res(lf.Val).V.(*ssa.BinOp)
			if !isAdd || bo.Op != token.ADD {
				continue
			}
			n := g.nodeOfValue(g.res(lf.Val))
			if n == nil {
				continue
			}
			for _, dc := range g.domConds(n) {
				c2, _ := g.stripNot(dc.Cond, true)
				if c3, ok := g.decode(c2, true); ok && (g.carries(c3.X, nnSet) || g.carries(c3.Y, nnSet)) {
					return true
				}
			}
		}
	}
	return false
}

// sameValue: a and b are the same SSA value, or two loads of the same local variable that see exactly the
// same reaching stores, one dominating the other (the variable is not assigned in between).
func (g *cGraph) sameValue(a, b CV) bool {
	if a == b {
		return true
	}
	ua, ok1 := a.V.(*ssa.UnOp)
	ub, ok2 := b.V.(*ssa.UnOp)
	if !ok1 || !ok2 || ua.Op != token.MUL || ub.Op != token.MUL {
		return false
	}
	ka, _, ok1 := g.memKey(CV{a.C, ua.X})
	kb, _, ok2 := g.memKey(CV{b.C, ub.X})
	if !ok1 || !ok2 || ka != kb {
		return false
	}
	na, nb := g.nodeOf(a.C, ua), g.nodeOf(b.C, ub)
	if na == nil || nb == nil || !(g.dominates(na, nb) || g.dominates(nb, na)) {
		return false
	}
	la, ok1 := g.valuesAt(a)
	lb, ok2 := g.valuesAt(b)
	if !ok1 || !ok2 {
		return false
	}
	set := func(ls []cgLeaf) map[CV]bool {
		m := map[CV]bool{}
		for _, l := range ls {
			if l.Zero {
				m[CV{}] = true
			} else {
				m[g.res(l.Val)] = true
			}
		}
		return m
	}
	sa, sb := set(la), set(lb)
	if len(sa) != len(sb) {
		return false
	}
	for k := range sa {
		if !sb[k] {
			return false
		}
	}
	return true
}

// evalLeaves folds the reaching assignments of a boolean variable like the incoming edges of a phi.
func (pp *cgPipe) evalLeaves(leaves []cgLeaf, depth int) cgTri {
	const (
		none = iota
		tt
		ff
		mixed
	)
	whenP, whenN := none, none
	add := func(slot *int, v bool) {
		k := ff
		if v {
			k = tt
		}
		if *slot == none {
			*slot = k
		} else if *slot != k {
			*slot = mixed
		}
	}
	n := 0
	for _, l := range leaves {
		t := triF // zero value
		if !l.Zero {
			t = pp.evalD(l.Val, nil, depth+1, false)
		}
		if t == triS {
			continue
		}
		pv, known, contra := pp.pFactX(l.Conds, depth)
		if contra {
			continue
		}
		n++
		switch t {
		case triT, triF:
			if !known || pv {
				add(&whenP, t == triT)
			}
			if !known || !pv {
				add(&whenN, t == triT)
			}
		case triP, triN:
			if !known || pv {
				add(&whenP, t == triP)
			}
			if !known || !pv {
				add(&whenN, t == triN)
			}
		default:
			return triU
		}
	}
	if n == 0 || whenP == mixed || whenN == mixed {
		return triU
	}
	if whenP == none {
		whenP = whenN
	}
	if whenN == none {
		whenN = whenP
	}
	switch {
	case whenP == tt && whenN == tt:
		return triT
	case whenP == ff && whenN == ff:
		return triF
	case whenP == tt && whenN == ff:
		return triP
	case whenP == ff && whenN == tt:
		return triN
	}
	return triU
}
