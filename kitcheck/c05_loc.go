package main

// c05Loc: "the variable a value is read from", independent of where the
// program keeps it: an SSA web (phis, parameters bound at call sites) and/or
// local memory locations (a local cell, a field of a local struct). Rules that
// talk about a variable ("now was refreshed", "timer was cleared") observe the
// ASSIGNMENTS to the location: phi edges carrying a value from outside the
// web, stores to the memory location, fresh allocations, leaf actuals bound to
// a web parameter at a call.

import (
	"go/token"

	"golang.org/x/tools/go/ssa"
)

type c05MemKey struct {
	base  *ssa.Alloc
	field int // -1: the cell itself
}

type c05Loc struct {
	web        map[ssa.Value]bool
	mem        map[c05MemKey]bool
	callAssign map[ssa.Instruction][]ssa.Value
}

func c05MemKeyOf(addr ssa.Value) (c05MemKey, bool) {
	switch x := addr.(type) {
	case *ssa.Alloc:
		return c05MemKey{x, -1}, true
	case *ssa.FieldAddr:
		if base, ok := x.X.(*ssa.Alloc); ok {
			return c05MemKey{base, x.Field}, true
		}
	}
	return c05MemKey{}, false
}

// locOf builds the location read by v.
func (a *c05) locOf(v ssa.Value) *c05Loc {
	l := &c05Loc{web: map[ssa.Value]bool{}, mem: map[c05MemKey]bool{}, callAssign: map[ssa.Instruction][]ssa.Value{}}
	var walk func(v ssa.Value, depth int) bool // reports whether v belongs to the location
	walk = func(v ssa.Value, depth int) bool {
		if l.web[v] {
			return true
		}
		if depth > 12 {
			return false
		}
		switch x := v.(type) {
		case *ssa.Phi:
			l.web[v] = true
			for _, ed := range x.Edges {
				walk(ed, depth+1)
			}
			return true
		case *ssa.Parameter:
			fn := x.Parent()
			if isExportedFunc(fn) || a.addrTaken[fn] || len(a.sites[fn]) == 0 {
				return false
			}
			l.web[v] = true
			idx := c05ParamIndex(x)
			for _, s := range a.sites[fn] {
				args := s.Common().Args
				if idx < 0 || idx >= len(args) {
					continue
				}
				if !walk(args[idx], depth+1) {
					l.callAssign[s] = append(l.callAssign[s], args[idx])
				}
			}
			return true
		case *ssa.Extract:
			// one component of a helper's result tuple: the variable continues
			// inside the helper (its return values); returning a value from
			// outside the location is an assignment made at that return
			call, ok := x.Tuple.(*ssa.Call)
			if !ok {
				return false
			}
			hs := a.calleesOf(call)
			if len(hs) == 0 {
				return false
			}
			l.web[v] = true
			for _, h := range hs {
				allInstrs(h, func(in ssa.Instruction) {
					ret, ok := in.(*ssa.Return)
					if !ok || x.Index >= len(ret.Results) || (len(in.Block().Preds) == 0 && in.Block().Index != 0) {
						return
					}
					if !walk(ret.Results[x.Index], depth+1) {
						l.callAssign[ret] = append(l.callAssign[ret], ret.Results[x.Index])
					}
				})
			}
			return true
		case *ssa.Call:
			// a single-result helper that is not itself a plain reading (some of its
			// returns hand back a parameter / a zero value): same treatment
			if x.Call.IsInvoke() || x.Call.Signature().Results().Len() != 1 || a.clockDerived(v) {
				return false
			}
			hs := a.calleesOf(x)
			if len(hs) == 0 {
				return false
			}
			l.web[v] = true
			for _, h := range hs {
				allInstrs(h, func(in ssa.Instruction) {
					ret, ok := in.(*ssa.Return)
					if !ok || len(ret.Results) != 1 || (len(in.Block().Preds) == 0 && in.Block().Index != 0) {
						return
					}
					if !walk(ret.Results[0], depth+1) {
						l.callAssign[ret] = append(l.callAssign[ret], ret.Results[0])
					}
				})
			}
			return true
		case *ssa.UnOp:
			if x.Op == token.MUL {
				if k, ok := c05MemKeyOf(x.X); ok && c05LocStores(x.X) != nil {
					l.mem[k] = true
					l.web[v] = true
					// values stored may themselves be reads of another part of the location
					return true
				}
			}
		}
		return false
	}
	walk(v, 0)
	return l
}

func (l *c05Loc) empty() bool { return len(l.web) == 0 && len(l.mem) == 0 }

// isRead: v is a read of the location (not an assignment of a new value).
func (l *c05Loc) isRead(v ssa.Value) bool {
	if l.web[v] {
		return true
	}
	if u, ok := v.(*ssa.UnOp); ok && u.Op == token.MUL {
		if k, ok := c05MemKeyOf(u.X); ok && l.mem[k] {
			return true
		}
	}
	return false
}

// edgeAssign: values assigned to the location by taking the edge from->to.
func (l *c05Loc) edgeAssign(from, to *ssa.BasicBlock) []ssa.Value {
	pi := -1
	for i, p := range to.Preds {
		if p == from {
			pi = i
		}
	}
	if pi < 0 {
		return nil
	}
	var out []ssa.Value
	for _, in := range to.Instrs {
		phi, ok := in.(*ssa.Phi)
		if !ok {
			break
		}
		if !l.web[phi] || pi >= len(phi.Edges) {
			continue
		}
		if e := phi.Edges[pi]; !l.isRead(e) {
			out = append(out, e)
		}
	}
	return out
}

// stepAssign: values assigned to the location by executing in (nil value: zero/fresh).
func (l *c05Loc) stepAssign(in ssa.Instruction) ([]ssa.Value, bool) {
	switch x := in.(type) {
	case *ssa.Store:
		if k, ok := c05MemKeyOf(x.Addr); ok && l.mem[k] {
			if l.isRead(x.Val) {
				return nil, false
			}
			return []ssa.Value{x.Val}, true
		}
	case *ssa.Alloc:
		for k := range l.mem {
			if k.base == x {
				return []ssa.Value{nil}, true
			}
		}
	}
	if vals, ok := l.callAssign[in]; ok {
		return vals, true
	}
	return nil, false
}

// c05BoolPhi: v is a boolean phi (a flag variable).
func c05BoolPhi(v ssa.Value) bool {
	p, ok := v.(*ssa.Phi)
	return ok && c05IsBool(p.Type())
}

// c05NilablePhi: v is a phi of pointer/interface/chan/func/map/slice type (compared with nil).
func c05NilablePhi(v ssa.Value) bool {
	p, ok := v.(*ssa.Phi)
	return ok && isRefKind(p.Type())
}
