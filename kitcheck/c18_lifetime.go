package main

// C18 (S2): the previous version is removed only through the writer's in-memory
// "previous version" field, so "without crashes only the current version
// directory remains" needs the users of Dir to keep ONE Dir per target for as
// long as they write: a Dir constructed again for every write always has an
// empty prev and nothing is ever removed.

import (
	"go/token"
	"sort"

	"golang.org/x/tools/go/ssa"
)

// c18NewOrigins: the calls of ctor whose result may be the value v (a *Dir): in the same function
// (through phis, variable cells, type changes), or through a field the value is loaded from (every
// store into that field, module-wide).
func c18NewOrigins(p *Prog, ctor *ssa.Function, v ssa.Value, seen map[ssa.Value]bool, depth int) (news []*ssa.Call, unknown bool) {
	if v == nil || seen[v] || depth > 8 {
		return nil, false
	}
	seen[v] = true
	v = c18Root(v)
	switch x := v.(type) {
	case *ssa.Call:
		if staticCallee(x) == ctor {
			return []*ssa.Call{x}, false
		}
		// a same-module helper that returns the Dir
		if f := staticCallee(x); f != nil && p.InModule(f) && len(f.Blocks) > 0 {
			allInstrs(f, func(in ssa.Instruction) {
				if ret, ok := in.(*ssa.Return); ok && len(ret.Results) > 0 {
					n, u := c18NewOrigins(p, ctor, ret.Results[0], seen, depth+1)
					news = append(news, n...)
					unknown = unknown || u
				}
			})
			return news, unknown
		}
		return nil, true
	case *ssa.Phi:
		for _, e := range x.Edges {
			n, u := c18NewOrigins(p, ctor, e, seen, depth+1)
			news = append(news, n...)
			unknown = unknown || u
		}
		return news, unknown
	case *ssa.Const:
		return nil, false // nil
	case *ssa.ChangeType:
		return c18NewOrigins(p, ctor, x.X, seen, depth+1)
	case *ssa.UnOp:
		if x.Op != token.MUL {
			return nil, true
		}
		if id, _, ok := fieldOfValue(x); ok {
			// every value ever stored into that field
			for _, f := range p.Funcs {
				allInstrs(f, func(in ssa.Instruction) {
					st, ok := in.(*ssa.Store)
					if !ok {
						return
					}
					fa, ok := st.Addr.(*ssa.FieldAddr)
					if !ok || fieldIDOfAddr(fa) != id {
						return
					}
					n, u := c18NewOrigins(p, ctor, st.Val, seen, depth+1)
					news = append(news, n...)
					unknown = unknown || u
				})
			}
			return news, unknown
		}
		if cell, ok := x.X.(*ssa.Alloc); ok {
			for _, r := range refs(cell) {
				if st, ok := r.(*ssa.Store); ok && st.Addr == ssa.Value(cell) {
					n, u := c18NewOrigins(p, ctor, st.Val, seen, depth+1)
					news = append(news, n...)
					unknown = unknown || u
				}
			}
			return news, unknown
		}
		if fv, ok := x.X.(*ssa.FreeVar); ok {
			if b := resolveFreeVar(fv); b != nil {
				if cell, ok := b.(*ssa.Alloc); ok {
					for _, r := range refs(cell) {
						if st, ok := r.(*ssa.Store); ok && st.Addr == ssa.Value(cell) {
							n, u := c18NewOrigins(p, ctor, st.Val, seen, depth+1)
							news = append(news, n...)
							unknown = unknown || u
						}
					}
					return news, unknown
				}
			}
		}
	}
	return nil, true
}

// c18InLoop: the instruction sits on a cycle of its function.
func c18InLoop(in ssa.Instruction) bool {
	b := in.Block()
	for _, s := range b.Succs {
		if reachableFrom(s, nil)[b] {
			return true
		}
	}
	return false
}

// c18Repeatable: fn provably runs more than once per owner: it is called from a loop, from two or
// more places of the module, or from a function that is itself repeatable. Constructors (functions
// whose result is a freshly allocated object) and exported entry points are not judged (false).
func c18Repeatable(p *Prog, fn *ssa.Function, seen map[*ssa.Function]bool) (bool, string) {
	if fn == nil || seen[fn] {
		return false, ""
	}
	seen[fn] = true
	var sites []ssa.CallInstruction
	for _, f := range p.Funcs {
		allInstrs(f, func(in ssa.Instruction) {
			if ci, ok := in.(ssa.CallInstruction); ok && staticCallee(ci) == fn {
				sites = append(sites, ci)
			}
		})
	}
	for _, s := range sites {
		if c18InLoop(s) {
			return true, "it is called in a loop of " + FuncName(p, s.Parent())
		}
	}
	if len(sites) >= 2 {
		var names []string
		for _, s := range sites {
			names = append(names, FuncName(p, s.Parent()))
		}
		sort.Strings(names)
		return true, "it is called from several places (" + names[0] + ", " + names[len(names)-1] + ")"
	}
	for _, s := range sites {
		if ok, why := c18Repeatable(p, s.Parent(), seen); ok {
			return true, "its caller " + FuncName(p, s.Parent()) + " runs repeatedly: " + why
		}
	}
	return false, ""
}

// c18Lifetime (S2): every in-module Write acts on a Dir that is not constructed anew for each write.
func c18Lifetime(c *Ctx, write, ctor *ssa.Function) {
	c18LifetimeOn(c.P, c.R, write, ctor, "C18.S2-dir-lifetime", false)
}

func c18LifetimeOn(p *Prog, r *Report, write, ctor *ssa.Function, rule string, samePkg bool) {
	n := 0
	for _, fn := range p.Funcs {
		if !samePkg && fn.Pkg != nil && fn.Pkg == write.Pkg {
			continue
		}
		if fn == write || fn == ctor {
			continue
		}
		fn := fn
		allInstrs(fn, func(in ssa.Instruction) {
			call, ok := in.(*ssa.Call)
			if !ok || staticCallee(call) != write || len(call.Call.Args) == 0 {
				return
			}
			n++
			construct := FuncName(p, fn) + " -> dir.Dir.Write receiver"
			news, unknown := c18NewOrigins(p, ctor, call.Call.Args[0], map[ssa.Value]bool{}, 0)
			bad := ""
			for _, nc := range news {
				g := nc.Parent()
				// per-write construction: the Dir is made in a function that runs again for every write
				// (the writing function itself, or a repeatable function), and not once at construction
				if g == fn {
					if rep, why := c18Repeatable(p, fn, map[*ssa.Function]bool{}); rep || c18InLoop(nc) {
						if c18InLoop(nc) && !rep {
							why = "the construction sits in a loop"
						}
						bad = "dir.New is called in " + FuncName(p, g) + " for every write (" + why + ")"
					}
				} else if rep, why := c18Repeatable(p, g, map[*ssa.Function]bool{}); rep {
					bad = "the Dir written to is constructed by " + FuncName(p, g) + ", which runs repeatedly (" + why + ")"
				}
			}
			switch {
			case bad != "":
				r.Violation(rule, construct, p.Pos(call.Pos()), bad+": each Write then runs on a Dir whose previous-version field is empty, the superseded version directory is never removed and one more version directory (with the old files) stays behind after every write although nothing crashed")
			case unknown || len(news) == 0:
				r.Note("S2: the Dir that %s writes to could not be traced to a dir.New call: its lifetime is not judged", FuncName(p, fn))
				r.Trivial(rule, construct, p.Pos(call.Pos()), "origin of the Dir not traced (NOTE)")
			default:
				r.OK(rule, construct, p.Pos(call.Pos()), "the Dir is constructed once (not per write) and kept")
			}
		})
	}
	if n == 0 {
		r.Note("S2: no direct in-module call of dir.Dir.Write outside its package was found (method values / wrappers are not followed here): lifetime of the Dir not judged")
		r.Trivial(rule, "in-module users of dir.Dir.Write", "-", "no direct call site (NOTE)")
	}
}
