package main

import (
	"fmt"
	"go/token"
	"go/types"
	"os"
	"sort"
	"strings"

	"golang.org/x/tools/go/ssa"
)

// C08 — no interference through package-level shared state.
//
// Every construct is resolved by ROLE (types, dataflow, exported anchors):
//   - pooled buffers: results of sync.Pool.Get, wherever the call lives
//     (directly in the holder, or behind hand-over helpers); the release is
//     sync.Pool.Put, wherever it lives (direct, deferred closure, helper).
//   - guarded package-level state: a package-level variable that is mutated
//     after initialisation; its guard is whichever package-level
//     sync.Mutex/RWMutex of the same package is held at every access.
//   - zeroing: a must-dataflow fact ("every byte of the recycled slice was
//     set to zero") established by clear(), counted loops in any form, or
//     same-module helpers that establish it for their parameter.

func init() { register("C08", checkC08) }

// c08ReadOnly: library functions reviewed as neither writing, retaining nor
// returning an alias of their byte-slice arguments (documented behaviour).
var c08ReadOnly = []string{
	"bytes.Clone", "slices.Clone", "strings.Clone", "errors.Is", "errors.As", "encoding/json.Unmarshal", "encoding/json.Marshal",
	"bytes.IndexAny", "bytes.IndexRune", "bytes.IndexFunc", "bytes.LastIndex", "bytes.LastIndexByte", "bytes.Count", "bytes.ContainsAny", "bytes.ContainsRune",
	"bytes.EqualFold", "bytes.ToUpper", "bytes.ToLower", "bytes.Join",
	"slices.Index", "slices.Contains", "slices.Equal", "slices.Compare", "slices.IndexFunc",
	"encoding/binary.bigEndian.Uint16", "encoding/binary.littleEndian.Uint16", "encoding/binary.littleEndian.Uint32", "encoding/binary.littleEndian.Uint64",
	"unicode/utf8.Valid", "unicode/utf8.DecodeRune", "fmt.Sprint", "fmt.Fprintf",
}

func checkC08(c *Ctx) {
	r, p := c.R, c.P
	r.Explanation = "Decides structural necessary conditions of C08. (B1) pooled-buffer escape — in the whole module no value that may share memory with a buffer obtained from a sync.Pool (BufPool, the byte-slice pool) is stored into a field/global/heap object, sent on a channel or handed to a goroutine, and none is returned by a function that also gives the buffer back to the pool (a summary-based alias analysis over go/ssa follows slices, cells, helper calls in both directions — the Get and the Put may each live in a helper, a deferred closure or a deferred named function —, callbacks passed as function-typed parameters (also forwarded, kept in locals or captured variables), release functions returned by a borrow helper and called or deferred by its caller, methods of a module interface with a single implementation, and the modelled library calls). A function literal that stores memory derived from its own parameter into a captured variable is an escape for whoever calls it; fields of a non-escaping local struct variable are value flow, not escapes. A call that receives pooled memory and is neither modelled nor followed gives UNDECIDED. A function that obtains a buffer and returns it without ever giving it back hands it over: its callers are judged as holders. Writing into the buffer and passing it to io.Writer.Write / AEAD Seal/Open is allowed by their no-retain contracts. (B2) package-level state inventory — every package-level variable of the module is (a) never stored to and never written through (elements, map entries, appends, in-place library writes, also through same-module helpers that receive it, and through pointer-receiver methods called on the variable's address: strings.Builder/bytes.Buffer Write*/Reset…, module methods that store into their receiver) outside package initialisation, or (b) a sync.Pool used only through Get/Put (also through helpers that receive its address), or (c) a synchronisation object, or (d) mutated after initialisation but then every access (load, look-up, iteration, update, hand-over to a call) happens while one package-level sync.Mutex/RWMutex of the same package is held (write mode for writes); the guard is inferred, not named: some lock of the package must cover all accesses. The lock held at an access is the must-hold lockset of the lockset engine plus the locks held around the invocation of a callback: a function value whose every use is to be passed to a same-module wrapper runs under the locks the wrapper holds when it calls it (also when the wrapper forwards it to another runner), including a lock the wrapper received as a parameter (*sync.Mutex, *sync.RWMutex, sync.Locker; resolved per call site, RLocker() = read mode); a callback started with go holds nothing. A variable assigned inside a sync.Once.Do callback is accepted when every other access is provably after Do on that Once (else UNDECIDED); further writers still need the lock. A package-level struct that is the only object of its module type is treated field by field the same way (its own mutex fields are candidate guards). The guarded registries found this way are additionally required to be read and updated in one critical section per operation. (B3) byteslicepool.Get hands out only fresh memory or recycled memory that was zeroed over its whole length on every path (must-dataflow; clear(), up/down counted loops in any lowering, zeroing helpers; the recycled value may come from a helper), and Put stores the caller's slice without cutting its length. (B1-release-once) in every function the same pooled object (identified through conversions, single-assignment locals, captured variables, hand-over helpers) is given back at most once on every path: direct Put, deferred Put, Put helpers, deferred function literals and returned release functions all count; VIOLATION when an unconditional release is certain to be followed by another one (a deferred release registered before it, or a dominating earlier release), UNDECIDED when two releases merely may lie on one path. (B2, references) the map/slice/pointer loaded from a guarded variable is followed through results, arguments (also into the targets of function values it is passed to), local and captured variables of same-package functions: every use of the reference anywhere is an access that needs the guard; returning it from an exported function is a violation. (B4) the exported entry points of crypto, crypto/aeskw, crypto/padding, crypto/aescbcaead never write memory reachable from their []byte inputs (elements or spare capacity; the taint engine's write summaries; dst of cipher.AEAD Seal/Open exempt by contract): two calls on separate messages/keys that live in one backing array, or share a key slice, would otherwise change each other's results. (B5) in packages that use a sync.Pool, an exported function that returns a value gives none of its parameters' memory to a pool (directly or through helpers; release summaries of the alias analysis): only a pure release operation — no results, like ByteSlicePool.Put — takes ownership of caller memory; otherwise the caller, who still owns what it passed in, and the pool's next user share it. (B6) process-wide objects of libraries — package-level variables of other packages, logrus.StandardLogger(), log.Default(), slog.Default() — are not written or reconfigured outside package initialisation: no assignment to such a variable or to a field of such an object, no package-level setter of the library's singleton (logrus.SetOutput…, log.SetOutput…, slog.SetDefault), no Set*/Add*/Replace*/Register*/Reset* method on the object or on a library object built on it, also when it was first stored in a field of a module struct (field-based) and is reached through that field later. NOT decided: data-race freedom in general, 'same results when run concurrently' (needs execution), use of a pooled buffer after an early (non-deferred) Put inside the same function; per-object state is covered by C13/C14."
	r.Assumptions = append(r.Assumptions, "library model table of kitcheck/taint.go; interface calls into the module are covered by the io.Writer / cipher.AEAD contract models", "a call with the ADDRESS of a package-level variable as pointer receiver counts as a write when it is a same-module method that stores into its receiver (followed two levels) or a library method whose name starts with Write/Reset/Set/Add/Grow/Store/Swap/Delete/Clear/Truncate/Read/… (reviewed list in prop_c08.go), as a read for String/Len/Cap/Error/Load/Is/Has/Get/…, otherwise UNDECIDED; value-receiver methods work on a copy", "a package-level variable assigned inside a sync.Once.Do callback is accepted only if every other access is dominated by Do on the same Once (directly, through a same-module function that calls Do on every path, or at every call site of the accessing function); otherwise UNDECIDED", "identities are type-based: a lock is its package-level variable or (type, field); a pool is its variable or (type, field), looked through single-assignment locals", "a module interface with exactly one implementing module type dispatches to that type", "B6: the table of singleton accessors / package-level setters in prop_c08.go and the reading of library methods named Set*/Add*/Replace*/Register*/Reset* as reconfiguring their receiver")
	r.Rule("C08.B1-pool-escape", "no value derived from a sync.Pool buffer escapes, or is returned by, a function that gives the buffer back", 2)
	r.Rule("C08.B2-inventory", "package-level variables: read-only after init, Pool via Get/Put, sync object, or every access under one package-level lock", 30)
	r.Rule("C08.B3-zeroed", "byteslicepool.Get returns zeroed or fresh memory", 1)
	r.Rule("C08.B1-release-once", "a pooled buffer is given back to its pool at most once on every path", 2)
	r.Rule("C08.B4-input-memory", "exported crypto entry points do not write memory reachable from their []byte inputs (elements or spare capacity)", 12)

	t := c08Taint(p)
	e := c.Locks()

	// ---- B1
	c08B1(p, r, t)
	c08B1Once(p, r, t)

	// ---- B2
	gspecs := c08B2(p, r, t, e)

	// guarded registry: look-up-or-create must be one critical section or double-checked
	r.Rule("C08.B2-registry-atomic", "a guarded package-level registry is read and updated in one critical section (or the inserting section re-checks)", 2)
	CheckSingleSection(p, e, r, "C08.B2-registry-atomic", gspecs)

	// ---- B3
	c08B3(p, r, t)

	// ---- B4
	c08B4(p, r, t)

	// ---- B5 / B6
	r.Rule("C08.B5-borrowed-memory", "an exported function that returns a value gives none of its parameters' memory to a pool: only a pure release operation (no results) takes ownership of caller memory", 2)
	c08B5(p, r, t)
	r.Rule("C08.B6-library-singletons", "process-wide objects of libraries (package-level variables of other packages, logrus.StandardLogger(), log.Default(), slog.Default()) are not reconfigured or written outside package initialisation, nor used as the backing object of per-instance state that is", 5)
	c08B6(p, r)

	c.Fixture("c08pool", func(fp *Prog, fr *Report) {
		ft := NewTaintEngine(fp)
		ft.TrackPools = true
		ft.PoolRelease = true
		ft.ReadOnly["bytes.Clone"] = true
		ft.Run()
		for _, v := range c08JudgePools(fp, ft) {
			if v.fn.Parent() != nil {
				continue
			}
			for _, w := range v.bad {
				fr.Violation("e", FuncName(fp, v.fn)+" escape", "", w)
			}
		}
		// release-once rule on the same fixture
		fo := NewReport("fixture:c08pool:once", "quick")
		fo.Rule("C08.B1-release-once", "", 0)
		c08B1Once(fp, fo, ft)
		for _, o := range fo.Obs {
			if o.Status == StViolation {
				fr.Violation("o", strings.TrimSuffix(o.Construct, " gives pooled buffers back")+" twice", "", o.Message)
			}
		}
		// borrowed-memory and library-singleton rules on the same fixture
		fb := NewReport("fixture:c08pool:b56", "quick")
		c08B5(fp, fb, ft)
		c08B6(fp, fb)
		for _, o := range fb.Obs {
			if o.Status != StViolation {
				continue
			}
			if strings.HasSuffix(o.Construct, " borrowed inputs") {
				fr.Violation("b", strings.TrimSuffix(o.Construct, " borrowed inputs")+" releases borrowed memory", "", o.Message)
				continue
			}
			for _, w := range o.Witness {
				if i := strings.LastIndex(w, " in "); i >= 0 {
					fr.Violation("s", w[i+4:]+" singleton", "", w)
				}
			}
		}
		z := &c08Zero{p: fp, t: ft, clean: map[*ssa.Function]*c08ZeroVerdict{}, zp: map[string]int{}}
		for _, fn := range fp.Funcs {
			if fn.Parent() != nil || !strings.Contains(fn.Name(), "Zero") {
				continue
			}
			v := z.cleanResults(fn)
			if v.status != c08Clean {
				fr.Violation("z", FuncName(fp, fn)+" zero", "", v.status.String()+": "+strings.Join(append(v.dirty, v.unknown...), "; "))
			}
		}
	})

	if os.Getenv("KC_C08_DEBUG") != "" {
		for _, o := range r.Obs {
			fmt.Fprintf(os.Stderr, "%-12s %-24s %s :: %s %v\n", o.Status, o.Rule, o.Construct, o.Message, o.Witness)
		}
	}
}

func c08Taint(p *Prog) *TaintEngine {
	t := NewTaintEngine(p)
	t.TrackPools = true
	t.PoolRelease = true
	for _, k := range c17ReadOnly {
		t.ReadOnly[k] = true
	}
	for _, k := range c08ReadOnly {
		t.ReadOnly[k] = true
	}
	// library containers that keep what they are given
	for k, m := range map[string]ExtModel{
		"sync/atomic.Pointer.Store": {Retains: []int{0}}, "sync/atomic.Pointer.Swap": {Retains: []int{0}}, "sync/atomic.Value.Store": {Retains: []int{0}},
		"sync.Map.Store": {Retains: []int{0, 1}}, "sync.Map.LoadOrStore": {Retains: []int{0, 1}},
		"container/list.List.PushBack": {Retains: []int{0}}, "container/list.List.PushFront": {Retains: []int{0}},
	} {
		if _, dup := t.Models[k]; !dup {
			t.Models[k] = m
		}
	}
	t.Run()
	return t
}

// ---------------------------------------------------------------- B1

type c08PoolVerdict struct {
	fn        *ssa.Function
	labels    []string // pool labels the function deals with
	bad       []string // positively established escapes
	unsure    []string // returned and given back, but possibly on different paths
	handsOver bool     // returns the pooled object and never gives it back
	releases  bool
}

func c08PoolLabels(sum *TSummary) map[string]bool {
	out := map[string]bool{}
	for l := range sum.Releases {
		if strings.HasPrefix(l, "pool:") {
			out[l] = true
		}
	}
	for l := range sum.Escapes {
		if strings.HasPrefix(l, "pool:") {
			out[l] = true
		}
	}
	for _, ls := range sum.Ret {
		for l := range ls {
			if strings.HasPrefix(l, "pool:") {
				out[l] = true
			}
		}
	}
	return out
}

// c08JudgePools judges every function that holds a pooled buffer: it calls
// sync.Pool.Get itself or receives the buffer from a same-module function
// that hands it over (the summaries carry the pool label to it).
func c08JudgePools(p *Prog, t *TaintEngine) []c08PoolVerdict {
	var out []c08PoolVerdict
	for _, fn := range p.Funcs {
		sum := t.Sum[fn]
		if sum == nil {
			continue
		}
		gets := false
		allInstrs(fn, func(in ssa.Instruction) {
			if ci, ok := in.(ssa.CallInstruction); ok && callIs(ci, "sync", "Pool", "Get") {
				gets = true
			}
		})
		lbl := c08PoolLabels(sum)
		if d := os.Getenv("KC_C08_DEBUG"); d != "" && strings.Contains(FuncName(p, fn), d) {
			fmt.Fprintf(os.Stderr, "SUM %s rel=%v esc=%v ret=%v unm=%v\n", FuncName(p, fn), sum.Releases, sum.Escapes, sum.Ret, sum.Unmodelled)
		}
		if !gets && len(lbl) == 0 {
			continue
		}
		v := c08PoolVerdict{fn: fn}
		for l := range lbl {
			v.labels = append(v.labels, l)
			if len(sum.Releases[l]) > 0 {
				v.releases = true
			}
		}
		sort.Strings(v.labels)
		for _, l := range v.labels {
			for _, s := range sum.Escapes[l] {
				v.bad = append(v.bad, fmt.Sprintf("%s at %s", s.What, p.Pos(s.Pos)))
			}
		}
		var js []int
		for j := range sum.Ret {
			js = append(js, j)
		}
		sort.Ints(js)
		for _, j := range js {
			for _, l := range sum.Ret[j].sorted() {
				if !strings.HasPrefix(l, "pool:") {
					continue
				}
				rel := sum.Releases[l]
				if len(rel) == 0 {
					// hands the pooled object to its caller and never gives it back itself: judged at its callers
					v.handsOver = true
					continue
				}
				switch c08ReleaseBeforeReturn(fn, j, rel) {
				case 2:
					v.bad = append(v.bad, fmt.Sprintf("result %d of %s may share memory with the pooled buffer that the function gives back (%s at %s)", j, FuncName(p, fn), rel[0].What, p.Pos(rel[0].Pos)))
				case 1:
					v.unsure = append(v.unsure, fmt.Sprintf("result %d of %s may share memory with a pooled buffer that the function gives back on some path (%s at %s); whether the returning paths are the releasing ones is not decided", j, FuncName(p, fn), rel[0].What, p.Pos(rel[0].Pos)))
				default:
					v.handsOver = true
				}
			}
		}
		sort.Strings(v.bad)
		out = append(out, v)
	}
	return out
}

// c08ReleaseBeforeReturn: 2 = the release runs on every exit (deferred) or a
// return that delivers a non-nil result j is reachable after a release;
// 0 = no return delivering result j is reachable after a release (the
// function releases only on paths where it hands nothing out).
// 1 is reserved for shapes that cannot be ordered.
func c08ReleaseBeforeReturn(fn *ssa.Function, j int, rel []TSite) int {
	sites := map[ssa.Instruction]bool{}
	for _, s := range rel {
		if s.Instr == nil || s.Instr.Parent() != fn {
			return 1
		}
		switch x := s.Instr.(type) {
		case *ssa.Defer:
			return 2
		case *ssa.MakeClosure:
			for _, rr := range refs(x) {
				if _, ok := rr.(*ssa.Defer); ok {
					return 2
				}
			}
		}
		sites[s.Instr] = true
	}
	ff := &FlagFlow{Fn: fn, Must: false, Transfer: func(in ssa.Instruction, st uint64) uint64 {
		if sites[in] {
			return st | 1
		}
		return st
	}}
	ff.Run()
	res := 0
	ff.AtReturns(func(ret *ssa.Return, st uint64) {
		if st&1 == 0 || j >= len(ret.Results) {
			return
		}
		for _, v := range unspill(ret.Results[j]) {
			if !isNilConst(v) {
				res = 2
			}
		}
	})
	return res
}

func c08B1(p *Prog, r *Report, t *TaintEngine) {
	verdicts := c08JudgePools(p, t)
	unm := map[string]bool{}
	covered := map[string]bool{} // pool labels obtained and given back by some judged holder
	for _, v := range verdicts {
		fn := v.fn
		construct := FuncName(p, fn) + " pooled buffer"
		for _, l := range v.labels {
			for _, u := range t.Sum[fn].Unknown[l] {
				unm[fmt.Sprintf("%s at %s in %s", u.What, p.Pos(u.Pos), FuncName(p, u.Fn))] = true
			}
		}
		for _, l := range v.labels {
			covered[l] = true
		}
		switch {
		case len(v.bad) > 0:
			r.Violation("C08.B1-pool-escape", construct, p.Pos(fn.Pos()), "a value that may share memory with the pooled buffer outlives the function that returns the buffer to the pool: another stream that gets the same buffer overwrites it (or reads this caller's bytes)", v.bad...)
		case len(v.unsure) > 0:
			r.Undecide("%s: %s", construct, strings.Join(v.unsure, "; "))
		case v.handsOver && len(t.Sum[fn].DynCalls) > 0:
			// "never gives it back" is only known if every call of the function is followed
			d := t.Sum[fn].DynCalls[0]
			r.Undecide("%s: returns the pooled object and contains a %s (at %s): whether it also gives the buffer back is not decided", construct, d.What, p.Pos(d.Pos))
		case v.handsOver:
			r.OK("C08.B1-pool-escape", construct, p.Pos(fn.Pos()), "hands the pooled object over to its callers without giving it back (the callers are judged as holders); nothing else derived from it escapes")
		default:
			r.OK("C08.B1-pool-escape", construct, p.Pos(fn.Pos()), "nothing derived from the pooled buffer escapes")
		}
	}
	r.Stats["functions_using_pools"] = len(verdicts)
	if len(unm) > 0 {
		var ul []string
		for k := range unm {
			ul = append(ul, k)
		}
		sort.Strings(ul)
		r.Undecide("calls receiving a pooled buffer that are in neither the library model nor the reviewed read-only list: %s", strings.Join(ul, "; "))
	}
	// role anchors (exported, stable): the encryption scheme's BufPool and the byte-slice pool must be among the judged pools
	encPkg := p.Pkg("schemes/enc/v1")
	if obj := encPkg.Types.Scope().Lookup("BufPool"); obj == nil {
		r.Undecide("exported anchor schemes/enc/v1.BufPool not found")
	} else if !covered["pool:"+encPkg.PkgPath+".BufPool"] {
		r.Undecide("no function of the module obtains a buffer from schemes/enc/v1.BufPool: the pooled-buffer rule would be vacuous for the encryption scheme")
	}
	get := p.Func("byteslicepool", "ByteSlicePool.Get")
	seenGet := false
	for _, v := range verdicts {
		if v.fn == get {
			seenGet = true
		}
	}
	if !seenGet {
		r.Undecide("byteslicepool.ByteSlicePool.Get does not obtain memory from a sync.Pool (directly or through a helper): anchor moved")
	}
}

// ---------------------------------------------------------------- B1 (release at most once)

type c08Rel struct {
	in       ssa.Instruction
	root     ssa.Value
	deferred bool
	must     bool // the release happens on every path through the called function / literal
	what     string
}

// c08Origin strips conversions, assertions, tuple components and single-assignment local variables.
// cross: also follow a variable captured from the enclosing function to the value assigned there.
// Stops at a call, a parameter, or (not cross) a captured variable; nil if the value has several origins.
func c08Origin(v ssa.Value, cross bool) ssa.Value {
	for i := 0; i < 12 && v != nil; i++ {
		switch x := v.(type) {
		case *ssa.MakeInterface:
			v = x.X
		case *ssa.ChangeInterface:
			v = x.X
		case *ssa.ChangeType:
			v = x.X
		case *ssa.TypeAssert:
			v = x.X
		case *ssa.Extract:
			v = x.Tuple
		case *ssa.UnOp:
			if x.Op != token.MUL {
				return nil
			}
			if fv, ok := x.X.(*ssa.FreeVar); ok && !cross {
				return fv
			}
			w := throughSingleStoreCells(x, 0)
			if w == ssa.Value(x) {
				return nil
			}
			v = w
		case *ssa.Call, *ssa.Parameter:
			return v
		default:
			return nil
		}
	}
	return nil
}

// c08ReleaseEvents: the points of fn at which a pooled object is given back: sync.Pool.Put itself, calls of
// same-module functions / function literals that give a parameter / captured variable back, calls of a
// release function returned by a borrow helper.
func c08ReleaseEvents(p *Prog, t *TaintEngine, fn *ssa.Function, cross bool, depth int) []c08Rel {
	var out []c08Rel
	allInstrs(fn, func(in ssa.Instruction) {
		ci, ok := in.(ssa.CallInstruction)
		if !ok {
			return
		}
		if _, isGo := in.(*ssa.Go); isGo {
			return
		}
		_, deferred := in.(*ssa.Defer)
		cc := ci.Common()
		if callIs(ci, "sync", "Pool", "Put") && len(cc.Args) > 1 {
			out = append(out, c08Rel{in: in, root: c08Origin(cc.Args[1], cross), deferred: deferred, must: true, what: "sync.Pool.Put"})
			return
		}
		if cal := staticCallee(ci); cal != nil && p.funcSet[cal] && !cc.IsInvoke() {
			sum := t.Sum[origin(cal)]
			if sum == nil {
				return
			}
			for i, a := range cc.Args {
				if len(sum.Releases[fmt.Sprintf("p%d", i)]) > 0 {
					out = append(out, c08Rel{in: in, root: c08Origin(a, cross), deferred: deferred, must: c08MustRelease(p, t, cal, false, i, depth+1), what: "call of " + FuncName(p, cal)})
				}
			}
			if mc, ok := cc.Value.(*ssa.MakeClosure); ok {
				for i, b := range mc.Bindings {
					if len(sum.Releases[fmt.Sprintf("fv%d", i)]) == 0 {
						continue
					}
					var root ssa.Value
					if cell, ok := b.(*ssa.Alloc); ok {
						// the captured variable: what it was assigned (once)
						root = c08Origin(&ssa.UnOp{Op: token.MUL, X: cell}, cross)
					} else {
						root = c08Origin(b, cross)
					}
					out = append(out, c08Rel{in: in, root: root, deferred: deferred, must: c08MustRelease(p, t, cal, true, i, depth+1), what: "function literal " + FuncName(p, cal)})
				}
			}
			return
		}
		if src, j := retFuncSource(cc.Value); src != nil && !cc.IsInvoke() {
			if cal := staticCallee(src); cal != nil && p.funcSet[cal] && t.Sum[origin(cal)] != nil {
				for _, rf := range t.Sum[origin(cal)].RetFuncs[j] {
					rs := t.Sum[rf.Fn]
					if rs == nil {
						continue
					}
					for i := range rf.Bind {
						if len(rs.Releases[fmt.Sprintf("fv%d", i)]) > 0 {
							out = append(out, c08Rel{in: in, root: src, deferred: deferred, must: c08MustRelease(p, t, rf.Fn, true, i, depth+1), what: "release function returned by " + FuncName(p, cal)})
						}
					}
				}
			}
		}
	})
	return out
}

// c08MustRelease: every return of fn is preceded by a release of its parameter i / captured variable i.
func c08MustRelease(p *Prog, t *TaintEngine, fn *ssa.Function, freeVar bool, i int, depth int) bool {
	fn = origin(fn)
	if depth > 3 || len(fn.Blocks) == 0 {
		return false
	}
	var want ssa.Value
	if freeVar {
		if i >= len(fn.FreeVars) {
			return false
		}
		want = fn.FreeVars[i]
	} else {
		if i >= len(fn.Params) {
			return false
		}
		want = fn.Params[i]
	}
	at := map[ssa.Instruction]bool{}
	for _, ev := range c08ReleaseEvents(p, t, fn, false, depth) {
		if ev.root == want && ev.must {
			at[ev.in] = true
		}
	}
	if len(at) == 0 {
		return false
	}
	ff := &FlagFlow{Fn: fn, Must: true}
	ff.Transfer = func(in ssa.Instruction, st uint64) uint64 {
		if _, isDefer := in.(*ssa.Defer); isDefer && !ff.Replaying {
			return st
		}
		if at[in] {
			return st | 1
		}
		return st
	}
	ff.Run()
	all, n := true, 0
	ff.AtReturns(func(ret *ssa.Return, st uint64) {
		n++
		if st&1 == 0 {
			all = false
		}
	})
	return all && n > 0
}

func c08B1Once(p *Prog, r *Report, t *TaintEngine) {
	for _, fn := range p.Funcs {
		evs := c08ReleaseEvents(p, t, fn, true, 0)
		if len(evs) == 0 {
			continue
		}
		byRoot := map[ssa.Value][]c08Rel{}
		var order []ssa.Value
		for _, ev := range evs {
			if ev.root == nil {
				continue
			}
			if _, seen := byRoot[ev.root]; !seen {
				order = append(order, ev.root)
			}
			byRoot[ev.root] = append(byRoot[ev.root], ev)
		}
		if len(order) == 0 {
			continue
		}
		construct := FuncName(p, fn) + " gives pooled buffers back"
		var bad, unsure []string
		for _, root := range order {
			list := byRoot[root]
			if len(list) < 2 {
				continue
			}
			at := map[ssa.Instruction]bool{}
			for _, ev := range list {
				at[ev.in] = true
			}
			// may-dataflow: bit0 = some path has released once, bit1 = some path has released twice
			ff := &FlagFlow{Fn: fn, Must: false}
			ff.Transfer = func(in ssa.Instruction, st uint64) uint64 {
				if v, ok := in.(ssa.Value); ok && v == root {
					return 0
				}
				if _, isDefer := in.(*ssa.Defer); isDefer && !ff.Replaying {
					return st
				}
				if at[in] {
					if st&1 != 0 {
						st |= 2
					}
					st |= 1
				}
				return st
			}
			ff.Run()
			twice := false
			ff.AtReturns(func(ret *ssa.Return, st uint64) {
				if st&2 != 0 {
					twice = true
				}
			})
			if !twice {
				continue
			}
			// positively established: an unconditional release E1 after which an unconditional release E2 is
			// certain to run: E2 deferred and registered before E1 executes (or before E1 is registered), or E1
			// dominating a non-deferred E2
			definite := ""
			for _, e1 := range list {
				for _, e2 := range list {
					if e1.in == e2.in || !e1.must || !e2.must || definite != "" {
						continue
					}
					switch {
					case e2.deferred && instrDominates(e2.in, e1.in):
						definite = fmt.Sprintf("%s at %s gives the buffer back and the deferred %s registered at %s gives the same buffer back again when the function returns", e1.what, p.Pos(instrPos(e1.in)), e2.what, p.Pos(instrPos(e2.in)))
					case !e1.deferred && !e2.deferred && instrDominates(e1.in, e2.in):
						definite = fmt.Sprintf("%s at %s gives back a buffer that %s at %s already gave back", e2.what, p.Pos(instrPos(e2.in)), e1.what, p.Pos(instrPos(e1.in)))
					}
				}
			}
			if definite != "" {
				bad = append(bad, definite)
			} else {
				var w []string
				for _, ev := range list {
					w = append(w, ev.what+" at "+p.Pos(instrPos(ev.in)))
				}
				sort.Strings(w)
				unsure = append(unsure, "some path may pass two of: "+strings.Join(w, ", "))
			}
		}
		sort.Strings(bad)
		switch {
		case len(bad) > 0:
			r.Violation("C08.B1-release-once", construct, p.Pos(fn.Pos()), "the same buffer is put into the pool twice: the next two users of the pool get the same memory and overwrite each other's data", bad...)
		case len(unsure) > 0:
			sort.Strings(unsure)
			r.Undecide("%s: whether a buffer is given back twice is not decided: %s", construct, strings.Join(unsure, "; "))
		default:
			r.OK("C08.B1-release-once", construct, p.Pos(fn.Pos()), fmt.Sprintf("%d release point(s); no path gives the same buffer back twice", len(evs)))
		}
	}
}

// ---------------------------------------------------------------- B4 (crypto entry points leave their inputs alone)

func c08B4(p *Prog, r *Report, t *TaintEngine) {
	for _, rel := range c17Pkgs {
		if !p.HasPkg(rel) {
			r.Undecide("package %s not found (anchor moved)", rel)
			continue
		}
		for _, fn := range p.FuncsOfPkg(rel) {
			if fn.Parent() != nil || fn.Object() == nil || !fn.Object().Exported() {
				continue
			}
			sum := t.Sum[fn]
			if sum == nil {
				continue
			}
			var w []string
			n := 0
			for i, pa := range fn.Params {
				if !c17IsBytes(pa.Type()) {
					continue
				}
				// cipher.AEAD implementations: dst of Seal/Open is written by contract
				if fn.Signature.Recv() != nil && (fn.Name() == "Seal" || fn.Name() == "Open") && i == 1 && fn.Signature.Params().Len() == 4 {
					continue
				}
				n++
				for _, s := range sum.Writes[fmt.Sprintf("p%d", i)] {
					w = append(w, fmt.Sprintf("%s: %s at %s in %s", pa.Name(), s.What, p.Pos(s.Pos), FuncName(p, s.Fn)))
				}
			}
			if n == 0 {
				continue
			}
			construct := FuncName(p, fn) + " inputs"
			sort.Strings(w)
			if len(w) > 0 {
				r.Violation("C08.B4-input-memory", construct, p.Pos(fn.Pos()), "the call writes memory it was only given to read (elements of an input slice or the spare capacity behind its length): another operation whose message or key lives in that memory sees its bytes change", w...)
			} else {
				r.OK("C08.B4-input-memory", construct, p.Pos(fn.Pos()), fmt.Sprintf("no write reaches the memory of its %d byte-slice input(s)", n))
			}
		}
	}
}

// ---------------------------------------------------------------- B5 (borrowed memory is not put into a pool)

func c08B5(p *Prog, r *Report, t *TaintEngine) {
	// packages that deal with pools at all: the rule is about their exported surface
	poolPkgs := map[*ssa.Package]bool{}
	for _, fn := range p.Funcs {
		allInstrs(fn, func(in ssa.Instruction) {
			if ci, ok := in.(ssa.CallInstruction); ok && (callIs(ci, "sync", "Pool", "Put") || callIs(ci, "sync", "Pool", "Get")) {
				poolPkgs[fn.Pkg] = true
			}
		})
	}
	for _, fn := range p.Funcs {
		if !poolPkgs[fn.Pkg] || fn.Parent() != nil || !isExportedFunc(fn) {
			continue
		}
		sum := t.Sum[fn]
		if sum == nil {
			continue
		}
		n := 0
		var rel []string
		first := 0
		if fn.Signature.Recv() != nil {
			first = 1
		}
		for i := first; i < len(fn.Params); i++ {
			pa := fn.Params[i]
			if !(isTrackedType(pa.Type()) || isRefKind(pa.Type())) || isErrorType(pa.Type()) {
				continue
			}
			n++
			for _, s := range sum.Releases[fmt.Sprintf("p%d", i)] {
				rel = append(rel, fmt.Sprintf("%s: %s at %s", pa.Name(), s.What, p.Pos(s.Pos)))
			}
		}
		if n == 0 {
			continue
		}
		construct := FuncName(p, fn) + " borrowed inputs"
		sort.Strings(rel)
		switch {
		case len(rel) == 0:
			r.OK("C08.B5-borrowed-memory", construct, p.Pos(fn.Pos()), "gives none of its parameters' memory to a pool")
		case fn.Signature.Results().Len() == 0:
			r.OK("C08.B5-borrowed-memory", construct, p.Pos(fn.Pos()), "a pure release operation: it takes ownership of what it is given and returns nothing")
		default:
			r.Violation("C08.B5-borrowed-memory", construct, p.Pos(fn.Pos()), "the function hands a result to its caller and ALSO puts memory of one of its parameters into a pool: the caller still owns that memory (it may keep using it, or give it back itself), so the same backing array reaches two later users of the pool or is overwritten while still referenced", rel...)
		}
	}
}

// ---------------------------------------------------------------- B6 (process-wide library objects)

// accessors of process-wide singletons, and the operations that reconfigure such an object
var c08SingletonAccessors = map[string]bool{
	"github.com/sirupsen/logrus.StandardLogger": true, "log.Default": true, "log/slog.Default": true,
}
var c08SingletonSetters = map[string]bool{ // package-level functions that reconfigure the library's own singleton
	"github.com/sirupsen/logrus.SetOutput": true, "github.com/sirupsen/logrus.SetLevel": true, "github.com/sirupsen/logrus.SetFormatter": true,
	"github.com/sirupsen/logrus.SetReportCaller": true, "github.com/sirupsen/logrus.AddHook": true,
	"log.SetOutput": true, "log.SetFlags": true, "log.SetPrefix": true, "log/slog.SetDefault": true, "log/slog.SetLogLoggerLevel": true,
}

func c08IsMutatorMethod(obj *types.Func) bool {
	if obj == nil || obj.Type().(*types.Signature).Recv() == nil {
		return false
	}
	n := obj.Name()
	for _, pre := range []string{"Set", "Add", "Replace", "Register", "Reset"} {
		if strings.HasPrefix(n, pre) {
			return true
		}
	}
	return false
}

func c08B6(p *Prog, r *Report) {
	fieldHolds := map[FieldID]bool{} // fields of module structs that were assigned a process-wide library object (or one built on it)
	libGlobal := func(v ssa.Value) bool {
		g, ok := v.(*ssa.Global)
		return ok && g.Pkg != nil && g.Pkg.Pkg != nil && !strings.HasPrefix(g.Pkg.Pkg.Path(), p.ModPath)
	}
	perPkg := map[string][]string{}
	pkgsSeen := map[string]bool{}
	derived := func(fn *ssa.Function) map[ssa.Value]bool {
		S := map[ssa.Value]bool{}
		for changed := true; changed; {
			changed = false
			allInstrs(fn, func(in ssa.Instruction) {
				v, ok := in.(ssa.Value)
				if !ok || S[v] {
					return
				}
				is := false
				switch x := in.(type) {
				case *ssa.Call:
					obj := calleeObj(x)
					if c08SingletonAccessors[extKey(obj)] {
						is = true
					} else if obj != nil && !x.Call.IsInvoke() && len(x.Call.Args) > 0 && S[x.Call.Args[0]] && obj.Type().(*types.Signature).Recv() != nil {
						// a library method on the object returning another library object built on it (logger.WithFields -> *Entry)
						if _, isPtr := x.Type().Underlying().(*types.Pointer); isPtr && obj.Pkg() != nil && !strings.HasPrefix(obj.Pkg().Path(), p.ModPath) {
							is = true
						}
					}
				case *ssa.UnOp:
					if x.Op != token.MUL {
						return
					}
					_, isPtr := x.Type().Underlying().(*types.Pointer)
					if !isPtr {
						return
					}
					switch a := x.X.(type) {
					case *ssa.Global:
						is = libGlobal(a)
					case *ssa.FieldAddr:
						is = S[a.X] || fieldHolds[fieldIDOfAddr(a)]
					case *ssa.Alloc:
						for _, rr := range refs(a) {
							if st, ok := rr.(*ssa.Store); ok && st.Addr == ssa.Value(a) && S[st.Val] {
								is = true
							}
						}
					}
				case *ssa.Phi:
					for _, ed := range x.Edges {
						if S[ed] {
							is = true
						}
					}
				case *ssa.ChangeType:
					is = S[x.X]
				}
				if is {
					S[v] = true
					changed = true
				}
			})
		}
		return S
	}
	// fixpoint over field assignments (type-based)
	for round := 0; round < 4; round++ {
		grew := false
		for _, fn := range p.Funcs {
			S := derived(fn)
			if len(S) == 0 {
				continue
			}
			allInstrs(fn, func(in ssa.Instruction) {
				if st, ok := in.(*ssa.Store); ok && S[st.Val] {
					if fa, ok := st.Addr.(*ssa.FieldAddr); ok {
						if id := fieldIDOfAddr(fa); id.Type != "" && strings.HasPrefix(id.Type, p.ModPath) && !fieldHolds[id] {
							fieldHolds[id] = true
							grew = true
						}
					}
				}
			})
		}
		if !grew {
			break
		}
	}
	for _, fn := range p.Funcs {
		pkgPath := ""
		if fn.Pkg != nil && fn.Pkg.Pkg != nil {
			pkgPath = fn.Pkg.Pkg.Path()
		}
		rel := p.RelPath(pkgPath)
		S := derived(fn)
		allInstrs(fn, func(in ssa.Instruction) {
			where := fmt.Sprintf("at %s in %s", p.Pos(instrPos(in)), FuncName(p, fn))
			switch x := in.(type) {
			case *ssa.Store:
				if c08IsInitFunc(fn) {
					return
				}
				if libGlobal(x.Addr) {
					perPkg[rel] = append(perPkg[rel], "package-level variable "+x.Addr.(*ssa.Global).Pkg.Pkg.Name()+"."+x.Addr.Name()+" of another package assigned "+where)
				}
				if fa, ok := x.Addr.(*ssa.FieldAddr); ok && (S[fa.X] || libGlobal(fa.X)) {
					perPkg[rel] = append(perPkg[rel], "field "+fieldIDOfAddr(fa).Field+" of a process-wide library object assigned "+where)
				}
			case ssa.CallInstruction:
				obj := calleeObj(x)
				if obj == nil || obj.Pkg() == nil || strings.HasPrefix(obj.Pkg().Path(), p.ModPath) {
					return
				}
				pkgsSeen[rel] = true
				if c08IsInitFunc(fn) {
					return
				}
				cc := x.Common()
				if c08SingletonSetters[extKey(obj)] {
					perPkg[rel] = append(perPkg[rel], "the library's process-wide object is reconfigured by "+shortID(extKey(obj))+" "+where)
					return
				}
				if !cc.IsInvoke() && len(cc.Args) > 0 && S[cc.Args[0]] && c08IsMutatorMethod(obj) {
					perPkg[rel] = append(perPkg[rel], "a process-wide library object (or an object built on it) is reconfigured by "+obj.Name()+" "+where)
				}
			}
		})
	}
	var rels []string
	for rel := range pkgsSeen {
		rels = append(rels, rel)
	}
	sort.Strings(rels)
	for _, rel := range rels {
		construct := "package " + rel + " library singletons"
		bad := perPkg[rel]
		sort.Strings(bad)
		if len(bad) > 0 {
			r.Violation("C08.B6-library-singletons", construct, rel, "state that every user of the library in the process shares is changed by an operation on one object: independent objects (loggers with different names, …) configure and overwrite each other", bad...)
		} else {
			r.OK("C08.B6-library-singletons", construct, rel, "no process-wide library object is written or reconfigured outside package initialisation")
		}
	}
}

// ---------------------------------------------------------------- B2

// c08FuncTargets: the module functions / function literals a function-typed value may be: literals and
// functions directly, values kept in locals / captured variables, and — for a function-typed parameter of an
// unexported function that is not used as a value — whatever every call site passes.
func c08FuncTargets(p *Prog, lk *c08LockCtx, v ssa.Value, depth int) ([]*ssa.Function, bool) {
	if depth > 4 {
		return nil, false
	}
	origins, ok := funcValueOrigins(v, 0)
	if !ok {
		return nil, false
	}
	var out []*ssa.Function
	for _, o := range origins {
		switch x := o.(type) {
		case *ssa.Function:
			if !p.funcSet[origin(x)] {
				return nil, false
			}
			out = append(out, origin(x))
		case *ssa.MakeClosure:
			f, _ := x.Fn.(*ssa.Function)
			if f == nil || !p.funcSet[origin(f)] {
				return nil, false // bound method values etc.: parameters shifted, not followed
			}
			out = append(out, origin(f))
		case *ssa.Parameter:
			w := x.Parent()
			idx := -1
			for i, pa := range w.Params {
				if pa == x {
					idx = i
				}
			}
			if idx < 0 || isExportedFunc(w) || len(lk.uses[origin(w)]) > 0 || len(lk.sites[origin(w)]) == 0 {
				return nil, false
			}
			for _, cs := range lk.sites[origin(w)] {
				args := cs.Common().Args
				if idx >= len(args) {
					return nil, false
				}
				t2, ok := c08FuncTargets(p, lk, args[idx], depth+1)
				if !ok {
					return nil, false
				}
				out = append(out, t2...)
			}
		default:
			return nil, false
		}
	}
	return out, len(out) > 0
}

// c08AddrCallEffect: the address of package-level variable g is passed to call x. 0 = the object is only read,
// 1 = it is (or may be, by the method's documented purpose) changed, 2 = unknown.
// Library methods with the object as pointer receiver: classified by the reviewed name lists below; module
// methods: changed iff the method (or a method it calls on the same receiver, two levels) stores into the receiver.
func c08AddrCallEffect(p *Prog, x ssa.CallInstruction, g *ssa.Global) int {
	cc := x.Common()
	if cc.IsInvoke() {
		return 2
	}
	isRecv := len(cc.Args) > 0 && cc.Args[0] == ssa.Value(g)
	cal := staticCallee(x)
	obj := calleeObj(x)
	if cal != nil && p.funcSet[cal] {
		for i, a := range cc.Args {
			if a == ssa.Value(g) && i < len(cal.Params) && c08StoresThrough(p, cal, cal.Params[i], 0) {
				return 1
			}
		}
		return 0
	}
	if obj == nil || !isRecv || obj.Type().(*types.Signature).Recv() == nil {
		if obj != nil && (extKey(obj) == "encoding/json.Unmarshal" || strings.HasSuffix(obj.Name(), "Unmarshal") || strings.HasPrefix(obj.Name(), "Decode")) {
			return 1
		}
		return 2
	}
	if _, ptrRecv := obj.Type().(*types.Signature).Recv().Type().(*types.Pointer); !ptrRecv {
		return 0 // value receiver: works on a copy
	}
	n := obj.Name()
	for _, pre := range []string{"Write", "Reset", "Set", "Add", "Grow", "Store", "Swap", "Delete", "Clear", "Truncate", "Read", "Unread", "Next", "Push", "Pop", "Remove", "Insert", "Register", "Replace", "Append", "Init", "Move", "CompareAnd", "LoadOr", "LoadAnd", "Seed", "Scan", "Unmarshal", "Decode", "Parse"} {
		if strings.HasPrefix(n, pre) {
			return 1
		}
	}
	for _, ro := range []string{"String", "Len", "Cap", "Error", "Bytes", "Load", "Is", "Has", "Get", "Lookup", "Format", "Marshal", "Equal", "Compare", "Available", "Size", "Name", "Unwrap"} {
		if strings.HasPrefix(n, ro) {
			return 0
		}
	}
	return 2
}

// c08StoresThrough: fn stores into the object its parameter pa points to (fields, elements, the object itself),
// directly or by passing pa on as the receiver / argument of a same-module function that does.
func c08StoresThrough(p *Prog, fn *ssa.Function, pa *ssa.Parameter, depth int) bool {
	if depth > 2 {
		return false
	}
	found := false
	var walk func(addr ssa.Value, d int)
	walk = func(addr ssa.Value, d int) {
		if d > 4 || found {
			return
		}
		for _, rr := range refs(addr) {
			switch y := rr.(type) {
			case *ssa.Store:
				if y.Addr == addr {
					found = true
				}
			case *ssa.FieldAddr:
				walk(y, d+1)
			case *ssa.IndexAddr:
				walk(y, d+1)
			case *ssa.MapUpdate:
				found = true
			case ssa.CallInstruction:
				cc := y.Common()
				if cal := staticCallee(y); cal != nil && p.funcSet[cal] && !cc.IsInvoke() {
					for i, a := range cc.Args {
						if a == addr && i < len(cal.Params) && c08StoresThrough(p, cal, cal.Params[i], depth+1) {
							found = true
						}
					}
				} else if len(cc.Args) > 0 && cc.Args[0] == addr && !cc.IsInvoke() {
					if obj := calleeObj(y); obj != nil && obj.Type().(*types.Signature).Recv() != nil {
						if _, ptr := obj.Type().(*types.Signature).Recv().Type().(*types.Pointer); ptr {
							for _, pre := range []string{"Write", "Reset", "Set", "Add", "Grow", "Store", "Swap", "Delete", "Clear", "Truncate"} {
								if strings.HasPrefix(obj.Name(), pre) {
									found = true
								}
							}
						}
					}
				}
			}
		}
	}
	walk(pa, 0)
	return found
}

func c08IsContainerRef(t types.Type) bool {
	switch t.Underlying().(type) {
	case *types.Map, *types.Slice, *types.Pointer:
		return true
	}
	return false
}

// c08FollowGuarded follows a reference to guarded package-level state (the map / slice / pointer loaded from
// the variable) through local variables, results and arguments, and reports every use as an access of the variable.
func c08FollowGuarded(p *Prog, lk *c08LockCtx, v ssa.Value, fn *ssa.Function, depth int, seen map[ssa.Value]bool, add func(c08Acc), unk *[]string) {
	if seen[v] || c08IsInitFunc(fn) {
		return
	}
	seen[v] = true
	where := func(in ssa.Instruction) string {
		return fmt.Sprintf("at %s in %s", p.Pos(instrPos(in)), FuncName(p, fn))
	}
	if depth > 5 {
		*unk = append(*unk, "the variable's map/slice is handed on through more than 5 functions ("+FuncName(p, fn)+")")
		return
	}
	for _, rr := range refs(v) {
		switch x := rr.(type) {
		case *ssa.DebugRef:
		case *ssa.MapUpdate:
			if x.Map == v {
				add(c08Acc{in: rr, fn: fn, write: true, what: "map update through the reference"})
			}
		case *ssa.Lookup:
			if x.X == v {
				add(c08Acc{in: rr, fn: fn, what: "look-up through the reference"})
			}
		case *ssa.Range:
			add(c08Acc{in: rr, fn: fn, what: "iteration over the referenced map"})
			for _, r2 := range refs(x) {
				if _, ok := r2.(*ssa.Next); ok {
					add(c08Acc{in: r2, fn: fn, what: "iteration step over the referenced map"})
				}
			}
		case *ssa.IndexAddr:
			if x.X == v {
				var sub []c08Acc
				c08AddrAccesses(fn, x, "element", 0, &sub)
				for _, a := range sub {
					add(a)
				}
			}
		case *ssa.Index:
			add(c08Acc{in: rr, fn: fn, what: "element read through the reference"})
		case *ssa.Slice, *ssa.ChangeType, *ssa.Phi, *ssa.MakeInterface:
			c08FollowGuarded(p, lk, rr.(ssa.Value), fn, depth, seen, add, unk)
		case *ssa.Store:
			if x.Val != v {
				continue
			}
			cell, ok := x.Addr.(*ssa.Alloc)
			if fv, isFV := x.Addr.(*ssa.FreeVar); isFV {
				// assigned to a variable of the enclosing function
				cell, ok = resolveFreeVar(fv).(*ssa.Alloc)
			}
			if !ok || cell == nil {
				*unk = append(*unk, "the variable's map/slice is stored into another object "+where(rr))
				continue
			}
			var loads func(addr ssa.Value, owner *ssa.Function)
			loads = func(addr ssa.Value, owner *ssa.Function) {
				for _, r2 := range refs(addr) {
					switch y := r2.(type) {
					case *ssa.UnOp:
						c08FollowGuarded(p, lk, y, owner, depth, seen, add, unk)
					case *ssa.MakeClosure:
						if f, ok := y.Fn.(*ssa.Function); ok {
							for i, b := range y.Bindings {
								if b == addr && i < len(f.FreeVars) {
									loads(f.FreeVars[i], f)
								}
							}
						}
					}
				}
			}
			loads(cell, cell.Parent())
		case *ssa.Return:
			for j, res := range x.Results {
				if res != v {
					continue
				}
				if isExportedFunc(fn) {
					add(c08Acc{in: rr, fn: fn, what: "the variable's map/slice itself is returned to callers outside the package (they cannot hold the guard)"})
					continue
				}
				if len(lk.uses[origin(fn)]) > 0 {
					*unk = append(*unk, "the variable's map/slice is returned by "+FuncName(p, fn)+", which is also used as a function value")
				}
				for _, cs := range lk.sites[origin(fn)] {
					call, ok := cs.(*ssa.Call)
					if !ok {
						continue // result of a deferred / go call is dropped
					}
					caller := call.Parent()
					if call.Call.Signature().Results().Len() == 1 {
						c08FollowGuarded(p, lk, call, caller, depth+1, seen, add, unk)
						continue
					}
					for _, r2 := range refs(call) {
						if ex, ok := r2.(*ssa.Extract); ok && ex.Index == j {
							c08FollowGuarded(p, lk, ex, caller, depth+1, seen, add, unk)
						}
					}
				}
			}
		case *ssa.Send:
			*unk = append(*unk, "the variable's map/slice is sent on a channel "+where(rr))
		case ssa.CallInstruction:
			cc := x.Common()
			if b := builtinName(x); b != "" {
				switch b {
				case "len", "cap":
					add(c08Acc{in: rr, fn: fn, what: b + " through the reference"})
				case "delete", "clear":
					add(c08Acc{in: rr, fn: fn, write: true, what: b + " through the reference"})
				case "copy":
					add(c08Acc{in: rr, fn: fn, write: len(cc.Args) == 2 && cc.Args[0] == v, what: "copy through the reference"})
				default:
					add(c08Acc{in: rr, fn: fn, what: b + " through the reference"})
				}
				continue
			}
			if _, isDefer := rr.(*ssa.Defer); isDefer {
				*unk = append(*unk, "the variable's map/slice is handed to a deferred call "+where(rr))
				continue
			}
			add(c08Acc{in: rr, fn: fn, what: "the reference is passed to " + callDesc(x)})
			if cal := staticCallee(x); cal != nil && p.funcSet[cal] && !cc.IsInvoke() {
				for k, a := range cc.Args {
					if a == v && k < len(cal.Params) {
						c08FollowGuarded(p, lk, cal.Params[k], cal, depth+1, seen, add, unk)
					}
				}
			} else if !cc.IsInvoke() && staticCallee(x) == nil {
				// a call through a function value: follow the reference into every function the value may be
				targets, ok := c08FuncTargets(p, lk, cc.Value, 0)
				if !ok {
					*unk = append(*unk, "the variable's map/slice is passed to a function value whose targets are not resolved "+where(rr))
					continue
				}
				for _, tg := range targets {
					for k, a := range cc.Args {
						if a == v && k < len(tg.Params) {
							c08FollowGuarded(p, lk, tg.Params[k], tg, depth+1, seen, add, unk)
						}
					}
				}
			}
		}
	}
}

func c08IsInitFunc(fn *ssa.Function) bool {
	if fn == nil || fn.Parent() != nil || fn.Signature.Recv() != nil {
		return false
	}
	return fn.Name() == "init" || strings.HasPrefix(fn.Name(), "init#")
}

type c08Acc struct {
	in    ssa.Instruction
	fn    *ssa.Function
	write bool
	what  string
}

// c08OnceCallback: fn is a function literal handed to sync.Once.Do (or sync.OnceFunc/OnceValue).
func c08OnceCallback(fn *ssa.Function) bool {
	par := fn.Parent()
	if par == nil {
		return false
	}
	found := false
	allInstrs(par, func(in ssa.Instruction) {
		mc, ok := in.(*ssa.MakeClosure)
		var v ssa.Value
		if ok && mc.Fn == ssa.Value(fn) {
			v = mc
		}
		if ci, ok := in.(ssa.CallInstruction); ok {
			for _, a := range ci.Common().Args {
				if a == ssa.Value(fn) || (v != nil && a == v) {
					if obj := calleeObj(ci); obj != nil && obj.Pkg() != nil && obj.Pkg().Path() == "sync" && strings.HasPrefix(obj.Name(), "Do") {
						found = true
					}
				}
				if m, ok := a.(*ssa.MakeClosure); ok && m.Fn == ssa.Value(fn) {
					if obj := calleeObj(ci); obj != nil && obj.Pkg() != nil && obj.Pkg().Path() == "sync" && (obj.Name() == "Do" || strings.HasPrefix(obj.Name(), "Once")) {
						found = true
					}
				}
			}
		}
	})
	return found
}

// c08OnceIDOfCallback: fn is a function literal passed to (*sync.Once).Do; returns the identity of the Once.
func c08OnceIDOfCallback(fn *ssa.Function) string {
	par := fn.Parent()
	if par == nil {
		return ""
	}
	id := ""
	allInstrs(par, func(in ssa.Instruction) {
		ci, ok := in.(*ssa.Call)
		if !ok || !callIs(ci, "sync", "Once", "Do") || len(ci.Call.Args) != 2 {
			return
		}
		if mc, ok := ci.Call.Args[1].(*ssa.MakeClosure); ok && mc.Fn == ssa.Value(fn) {
			if x, ok := lockIdent(ci.Call.Args[0]); ok {
				id = x
			}
		} else if f, ok := ci.Call.Args[1].(*ssa.Function); ok && f == fn {
			if x, ok := lockIdent(ci.Call.Args[0]); ok {
				id = x
			}
		}
	})
	return id
}

// c08OnceSplit: if some access is a write inside a Once callback, returns the Once, the accesses inside
// callbacks of that Once and the remaining ones; "" if not applicable (or several Onces are involved).
func c08OnceSplit(accs []c08Acc) (string, []c08Acc, []c08Acc) {
	id := ""
	var cb, others []c08Acc
	wrote := false
	for _, a := range accs {
		x := c08OnceIDOfCallback(a.fn)
		if x == "" {
			others = append(others, a)
			continue
		}
		if id != "" && x != id {
			return "", nil, nil
		}
		id = x
		cb = append(cb, a)
		if a.write {
			wrote = true
		}
	}
	if !wrote {
		return "", nil, nil
	}
	return id, cb, others
}

// c08EnsuresOnce: every return of fn is preceded by Do on the Once (must-dataflow).
func c08EnsuresOnce(fn *ssa.Function, onceID string) bool {
	if len(fn.Blocks) == 0 {
		return false
	}
	ff := &FlagFlow{Fn: fn, Must: true}
	ff.Transfer = func(in ssa.Instruction, st uint64) uint64 {
		if ci, ok := in.(*ssa.Call); ok && callIs(ci, "sync", "Once", "Do") {
			if x, ok := lockIdent(ci.Call.Args[0]); ok && x == onceID {
				return st | 1
			}
		}
		return st
	}
	ff.Run()
	all, n := true, 0
	ff.AtReturns(func(ret *ssa.Return, st uint64) {
		n++
		if st&1 == 0 {
			all = false
		}
	})
	return all && n > 0
}

// c08AfterOnce: instruction in is dominated by a call of Do on the Once, or of a same-module function
// that calls it on every path; or every call site of its (unexported, not address-taken) function is.
func c08AfterOnce(p *Prog, in ssa.Instruction, onceID string, depth int) bool {
	fn := in.Parent()
	found := false
	allInstrs(fn, func(d ssa.Instruction) {
		ci, ok := d.(*ssa.Call)
		if !ok || found || d == in || !instrDominates(d, in) {
			return
		}
		if callIs(ci, "sync", "Once", "Do") {
			if x, ok := lockIdent(ci.Call.Args[0]); ok && x == onceID {
				found = true
			}
			return
		}
		if cal := staticCallee(ci); cal != nil && p.funcSet[cal] && c08EnsuresOnce(cal, onceID) {
			found = true
		}
	})
	if found || depth > 2 || isExportedFunc(fn) || fn.Parent() != nil {
		return found
	}
	n := 0
	ok := true
	for _, g := range p.Funcs {
		allInstrs(g, func(d ssa.Instruction) {
			for _, op := range d.Operands(nil) {
				if op != nil && *op == ssa.Value(fn) {
					ci, isCall := d.(*ssa.Call)
					if !isCall || ci.Call.Value != ssa.Value(fn) {
						ok = false
						return
					}
					n++
					if !c08AfterOnce(p, d, onceID, depth+1) {
						ok = false
					}
				}
			}
		})
	}
	return ok && n > 0
}

// c08PoolUses checks how the pool denoted by v (the global's address, or a
// parameter that received it) is used inside fn. bad: positively not Get/Put;
// unk: not followed.
func c08PoolUses(p *Prog, fn *ssa.Function, v ssa.Value, depth int, bad, unk *[]string) {
	inInit := c08IsInitFunc(fn) || (fn.Parent() != nil && c08IsInitFunc(fn.Parent()))
	allInstrs(fn, func(in ssa.Instruction) {
		uses := false
		for _, op := range in.Operands(nil) {
			if *op == v {
				uses = true
			}
		}
		if !uses {
			return
		}
		where := fmt.Sprintf("at %s in %s", p.Pos(instrPos(in)), FuncName(p, fn))
		switch x := in.(type) {
		case ssa.CallInstruction:
			cc := x.Common()
			if (callIs(x, "sync", "Pool", "Get") || callIs(x, "sync", "Pool", "Put")) && len(cc.Args) > 0 && cc.Args[0] == v {
				return
			}
			if cal := staticCallee(x); cal != nil && p.funcSet[cal] && depth < 4 {
				for i, a := range cc.Args {
					if a == v && i < len(cal.Params) {
						c08PoolUses(p, cal, cal.Params[i], depth+1, bad, unk)
					}
				}
				return
			}
			*unk = append(*unk, "sync.Pool handed to "+callDesc(x)+" "+where)
		case *ssa.FieldAddr:
			if x.X != v {
				return
			}
			if inInit && c08IsInitFunc(fn) {
				return // New: func literal in the initialiser
			}
			stored := false
			for _, rr := range refs(x) {
				if st, ok := rr.(*ssa.Store); ok && st.Addr == ssa.Value(x) {
					stored = true
				}
			}
			if stored {
				*bad = append(*bad, "sync.Pool reconfigured (field assigned) after initialisation "+where)
			}
		case *ssa.Store:
			if x.Addr == v {
				if c08IsInitFunc(fn) {
					return
				}
				*bad = append(*bad, "sync.Pool replaced (assigned) after initialisation "+where)
				return
			}
			// kept in a local variable that is assigned once: the loads of that variable (also inside
			// function literals that capture it) denote the same pool
			if cell, ok := x.Addr.(*ssa.Alloc); ok && depth < 4 {
				followed := true
				var loads []ssa.Value
				var collect func(addr ssa.Value, owner *ssa.Function)
				collect = func(addr ssa.Value, owner *ssa.Function) {
					for _, rr := range refs(addr) {
						switch y := rr.(type) {
						case *ssa.UnOp:
							if throughSingleStoreCells(y, 0) == v {
								loads = append(loads, y)
							} else {
								followed = false
							}
						case *ssa.Store, *ssa.DebugRef:
						case *ssa.MakeClosure:
							if f, ok := y.Fn.(*ssa.Function); ok {
								for i, b := range y.Bindings {
									if b == addr && i < len(f.FreeVars) {
										collect(f.FreeVars[i], f)
									}
								}
							}
						default:
							followed = false
						}
					}
				}
				collect(cell, fn)
				if followed {
					for _, ld := range loads {
						c08PoolUses(p, ld.(*ssa.UnOp).Parent(), ld, depth+1, bad, unk)
					}
					return
				}
			}
			*unk = append(*unk, "address of the sync.Pool stored "+where)
		case *ssa.UnOp:
			if x.Op == token.MUL && x.X == v {
				if _, isPtr := x.Type().Underlying().(*types.Pointer); isPtr {
					// pointer-typed pool variable: follow the loaded pointer
					for _, rr := range refs(x) {
						if ci, ok := rr.(ssa.CallInstruction); ok && (callIs(ci, "sync", "Pool", "Get") || callIs(ci, "sync", "Pool", "Put")) {
							continue
						}
						*unk = append(*unk, "pool pointer used other than for Get/Put "+where)
					}
					return
				}
				*bad = append(*bad, "sync.Pool copied by value "+where)
			}
		default:
			*unk = append(*unk, fmt.Sprintf("sync.Pool used by %T %s", in, where))
		}
	})
}

// c08AddrWrites walks the uses of an address derived from a package-level
// variable (field / element addresses) and reports stores and loads.
func c08AddrAccesses(fn *ssa.Function, addr ssa.Value, what string, depth int, out *[]c08Acc) {
	if depth > 5 {
		return
	}
	for _, rr := range refs(addr) {
		switch x := rr.(type) {
		case *ssa.Store:
			if x.Addr == addr {
				*out = append(*out, c08Acc{in: rr, fn: fn, write: true, what: what + " assigned"})
			}
		case *ssa.UnOp:
			if x.Op == token.MUL {
				*out = append(*out, c08Acc{in: rr, fn: fn, what: what + " read"})
			}
		case *ssa.FieldAddr:
			c08AddrAccesses(fn, x, "field "+fieldIDOfAddr(x).Field, depth+1, out)
		case *ssa.IndexAddr:
			c08AddrAccesses(fn, x, "element", depth+1, out)
		case ssa.CallInstruction:
			if _, isGo := rr.(*ssa.Go); isGo {
				continue
			}
			*out = append(*out, c08Acc{in: rr, fn: fn, what: what + " address passed to " + callDesc(x)})
		}
	}
}

func c08B2(p *Prog, r *Report, t *TaintEngine, e *LockEngine) []GuardSpec {
	var gspecs []GuardSpec
	for _, pkg := range p.Pkgs {
		if !strings.HasPrefix(pkg.PkgPath, p.ModPath) {
			continue
		}
		sp := p.SSA.Package(pkg.Types)
		var names []string
		for name, m := range sp.Members {
			if _, ok := m.(*ssa.Global); ok && !strings.HasPrefix(name, "init$") {
				names = append(names, name)
			}
		}
		sort.Strings(names)
		// candidate guards: the package-level mutexes of this package (by type)
		var locks []string
		for _, name := range names {
			g := sp.Members[name].(*ssa.Global)
			tn := namedKey(g.Type().(*types.Pointer).Elem())
			if tn == "sync.Mutex" || tn == "sync.RWMutex" {
				locks = append(locks, pkg.PkgPath+"."+name)
			}
		}
		for _, name := range names {
			g := sp.Members[name].(*ssa.Global)
			gid := pkg.PkgPath + "." + name
			construct := "var " + p.RelPath(pkg.PkgPath) + "." + name
			elem := g.Type().(*types.Pointer).Elem()
			tn := namedKey(elem)
			if tn == "sync.Mutex" || tn == "sync.RWMutex" || tn == "sync.Once" || tn == "sync.WaitGroup" || strings.HasPrefix(tn, "sync/atomic.") {
				r.OK("C08.B2-inventory", construct, p.Pos(g.Pos()), "synchronisation object")
				continue
			}
			if tn == "sync.Pool" {
				var bad, unk []string
				for _, fn := range p.Funcs {
					c08PoolUses(p, fn, g, 0, &bad, &unk)
				}
				sort.Strings(bad)
				sort.Strings(unk)
				if len(bad) > 0 {
					r.Violation("C08.B2-inventory", construct, p.Pos(g.Pos()), "package-level state shared by all callers is mutated/used without the discipline that keeps independent operations independent", bad...)
				} else if len(unk) > 0 {
					r.Undecide("%s: uses of the pool that are not followed: %s", construct, strings.Join(unk, "; "))
				} else {
					r.OK("C08.B2-inventory", construct, p.Pos(g.Pos()), "sync.Pool used only through Get/Put")
				}
				continue
			}
			want := FieldID{Type: "global", Field: gid}
			var accs []c08Acc
			var unk []string
			seen := map[ssa.Instruction]bool{}
			add := func(a c08Acc) {
				if a.in == nil {
					return
				}
				if seen[a.in] {
					if a.write {
						for i := range accs {
							if accs[i].in == a.in && !accs[i].write {
								accs[i].write, accs[i].what = true, a.what
							}
						}
					}
					return
				}
				seen[a.in] = true
				accs = append(accs, a)
			}
			for _, fn := range p.Funcs {
				if c08IsInitFunc(fn) {
					continue
				}
				// (1) direct uses of the variable's address
				allInstrs(fn, func(in ssa.Instruction) {
					uses := false
					for _, op := range in.Operands(nil) {
						if *op == ssa.Value(g) {
							uses = true
						}
					}
					if !uses {
						return
					}
					switch x := in.(type) {
					case *ssa.Store:
						if x.Addr == ssa.Value(g) {
							add(c08Acc{in: in, fn: fn, write: true, what: "assigned"})
						} else {
							unk = append(unk, fmt.Sprintf("address of the variable stored at %s in %s", p.Pos(instrPos(in)), FuncName(p, fn)))
						}
					case *ssa.UnOp:
						add(c08Acc{in: in, fn: fn, what: "read"})
						if x.Op == token.MUL && c08IsContainerRef(x.Type()) {
							// the map / slice / pointer loaded from the variable IS the shared state: wherever the
							// reference flows (results, arguments, local variables), its uses are accesses of the variable
							c08FollowGuarded(p, c08LockCtxOf(p, e), x, fn, 0, map[ssa.Value]bool{}, add, &unk)
						}
					case *ssa.FieldAddr:
						var sub []c08Acc
						c08AddrAccesses(fn, x, "field "+fieldIDOfAddr(x).Field, 0, &sub)
						for _, a := range sub {
							if ci, ok := a.in.(ssa.CallInstruction); ok {
								if _, _, isLock := e.lockOp(ci); isLock {
									continue
								}
							}
							add(a)
						}
					case *ssa.IndexAddr:
						var sub []c08Acc
						c08AddrAccesses(fn, x, "element", 0, &sub)
						for _, a := range sub {
							add(a)
						}
					case ssa.CallInstruction:
						// the variable's ADDRESS is the receiver (or an argument) of a call: a pointer-receiver method may change the object
						switch c08AddrCallEffect(p, x, g) {
						case 1:
							add(c08Acc{in: in, fn: fn, write: true, what: "changed through its pointer-receiver method " + callDesc(x)})
						case 2:
							add(c08Acc{in: in, fn: fn, what: "used by " + callDesc(x)})
							unk = append(unk, fmt.Sprintf("the variable's address is handed to %s at %s in %s: whether that changes it is not known", callDesc(x), p.Pos(instrPos(in)), FuncName(p, fn)))
						default:
							add(c08Acc{in: in, fn: fn, what: "read by " + callDesc(x)})
						}
					default:
						add(c08Acc{in: in, fn: fn, what: "used"})
					}
				})
				// (2) uses of the value loaded from it (look-ups, iteration, updates, hand-over to calls)
				for _, a := range FieldAccesses(fn, func(id FieldID) bool { return id == want }) {
					add(c08Acc{in: a.Instr, fn: fn, write: a.Kind == AccWrite, what: a.What})
				}
				// (3) writes through values that may share its memory (alias analysis), also through helpers that received it
				for _, s := range t.Sum[fn].Writes["global:"+gid] {
					if s.Instr == nil {
						continue
					}
					if !s.Local && !s.Mapped {
						// the callee (whichever function value it is) reaches the variable by itself: judged there
						continue
					}
					add(c08Acc{in: s.Instr, fn: fn, write: true, what: s.What})
				}
			}
			var writes []c08Acc
			for _, a := range accs {
				if a.write {
					writes = append(writes, a)
				}
			}
			desc := func(a c08Acc) string {
				return fmt.Sprintf("%s at %s in %s", a.what, p.Pos(instrPos(a.in)), FuncName(p, a.fn))
			}
			if len(writes) == 0 && len(unk) > 0 {
				sort.Strings(unk)
				r.Undecide("%s: %s", construct, strings.Join(unk, "; "))
				continue
			}
			if len(writes) == 0 {
				// a singleton struct (the only object of its type) is package-level state field by field
				fbad, fspecs, fmsg := c08SingletonFields(p, e, g, elem, locks)
				if len(fbad) > 0 {
					r.Violation("C08.B2-inventory", construct, p.Pos(g.Pos()), "package-level state shared by all callers is mutated/used without the discipline that keeps independent operations independent", fbad...)
					gspecs = append(gspecs, fspecs...)
					continue
				}
				gspecs = append(gspecs, fspecs...)
				r.OK("C08.B2-inventory", construct, p.Pos(g.Pos()), "never written (or written through) outside package initialisation"+fmsg)
				continue
			}
			// lazily initialised under a sync.Once: the callback's accesses are ordered before everything that
			// happens after Do returns; every other access must be preceded by Do on the same Once
			if onceID, cbAccs, others := c08OnceSplit(accs); onceID != "" {
				var late []string
				for _, a := range others {
					if !c08AfterOnce(p, a.in, onceID, 0) {
						late = append(late, desc(a))
					}
				}
				if len(late) > 0 {
					sort.Strings(late)
					r.Undecide("%s is initialised inside a sync.Once callback (%d accesses there); these accesses are not provably preceded by Do on %s: %s", construct, len(cbAccs), shortID(onceID), strings.Join(late, "; "))
					continue
				}
				accs, writes = others, nil
				for _, a := range accs {
					if a.write {
						writes = append(writes, a)
					}
				}
				if len(writes) == 0 {
					r.OK("C08.B2-inventory", construct, p.Pos(g.Pos()), "initialised once inside a sync.Once callback ("+shortID(onceID)+"); every other access happens after Do returned and none of them writes")
					continue
				}
			}
			// mutated after initialisation: some package-level lock must be held at every access
			best, bestLock := []string(nil), ""
			for _, lock := range locks {
				var bad []string
				for _, a := range accs {
					need := ModeR
					if a.write {
						need = ModeW
					}
					if strings.Contains(a.what, "itself is returned") {
						bad = append(bad, desc(a))
						continue
					}
					if !e.Reachable(a.in) {
						continue
					}
					if held := c08LockCtxOf(p, e).held(a.in, lock); held < need {
						bad = append(bad, fmt.Sprintf("%s needs %s(%s), holds %s", desc(a), shortID(lock), need, held))
					}
				}
				sort.Strings(bad)
				if bestLock == "" || len(bad) < len(best) {
					best, bestLock = bad, lock
				}
			}
			if bestLock != "" && len(best) == 0 {
				if len(unk) > 0 {
					sort.Strings(unk)
					r.Undecide("%s: %s", construct, strings.Join(unk, "; "))
					continue
				}
				r.OK("C08.B2-inventory", construct, p.Pos(g.Pos()), "every access under "+shortID(bestLock)+" (W for writes)")
				gspecs = append(gspecs, GuardSpec{Field: want, Lock: bestLock})
				continue
			}
			// only writes made by once-callbacks: lazily initialised, not decided here
			allOnce := true
			for _, w := range writes {
				if !c08OnceCallback(w.fn) {
					allOnce = false
				}
			}
			if allOnce {
				r.Undecide("%s is assigned only inside sync.Once callbacks (lazy initialisation): not decided", construct)
				continue
			}
			if bestLock == "" {
				for _, w := range writes {
					best = append(best, desc(w)+" (the package has no package-level lock)")
				}
				sort.Strings(best)
			} else {
				// the registry is still subject to the single-section rule under its best candidate
				gspecs = append(gspecs, GuardSpec{Field: want, Lock: bestLock})
			}
			r.Violation("C08.B2-inventory", construct, p.Pos(g.Pos()), "package-level state shared by all callers is mutated/used without the discipline that keeps independent operations independent", best...)
		}
	}
	return gspecs
}

// c08SingletonFields: g is (a pointer to) a struct of a module type that has no
// other instance in the module. Its fields are then package-level state: a
// field mutated after initialisation must have every access under one lock —
// a package-level mutex of the package or a mutex field of the struct itself.
func c08SingletonFields(p *Prog, e *LockEngine, g *ssa.Global, elem types.Type, pkgLocks []string) (bad []string, specs []GuardSpec, msg string) {
	t := elem
	if pt, ok := t.Underlying().(*types.Pointer); ok {
		t = pt.Elem()
	}
	named, ok := t.(*types.Named)
	if !ok || named.Obj().Pkg() == nil || !strings.HasPrefix(named.Obj().Pkg().Path(), p.ModPath) {
		return nil, nil, ""
	}
	st, ok := named.Underlying().(*types.Struct)
	if !ok {
		return nil, nil, ""
	}
	// singleton: no allocation of the type outside package initialisation, no other variable of the type
	single := true
	for _, fn := range p.Funcs {
		if c08IsInitFunc(fn) {
			continue
		}
		allInstrs(fn, func(in ssa.Instruction) {
			if a, ok := in.(*ssa.Alloc); ok && types.Identical(deref(a.Type()), t) {
				single = false
			}
			if mk, ok := in.(*ssa.MakeInterface); ok && types.Identical(mk.X.Type(), t) {
				single = false
			}
		})
	}
	for _, m := range g.Pkg.Members {
		if og, ok := m.(*ssa.Global); ok && og != g {
			ot := og.Type().(*types.Pointer).Elem()
			if pt, ok := ot.Underlying().(*types.Pointer); ok {
				ot = pt.Elem()
			}
			if types.Identical(ot, t) {
				single = false
			}
		}
	}
	if !single {
		return nil, nil, ""
	}
	tkey := namedKey(t)
	locks := append([]string{}, pkgLocks...)
	for i := 0; i < st.NumFields(); i++ {
		if k := namedKey(st.Field(i).Type()); k == "sync.Mutex" || k == "sync.RWMutex" {
			locks = append(locks, tkey+"."+st.Field(i).Name())
		}
	}
	var guarded []string
	for i := 0; i < st.NumFields(); i++ {
		f := st.Field(i)
		k := namedKey(f.Type())
		if strings.HasPrefix(k, "sync.") || strings.HasPrefix(k, "sync/atomic.") {
			continue
		}
		if _, isChan := f.Type().Underlying().(*types.Chan); isChan {
			continue
		}
		id := FieldID{Type: tkey, Field: f.Name()}
		var accs []Access
		for _, fn := range p.Funcs {
			if c08IsInitFunc(fn) {
				continue
			}
			for _, a := range FieldAccesses(fn, func(x FieldID) bool { return x == id }) {
				if !a.Fresh && e.Reachable(a.Instr) {
					accs = append(accs, a)
				}
			}
		}
		mutated := false
		for _, a := range accs {
			if a.Kind == AccWrite {
				mutated = true
			}
		}
		if !mutated {
			continue
		}
		var best []string
		bestLock := ""
		for _, lock := range locks {
			var b []string
			for _, a := range accs {
				need := ModeR
				if a.Kind == AccWrite {
					need = ModeW
				}
				if held := c08LockCtxOf(p, e).held(a.Instr, lock); held < need {
					b = append(b, fmt.Sprintf("field %s: %s (%s) at %s in %s needs %s(%s), holds %s", f.Name(), a.Kind, a.What, p.Pos(instrPos(a.Instr)), FuncName(p, a.Fn), shortID(lock), need, held))
				}
			}
			if bestLock == "" || len(b) < len(best) {
				best, bestLock = b, lock
			}
		}
		switch {
		case bestLock == "":
			for _, a := range accs {
				if a.Kind == AccWrite {
					bad = append(bad, fmt.Sprintf("field %s: %s at %s in %s (no package-level lock and no mutex field guards it)", f.Name(), a.What, p.Pos(instrPos(a.Instr)), FuncName(p, a.Fn)))
				}
			}
		case len(best) > 0:
			bad = append(bad, best...)
			specs = append(specs, GuardSpec{Field: id, Lock: bestLock})
		default:
			guarded = append(guarded, f.Name()+" under "+shortID(bestLock))
			specs = append(specs, GuardSpec{Field: id, Lock: bestLock})
		}
	}
	sort.Strings(bad)
	if len(guarded) > 0 {
		msg = "; the only object of its type: fields mutated after initialisation are guarded (" + strings.Join(guarded, ", ") + ")"
	}
	return bad, specs, msg
}

// ---------------------------------------------------------------- lock context of callbacks
//
// The lockset engine knows the locks a function takes itself and the locks
// its static callers hold. c08LockCtx adds the locks held around the
// INVOCATION of a function value: a function literal (or named function) whose
// every use is to be passed to a same-module wrapper `locked(l, fn)` that calls
// it while holding a lock — a fixed one, or one it received as a parameter
// (*sync.Mutex, *sync.RWMutex, sync.Locker; `&mu`, `mu.RLocker()` at the call
// site) — runs under that lock. Static callees of such callbacks inherit it.

type c08LockCtx struct {
	p      *Prog
	e      *LockEngine
	uses   map[*ssa.Function][]ssa.Instruction // non-call-position uses of a function value
	sites  map[*ssa.Function][]ssa.CallInstruction
	extra  map[*ssa.Function]LS
	inprog map[*ssa.Function]bool
	pflow  map[*ssa.Function]*FlagFlow
}

var c08LockCtxCache = map[*LockEngine]*c08LockCtx{}

func c08LockCtxOf(p *Prog, e *LockEngine) *c08LockCtx {
	if c, ok := c08LockCtxCache[e]; ok {
		return c
	}
	c := &c08LockCtx{p: p, e: e, uses: map[*ssa.Function][]ssa.Instruction{}, sites: map[*ssa.Function][]ssa.CallInstruction{}, extra: map[*ssa.Function]LS{}, inprog: map[*ssa.Function]bool{}, pflow: map[*ssa.Function]*FlagFlow{}}
	for _, fn := range p.Funcs {
		allInstrs(fn, func(in ssa.Instruction) {
			ci, isCall := in.(ssa.CallInstruction)
			if isCall {
				if cal := staticCallee(ci); cal != nil && p.funcSet[cal] {
					c.sites[cal] = append(c.sites[cal], ci)
				}
			}
			for _, op := range in.Operands(nil) {
				if op == nil || *op == nil {
					continue
				}
				f, ok := (*op).(*ssa.Function)
				if !ok {
					continue
				}
				if isCall && ci.Common().Value == *op && !ci.Common().IsInvoke() {
					continue
				}
				c.uses[origin(f)] = append(c.uses[origin(f)], in)
			}
		})
	}
	c08LockCtxCache[e] = c
	return c
}

func (c *c08LockCtx) held(in ssa.Instruction, lock string) Mode {
	m := c.e.At(in)[lock]
	if fn := in.Parent(); fn != nil {
		if x := c.entryExtra(fn)[lock]; x > m {
			m = x
		}
		if x := c.paramHeld(in)[lock]; x > m {
			m = x
		}
	}
	return m
}

func (c *c08LockCtx) heldAll(in ssa.Instruction) LS {
	out := c.e.At(in).clone()
	if fn := in.Parent(); fn != nil {
		for id, m := range c.entryExtra(fn) {
			if m > out[id] {
				out[id] = m
			}
		}
		for id, m := range c.paramHeld(in) {
			if m > out[id] {
				out[id] = m
			}
		}
	}
	return out
}

// paramHeld: locks that the function of in received as parameters and holds at in, resolved at EVERY call
// site of the function (meet): `withLock(l sync.Locker, ...) { l.Lock(); defer l.Unlock(); <in> }` called
// with &mu and mu.RLocker() holds mu in read mode at <in>.
func (c *c08LockCtx) paramHeld(in ssa.Instruction) LS {
	w := in.Parent()
	if w == nil {
		return nil
	}
	hasLockParam := false
	for _, pa := range w.Params {
		if c08LockParamKind(pa.Type()) {
			hasLockParam = true
		}
	}
	if !hasLockParam || isExportedFunc(w) || len(c.uses[origin(w)]) > 0 {
		return nil
	}
	ff := c.paramLockFlow(w)
	st, reach := ff.Before(in)
	if !reach || st == 0 {
		return nil
	}
	var acc LS
	for _, cs := range c.sites[origin(w)] {
		call, ok := cs.(*ssa.Call)
		if !ok {
			return nil
		}
		ls := LS{}
		for j := range w.Params {
			if j >= 30 || j >= len(call.Call.Args) {
				break
			}
			bits := (st >> (2 * uint(j))) & 3
			if bits == 0 {
				continue
			}
			id, lockMode, ok := c08ResolveLockArg(call.Call.Args[j])
			if !ok {
				continue
			}
			m := ModeR
			if bits&1 != 0 {
				m = lockMode
			}
			if m > ls[id] {
				ls[id] = m
			}
		}
		if acc == nil {
			acc = ls
		} else {
			acc = meetLS(acc, ls)
		}
	}
	return acc
}

// entryExtra: locks held whenever fn runs that the lockset engine does not see.
func (c *c08LockCtx) entryExtra(fn *ssa.Function) LS {
	fn = origin(fn)
	if ls, ok := c.extra[fn]; ok {
		return ls
	}
	if c.inprog[fn] {
		return LS{}
	}
	c.inprog[fn] = true
	defer delete(c.inprog, fn)
	var acc LS
	meet := func(ls LS) {
		if acc == nil {
			acc = ls.clone()
		} else {
			acc = meetLS(acc, ls)
		}
	}
	if isExportedFunc(fn) || c08IsInitFunc(fn) {
		meet(LS{})
	}
	// direct calls
	for _, cs := range c.sites[fn] {
		if _, isCall := cs.(*ssa.Call); isCall {
			meet(c.heldAll(cs))
		} else if d, isDefer := cs.(*ssa.Defer); isDefer {
			_ = d
			meet(LS{}) // runs at function exit: what is held then is not tracked here
		} else {
			meet(LS{})
		}
	}
	// uses as a value
	for _, u := range c.uses[fn] {
		switch x := u.(type) {
		case *ssa.MakeClosure:
			rs := refs(x)
			if len(rs) == 0 {
				meet(LS{})
			}
			for _, r := range rs {
				if _, isDbg := r.(*ssa.DebugRef); isDbg {
					continue
				}
				meet(c.valueUseCtx(x, r))
			}
		default:
			meet(c.valueUseCtx(nil, u))
		}
	}
	if acc == nil {
		acc = LS{}
	}
	// locks fn may release itself are not counted
	if _, rel := c.e.Summary(fn); rel != nil {
		for id := range rel {
			delete(acc, id)
		}
	}
	c.extra[fn] = acc
	return acc
}

// valueUseCtx: the function value v (nil: a bare *ssa.Function operand) is used by instruction u.
func (c *c08LockCtx) valueUseCtx(v ssa.Value, u ssa.Instruction) LS {
	ci, ok := u.(*ssa.Call)
	if !ok {
		return LS{}
	}
	cc := ci.Common()
	if v != nil && cc.Value == v {
		return c.heldAll(ci) // called right where it is created
	}
	w := staticCallee(ci)
	if w == nil || !c.p.funcSet[w] || cc.IsInvoke() {
		return LS{}
	}
	var acc LS
	found := false
	for k, a := range cc.Args {
		isArg := false
		if v != nil {
			isArg = a == v
		} else if f, ok := a.(*ssa.Function); ok {
			for _, uu := range c.uses[origin(f)] {
				if uu == u {
					isArg = true
				}
			}
		}
		if !isArg || k >= len(w.Params) {
			continue
		}
		found = true
		ls := c.wrapperCtx(w, k, ci)
		for id, m := range c.heldAll(ci) {
			if m > ls[id] {
				ls[id] = m
			}
		}
		if acc == nil {
			acc = ls
		} else {
			acc = meetLS(acc, ls)
		}
	}
	if !found || acc == nil {
		return LS{}
	}
	return acc
}

func c08LockParamKind(t types.Type) bool {
	k := namedKey(t)
	return k == "sync.Mutex" || k == "sync.RWMutex" || k == "sync.Locker"
}

// paramLockFlow: must-dataflow over w: bit 2j = parameter j is locked (Lock), bit 2j+1 = read-locked (RLock).
func (c *c08LockCtx) paramLockFlow(w *ssa.Function) *FlagFlow {
	if ff, ok := c.pflow[w]; ok {
		return ff
	}
	idx := map[ssa.Value]int{}
	for j, pa := range w.Params {
		if j < 30 && c08LockParamKind(pa.Type()) {
			idx[pa] = j
		}
	}
	ff := &FlagFlow{Fn: w, Must: true}
	ff.Transfer = func(in ssa.Instruction, st uint64) uint64 {
		if _, isDefer := in.(*ssa.Defer); isDefer && !ff.Replaying {
			return st
		}
		ci, ok := in.(ssa.CallInstruction)
		if !ok {
			return st
		}
		cc := ci.Common()
		var recv ssa.Value
		name := ""
		if cc.IsInvoke() {
			recv, name = cc.Value, cc.Method.Name()
		} else if obj := calleeObj(ci); obj != nil && obj.Pkg() != nil && obj.Pkg().Path() == "sync" && len(cc.Args) > 0 {
			recv, name = cc.Args[0], obj.Name()
		}
		j, isParam := idx[recv]
		if !isParam {
			return st
		}
		switch name {
		case "Lock":
			return st | 1<<(2*uint(j))
		case "RLock":
			return st | 1<<(2*uint(j)+1)
		case "Unlock", "RUnlock":
			return st &^ (3 << (2 * uint(j)))
		}
		return st
	}
	if len(idx) > 0 {
		ff.Run()
	}
	c.pflow[w] = ff
	return ff
}

// resolveLockArg: the lock a call-site argument denotes, and the mode Lock() on it gives.
func c08ResolveLockArg(v ssa.Value) (id string, lockMode Mode, ok bool) {
	for {
		switch x := v.(type) {
		case *ssa.MakeInterface:
			v = x.X
			continue
		case *ssa.ChangeInterface:
			v = x.X
			continue
		case *ssa.ChangeType:
			v = x.X
			continue
		case *ssa.Call:
			if callIs(x, "sync", "RWMutex", "RLocker") && len(x.Call.Args) == 1 {
				if id, ok := lockIdent(x.Call.Args[0]); ok {
					return id, ModeR, true
				}
			}
			return "", 0, false
		}
		break
	}
	if k := namedKey(v.Type()); k != "sync.Mutex" && k != "sync.RWMutex" {
		return "", 0, false
	}
	if id, ok := lockIdent(v); ok {
		return id, ModeW, true
	}
	return "", 0, false
}

// wrapperCtx: the locks w holds at every invocation of its function-typed parameter k, for the call site cs of w.
func (c *c08LockCtx) wrapperCtx(w *ssa.Function, k int, cs *ssa.Call) LS {
	w = origin(w)
	pa := w.Params[k]
	var acc LS
	for _, r := range refs(pa) {
		if _, isDbg := r.(*ssa.DebugRef); isDbg {
			continue
		}
		inv, ok := r.(*ssa.Call)
		if !ok {
			return LS{} // stored, started as a goroutine, deferred: not followed
		}
		var fwd LS
		if inv.Call.Value != ssa.Value(pa) {
			// passed on to another same-module function that runs it: that function's context adds to ours
			w2 := staticCallee(inv)
			if w2 == nil || !c.p.funcSet[w2] || inv.Call.IsInvoke() || c.inprog[origin(w2)] {
				return LS{}
			}
			c.inprog[origin(w2)] = true
			for k2, a := range inv.Call.Args {
				if a == ssa.Value(pa) && k2 < len(w2.Params) {
					x := c.wrapperCtx(w2, k2, inv)
					if fwd == nil {
						fwd = x
					} else {
						fwd = meetLS(fwd, x)
					}
				}
			}
			delete(c.inprog, origin(w2))
			if fwd == nil {
				return LS{}
			}
		}
		ls := c.heldAll(inv)
		for id, m := range fwd {
			if m > ls[id] {
				ls[id] = m
			}
		}
		ff := c.paramLockFlow(w)
		if st, reach := ff.Before(inv); reach && st != 0 {
			for j := range w.Params {
				if j >= 30 || j >= len(cs.Call.Args) {
					break
				}
				bits := (st >> (2 * uint(j))) & 3
				if bits == 0 {
					continue
				}
				id, lockMode, ok := c08ResolveLockArg(cs.Call.Args[j])
				if !ok {
					continue
				}
				m := ModeR
				if bits&1 != 0 {
					m = lockMode
				}
				if m > ls[id] {
					ls[id] = m
				}
			}
		}
		if acc == nil {
			acc = ls
		} else {
			acc = meetLS(acc, ls)
		}
	}
	if acc == nil {
		return LS{}
	}
	return acc
}

// ---------------------------------------------------------------- B3

type c08Status int

const (
	c08Clean c08Status = iota
	c08Dirty
	c08Unknown
)

func (s c08Status) String() string { return [...]string{"clean", "dirty", "unknown"}[s] }

type c08ZeroVerdict struct {
	status  c08Status
	dirty   []string // returns that can deliver recycled memory that was not zeroed
	unknown []string // writes / origins that could not be assessed
	nret    int
	roots   int
}

type c08Zero struct {
	p     *Prog
	t     *TaintEngine
	clean map[*ssa.Function]*c08ZeroVerdict
	zp    map[string]int // "fn|i": 0 in progress, 1 zeroes, 2 does not, 3 unknown
}

// c08View: the values of fn that may denote the tracked slice (alias) and
// those that certainly span it from index 0 up to (at least) its length (full).
type c08View struct {
	fn        *ssa.Function
	alias     map[ssa.Value]bool
	full      map[ssa.Value]bool
	ignoreLow bool
	t         *TaintEngine
	roots     map[ssa.Value]bool
}

func c08IsZeroConst(v ssa.Value) bool {
	k, ok := v.(*ssa.Const)
	if !ok || k.Value == nil {
		return false
	}
	if _, isBasic := k.Type().Underlying().(*types.Basic); !isBasic {
		return false
	}
	if k.Value.Kind().String() != "Int" {
		return false
	}
	return k.Int64() == 0
}

func c08IntConst(v ssa.Value, want int64) bool {
	k, ok := v.(*ssa.Const)
	if !ok || k.Value == nil || k.Value.Kind().String() != "Int" {
		return false
	}
	return k.Int64() == want
}

// calleeRetParams: indices of the arguments of a same-module call whose memory result j may share.
func (vw *c08View) calleeRetAliases(call *ssa.Call, j int) []int {
	cal := staticCallee(call)
	if cal == nil || vw.t == nil || vw.t.Sum[origin(cal)] == nil {
		return nil
	}
	var out []int
	for l := range vw.t.Sum[origin(cal)].Ret[j] {
		var i int
		if strings.HasPrefix(l, "p") {
			if _, err := fmt.Sscanf(l, "p%d", &i); err == nil {
				out = append(out, i)
			}
		}
	}
	sort.Ints(out)
	return out
}

func c08Views(fn *ssa.Function, roots map[ssa.Value]bool, t *TaintEngine, ignoreLow bool) *c08View {
	vw := &c08View{fn: fn, alias: map[ssa.Value]bool{}, full: map[ssa.Value]bool{}, ignoreLow: ignoreLow, t: t, roots: roots}
	for v := range roots {
		vw.alias[v] = true
	}
	cellVals := map[*ssa.Alloc][]ssa.Value{}
	srcs := func(in ssa.Instruction) (ssa.Value, []ssa.Value) {
		switch x := in.(type) {
		case *ssa.TypeAssert:
			return x, []ssa.Value{x.X}
		case *ssa.ChangeType:
			return x, []ssa.Value{x.X}
		case *ssa.MakeInterface:
			return x, []ssa.Value{x.X}
		case *ssa.ChangeInterface:
			return x, []ssa.Value{x.X}
		case *ssa.Convert:
			_, fs := x.X.Type().Underlying().(*types.Slice)
			_, ts := x.Type().Underlying().(*types.Slice)
			if fs && ts {
				return x, []ssa.Value{x.X}
			}
		case *ssa.Slice:
			return x, []ssa.Value{x.X}
		case *ssa.Phi:
			return x, x.Edges
		case *ssa.Extract:
			switch tu := x.Tuple.(type) {
			case *ssa.TypeAssert:
				if x.Index == 0 {
					return x, []ssa.Value{tu}
				}
			case *ssa.Call:
				if roots[tu] {
					switch x.Type().Underlying().(type) {
					case *types.Slice, *types.Interface:
						return x, []ssa.Value{tu}
					}
					return nil, nil
				}
				var s []ssa.Value
				for _, i := range vw.calleeRetAliases(tu, x.Index) {
					if i < len(tu.Call.Args) {
						s = append(s, tu.Call.Args[i])
					}
				}
				return x, s
			}
		case *ssa.UnOp:
			if x.Op == token.MUL {
				if cell, ok := x.X.(*ssa.Alloc); ok {
					return x, cellVals[cell]
				}
			}
		case *ssa.Call:
			if builtinName(x) == "append" && len(x.Call.Args) > 0 {
				return x, []ssa.Value{x.Call.Args[0]}
			}
			if x.Call.Signature().Results().Len() == 1 {
				var s []ssa.Value
				for _, i := range vw.calleeRetAliases(x, 0) {
					if i < len(x.Call.Args) {
						s = append(s, x.Call.Args[i])
					}
				}
				return x, s
			}
		}
		return nil, nil
	}
	for changed := true; changed; {
		changed = false
		allInstrs(fn, func(in ssa.Instruction) {
			if st, ok := in.(*ssa.Store); ok {
				if cell, ok := st.Addr.(*ssa.Alloc); ok && vw.alias[st.Val] {
					dup := false
					for _, v := range cellVals[cell] {
						if v == st.Val {
							dup = true
						}
					}
					if !dup {
						cellVals[cell] = append(cellVals[cell], st.Val)
						changed = true
					}
				}
				return
			}
			v, ss := srcs(in)
			if v == nil || vw.alias[v] {
				return
			}
			for _, s := range ss {
				if vw.alias[s] {
					vw.alias[v] = true
					changed = true
					return
				}
			}
		})
	}
	// fullness: greatest fixpoint
	for v := range vw.alias {
		vw.full[v] = true
	}
	lenOfFull := func(v ssa.Value) bool {
		c, ok := v.(*ssa.Call)
		if !ok {
			return false
		}
		b := builtinName(c)
		return (b == "len" || b == "cap") && vw.full[c.Call.Args[0]]
	}
	for changed := true; changed; {
		changed = false
		for v := range vw.alias {
			if !vw.full[v] || roots[v] {
				continue
			}
			ok := true
			in, isInstr := v.(ssa.Instruction)
			if !isInstr {
				ok = false
			} else {
				_, ss := srcs(in)
				switch x := v.(type) {
				case *ssa.Slice:
					if !vw.full[x.X] {
						ok = false
					}
					if x.Low != nil && !c08IntConst(x.Low, 0) && !ignoreLow {
						ok = false
					}
					if x.High != nil && !lenOfFull(x.High) {
						ok = false
					}
					if _, isSlice := x.X.Type().Underlying().(*types.Slice); !isSlice {
						ok = false
					}
				case *ssa.Call:
					ok = false // results of calls / append: extent unknown
				case *ssa.Extract:
					_, isTA := x.Tuple.(*ssa.TypeAssert)
					if !(isTA || roots[x.Tuple]) || !vw.full[x.Tuple] {
						ok = false
					}
				default:
					for _, s := range ss {
						if vw.alias[s] && !vw.full[s] {
							ok = false
						}
					}
				}
			}
			if !ok {
				delete(vw.full, v)
				changed = true
			}
		}
	}
	return vw
}

// c08ZeroEdges recognises counted zeroing loops over a full view and returns
// the CFG edges on which "every byte was set to zero" holds, together with the
// zero stores that were accounted for.
//
// Argument: the stored index idx is an induction variable taking the values
// 0,1,2,… (φ=phi(0, φ+1) with idx=φ, or φ=phi(-1, idx) with idx=φ+1) and the
// store executes in every iteration (its block dominates every latch). Then at
// a point dominated by the φ-block all indices below the next index were
// stored, so an edge taken because `next >= len(view)` (in any spelling)
// establishes the fact; `0 >= len(view)` establishes it trivially. Down-counting
// loops from len-1 symmetric.
func c08ZeroEdges(fn *ssa.Function, vw *c08View) (edges map[[2]*ssa.BasicBlock]bool, accounted map[*ssa.Store]bool) {
	edges = map[[2]*ssa.BasicBlock]bool{}
	accounted = map[*ssa.Store]bool{}
	lenOfFull := func(v ssa.Value) bool {
		// cap(view) bounds len(view) from above: a loop running to the capacity covers the length
		c, ok := v.(*ssa.Call)
		return ok && (builtinName(c) == "len" || builtinName(c) == "cap") && vw.full[c.Call.Args[0]]
	}
	lenMinus1 := func(v ssa.Value) bool {
		b, ok := v.(*ssa.BinOp)
		return ok && b.Op == token.SUB && lenOfFull(b.X) && c08IntConst(b.Y, 1)
	}
	type iv struct {
		st   *ssa.Store
		phi  *ssa.Phi
		next []ssa.Value // values denoting "the next index to be stored" and the block that must dominate the test
		dom  []*ssa.BasicBlock
		down bool
	}
	var ivs []iv
	allInstrs(fn, func(in ssa.Instruction) {
		st, ok := in.(*ssa.Store)
		if !ok || !c08IsZeroConst(st.Val) {
			return
		}
		ia, ok := st.Addr.(*ssa.IndexAddr)
		if !ok || !vw.full[ia.X] {
			return
		}
		idx := ia.Index
		step := func(v ssa.Value, of ssa.Value, tok token.Token) bool {
			b, ok := v.(*ssa.BinOp)
			if !ok || b.Op != tok {
				return false
			}
			if b.X == of && c08IntConst(b.Y, 1) {
				return true
			}
			return tok == token.ADD && b.Y == of && c08IntConst(b.X, 1)
		}
		latchesOK := func(phi *ssa.Phi, nextVal func(ssa.Value) bool, initVal func(ssa.Value) bool) bool {
			nInit, nNext := 0, 0
			for k, ed := range phi.Edges {
				switch {
				case nextVal(ed):
					nNext++
					if !st.Block().Dominates(phi.Block().Preds[k]) {
						return false
					}
				case initVal(ed):
					nInit++
				default:
					return false
				}
			}
			return nInit > 0 && nNext > 0
		}
		// kind 1: idx = φ, φ = phi(0, φ+1)
		if phi, ok := idx.(*ssa.Phi); ok {
			var inc ssa.Value
			if latchesOK(phi, func(v ssa.Value) bool {
				if step(v, phi, token.ADD) {
					inc = v
					return true
				}
				return false
			}, func(v ssa.Value) bool { return c08IntConst(v, 0) }) {
				ivs = append(ivs, iv{st: st, phi: phi, next: []ssa.Value{phi, inc}, dom: []*ssa.BasicBlock{phi.Block(), st.Block()}})
				return
			}
			// kind 3 (down): idx = φ, φ = phi(len(view)-1, φ-1)
			var dec ssa.Value
			if latchesOK(phi, func(v ssa.Value) bool {
				if step(v, phi, token.SUB) {
					dec = v
					return true
				}
				return false
			}, func(v ssa.Value) bool {
				b, ok := v.(*ssa.BinOp)
				return ok && b.Op == token.SUB && lenOfFull(b.X) && c08IntConst(b.Y, 1)
			}) {
				ivs = append(ivs, iv{st: st, phi: phi, next: []ssa.Value{phi, dec}, dom: []*ssa.BasicBlock{phi.Block(), st.Block()}, down: true})
				return
			}
		}
		// kind 2: idx = φ+1, φ = phi(-1, idx)
		if b, ok := idx.(*ssa.BinOp); ok && b.Op == token.ADD {
			var phi *ssa.Phi
			if ph, ok := b.X.(*ssa.Phi); ok && c08IntConst(b.Y, 1) {
				phi = ph
			} else if ph, ok := b.Y.(*ssa.Phi); ok && c08IntConst(b.X, 1) {
				phi = ph
			}
			if phi != nil && latchesOK(phi, func(v ssa.Value) bool { return v == idx }, func(v ssa.Value) bool { return c08IntConst(v, -1) }) {
				ivs = append(ivs, iv{st: st, phi: phi, next: []ssa.Value{idx}, dom: []*ssa.BasicBlock{b.Block()}})
			}
		}
	})
	for _, b := range fn.Blocks {
		if len(b.Instrs) == 0 || len(b.Succs) != 2 || b.Succs[0] == b.Succs[1] {
			continue
		}
		ifi, ok := b.Instrs[len(b.Instrs)-1].(*ssa.If)
		if !ok {
			continue
		}
		for side := 0; side < 2; side++ {
			cmp, ok := decodeCond(ifi.Cond, side == 0)
			if !ok {
				continue
			}
			// normalise to  next >= len  /  next == len   (up)   or   next < 0 (down)
			var nextV ssa.Value
			up, down := false, false
			switch {
			case (cmp.Op == token.GEQ || cmp.Op == token.EQL) && lenOfFull(cmp.Y):
				nextV, up = cmp.X, true
			case (cmp.Op == token.LEQ || cmp.Op == token.EQL) && lenOfFull(cmp.X):
				nextV, up = cmp.Y, true
			case cmp.Op == token.GTR && lenMinus1(cmp.Y): // next > len-1
				nextV, up = cmp.X, true
			case cmp.Op == token.LSS && lenMinus1(cmp.X): // len-1 < next
				nextV, up = cmp.Y, true
			case cmp.Op == token.LSS && lenOfFull(cmp.X) && c08IntConst(cmp.Y, 1): // len < 1
				edges[[2]*ssa.BasicBlock{b, b.Succs[side]}] = true
			case cmp.Op == token.GTR && lenOfFull(cmp.Y) && c08IntConst(cmp.X, 1): // 1 > len
				edges[[2]*ssa.BasicBlock{b, b.Succs[side]}] = true
			case cmp.Op == token.LSS && c08IntConst(cmp.Y, 0), cmp.Op == token.LEQ && c08IntConst(cmp.Y, -1):
				nextV, down = cmp.X, true
			case cmp.Op == token.GTR && c08IntConst(cmp.X, 0), cmp.Op == token.GEQ && c08IntConst(cmp.X, -1):
				nextV, down = cmp.Y, true
			}
			if nextV == nil {
				continue
			}
			if up && c08IntConst(nextV, 0) {
				edges[[2]*ssa.BasicBlock{b, b.Succs[side]}] = true // empty slice
				continue
			}
			for _, v := range ivs {
				if v.down != down || v.down == up {
					continue
				}
				for k, nv := range v.next {
					if nv == nextV && v.dom[k].Dominates(b) {
						edges[[2]*ssa.BasicBlock{b, b.Succs[side]}] = true
						accounted[v.st] = true
					}
				}
			}
		}
	}
	return edges, accounted
}

// zeroFlow runs the must-dataflow "the tracked slice was zeroed over its whole
// length" and returns the state before each return, plus writes it could not assess.
func (z *c08Zero) zeroFlow(fn *ssa.Function, vw *c08View) (atRet map[*ssa.Return]bool, unassessed []string) {
	p := z.p
	edges, accounted := c08ZeroEdges(fn, vw)
	zeroAt := map[ssa.Instruction]bool{}
	allInstrs(fn, func(in ssa.Instruction) {
		where := p.Pos(instrPos(in))
		switch x := in.(type) {
		case *ssa.Store:
			ia, ok := x.Addr.(*ssa.IndexAddr)
			if ok && vw.alias[ia.X] && !accounted[x] {
				unassessed = append(unassessed, "element store into the recycled slice at "+where+" that is not a recognised whole-length zeroing loop")
			}
		case ssa.CallInstruction:
			cc := x.Common()
			if b := builtinName(x); b != "" {
				switch b {
				case "clear":
					if vw.full[cc.Args[0]] {
						zeroAt[in] = true
					} else if vw.alias[cc.Args[0]] {
						unassessed = append(unassessed, "clear of a sub-range of the recycled slice at "+where)
					}
				case "copy":
					if ms, ok := cc.Args[1].(*ssa.MakeSlice); ok && vw.full[cc.Args[0]] {
						// copy(buf, make([]byte, len(buf))): the source is fresh zero memory of the same length
						if lc, ok := ms.Len.(*ssa.Call); ok && builtinName(lc) == "len" && vw.full[lc.Call.Args[0]] {
							zeroAt[in] = true
							return
						}
					}
					if vw.alias[cc.Args[0]] {
						unassessed = append(unassessed, "copy into the recycled slice at "+where)
					}
				case "append":
					if len(cc.Args) > 1 && vw.alias[cc.Args[0]] {
						unassessed = append(unassessed, "append to the recycled slice at "+where)
					}
				}
				return
			}
			if callIs(x, "sync", "Pool", "Put") || callIs(x, "sync", "Pool", "Get") {
				return
			}
			cal := staticCallee(x)
			for i, a := range cc.Args {
				if !vw.alias[a] {
					continue
				}
				if cal != nil && p.funcSet[cal] && !cc.IsInvoke() {
					switch z.zeroesParam(cal, i) {
					case 1:
						if vw.full[a] {
							zeroAt[in] = true
						} else {
							unassessed = append(unassessed, "zeroing helper "+FuncName(p, cal)+" applied to a sub-range at "+where)
						}
					case 3:
						unassessed = append(unassessed, "helper "+FuncName(p, cal)+" writes the recycled slice in a way that is not assessed, at "+where)
					default:
						// the helper is fully understood and does not establish the fact on every path: no event
					}
					continue
				}
				key := extKey(calleeObj(x))
				if z.t.ReadOnly[key] {
					continue
				}
				if m, ok := z.t.Models[key]; ok && len(m.Writes) == 0 {
					continue
				}
				unassessed = append(unassessed, "recycled slice passed to "+callDesc(x)+" at "+where)
			}
		}
	})
	// The fact is "no recycled memory is live on this path, or it was zeroed over
	// its whole length": true at entry unless a parameter is the tracked slice,
	// false from the point where the recycled value is obtained, true again
	// after a zeroing event or on an edge that establishes the value is nil
	// (nothing was recycled: `x == nil`, a failed comma-ok assertion).
	entry := uint64(1)
	for v := range vw.roots {
		if _, isParam := v.(*ssa.Parameter); isParam {
			entry = 0
		}
	}
	isNilTest := func(from, to *ssa.BasicBlock) bool {
		if len(from.Instrs) == 0 || len(from.Succs) != 2 || from.Succs[0] == from.Succs[1] {
			return false
		}
		ifi, ok := from.Instrs[len(from.Instrs)-1].(*ssa.If)
		if !ok {
			return false
		}
		side := from.Succs[0] == to
		if cmp, ok := decodeCond(ifi.Cond, side); ok && cmp.Op == token.EQL {
			if (vw.full[cmp.X] && isNilConst(cmp.Y)) || (vw.full[cmp.Y] && isNilConst(cmp.X)) {
				return true
			}
			return false
		}
		// `v, ok := x.(T)`: on the !ok edge v is the zero value
		cond, want := ifi.Cond, side
		for {
			if u, ok := cond.(*ssa.UnOp); ok && u.Op == token.NOT {
				cond, want = u.X, !want
				continue
			}
			break
		}
		if ex, ok := cond.(*ssa.Extract); ok && ex.Index == 1 && !want {
			if ta, ok := ex.Tuple.(*ssa.TypeAssert); ok && vw.alias[ta] {
				return true
			}
		}
		return false
	}
	ff := &FlagFlow{Fn: fn, Must: true, Entry: entry}
	ff.Transfer = func(in ssa.Instruction, st uint64) uint64 {
		if _, isDefer := in.(*ssa.Defer); isDefer && !ff.Replaying {
			return st
		}
		if v, ok := in.(ssa.Value); ok && vw.roots[v] {
			return st &^ 1
		}
		if zeroAt[in] {
			return st | 1
		}
		return st
	}
	ff.EdgeTransfer = func(from, to *ssa.BasicBlock, st uint64) uint64 {
		if edges[[2]*ssa.BasicBlock{from, to}] || isNilTest(from, to) {
			return st | 1
		}
		return st
	}
	ff.Run()
	atRet = map[*ssa.Return]bool{}
	ff.AtReturns(func(ret *ssa.Return, st uint64) { atRet[ret] = st&1 != 0 })
	sort.Strings(unassessed)
	return atRet, unassessed
}

// zeroesParam: 1 = fn zeroes parameter i over its whole length on every
// return path, 2 = it does not (and does nothing unassessed), 3 = unknown.
func (z *c08Zero) zeroesParam(fn *ssa.Function, i int) int {
	fn = origin(fn)
	key := fmt.Sprintf("%p|%d", fn, i)
	if v, ok := z.zp[key]; ok {
		if v == 0 {
			return 3 // recursion
		}
		return v
	}
	z.zp[key] = 0
	res := 2
	if i < len(fn.Params) && len(fn.Blocks) > 0 {
		if _, isSlice := fn.Params[i].Type().Underlying().(*types.Slice); isSlice {
			vw := c08Views(fn, map[ssa.Value]bool{fn.Params[i]: true}, z.t, false)
			atRet, un := z.zeroFlow(fn, vw)
			all := len(atRet) > 0
			for _, ok := range atRet {
				if !ok {
					all = false
				}
			}
			switch {
			case all:
				res = 1
			case len(un) > 0:
				res = 3
			}
		}
	}
	z.zp[key] = res
	return res
}

// cleanResults: every slice fn returns is fresh memory or recycled memory that
// was zeroed over its whole length.
func (z *c08Zero) cleanResults(fn *ssa.Function) *c08ZeroVerdict {
	fn = origin(fn)
	if v, ok := z.clean[fn]; ok {
		if v == nil {
			return &c08ZeroVerdict{status: c08Unknown, unknown: []string{"recursive helper " + FuncName(z.p, fn)}}
		}
		return v
	}
	z.clean[fn] = nil
	p := z.p
	v := &c08ZeroVerdict{}
	roots := map[ssa.Value]bool{}
	cleanCalls := map[ssa.Value]bool{}
	allInstrs(fn, func(in ssa.Instruction) {
		call, ok := in.(*ssa.Call)
		if !ok {
			return
		}
		if callIs(call, "sync", "Pool", "Get") {
			roots[call] = true
			return
		}
		cal := staticCallee(call)
		if cal == nil || !p.funcSet[cal] || z.t.Sum[origin(cal)] == nil {
			return
		}
		pooled := false
		for _, ls := range z.t.Sum[origin(cal)].Ret {
			for l := range ls {
				if strings.HasPrefix(l, "pool:") {
					pooled = true
				}
			}
		}
		if !pooled {
			return
		}
		cv := z.cleanResults(cal)
		switch cv.status {
		case c08Clean:
			cleanCalls[call] = true
		case c08Unknown:
			v.unknown = append(v.unknown, cv.unknown...)
			roots[call] = true
		default:
			roots[call] = true // the helper hands out recycled memory as it is: this function must zero it
		}
	})
	v.roots = len(roots)
	if len(roots) > 1 {
		v.unknown = append(v.unknown, "origin of the recycled memory: "+FuncName(p, fn)+" obtains several recycled values; the single zeroing fact does not distinguish them")
	}
	vw := c08Views(fn, roots, z.t, false)
	atRet, un := z.zeroFlow(fn, vw)
	v.unknown = append(v.unknown, un...)
	var fresh func(x ssa.Value, depth int) bool
	fresh = func(x ssa.Value, depth int) bool {
		if depth > 8 {
			return false
		}
		switch y := x.(type) {
		case *ssa.MakeSlice:
			return true
		case *ssa.Const:
			return y.Value == nil
		case *ssa.Alloc:
			return true
		case *ssa.Slice:
			return fresh(y.X, depth+1)
		case *ssa.ChangeType:
			return fresh(y.X, depth+1)
		case *ssa.Convert:
			return true // string <-> []byte conversions copy
		case *ssa.Phi:
			for _, ed := range y.Edges {
				if !vw.alias[ed] && !fresh(ed, depth+1) {
					return false
				}
			}
			return true
		case *ssa.Extract:
			if c, ok := y.Tuple.(*ssa.Call); ok {
				if cleanCalls[c] {
					return true
				}
				if cal := staticCallee(c); cal != nil && p.funcSet[cal] && depth < 4 {
					return z.cleanResults(cal).status == c08Clean
				}
			}
		case *ssa.Call:
			if cleanCalls[y] {
				return true
			}
			if builtinName(y) == "append" && len(y.Call.Args) > 0 {
				return fresh(y.Call.Args[0], depth+1)
			}
			if cal := staticCallee(y); cal != nil && p.funcSet[cal] && depth < 4 {
				cv := z.cleanResults(cal)
				return cv.status == c08Clean
			}
			if k := extKey(calleeObj(y)); k == "bytes.Clone" || k == "slices.Clone" || k == "bytes.Repeat" {
				return true
			}
		}
		return false
	}
	allInstrs(fn, func(in ssa.Instruction) {
		ret, ok := in.(*ssa.Return)
		if !ok {
			return
		}
		zeroed, reachable := atRet[ret]
		if !reachable {
			return
		}
		v.nret++
		for j, res := range ret.Results {
			switch res.Type().Underlying().(type) {
			case *types.Slice, *types.Interface, *types.Pointer:
			default:
				continue
			}
			if isErrorType(res.Type()) {
				continue
			}
			cands := []ssa.Value{res}
			if !vw.alias[res] {
				cands = unspill(res)
			}
			for _, x := range cands {
				switch {
				case vw.alias[x]:
					if !zeroed {
						v.dirty = append(v.dirty, fmt.Sprintf("%s can return (result %d at %s) a recycled slice that was not zeroed over its whole length on every path: the previous user's bytes become visible to the next caller", FuncName(p, fn), j, p.Pos(ret.Pos())))
					}
				case fresh(x, 0):
				default:
					v.unknown = append(v.unknown, fmt.Sprintf("origin of result %d at %s is not recognised as fresh memory", j, p.Pos(ret.Pos())))
				}
			}
		}
	})
	sort.Strings(v.dirty)
	sort.Strings(v.unknown)
	switch {
	case len(v.dirty) == 0 && len(v.unknown) == 0:
		v.status = c08Clean
	case len(v.dirty) > 0 && len(v.unknown) == 0:
		v.status = c08Dirty
	case len(v.dirty) == 0:
		// nothing dirty was found; unassessed writes after/around a proven zeroing do not matter for cleanliness
		onlyWrites := true
		for _, u := range v.unknown {
			if strings.HasPrefix(u, "origin of") || strings.HasPrefix(u, "recursive") {
				onlyWrites = false
			}
		}
		if onlyWrites {
			v.status = c08Clean
		} else {
			v.status = c08Unknown
		}
	default:
		v.status = c08Unknown
	}
	z.clean[fn] = v
	return v
}

// c08PutKeepsLength: what fn hands to sync.Pool.Put (directly or through
// helpers) for its slice parameter i is the slice at the length the caller
// left it at. 0 ok, 1 positively cut, 2 not decided.
func (z *c08Zero) putKeepsLength(fn *ssa.Function, i int, depth int, why *[]string) int {
	fn = origin(fn)
	p := z.p
	if depth > 4 || i >= len(fn.Params) {
		*why = append(*why, "helper chain too deep below "+FuncName(p, fn))
		return 2
	}
	vw := c08Views(fn, map[ssa.Value]bool{fn.Params[i]: true}, z.t, true)
	res := 0
	worse := func(x int) {
		if x == 1 || (x == 2 && res == 0) {
			res = x
		}
	}
	allInstrs(fn, func(in ssa.Instruction) {
		ci, ok := in.(ssa.CallInstruction)
		if !ok {
			return
		}
		cc := ci.Common()
		where := p.Pos(instrPos(in))
		if callIs(ci, "sync", "Pool", "Put") && len(cc.Args) > 1 {
			a := cc.Args[1]
			if !vw.alias[a] || vw.full[a] {
				return
			}
			// which cut?
			cut := a
			for {
				if mi, ok := cut.(*ssa.MakeInterface); ok {
					cut = mi.X
					continue
				}
				if ct, ok := cut.(*ssa.ChangeType); ok {
					cut = ct.X
					continue
				}
				break
			}
			if sl, ok := cut.(*ssa.Slice); ok && sl.High != nil && vw.full[sl.X] {
				if _, isConst := sl.High.(*ssa.Const); isConst {
					*why = append(*why, "Put stores a re-sliced view of the caller's slice (cut to a constant length at "+where+", not the slice at the length its user left it at) while Get only zeroes len(buf) bytes of what it recycles: bytes written by the previous user beyond the stored length are handed to the next caller as soon as it grows the slice within its capacity")
					worse(1)
					return
				}
			}
			*why = append(*why, "Put stores a view of the caller's slice whose length is not recognised as the caller's length, at "+where)
			worse(2)
			return
		}
		cal := staticCallee(ci)
		if cal == nil || !p.funcSet[cal] || cc.IsInvoke() {
			return
		}
		for k, a := range cc.Args {
			if !vw.alias[a] {
				continue
			}
			sum := z.t.Sum[origin(cal)]
			if sum == nil || len(sum.Releases[fmt.Sprintf("p%d", k)]) == 0 {
				continue // the helper does not give it to a pool
			}
			if !vw.full[a] {
				*why = append(*why, "a cut view of the caller's slice is handed to "+FuncName(p, cal)+", which gives it to the pool, at "+where)
				worse(2)
				continue
			}
			worse(z.putKeepsLength(cal, k, depth+1, why))
		}
	})
	return res
}

func c08B3(p *Prog, r *Report, t *TaintEngine) {
	z := &c08Zero{p: p, t: t, clean: map[*ssa.Function]*c08ZeroVerdict{}, zp: map[string]int{}}
	get := p.Func("byteslicepool", "ByteSlicePool.Get")
	put := p.Func("byteslicepool", "ByteSlicePool.Put")
	construct := "byteslicepool.ByteSlicePool.Get"
	v := z.cleanResults(get)
	if v.nret == 0 {
		r.Undecide("%s has no reachable return", construct)
		return
	}
	// the zeroing covers len(buf): sound only if Put stores the slice with the length its user left it at
	var why []string
	putRes := 0
	nSlice := 0
	for i, pa := range put.Params {
		if _, isSlice := pa.Type().Underlying().(*types.Slice); isSlice {
			nSlice++
			if x := z.putKeepsLength(put, i, 0, &why); x == 1 || (x == 2 && putRes == 0) {
				putRes = x
			}
		}
	}
	if nSlice == 0 {
		r.Undecide("byteslicepool.ByteSlicePool.Put has no slice parameter: the pool's element representation changed, the zeroing rule does not apply as written")
		return
	}
	sort.Strings(why)
	switch {
	case v.status == c08Dirty:
		r.Violation("C08.B3-zeroed", construct, p.Pos(get.Pos()), v.dirty[0], v.dirty...)
	case putRes == 1:
		r.Violation("C08.B3-zeroed", construct, p.Pos(get.Pos()), why[0], why...)
	case v.status == c08Unknown:
		r.Undecide("%s: whether recycled slices are zeroed is not decided: %s", construct, strings.Join(append(v.dirty, v.unknown...), "; "))
	case putRes == 2:
		r.Undecide("byteslicepool.ByteSlicePool.Put: %s", strings.Join(why, "; "))
	default:
		r.OK("C08.B3-zeroed", construct, p.Pos(get.Pos()), "recycled slices are zeroed over their whole length on every path before being handed out; otherwise fresh memory; Put keeps the caller's length")
	}
}
