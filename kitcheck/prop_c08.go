package main

import (
	"fmt"
	"go/token"
	"go/types"
	"sort"
	"strings"

	"golang.org/x/tools/go/ssa"
)

// C08 — no interference through package-level shared state.

func init() { register("C08", checkC08) }

var c08ReadOnly = []string{"bytes.Clone", "slices.Clone", "strings.Clone", "errors.Is", "errors.As", "encoding/json.Unmarshal", "encoding/json.Marshal"}

func checkC08(c *Ctx) {
	r, p := c.R, c.P
	r.Explanation = "Decides structural necessary conditions of C08: (B1) pooled-buffer escape — in the whole module no value that may share memory with a buffer obtained from a sync.Pool (BufPool, the byte-slice pool) is returned, stored into a field/global/heap object, sent on a channel or handed to a goroutine by the function that holds it (a summary-based alias analysis over go/ssa follows slices, cells, helper calls, callbacks passed as function-typed parameters and the modelled library calls); writing into the buffer and passing it to io.Writer.Write / AEAD Seal/Open is allowed by their no-retain contracts. A value that escapes outlives the Put and carries another caller's bytes. (B2) package-level state inventory — every package-level variable of the module is (a) never stored to and never written through (elements, map entries, appends, in-place library writes) outside package initialisation, or (b) a sync.Pool used only through Get/Put, or (c) a synchronisation object, or (d) listed in the guarded table (logger.globalLoggers ← logger.globalLoggersLock) with every access under that lock (write mode for writes). (B3) byteslicepool.Get hands out only zeroed or fresh memory. NOT decided: data-race freedom in general, 'same results when run concurrently' (needs execution); per-object state is covered by C13/C14."
	r.Assumptions = append(r.Assumptions, "library model table of kitcheck/taint.go; interface calls into the module are covered by the io.Writer / cipher.AEAD contract models", "method calls on package-level objects of library types (loggers, parsers with value receivers) do not mutate shared state")
	r.Rule("C08.B1-pool-escape", "no value derived from a sync.Pool buffer escapes the function that holds it", 3)
	r.Rule("C08.B2-inventory", "package-level variables: read-only after init, Pool via Get/Put, sync object, or guarded-by table", 30)
	r.Rule("C08.B3-zeroed", "byteslicepool.Get returns zeroed or fresh memory", 1)

	t := NewTaintEngine(p)
	t.TrackPools = true
	for _, k := range c17ReadOnly {
		t.ReadOnly[k] = true
	}
	for _, k := range c08ReadOnly {
		t.ReadOnly[k] = true
	}
	t.Run()
	e := c.Locks()

	// ---- B1
	nGet := 0
	unm := map[string]bool{}
	for _, fn := range p.Funcs {
		gets := false
		allInstrs(fn, func(in ssa.Instruction) {
			if ci, ok := in.(ssa.CallInstruction); ok && callIs(ci, "sync", "Pool", "Get") {
				gets = true
			}
		})
		if !gets {
			continue
		}
		nGet++
		sum := t.Sum[fn]
		construct := FuncName(p, fn) + " pooled buffer"
		var w []string
		for l, sites := range sum.Escapes {
			if !strings.HasPrefix(l, "pool:") {
				continue
			}
			for _, s := range sites {
				if strings.Contains(s.What, "retained by sync.Pool.Put") {
					continue // giving the buffer back
				}
				w = append(w, fmt.Sprintf("%s at %s", s.What, p.Pos(s.Pos)))
			}
		}
		for j, ls := range sum.Ret {
			for l := range ls {
				if strings.HasPrefix(l, "pool:") {
					// a function whose job is to hand the pooled object to its caller (a pool wrapper) is judged at its callers
					if c08IsPoolWrapper(fn) {
						continue
					}
					w = append(w, fmt.Sprintf("result %d of %s may share memory with the pooled buffer", j, FuncName(p, fn)))
				}
			}
		}
		for _, u := range sum.Unmodelled {
			unm[fmt.Sprintf("%s at %s in %s", u.What, p.Pos(u.Pos), FuncName(p, u.Fn))] = true
		}
		sort.Strings(w)
		if len(w) > 0 {
			r.Violation("C08.B1-pool-escape", construct, p.Pos(fn.Pos()), "a value that may share memory with the pooled buffer outlives the function that returns the buffer to the pool: another stream that gets the same buffer overwrites it (or reads this caller's bytes)", w...)
		} else {
			r.OK("C08.B1-pool-escape", construct, p.Pos(fn.Pos()), "nothing derived from the pooled buffer escapes")
		}
	}
	r.Stats["functions_using_pools"] = nGet
	if len(unm) > 0 {
		var ul []string
		for k := range unm {
			ul = append(ul, k)
		}
		sort.Strings(ul)
		r.Undecide("calls receiving a pooled buffer that are in neither the library model nor the reviewed read-only list: %s", strings.Join(ul, "; "))
	}

	// ---- B2
	guarded := map[string]string{p.ModPath + "/logger.globalLoggers": p.ModPath + "/logger.globalLoggersLock"}
	for _, pkg := range p.Pkgs {
		if !strings.HasPrefix(pkg.PkgPath, p.ModPath) {
			continue
		}
		sp := p.SSA.Package(pkg.Types)
		var names []string
		for name, m := range sp.Members {
			if _, ok := m.(*ssa.Global); ok && !strings.HasPrefix(name, "init$") {
				names = append(names, name)
			}
		}
		sort.Strings(names)
		for _, name := range names {
			g := sp.Members[name].(*ssa.Global)
			gid := pkg.PkgPath + "." + name
			construct := "var " + p.RelPath(pkg.PkgPath) + "." + name
			elem := g.Type().(*types.Pointer).Elem()
			tn := namedKey(elem)
			if tn == "sync.Mutex" || tn == "sync.RWMutex" || tn == "sync.Once" || tn == "sync.WaitGroup" || strings.HasPrefix(tn, "sync/atomic.") {
				r.OK("C08.B2-inventory", construct, p.Pos(g.Pos()), "synchronisation object")
				continue
			}
			var bad []string
			isPool := tn == "sync.Pool"
			lock := guarded[gid]
			for _, fn := range p.Funcs {
				inInit := fn.Name() == "init" || (fn.Parent() != nil && fn.Parent().Name() == "init")
				allInstrs(fn, func(in ssa.Instruction) {
					uses := false
					for _, op := range in.Operands(nil) {
						if *op == ssa.Value(g) {
							uses = true
						}
					}
					if !uses {
						return
					}
					if isPool {
						ci, ok := in.(ssa.CallInstruction)
						if ok && (callIs(ci, "sync", "Pool", "Get") || callIs(ci, "sync", "Pool", "Put")) {
							return
						}
						if _, isFA := in.(*ssa.FieldAddr); isFA && inInit {
							return // New: func literal in the initialiser
						}
						bad = append(bad, fmt.Sprintf("sync.Pool used other than through Get/Put at %s in %s", p.Pos(instrPos(in)), FuncName(p, fn)))
						return
					}
					if inInit && fn.Parent() == nil {
						return
					}
					if st, ok := in.(*ssa.Store); ok && st.Addr == ssa.Value(g) {
						if lock == "" || e.At(in)[lock] != ModeW {
							bad = append(bad, fmt.Sprintf("assigned at %s in %s", p.Pos(instrPos(in)), FuncName(p, fn)))
						}
						return
					}
					if lock != "" {
						need := ModeR
						if e.At(in)[lock] < need {
							bad = append(bad, fmt.Sprintf("read at %s in %s without %s", p.Pos(instrPos(in)), FuncName(p, fn), shortID(lock)))
						}
					}
				})
				if inInit && fn.Parent() == nil {
					continue
				}
				for _, s := range t.Sum[fn].Writes["global:"+gid] {
					if !s.Local {
						continue
					}
					if lock != "" && s.Instr != nil && e.At(s.Instr)[lock] == ModeW {
						continue
					}
					bad = append(bad, fmt.Sprintf("%s at %s in %s", s.What, p.Pos(s.Pos), FuncName(p, fn)))
				}
				// struct-valued globals: stores to their fields
				allInstrs(fn, func(in ssa.Instruction) {
					if fa, ok := in.(*ssa.FieldAddr); ok && fa.X == ssa.Value(g) {
						for _, rr := range refs(fa) {
							if st, ok := rr.(*ssa.Store); ok && st.Addr == ssa.Value(fa) {
								bad = append(bad, fmt.Sprintf("field %s assigned at %s in %s", fieldIDOfAddr(fa).Field, p.Pos(instrPos(st)), FuncName(p, fn)))
							}
						}
					}
				})
				// guarded map: content reads must hold the lock too (range/lookup on the loaded value)
				if lock != "" {
					allInstrs(fn, func(in ssa.Instruction) {
						ld, ok := in.(*ssa.UnOp)
						if !ok || ld.Op != token.MUL || ld.X != ssa.Value(g) {
							return
						}
						for _, rr := range refs(ld) {
							switch x := rr.(type) {
							case *ssa.Lookup, *ssa.Range, *ssa.MapUpdate:
								need := ModeR
								if _, w := x.(*ssa.MapUpdate); w {
									need = ModeW
								}
								if e.At(rr)[lock] < need {
									bad = append(bad, fmt.Sprintf("map access at %s in %s without %s(%s)", p.Pos(instrPos(rr)), FuncName(p, fn), shortID(lock), need))
								}
								if rg, ok := x.(*ssa.Range); ok {
									for _, r2 := range refs(rg) {
										if e.At(r2)[lock] < ModeR {
											bad = append(bad, fmt.Sprintf("map iteration at %s in %s outside %s", p.Pos(instrPos(r2)), FuncName(p, fn), shortID(lock)))
										}
									}
								}
							case *ssa.Return:
								bad = append(bad, fmt.Sprintf("the guarded map itself is returned at %s in %s", p.Pos(instrPos(rr)), FuncName(p, fn)))
							}
						}
					})
				}
			}
			sort.Strings(bad)
			kind := "never written (or written through) outside package initialisation"
			if isPool {
				kind = "sync.Pool used only through Get/Put"
			}
			if lock != "" {
				kind = "every access under " + shortID(lock) + " (W for writes)"
			}
			if len(bad) > 0 {
				r.Violation("C08.B2-inventory", construct, p.Pos(g.Pos()), "package-level state shared by all callers is mutated/used without the discipline that keeps independent operations independent", bad...)
			} else {
				r.OK("C08.B2-inventory", construct, p.Pos(g.Pos()), kind)
			}
		}
	}

	// guarded registry: look-up-or-create must be one critical section or double-checked
	r.Rule("C08.B2-registry-atomic", "a guarded package-level registry is read and updated in one critical section (or the inserting section re-checks)", 2)
	var gspecs []GuardSpec
	for gid, lock := range guarded {
		gspecs = append(gspecs, GuardSpec{Field: FieldID{Type: "global", Field: gid}, Lock: lock})
	}
	CheckSingleSection(p, e, r, "C08.B2-registry-atomic", gspecs)

	// ---- B3
	get := p.Func("byteslicepool", "ByteSlicePool.Get")
	okZ, nret := true, 0
	why := ""
	allInstrs(get, func(in ssa.Instruction) {
		ret, ok := in.(*ssa.Return)
		if !ok || len(ret.Results) != 1 {
			return
		}
		nret++
		for _, v := range unspill(ret.Results[0]) {
			if !c08ZeroedOrFresh(v, get, ret) {
				okZ = false
				why = "Get can return (at " + p.Pos(ret.Pos()) + ") a recycled slice that was not zeroed over its whole length: the previous user's bytes become visible to the next caller"
			}
		}
	})
	// the zeroing loop covers len(buf): sound only if Put stores the slice with the length its user left it at
	put := p.Func("byteslicepool", "ByteSlicePool.Put")
	allInstrs(put, func(in ssa.Instruction) {
		ci, ok := in.(ssa.CallInstruction)
		if !ok || !callIs(ci, "sync", "Pool", "Put") {
			return
		}
		v := ci.Common().Args[1]
		if mi, ok := v.(*ssa.MakeInterface); ok {
			v = mi.X
		}
		if _, isParam := v.(*ssa.Parameter); !isParam {
			okZ = false
			why = "Put stores a re-sliced view of the caller's slice (not the slice at the length its user left it at) while Get only zeroes len(buf) bytes of what it recycles: bytes written by the previous user beyond the stored length are handed to the next caller as soon as it grows the slice within its capacity"
		}
	})
	r.Check(okZ && nret > 0, "C08.B3-zeroed", "byteslicepool.ByteSlicePool.Get", p.Pos(get.Pos()), "recycled slices are zeroed over their whole length before being handed out; otherwise fresh memory", why)

	c.Fixture("c08pool", func(fp *Prog, fr *Report) {
		ft := NewTaintEngine(fp)
		ft.TrackPools = true
		ft.ReadOnly["bytes.Clone"] = true
		ft.Run()
		for _, fn := range fp.Funcs {
			if fn.Parent() != nil {
				continue
			}
			sum := ft.Sum[fn]
			for l, sites := range sum.Escapes {
				if strings.HasPrefix(l, "pool:") {
					for _, s := range sites {
						if !strings.Contains(s.What, "retained by sync.Pool.Put") {
							fr.Violation("e", FuncName(fp, fn)+" escape", "", s.What)
						}
					}
				}
			}
			for _, ls := range sum.Ret {
				for l := range ls {
					if strings.HasPrefix(l, "pool:") {
						fr.Violation("e", FuncName(fp, fn)+" returns", "", "returns pooled memory")
					}
				}
			}
		}
	})
}

// c08IsPoolWrapper: the function's purpose is to hand the pooled object to
// its caller (it does not Put it back itself).
func c08IsPoolWrapper(fn *ssa.Function) bool {
	puts := false
	allInstrs(fn, func(in ssa.Instruction) {
		if ci, ok := in.(ssa.CallInstruction); ok && callIs(ci, "sync", "Pool", "Put") {
			puts = true
		}
		if d, ok := in.(*ssa.Defer); ok {
			if f := staticCallee(d); f != nil {
				allInstrs(f, func(j ssa.Instruction) {
					if cj, ok := j.(ssa.CallInstruction); ok && callIs(cj, "sync", "Pool", "Put") {
						puts = true
					}
				})
			}
		}
	})
	return !puts
}

// c08ZeroedOrFresh: v is a MakeSlice result, or a (re)slice of a value over
// which a zeroing loop `for i := range buf { buf[i] = 0 }` dominates the return.
func c08ZeroedOrFresh(v ssa.Value, fn *ssa.Function, ret *ssa.Return) bool {
	switch x := v.(type) {
	case *ssa.MakeSlice:
		return true
	case *ssa.Slice:
		base := x.X
		// find a store of constant 0 into base[idx] inside a loop whose exit dominates ret, idx ranging over len(base)
		zeroed := false
		allInstrs(fn, func(in ssa.Instruction) {
			st, ok := in.(*ssa.Store)
			if !ok {
				return
			}
			ia, ok := st.Addr.(*ssa.IndexAddr)
			if !ok || ia.X != base {
				return
			}
			k, ok := st.Val.(*ssa.Const)
			if !ok || k.Value == nil || k.Int64() != 0 {
				return
			}
			// index is a phi bounded by len(base): loop header If cond idx < len(base)
			hdr := false
			allInstrs(fn, func(j ssa.Instruction) {
				ifi, ok := j.(*ssa.If)
				if !ok {
					return
				}
				if cmp, ok := decodeCond(ifi.Cond, true); ok && cmp.Op == token.LSS {
					if call, ok := cmp.Y.(*ssa.Call); ok && builtinName(call) == "len" && call.Call.Args[0] == base {
						// the loop's exit edge must dominate the return
						if edgeDominates(ifi.Block(), ifi.Block().Succs[1], ret.Block()) {
							hdr = true
						}
					}
				}
			})
			if hdr {
				zeroed = true
			}
		})
		return zeroed
	case *ssa.Phi:
		for _, ed := range x.Edges {
			if !c08ZeroedOrFresh(ed, fn, ret) {
				return false
			}
		}
		return true
	}
	return false
}
