package main

// Role resolution for C13. The exported API of dapr/kit (package paths,
// exported types, constructors and method names) and the standard library
// are the only names relied upon; every unexported type, field and function
// is found by its role, through types and dataflow. Unresolvable or
// ambiguous roles make the check UNDECIDED (undecided() panics).

import (
	"go/token"
	"go/types"
	"sort"

	"golang.org/x/tools/go/ssa"
)

// c13ChanAlias maps a channel field to the canonical field of its alias class
// (two fields of one struct that are only ever assigned the same make(chan):
// e.g. a send-only and a receive-only view of one channel).
var c13ChanAlias = map[FieldID]FieldID{}

func c13CanonChan(id FieldID) FieldID {
	if c, ok := c13ChanAlias[id]; ok {
		return c
	}
	return id
}

// computeChanAliases finds the alias classes among the channel fields of n.
func (ro *c13Roles) computeChanAliases(n *types.Named) {
	src := map[FieldID]map[*ssa.MakeChan]bool{}
	other := map[FieldID]bool{}
	var order []FieldID
	want := map[FieldID]bool{}
	for _, f := range c13FieldsOf(n) {
		if c13IsChan(f.typ) {
			id := c13Fid(f.owner, f.name)
			want[id] = true
			order = append(order, id)
		}
	}
	for _, fn := range ro.p.Funcs {
		allInstrs(fn, func(in ssa.Instruction) {
			st, ok := in.(*ssa.Store)
			if !ok {
				return
			}
			fa, ok := st.Addr.(*ssa.FieldAddr)
			if !ok || !want[fieldIDOfAddr(fa)] {
				return
			}
			id := fieldIDOfAddr(fa)
			if mc, ok := c13MakeChan(ro.p, st.Val, 0); ok {
				if src[id] == nil {
					src[id] = map[*ssa.MakeChan]bool{}
				}
				src[id][mc] = true
			} else {
				other[id] = true
			}
		})
	}
	// a channel field of another struct of the package that is only ever
	// assigned the value of one of these fields is a copy of it
	copies := map[FieldID]map[FieldID]bool{}
	notCopy := map[FieldID]bool{}
	for _, fn := range ro.pkgFuncs(n) {
		allInstrs(fn, func(in ssa.Instruction) {
			st, ok := in.(*ssa.Store)
			if !ok {
				return
			}
			fa, ok := st.Addr.(*ssa.FieldAddr)
			if !ok || !c13IsChan(c13Deref(fa.Type())) || want[fieldIDOfAddr(fa)] {
				return
			}
			dst := fieldIDOfAddr(fa)
			if srcID, _, ok := fieldOfValue(c13StripConv(st.Val)); ok && want[srcID] {
				if copies[dst] == nil {
					copies[dst] = map[FieldID]bool{}
				}
				copies[dst][srcID] = true
			} else {
				notCopy[dst] = true
			}
		})
	}
	for dst, srcs := range copies {
		if notCopy[dst] || len(srcs) != 1 || dst.Type == "" {
			continue
		}
		for s := range srcs {
			c13ChanAlias[dst] = c13CanonChan(s)
		}
	}
	for i, a := range order {
		if other[a] || len(src[a]) == 0 {
			continue
		}
		for _, b := range order[i+1:] {
			if other[b] || len(src[b]) != len(src[a]) {
				continue
			}
			same := true
			for mc := range src[a] {
				if !src[b][mc] {
					same = false
				}
			}
			if same {
				if _, done := c13ChanAlias[b]; !done {
					c13ChanAlias[b] = c13CanonChan(a)
				}
			}
		}
	}
}

type c13Roles struct {
	p *Prog
	// fields of the request that are set (non-zero) only by the entry point that
	// carries a context (RLock): "has a context" indicators; and only by the one
	// that does not (Lock): "writer" indicators
	holdCtxInd, holdWriterInd map[FieldID]bool

	// fifo.Mutex
	fifoMutex *types.Named
	fifoSlot  FieldID
	// fifo.Map implementation
	fmap                    *types.Named
	fmapLock, fmapItems     FieldID
	fitem                   *types.Named
	fitemCount, fitemMutex  FieldID
	fmapLockFn, fmapUnlockF *ssa.Function
	// cmap.Mutex implementation
	cm              *types.Named
	cmLock, cmItems FieldID
	// lock.Context
	ctxT          *types.Named
	ctxRW, ctxTok FieldID
	// lock.OuterCancel
	oc                                           *types.Named
	ocSlot, ocReq, ocClose, ocWG, ocGuard        FieldID
	ocTable, ocNext, ocCause, ocGrace            FieldID
	hold                                         *types.Named
	holdWrite, holdCtx, holdResp                 FieldID
	resp                                         *types.Named
	respCtx, respCancel, respErr                 FieldID
	ocGuardCandidates, fmapLockCands, cmLockCand []FieldID
}

func c13Fid(n *types.Named, field string) FieldID {
	return FieldID{Type: namedKey(n), Field: field}
}

func c13LockID(f FieldID) string { return f.Type + "." + f.Field }
func c13ChanID(f FieldID) string { return "field:" + f.Type + "." + f.Field }

func c13NamedOrigin(t types.Type) *types.Named {
	t = deref(t)
	if n, ok := t.(*types.Named); ok {
		return n.Origin()
	}
	return nil
}

// c13ConcreteResult: the named (struct) type a constructor returns, looking
// through the interface conversion of `return &impl{...}`.
func c13ConcreteResult(fn *ssa.Function) *types.Named {
	var out *types.Named
	allInstrs(fn, func(in ssa.Instruction) {
		ret, ok := in.(*ssa.Return)
		if !ok || len(ret.Results) == 0 {
			return
		}
		for _, v := range unspill(ret.Results[0]) {
			v = c13StripConv(v)
			if n := c13NamedOrigin(v.Type()); n != nil {
				if _, isStruct := n.Underlying().(*types.Struct); isStruct {
					out = n
				}
			}
		}
	})
	return out
}

func c13IsSyncLock(t types.Type) bool {
	k := namedKey(t)
	return k == "sync.Mutex" || k == "sync.RWMutex"
}

func (ro *c13Roles) isLockType(t types.Type) bool {
	return c13IsSyncLock(t) || (ro.fifoMutex != nil && namedKey(t) == namedKey(ro.fifoMutex))
}

type c13FieldInfo struct {
	owner *types.Named // the struct type declaring the field (n itself or a nested helper struct)
	name  string
	typ   types.Type
}

// c13FieldsOf lists the fields of n and, recursively, of the unexported struct
// types of the same package that n holds by value, by pointer or embedded
// (state grouped into a helper struct keeps its roles).
func c13FieldsOf(n *types.Named) []c13FieldInfo {
	return c13FieldsOfD(n, 0, map[*types.Named]bool{})
}

func c13FieldsOfD(n *types.Named, depth int, seen map[*types.Named]bool) []c13FieldInfo {
	st, ok := n.Underlying().(*types.Struct)
	if !ok || seen[n] {
		return nil
	}
	seen[n] = true
	var out []c13FieldInfo
	for i := 0; i < st.NumFields(); i++ {
		f := st.Field(i)
		out = append(out, c13FieldInfo{n, f.Name(), f.Type()})
		if depth >= 2 {
			continue
		}
		in := c13NamedOrigin(f.Type())
		if in == nil || in.Obj().Pkg() == nil || n.Obj().Pkg() == nil || in.Obj().Pkg() != n.Obj().Pkg() || in.Obj().Exported() {
			continue
		}
		if _, isStruct := in.Underlying().(*types.Struct); !isStruct {
			continue
		}
		switch f.Type().Underlying().(type) {
		case *types.Struct, *types.Pointer:
			out = append(out, c13FieldsOfD(in, depth+1, seen)...)
		}
	}
	return out
}

// c13FieldType returns the declared type of field f (searching nested helper structs of n).
func c13FieldType(n *types.Named, f FieldID) types.Type {
	for _, fi := range c13FieldsOf(n) {
		if c13Fid(fi.owner, fi.name) == f {
			return fi.typ
		}
	}
	return nil
}

// oneField returns the single field of n satisfying pred; undecided otherwise.
func (ro *c13Roles) oneField(n *types.Named, role string, pred func(types.Type) bool) FieldID {
	var hits []FieldID
	var names []string
	seen := map[FieldID]bool{}
	for _, f := range c13FieldsOf(n) {
		if pred(f.typ) {
			id := c13CanonChan(c13Fid(f.owner, f.name))
			if seen[id] {
				continue // another view of the same channel
			}
			seen[id] = true
			hits = append(hits, id)
			names = append(names, f.name)
		}
	}
	if len(hits) != 1 {
		undecided("role %q of %s resolves to %d fields %v (expected exactly one)", role, namedKey(n), len(hits), names)
	}
	return hits[0]
}

func (ro *c13Roles) someFields(n *types.Named, pred func(types.Type) bool) []FieldID {
	var hits []FieldID
	for _, f := range c13FieldsOf(n) {
		if pred(f.typ) {
			hits = append(hits, c13Fid(f.owner, f.name))
		}
	}
	return hits
}

func c13IsChan(t types.Type) bool { _, ok := t.Underlying().(*types.Chan); return ok }
func c13ChanElem(t types.Type) types.Type {
	if c, ok := t.Underlying().(*types.Chan); ok {
		return c.Elem()
	}
	return nil
}
func c13IsMapT(t types.Type) bool { _, ok := t.Underlying().(*types.Map); return ok }
func c13IsFuncT(t types.Type) bool {
	_, ok := t.Underlying().(*types.Signature)
	return ok
}
func c13IsBoolT(t types.Type) bool {
	b, ok := t.Underlying().(*types.Basic)
	return ok && b.Kind() == types.Bool
}
func c13IsIntT(t types.Type) bool {
	b, ok := t.Underlying().(*types.Basic)
	return ok && b.Info()&types.IsInteger != 0
}
func c13IsErrorT(t types.Type) bool {
	return types.Identical(t, types.Universe.Lookup("error").Type())
}
func c13IsNamedT(t types.Type, key string) bool { return namedKey(t) == key && !c13IsPtrToPtr(t) }
func c13IsPtrToPtr(t types.Type) bool {
	if p, ok := t.Underlying().(*types.Pointer); ok {
		_, ok2 := p.Elem().Underlying().(*types.Pointer)
		return ok2
	}
	return false
}

// methodFn returns the SSA function of method name of n (nil if absent).
func (ro *c13Roles) methodFn(n *types.Named, name string) *ssa.Function {
	for i := 0; i < n.NumMethods(); i++ {
		if m := n.Method(i); m.Name() == name {
			return origin(ro.p.SSA.FuncValue(m))
		}
	}
	return nil
}

func (ro *c13Roles) mustMethod(n *types.Named, name string) *ssa.Function {
	fn := ro.methodFn(n, name)
	if fn == nil {
		undecided("anchor method %s.%s no longer resolves", namedKey(n), name)
	}
	return fn
}

// pkgFuncs: the functions (incl. closures) of the package of n.
func (ro *c13Roles) pkgFuncs(n *types.Named) []*ssa.Function {
	var out []*ssa.Function
	path := n.Obj().Pkg().Path()
	for _, f := range ro.p.Funcs {
		if c13PkgPathOf(f) == path {
			out = append(out, f)
		}
	}
	return out
}

func resolveC13Roles(p *Prog) *c13Roles {
	ro := &c13Roles{p: p}
	// ---- fifo.Mutex (exported type): its channel field
	c13ChanAlias = map[FieldID]FieldID{}
	ro.fifoMutex = p.Named("concurrency/fifo", "Mutex").Origin()
	ro.computeChanAliases(ro.fifoMutex)
	ro.fifoSlot = ro.oneField(ro.fifoMutex, "slot channel of fifo.Mutex", c13IsChan)

	// ---- implementation of fifo.Map returned by fifo.NewMap
	ro.fmap = c13ConcreteResult(p.Func("concurrency/fifo", "NewMap"))
	if ro.fmap == nil {
		undecided("the concrete type returned by fifo.NewMap could not be resolved")
	}
	// table: the map field whose values carry a lock
	ro.fmapItems = ro.oneField(ro.fmap, "per-key table of the fifo map", func(t types.Type) bool {
		m, ok := t.Underlying().(*types.Map)
		if !ok {
			return false
		}
		el := c13NamedOrigin(m.Elem())
		if el == nil {
			return false
		}
		for _, f := range c13FieldsOf(el) {
			if ro.isLockType(f.typ) {
				return true
			}
		}
		return false
	})
	ro.fitem = c13NamedOrigin(c13FieldType(ro.fmap, ro.fmapItems).Underlying().(*types.Map).Elem())
	ro.fitemMutex = ro.oneField(ro.fitem, "per-key mutex of a fifo map entry", ro.isLockType)
	ro.fitemCount = ro.oneField(ro.fitem, "holders+waiters count of a fifo map entry", c13IsIntT)
	ro.fmapLockCands = ro.someFields(ro.fmap, ro.isLockType)

	// ---- implementation of cmap.Mutex returned by cmap.NewMutex
	ro.cm = c13ConcreteResult(p.Func("concurrency/cmap", "NewMutex"))
	if ro.cm == nil {
		undecided("the concrete type returned by cmap.NewMutex could not be resolved")
	}
	ro.cmItems = ro.oneField(ro.cm, "per-key table of the cmap mutex map", func(t types.Type) bool {
		m, ok := t.Underlying().(*types.Map)
		return ok && ro.isLockType(m.Elem())
	})
	ro.cmLockCand = ro.someFields(ro.cm, ro.isLockType)

	// ---- lock.Context
	ro.ctxT = p.Named("concurrency/lock", "Context").Origin()
	ro.computeChanAliases(ro.ctxT)
	ro.ctxRW = ro.oneField(ro.ctxT, "RWMutex of lock.Context", func(t types.Type) bool { return namedKey(t) == "sync.RWMutex" })
	ro.ctxTok = ro.oneField(ro.ctxT, "token channel of lock.Context", c13IsChan)

	// ---- lock.OuterCancel
	ro.oc = p.Named("concurrency/lock", "OuterCancel").Origin()
	ro.computeChanAliases(ro.oc)
	ro.ocWG = ro.oneField(ro.oc, "reader WaitGroup of OuterCancel", func(t types.Type) bool { return namedKey(t) == "sync.WaitGroup" })
	ro.ocTable = ro.oneField(ro.oc, "reader cancel table of OuterCancel", func(t types.Type) bool {
		m, ok := t.Underlying().(*types.Map)
		return ok && c13IsFuncT(m.Elem())
	})
	keyT := c13FieldType(ro.oc, ro.ocTable).Underlying().(*types.Map).Key()
	ro.ocNext = ro.oneField(ro.oc, "next reader index of OuterCancel", func(t types.Type) bool { return types.Identical(t, keyT) })
	ro.ocCause = ro.oneField(ro.oc, "configured cancel cause of OuterCancel", c13IsErrorT)
	ro.ocGrace = ro.oneField(ro.oc, "graceful timeout of OuterCancel", func(t types.Type) bool { return namedKey(t) == "time.Duration" })
	ro.ocGuardCandidates = ro.someFields(ro.oc, ro.isLockType)
	// request channel: the channel of pointers to a struct (the hold request)
	ro.ocReq = ro.oneField(ro.oc, "request channel of OuterCancel", func(t types.Type) bool {
		el := c13ChanElem(t)
		if el == nil {
			return false
		}
		n := c13NamedOrigin(el)
		if n == nil {
			return false
		}
		_, isStruct := n.Underlying().(*types.Struct)
		return isStruct
	})
	ro.hold = c13NamedOrigin(c13ChanElem(c13FieldType(ro.oc, ro.ocReq)))
	ro.holdWrite = ro.writeFlagField()
	ro.computeHoldIndicators()
	ro.holdCtx = ro.oneField(ro.hold, "reader context of the hold request", func(t types.Type) bool { return namedKey(t) == "context.Context" })
	ro.holdResp = ro.oneField(ro.hold, "response channel of the hold request", c13IsChan)
	ro.resp = c13NamedOrigin(c13ChanElem(c13FieldType(ro.hold, ro.holdResp)))
	if ro.resp == nil {
		undecided("the response type of the OuterCancel hold request could not be resolved")
	}
	ro.respCtx = ro.oneField(ro.resp, "reader context of the hold response", func(t types.Type) bool { return namedKey(t) == "context.Context" })
	ro.respCancel = ro.oneField(ro.resp, "release function of the hold response", c13IsFuncT)
	ro.respErr = ro.oneField(ro.resp, "error of the hold response", c13IsErrorT)

	// closeCh: the channel field of OuterCancel that is closed; slot: the
	// remaining signal channel that is both sent to and received from.
	closed, sent, recvd := map[FieldID]bool{}, map[FieldID]bool{}, map[FieldID]bool{}
	// the channel an operation works on is traced back through conversions,
	// captured variables and parameters (a helper or a method of a named channel
	// type that is handed the channel) to the struct field it was loaded from
	var noteD func(m map[FieldID]bool, v ssa.Value, depth int)
	noteD = func(m map[FieldID]bool, v ssa.Value, depth int) {
		if depth > 4 || v == nil {
			return
		}
		v = c13StripConv(v)
		if id, _, ok := fieldOfValue(v); ok {
			m[c13CanonChan(id)] = true
			return
		}
		switch t := v.(type) {
		case *ssa.Parameter:
			fn := t.Parent()
			for i, q := range fn.Params {
				if q != t {
					continue
				}
				for _, site := range c13CallSites(p)[origin(fn)] {
					if args := site.Common().Args; i < len(args) {
						noteD(m, args[i], depth+1)
					}
				}
			}
		case *ssa.FreeVar:
			noteD(m, resolveFreeVar(t), depth+1)
		case *ssa.UnOp:
			if t.Op == token.MUL {
				if cell := cellOf(t.X); cell != nil {
					for _, r := range refs(cell) {
						if st, ok := r.(*ssa.Store); ok && st.Addr == ssa.Value(cell) {
							noteD(m, st.Val, depth+1)
						}
					}
				}
			}
		case *ssa.Phi:
			for _, ed := range t.Edges {
				noteD(m, ed, depth+1)
			}
		}
	}
	note := func(m map[FieldID]bool, v ssa.Value) { noteD(m, v, 0) }
	for _, fn := range ro.pkgFuncs(ro.oc) {
		allInstrs(fn, func(in ssa.Instruction) {
			switch x := in.(type) {
			case ssa.CallInstruction:
				if builtinName(x) == "close" && len(x.Common().Args) == 1 {
					note(closed, x.Common().Args[0])
				}
			case *ssa.Send:
				note(sent, x.Chan)
			case *ssa.UnOp:
				if x.Op == token.ARROW {
					note(recvd, x.X)
				}
			case *ssa.Select:
				for _, s := range x.States {
					if s.Dir == types.SendOnly {
						note(sent, s.Chan)
					} else {
						note(recvd, s.Chan)
					}
				}
			}
		})
	}
	var closeC, slotC []FieldID
	for _, f := range c13FieldsOf(ro.oc) {
		id := c13Fid(f.owner, f.name)
		if !c13IsChan(f.typ) || c13CanonChan(id) != id || id == ro.ocReq {
			continue
		}
		switch {
		case closed[id]:
			closeC = append(closeC, id)
		case sent[id] && recvd[id]:
			slotC = append(slotC, id)
		}
	}
	sort.Slice(closeC, func(i, j int) bool { return closeC[i].String() < closeC[j].String() })
	sort.Slice(slotC, func(i, j int) bool { return slotC[i].String() < slotC[j].String() })
	if len(closeC) != 1 {
		undecided("role \"shutdown channel of OuterCancel\" (the channel field that is closed) resolves to %v", closeC)
	}
	if len(slotC) != 1 {
		undecided("role \"hold slot of OuterCancel\" (the signal channel that is sent to and received from) resolves to %v", slotC)
	}
	ro.ocClose = closeC[0]
	ro.ocSlot = slotC[0]
	return ro
}

// pickGuard chooses, among the lock-typed fields of a struct, the one that is
// held at most accesses to the guarded field (the table lock by role: "the
// lock under which the table is accessed"). Ties go to sync locks embedded by
// value, then to the first in declaration order.
func (ro *c13Roles) pickGuard(e *LockEngine, cands []FieldID, table FieldID, what string) FieldID {
	if len(cands) == 0 {
		undecided("no lock-typed field found for %s", what)
	}
	if len(cands) == 1 {
		return cands[0]
	}
	best, bestN := cands[0], -1
	for _, c := range cands {
		n := 0
		for _, fn := range ro.p.Funcs {
			for _, a := range FieldAccesses(fn, func(id FieldID) bool { return id == table }) {
				if !a.Fresh && e.At(a.Instr)[c13LockID(c)] != ModeNone {
					n++
				}
			}
		}
		if n > bestN {
			best, bestN = c, n
		}
	}
	return best
}

// c13Deref returns the element type of a pointer type (the type of the field a FieldAddr points to).
func c13Deref(t types.Type) types.Type {
	if p, ok := t.Underlying().(*types.Pointer); ok {
		return p.Elem()
	}
	return t
}

// writeFlagField: the boolean field of the request that says "writer". With a
// single boolean field that is it; otherwise it is the one that the exported
// writer entry point (OuterCancel.Lock, no context) sets to true and the
// reader entry point (RLock) does not.
func (ro *c13Roles) writeFlagField() FieldID {
	cands := ro.someFields(ro.hold, c13IsBoolT)
	if len(cands) == 1 {
		return cands[0]
	}
	setTrue := func(root *ssa.Function) map[FieldID]bool {
		out := map[FieldID]bool{}
		seen := map[*ssa.Function]bool{}
		var walk func(fn *ssa.Function, depth int)
		walk = func(fn *ssa.Function, depth int) {
			if fn == nil || seen[fn] || depth > 3 {
				return
			}
			seen[fn] = true
			allInstrs(fn, func(in ssa.Instruction) {
				switch x := in.(type) {
				case *ssa.Store:
					if fa, ok := x.Addr.(*ssa.FieldAddr); ok && c13IsConstBool(x.Val, true) {
						out[fieldIDOfAddr(fa)] = true
					}
				case ssa.CallInstruction:
					if cal := staticCallee(x); cal != nil && ro.p.InModule(cal) {
						walk(cal, depth+1)
					}
				}
			})
		}
		walk(root, 0)
		return out
	}
	w, r := setTrue(ro.methodFn(ro.oc, "Lock")), setTrue(ro.methodFn(ro.oc, "RLock"))
	var hits []FieldID
	for _, c := range cands {
		if w[c] && !r[c] {
			hits = append(hits, c)
		}
	}
	if len(hits) != 1 {
		undecided("role \"write flag of the hold request\" resolves to %d fields among %v (expected exactly one set to true by Lock only)", len(hits), cands)
	}
	return hits[0]
}

// computeHoldIndicators classifies the fields of the request by which
// exported entry point stores a non-zero value into them.
func (ro *c13Roles) computeHoldIndicators() {
	nonZero := func(root *ssa.Function) map[FieldID]bool {
		out := map[FieldID]bool{}
		seen := map[*ssa.Function]bool{}
		var walk func(fn *ssa.Function, depth int)
		walk = func(fn *ssa.Function, depth int) {
			if fn == nil || seen[fn] || depth > 3 {
				return
			}
			seen[fn] = true
			allInstrs(fn, func(in ssa.Instruction) {
				switch x := in.(type) {
				case *ssa.Store:
					fa, ok := x.Addr.(*ssa.FieldAddr)
					if !ok || namedKey(fa.X.Type()) != namedKey(ro.hold) {
						return
					}
					if k, isK := x.Val.(*ssa.Const); isK && (k.IsNil() || k.Value == nil || c13IsConstBool(k, false) || c13IsConstInt(k, 0)) {
						return
					}
					out[fieldIDOfAddr(fa)] = true
				case ssa.CallInstruction:
					if cal := staticCallee(x); cal != nil && ro.p.InModule(cal) {
						walk(cal, depth+1)
					}
				}
			})
		}
		walk(root, 0)
		return out
	}
	w, rd := nonZero(ro.methodFn(ro.oc, "Lock")), nonZero(ro.methodFn(ro.oc, "RLock"))
	ro.holdCtxInd, ro.holdWriterInd = map[FieldID]bool{}, map[FieldID]bool{}
	for _, f := range c13FieldsOf(ro.hold) {
		id := c13Fid(f.owner, f.name)
		switch {
		case rd[id] && !w[id]:
			ro.holdCtxInd[id] = true
		case w[id] && !rd[id]:
			ro.holdWriterInd[id] = true
		}
	}
	ro.holdCtxInd[ro.holdCtx] = true
}
