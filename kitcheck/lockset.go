package main

// E1: flow-sensitive must-hold locksets over go/ssa, with entry locksets
// inferred from in-module call sites and function summaries
// (acquired-at-exit / may-release) applied at call sites.

import (
	"go/token"
	"sort"
	"strings"

	"golang.org/x/tools/go/ssa"
)

type Mode uint8

const (
	ModeNone Mode = 0
	ModeR    Mode = 1
	ModeW    Mode = 2
)

func (m Mode) String() string {
	switch m {
	case ModeR:
		return "R"
	case ModeW:
		return "W"
	}
	return "-"
}

// LS is a must-hold lockset: lock id -> weakest mode held on all paths.
type LS map[string]Mode

func (a LS) clone() LS {
	b := make(LS, len(a))
	for k, v := range a {
		b[k] = v
	}
	return b
}

func meetLS(a, b LS) LS {
	out := LS{}
	for k, va := range a {
		if vb, ok := b[k]; ok {
			if vb < va {
				out[k] = vb
			} else {
				out[k] = va
			}
		}
	}
	return out
}

func equalLS(a, b LS) bool {
	if len(a) != len(b) {
		return false
	}
	for k, v := range a {
		if b[k] != v {
			return false
		}
	}
	return true
}

func (a LS) String() string {
	var ks []string
	for k, v := range a {
		ks = append(ks, shortID(k)+"("+v.String()+")")
	}
	sort.Strings(ks)
	return "{" + strings.Join(ks, ",") + "}"
}

func shortID(id string) string {
	if i := strings.LastIndex(id, "/"); i >= 0 {
		return id[i+1:]
	}
	return id
}

type lockOpKind int

const (
	opLock lockOpKind = iota
	opRLock
	opUnlock
	opRUnlock
)

type callSite struct {
	caller *ssa.Function
	instr  ssa.CallInstruction
}

type fnSummary struct {
	acquired LS              // must be held at every return when entered with nothing
	released map[string]bool // may be released (unlock of a lock not acquired inside)
}

// LockEngine computes locksets for every module function.
type LockEngine struct {
	P *Prog
	// ExtraLockTypes: additional "pkgpath.Type" whose Lock/Unlock/RLock/RUnlock are lock operations.
	ExtraLockTypes map[string]bool
	// Handoff: function full name -> entry lockset handed over by the spawner.
	Handoff map[string]LS
	// LockOpHook (optional, nil by default): consulted first by lockOp; lets a
	// property resolve lock operations the engine does not see by itself (e.g.
	// Lock/Unlock invoked on a sync.Locker value whose mutex it can resolve).
	LockOpHook func(c ssa.CallInstruction) (id string, kind lockOpKind, ok bool)

	entry        map[*ssa.Function]LS
	before       map[ssa.Instruction]LS
	summaries    map[*ssa.Function]*fnSummary
	sites        map[*ssa.Function][]callSite
	addrTaken    map[*ssa.Function]bool
	deferEntry   map[*ssa.Function]LS // entry lockset for closures run by defer
	Unresolved   int                  // lock operations whose lock could not be identified
	UnresolvedAt []string
	acquirers    map[string]map[*ssa.Function]bool
	LockOps      int
}

func NewLockEngine(p *Prog) *LockEngine {
	return &LockEngine{P: p, ExtraLockTypes: map[string]bool{}, Handoff: map[string]LS{}}
}

// lockOp recognises a lock operation and returns the lock identity.
func (e *LockEngine) lockOp(c ssa.CallInstruction) (id string, kind lockOpKind, ok bool) {
	if e.LockOpHook != nil {
		if id, kind, ok := e.LockOpHook(c); ok {
			return id, kind, true
		}
	}
	obj := calleeObj(c)
	if obj == nil || c.Common().IsInvoke() {
		return "", 0, false
	}
	sig := obj.Type().Underlying()
	_ = sig
	recv := ""
	if f := staticCallee(c); f != nil && f.Signature.Recv() != nil {
		recv = namedKey(f.Signature.Recv().Type())
	}
	if recv == "" {
		return "", 0, false
	}
	if recv != "sync.Mutex" && recv != "sync.RWMutex" && !e.ExtraLockTypes[recv] {
		return "", 0, false
	}
	switch obj.Name() {
	case "Lock":
		kind = opLock
	case "RLock":
		kind = opRLock
	case "Unlock":
		kind = opUnlock
	case "RUnlock":
		kind = opRUnlock
	default:
		return "", 0, false
	}
	args := c.Common().Args
	if len(args) == 0 {
		return "", 0, false
	}
	id, okID := lockIdent(args[0])
	if !okID {
		return "", kind, false
	}
	return id, kind, true
}

// lockIdent derives a type-based identity for the mutex denoted by v.
func lockIdent(v ssa.Value) (string, bool) {
	switch x := v.(type) {
	case *ssa.FieldAddr:
		id := fieldIDOfAddr(x)
		if id.Type == "" {
			// field of an unnamed struct: identify through the parent value
			if pid, ok := lockIdent(x.X); ok {
				return pid + "." + id.Field, true
			}
			return "", false
		}
		return id.Type + "." + id.Field, true
	case *ssa.Field:
		id := fieldIDOfField(x)
		if id.Type == "" {
			return "", false
		}
		return id.Type + "." + id.Field, true
	case *ssa.UnOp:
		if x.Op == token.MUL {
			return lockIdent(x.X)
		}
	case *ssa.Global:
		return x.Pkg.Pkg.Path() + "." + x.Name(), true
	case *ssa.Alloc:
		fn := x.Parent()
		return "local:" + fn.String() + ":" + x.Comment, true
	case *ssa.FreeVar:
		if b := resolveFreeVar(x); b != nil {
			return lockIdent(b)
		}
	case *ssa.Lookup:
		if id, ok := lockIdent(x.X); ok {
			return id + "[]", true
		}
	case *ssa.Extract:
		return lockIdent(x.Tuple)
	case *ssa.IndexAddr:
		if id, ok := lockIdent(x.X); ok {
			return id + "[]", true
		}
	case *ssa.ChangeType:
		return lockIdent(x.X)
	case *ssa.Phi:
		// edges that are fresh heap allocations (a lock created on this path
		// and about to be published under the same identity) are ignored
		var first string
		for _, ed := range x.Edges {
			if a, ok := ed.(*ssa.Alloc); ok && a.Heap {
				continue
			}
			id, ok := lockIdent(ed)
			if !ok {
				return "", false
			}
			if first == "" {
				first = id
			} else if id != first {
				return "", false
			}
		}
		return first, first != ""
	}
	return "", false
}

// Run computes summaries, entry locksets and per-instruction locksets.
func (e *LockEngine) Run() {
	p := e.P
	e.sites = map[*ssa.Function][]callSite{}
	e.addrTaken = map[*ssa.Function]bool{}
	for _, fn := range p.Funcs {
		allInstrs(fn, func(in ssa.Instruction) {
			ci, isCall := in.(ssa.CallInstruction)
			if isCall {
				if cal := staticCallee(ci); cal != nil && p.funcSet[cal] {
					e.sites[cal] = append(e.sites[cal], callSite{fn, ci})
				}
			}
			for _, op := range in.Operands(nil) {
				if op == nil || *op == nil {
					continue
				}
				var f *ssa.Function
				switch v := (*op).(type) {
				case *ssa.Function:
					if _, isMC := in.(*ssa.MakeClosure); isMC {
						continue
					}
					f = origin(v)
				case *ssa.MakeClosure:
					f, _ = v.Fn.(*ssa.Function)
					f = origin(f)
				}
				if f == nil {
					continue
				}
				if isCall && ci.Common().Value == *op && !ci.Common().IsInvoke() {
					continue // call position
				}
				e.addrTaken[f] = true
			}
		})
	}
	// summaries to fixpoint (bounded)
	e.summaries = map[*ssa.Function]*fnSummary{}
	for round := 0; round < 6; round++ {
		changed := false
		for _, fn := range p.Funcs {
			s := e.summarise(fn)
			old := e.summaries[fn]
			if old == nil || !equalLS(old.acquired, s.acquired) || len(old.released) != len(s.released) {
				changed = true
			}
			e.summaries[fn] = s
		}
		if !changed {
			break
		}
	}
	// entry locksets from below
	e.entry = map[*ssa.Function]LS{}
	for _, fn := range p.Funcs {
		e.entry[fn] = LS{}
	}
	for round := 0; round < 12; round++ {
		e.Unresolved, e.UnresolvedAt = 0, nil
		e.before = map[ssa.Instruction]LS{}
		e.deferEntry = map[*ssa.Function]LS{}
		for _, fn := range p.Funcs {
			e.flow(fn, e.entry[fn], true)
		}
		changed := false
		for _, fn := range p.Funcs {
			ne := e.computeEntry(fn)
			if !equalLS(ne, e.entry[fn]) {
				e.entry[fn] = ne
				changed = true
			}
		}
		if !changed {
			break
		}
	}
}

func (e *LockEngine) computeEntry(fn *ssa.Function) LS {
	if h, ok := e.Handoff[FuncName(e.P, fn)]; ok {
		return h.clone()
	}
	if isExportedFunc(fn) || e.addrTaken[fn] || fn.Name() == "init" || len(e.sites[fn]) == 0 {
		return LS{}
	}
	var acc LS
	for _, s := range e.sites[fn] {
		var ls LS
		switch s.instr.(type) {
		case *ssa.Call:
			ls = e.before[s.instr]
		case *ssa.Defer:
			ls = e.deferEntry[fn]
		default:
			ls = LS{}
		}
		if ls == nil {
			ls = LS{}
		}
		if acc == nil {
			acc = ls.clone()
		} else {
			acc = meetLS(acc, ls)
		}
	}
	if acc == nil {
		acc = LS{}
	}
	return acc
}

// summarise analyses fn from an empty entry lockset.
func (e *LockEngine) summarise(fn *ssa.Function) *fnSummary {
	rel := map[string]bool{}
	exit := e.flowInternal(fn, LS{}, false, rel)
	if exit == nil {
		exit = LS{}
	}
	return &fnSummary{acquired: exit, released: rel}
}

func (e *LockEngine) flow(fn *ssa.Function, entry LS, record bool) {
	e.flowInternal(fn, entry, record, nil)
}

func (e *LockEngine) apply(st LS, in ssa.Instruction, released map[string]bool, countOps bool) {
	c, ok := in.(*ssa.Call)
	if !ok {
		return
	}
	e.applyCall(st, c, released, countOps)
}

func (e *LockEngine) applyCall(st LS, c ssa.CallInstruction, released map[string]bool, countOps bool) {
	if id, kind, ok := e.lockOp(c); ok {
		switch kind {
		case opLock:
			st[id] = ModeW
		case opRLock:
			if st[id] < ModeR {
				st[id] = ModeR
			}
		case opUnlock, opRUnlock:
			if _, held := st[id]; !held && released != nil {
				released[id] = true
			}
			delete(st, id)
		}
		return
	} else if kind != 0 || isLockName(c) {
		if countOps {
			e.Unresolved++
			e.UnresolvedAt = append(e.UnresolvedAt, e.P.Pos(instrPos(c))+" in "+FuncName(e.P, c.Parent()))
		}
	}
	if cal := staticCallee(c); cal != nil {
		if s := e.summaries[cal]; s != nil {
			for id := range s.released {
				if _, held := st[id]; !held && released != nil {
					released[id] = true
				}
				delete(st, id)
			}
			for id, m := range s.acquired {
				st[id] = m
			}
		}
	}
}

func isLockName(c ssa.CallInstruction) bool {
	obj := calleeObj(c)
	if obj == nil || obj.Pkg() == nil || obj.Pkg().Path() != "sync" {
		return false
	}
	switch obj.Name() {
	case "Lock", "Unlock", "RLock", "RUnlock":
		f := staticCallee(c)
		return f != nil && f.Signature.Recv() != nil && !c.Common().IsInvoke()
	}
	return false
}

// flowInternal runs the intra-procedural dataflow; returns the meet of the
// locksets at all Return instructions (nil if fn never returns).
func (e *LockEngine) flowInternal(fn *ssa.Function, entry LS, record bool, released map[string]bool) LS {
	if len(fn.Blocks) == 0 {
		return LS{}
	}
	// collect defers in program order
	var defers []*ssa.Defer
	for _, b := range fn.Blocks {
		for _, in := range b.Instrs {
			if d, ok := in.(*ssa.Defer); ok {
				defers = append(defers, d)
			}
		}
	}
	in := make([]LS, len(fn.Blocks))
	out := make([]LS, len(fn.Blocks))
	in[0] = entry.clone()
	work := []int{0}
	inWork := map[int]bool{0: true}
	transfer := func(b *ssa.BasicBlock, st LS, rec bool) LS {
		for _, instr := range b.Instrs {
			if rec {
				e.before[instr] = st.clone()
			}
			switch x := instr.(type) {
			case *ssa.Call:
				e.applyCall(st, x, released, rec)
			case *ssa.RunDefers:
				for i := len(defers) - 1; i >= 0; i-- {
					d := defers[i]
					if rec {
						if cal := staticCallee(d); cal != nil && e.P.funcSet[cal] {
							if old, ok := e.deferEntry[cal]; ok {
								e.deferEntry[cal] = meetLS(old, st)
							} else {
								e.deferEntry[cal] = st.clone()
							}
						}
					}
					e.applyCall(st, d, released, false)
				}
			}
		}
		return st
	}
	for len(work) > 0 {
		bi := work[0]
		work = work[1:]
		inWork[bi] = false
		b := fn.Blocks[bi]
		st := transfer(b, in[bi].clone(), false)
		if out[bi] != nil && equalLS(out[bi], st) {
			continue
		}
		out[bi] = st
		for _, s := range b.Succs {
			var ns LS
			if in[s.Index] == nil {
				ns = st.clone()
			} else {
				ns = meetLS(in[s.Index], st)
			}
			if in[s.Index] == nil || !equalLS(ns, in[s.Index]) {
				in[s.Index] = ns
				if !inWork[s.Index] {
					work = append(work, s.Index)
					inWork[s.Index] = true
				}
			} else if out[s.Index] == nil && !inWork[s.Index] {
				work = append(work, s.Index)
				inWork[s.Index] = true
			}
		}
	}
	var exit LS
	for bi, b := range fn.Blocks {
		if in[bi] == nil {
			continue // unreachable
		}
		if record {
			transfer(b, in[bi].clone(), true)
		}
		if len(b.Instrs) > 0 {
			if _, ok := b.Instrs[len(b.Instrs)-1].(*ssa.Return); ok {
				if exit == nil {
					exit = out[bi].clone()
				} else {
					exit = meetLS(exit, out[bi])
				}
			}
		}
	}
	return exit
}

// At returns the lockset held immediately before instruction in.
func (e *LockEngine) At(in ssa.Instruction) LS {
	if ls, ok := e.before[in]; ok {
		return ls
	}
	return LS{}
}

// Reachable reports whether the dataflow reached the instruction.
func (e *LockEngine) Reachable(in ssa.Instruction) bool {
	_, ok := e.before[in]
	return ok
}

// Entry returns the inferred entry lockset of fn.
func (e *LockEngine) Entry(fn *ssa.Function) LS { return e.entry[origin(fn)] }

// Summary returns the lock summary of fn.
func (e *LockEngine) Summary(fn *ssa.Function) (acquired LS, released map[string]bool) {
	s := e.summaries[origin(fn)]
	if s == nil {
		return LS{}, nil
	}
	return s.acquired, s.released
}

// Acquirers returns the module functions that (transitively through static
// calls) acquire lock id themselves.
func (e *LockEngine) Acquirers(id string) map[*ssa.Function]bool {
	if e.acquirers == nil {
		e.acquirers = map[string]map[*ssa.Function]bool{}
	}
	if m, ok := e.acquirers[id]; ok {
		return m
	}
	m := map[*ssa.Function]bool{}
	for _, fn := range e.P.Funcs {
		allInstrs(fn, func(in ssa.Instruction) {
			if c, ok := in.(*ssa.Call); ok {
				if lid, kind, ok := e.lockOp(c); ok && lid == id && (kind == opLock || kind == opRLock) {
					m[fn] = true
				}
			}
		})
	}
	for changed := true; changed; {
		changed = false
		for _, fn := range e.P.Funcs {
			if m[fn] {
				continue
			}
			allInstrs(fn, func(in ssa.Instruction) {
				if c, ok := in.(*ssa.Call); ok && !m[fn] {
					if cal := staticCallee(c); cal != nil && m[cal] {
						m[fn] = true
						changed = true
					}
				}
			})
		}
	}
	e.acquirers[id] = m
	return m
}
