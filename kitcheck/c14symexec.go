package main

// Relational symbolic execution of two go/ssa functions (C14: a method of the
// generic ring and its container/ring counterpart).
//
// Both functions are run on the same symbolic inputs under one shared path
// condition. Package-local callees are executed in place (so extracting or
// inlining a helper is invisible); memory is one store chain per struct field
// (stores to different fields commute, loads see through stores to provably
// equal / different addresses); calls to unknown functions are events that
// havoc memory. A pair of undetermined branches is a product cut point: when
// the same pair recurs on a path the state at its first occurrence is
// generalised (loop-carried values that changed get fresh symbols, shared by
// all values of both sides that were equal at both visits; integers that
// changed by a constant become base + d*κ for a shared counter κ) and the
// equalities are verified to be inductive. The functions are proved
// equivalent when every path pair ends in the same outcome: same results,
// same final memory per field, same sequence of external calls, same set of
// dereferenced pointers.

import (
	"fmt"
	"go/constant"
	"go/token"
	"go/types"
	"os"
	"sort"
	"strings"

	"golang.org/x/tools/go/ssa"
)

type symFrame struct {
	fn     *ssa.Function
	env    map[ssa.Value]*symTerm
	blk    *ssa.BasicBlock
	prev   *ssa.BasicBlock
	idx    int
	caller *symFrame
	call   ssa.Value // the call instruction in the caller awaiting the result
}

type symSide struct {
	name    string
	x       *symExec
	frame   *symFrame
	mem     map[string]*symTerm
	memBase *symTerm // event after which untouched fields are after(ev, f); nil = initial memory
	ev      *symTerm
	nalloc  int
	ncell   int
	aprefix string
	derefs  map[int]*symTerm
	done    bool
	result  []*symTerm
	panicT  *symTerm
	fail    string
	// configuration
	// leafKey canonicalises the raw path of a field ("Type.i" or, through
	// by-value sub-structs, "Type.i/j/..") to the key of its memory; paths it
	// does not know (intermediate sub-structs, other types) map to themselves
	leafKey func(raw string) string
	opaque  func(fn *ssa.Function) (string, bool)
	typeKey func(t types.Type) string
}

type symExec struct {
	pool     *symPool
	steps    int
	maxSteps int
	gens     int
	trace    []string
	fnByName map[string]*ssa.Function
	arrLen   map[int]int // array allocation (term id) -> length
}

func (s *symSide) clone() *symSide {
	n := *s
	n.mem = make(map[string]*symTerm, len(s.mem))
	for k, v := range s.mem {
		n.mem[k] = v
	}
	n.derefs = make(map[int]*symTerm, len(s.derefs))
	for k, v := range s.derefs {
		n.derefs[k] = v
	}
	var cp func(f *symFrame) *symFrame
	cp = func(f *symFrame) *symFrame {
		if f == nil {
			return nil
		}
		g := *f
		g.env = make(map[ssa.Value]*symTerm, len(f.env))
		for k, v := range f.env {
			g.env[k] = v
		}
		g.caller = cp(f.caller)
		return &g
	}
	n.frame = cp(s.frame)
	return &n
}

func (s *symSide) memGet(f string) *symTerm {
	if t, ok := s.mem[f]; ok {
		return t
	}
	if s.memBase == nil {
		return s.x.pool.sym("mem0", f)
	}
	return s.x.pool.app("after", f, s.memBase)
}

// position key of the side (call stack of block positions)
func (s *symSide) posKey() string {
	if s.done {
		return "ret"
	}
	var parts []string
	for f := s.frame; f != nil; f = f.caller {
		parts = append(parts, fmt.Sprintf("%s.%d.%d", f.fn.Name(), f.blk.Index, f.idx))
	}
	return strings.Join(parts, "<")
}

func (s *symSide) operand(f *symFrame, v ssa.Value) *symTerm {
	p := s.x.pool
	switch c := v.(type) {
	case *ssa.Const:
		if c.Value == nil {
			if _, isBasic := c.Type().Underlying().(*types.Basic); isBasic {
				return p.intc(0)
			}
			if isRefKind(c.Type()) {
				if _, tp := c.Type().(*types.TypeParam); !tp {
					return p.nilc()
				}
			}
			return p.app("zero", s.typeKey(c.Type()))
		}
		switch c.Value.Kind() {
		case constant.Int:
			if i, ok := constant.Int64Val(c.Value); ok {
				return p.intc(i)
			}
		case constant.Bool:
			return p.boolc(constant.BoolVal(c.Value))
		}
		return p.app("const", c.Value.ExactString())
	case *ssa.Function:
		// a function used as a value: a closure without bindings
		if s.x.fnByName == nil {
			s.x.fnByName = map[string]*ssa.Function{}
		}
		key := s.name + ":" + c.String()
		s.x.fnByName[key] = c
		return p.mk("closure", key, 0, nil, nil)
	case *ssa.Global:
		return p.app("global", c.Name())
	}
	if t, ok := f.env[v]; ok {
		return t
	}
	s.fail = "value " + v.Name() + " used before definition in " + f.fn.Name()
	return p.app("undef", v.Name())
}

func isIntType(t types.Type) bool {
	b, ok := t.Underlying().(*types.Basic)
	return ok && b.Info()&types.IsInteger != 0
}

// load through the store chain of one field
func (s *symSide) load(pc *symPC, m, addr *symTerm) *symTerm {
	p := s.x.pool
	for m.op == "store" {
		a := m.args[1]
		if a == addr {
			return m.args[2]
		}
		if symDistinct(a, addr) {
			m = m.args[0]
			continue
		}
		if v, known := pc.lookup(p.eq(a, addr)); known {
			if v {
				return m.args[2]
			}
			m = m.args[0]
			continue
		}
		break
	}
	return p.app("load", "", m, addr)
}

func (s *symSide) deref(pc *symPC, base *symTerm) {
	if base.isAlloc() {
		return
	}
	if v, known := pc.lookup(s.x.pool.eq(base, s.x.pool.nilc())); known && !v {
		return
	}
	s.derefs[base.id] = base
}

const (
	symStopRet = iota
	symStopIf
	symStopFail
)

// pure evaluates a side-effect free instruction; ok=false if it is not one.
func (s *symSide) pure(f *symFrame, in ssa.Instruction) (*symTerm, bool) {
	p := s.x.pool
	switch x := in.(type) {
	case *ssa.BinOp:
		a, b := s.operand(f, x.X), s.operand(f, x.Y)
		ints := isIntType(x.X.Type())
		switch x.Op {
		case token.ADD:
			if ints {
				return p.add(a, b), true
			}
		case token.SUB:
			if ints {
				return p.sub(a, b), true
			}
		case token.MUL:
			if ints {
				if a.op == "int" {
					return p.scale(b, a.k), true
				}
				if b.op == "int" {
					return p.scale(a, b.k), true
				}
				if a.id > b.id {
					a, b = b, a
				}
				return p.app("mul", "", a, b), true
			}
		case token.EQL, token.NEQ:
			var t *symTerm
			if ints {
				t = p.eq0(p.sub(a, b))
			} else {
				t = p.eq(a, b)
			}
			if x.Op == token.NEQ {
				t = p.not(t)
			}
			return t, true
		case token.LSS, token.GTR, token.LEQ, token.GEQ:
			if ints {
				switch x.Op {
				case token.LSS:
					return p.lt0(p.sub(a, b)), true
				case token.GTR:
					return p.lt0(p.sub(b, a)), true
				case token.LEQ: // a <= b  <=>  !(b < a)
					return p.not(p.lt0(p.sub(b, a))), true
				case token.GEQ:
					return p.not(p.lt0(p.sub(a, b))), true
				}
			}
		}
		return p.app("binop", x.Op.String()+":"+s.typeKey(x.X.Type()), a, b), true
	case *ssa.UnOp:
		switch x.Op {
		case token.NOT:
			return p.not(s.operand(f, x.X)), true
		case token.SUB:
			if isIntType(x.X.Type()) {
				return p.scale(s.operand(f, x.X), -1), true
			}
		case token.MUL:
			return nil, false
		}
		return p.app("unop", x.Op.String(), s.operand(f, x.X)), true
	case *ssa.FieldAddr:
		base := s.operand(f, x.X)
		if base.op == "addr" {
			// a field of a by-value sub-struct: extend the path
			if strings.HasPrefix(base.aux, "cell:") {
				return p.app("addr", base.aux+"/"+fmt.Sprint(x.Field), base.args[0]), true
			}
			return p.app("addr", s.leafKey(base.aux+"/"+fmt.Sprint(x.Field)), base.args[0]), true
		}
		if symIsLocal(base) {
			// a field of a local (non-escaping) struct variable: private memory
			return p.app("addr", "cell:"+s.typeKey(deref(x.X.Type()))+"."+fmt.Sprint(x.Field), base), true
		}
		return p.app("addr", s.leafKey(s.typeKey(deref(x.X.Type()))+"."+fmt.Sprint(x.Field)), base), true
	case *ssa.Field:
		v := s.operand(f, x.X)
		if v.op != "structval" {
			return p.app("field", fmt.Sprint(x.Field), v), true
		}
		var sel []*symTerm
		single := false
		for i, lf := range symStructLeaves(x.X.Type()) {
			if i >= len(v.args) {
				break
			}
			if lf.sub == fmt.Sprint(x.Field) {
				sel, single = []*symTerm{v.args[i]}, true
				break
			}
			if strings.HasPrefix(lf.sub, fmt.Sprint(x.Field)+"/") {
				sel = append(sel, v.args[i])
			}
		}
		if single {
			return sel[0], true
		}
		return p.mk("structval", s.typeKey(x.Type()), 0, sel, nil), true
	case *ssa.ChangeType:
		return s.operand(f, x.X), true
	case *ssa.ChangeInterface:
		return s.operand(f, x.X), true
	case *ssa.MakeInterface:
		return p.app("iface", "", s.operand(f, x.X)), true
	case *ssa.Convert:
		if isIntType(x.Type()) && isIntType(x.X.Type()) && types.Identical(x.Type().Underlying(), x.X.Type().Underlying()) {
			return s.operand(f, x.X), true
		}
		return p.app("convert", s.typeKey(x.Type()), s.operand(f, x.X)), true
	case *ssa.Extract:
		t := s.operand(f, x.Tuple)
		if t.op == "tuple" && x.Index < len(t.args) {
			return t.args[x.Index], true
		}
		return p.app("extract", fmt.Sprint(x.Index), t), true
	case *ssa.MakeClosure:
		args := []*symTerm{}
		for _, b := range x.Bindings {
			args = append(args, s.operand(f, b))
		}
		fn := x.Fn.(*ssa.Function)
		// function values are followed: the closure term names its function
		// (anonymous function, method value wrapper, method expression thunk)
		if s.x.fnByName == nil {
			s.x.fnByName = map[string]*ssa.Function{}
		}
		key := s.name + ":" + fn.String()
		s.x.fnByName[key] = fn
		return p.mk("closure", key, 0, args, nil), true
	case *ssa.IndexAddr:
		base, idx := s.operand(f, x.X), s.operand(f, x.Index)
		if base.op == "slice" {
			base = base.args[0]
		}
		var et types.Type
		switch u := x.X.Type().Underlying().(type) {
		case *types.Pointer:
			if a, ok := u.Elem().Underlying().(*types.Array); ok {
				et = a.Elem()
			}
		case *types.Slice:
			et = u.Elem()
		}
		if et == nil {
			return nil, false
		}
		return p.app("addr", "cell:elem:"+s.typeKey(et), p.app("elem", "", base, idx)), true
	case *ssa.Slice:
		if x.Low == nil && x.High == nil && x.Max == nil {
			return p.app("slice", "", s.operand(f, x.X)), true
		}
		return nil, false
	}
	return nil, false
}

// advance runs the side until it returns, fails, or reaches a branch the
// path condition does not determine.
func (s *symSide) advance(pc *symPC) (int, *symTerm) {
	p := s.x.pool
	for {
		if s.fail != "" {
			return symStopFail, nil
		}
		if s.done {
			return symStopRet, nil
		}
		s.x.steps++
		if s.x.steps > s.x.maxSteps {
			s.fail = "step budget exhausted"
			return symStopFail, nil
		}
		f := s.frame
		if f.idx >= len(f.blk.Instrs) {
			s.fail = "fell off a block"
			return symStopFail, nil
		}
		in := f.blk.Instrs[f.idx]
		if v, ok := in.(ssa.Value); ok {
			if t, isPure := s.pure(f, in); isPure {
				f.env[v] = t
				f.idx++
				continue
			}
		}
		switch x := in.(type) {
		case *ssa.DebugRef:
			f.idx++
		case *ssa.Phi:
			_ = x
			// all phis of a block read the values of the predecessor simultaneously
			vals := map[ssa.Value]*symTerm{}
			i := f.idx
			for ; i < len(f.blk.Instrs); i++ {
				ph, ok := f.blk.Instrs[i].(*ssa.Phi)
				if !ok {
					break
				}
				k := -1
				for j, pb := range f.blk.Preds {
					if pb == f.prev {
						k = j
					}
				}
				if k < 0 {
					s.fail = "phi without matching predecessor"
					return symStopFail, nil
				}
				vals[ph] = s.operand(f, ph.Edges[k])
			}
			for k, v := range vals {
				f.env[k] = v
			}
			f.idx = i
			_ = x
		case *ssa.Alloc:
			et := deref(x.Type())
			if pt, ok := x.Type().Underlying().(*types.Pointer); ok {
				et = pt.Elem()
			}
			var a *symTerm
			if _, isStruct := et.Underlying().(*types.Struct); isStruct && x.Heap {
				s.nalloc++
				a = p.app("alloc", fmt.Sprintf("%s%d", s.aprefix, s.nalloc))
			} else {
				// a variable cell (captured or address-taken local): numbered apart
				// so that it does not shift the names of the heap objects
				s.ncell++
				a = p.app("alloc", fmt.Sprintf("cell.%s%d", s.aprefix, s.ncell))
			}
			if _, ok := et.Underlying().(*types.Struct); ok {
				for _, lf := range symStructLeaves(et) {
					fk := s.leafKey(s.typeKey(et) + "." + lf.sub)
					if symIsLocal(a) {
						fk = "cell:" + s.typeKey(et) + "." + lf.sub
					}
					s.mem[fk] = p.app("store", "", s.memGet(fk), a, s.zero(lf.typ))
				}
			} else if at, isArr := et.Underlying().(*types.Array); isArr {
				if at.Len() > 64 {
					s.fail = "large array"
					return symStopFail, nil
				}
				if s.x.arrLen == nil {
					s.x.arrLen = map[int]int{}
				}
				s.x.arrLen[a.id] = int(at.Len())
				fk := "cell:elem:" + s.typeKey(at.Elem())
				for i := int64(0); i < at.Len(); i++ {
					s.mem[fk] = p.app("store", "", s.memGet(fk), p.app("elem", "", a, p.intc(i)), s.zero(at.Elem()))
				}
			} else {
				fk := "cell:" + s.typeKey(et)
				s.mem[fk] = p.app("store", "", s.memGet(fk), a, s.zero(et))
			}
			f.env[x] = a
			f.idx++
		case *ssa.UnOp: // load
			addr := s.operand(f, x.X)
			var fk string
			var base *symTerm
			if addr.op == "addr" {
				fk, base = addr.aux, addr.args[0]
			} else {
				fk, base = "cell:"+s.typeKey(x.Type()), addr
			}
			if _, isStruct := x.Type().Underlying().(*types.Struct); isStruct {
				// a struct value is the tuple of its leaves
				s.deref(pc, base)
				var vals []*symTerm
				for _, lf := range symStructLeaves(x.Type()) {
					k := s.structLeafKey(addr, x.Type(), lf.sub)
					vals = append(vals, s.load(pc, s.memGet(k), base))
				}
				f.env[x] = p.mk("structval", s.typeKey(x.Type()), 0, vals, nil)
				f.idx++
				continue
			}
			s.deref(pc, base)
			f.env[x] = s.load(pc, s.memGet(fk), base)
			f.idx++
		case *ssa.Store:
			addr := s.operand(f, x.Addr)
			val := s.operand(f, x.Val)
			var fk string
			var base *symTerm
			if addr.op == "addr" {
				fk, base = addr.aux, addr.args[0]
			} else {
				fk, base = "cell:"+s.typeKey(x.Val.Type()), addr
			}
			if _, isStruct := x.Val.Type().Underlying().(*types.Struct); isStruct {
				leaves := symStructLeaves(x.Val.Type())
				if !(val.op == "structval" && len(val.args) == len(leaves)) && val.op != "zero" {
					s.fail = "store of a struct value of unknown shape"
					return symStopFail, nil
				}
				s.deref(pc, base)
				for i, lf := range leaves {
					k := s.structLeafKey(addr, x.Val.Type(), lf.sub)
					v := s.zero(lf.typ)
					if val.op == "structval" {
						v = val.args[i]
					}
					s.mem[k] = p.app("store", "", s.memGet(k), base, v)
				}
				f.idx++
				continue
			}
			s.deref(pc, base)
			s.mem[fk] = p.app("store", "", s.memGet(fk), base, val)
			f.idx++
		case *ssa.Call:
			if !s.doCall(pc, f, x) {
				return symStopFail, nil
			}
		case *ssa.Jump:
			f.prev, f.blk, f.idx = f.blk, f.blk.Succs[0], 0
		case *ssa.If:
			c := s.operand(f, x.Cond)
			v, known := pc.lookup(c)
			if !known {
				return symStopIf, c
			}
			s.take(v)
		case *ssa.Return:
			var res []*symTerm
			for _, rv := range x.Results {
				res = append(res, s.operand(f, rv))
			}
			if f.caller == nil {
				s.done, s.result = true, res
				return symStopRet, nil
			}
			cf := f.caller
			switch len(res) {
			case 0:
				cf.env[f.call] = p.app("unit", "")
			case 1:
				cf.env[f.call] = res[0]
			default:
				cf.env[f.call] = p.mk("tuple", "", 0, res, nil)
			}
			cf.idx++
			s.frame = cf
		case *ssa.Panic:
			s.done, s.panicT = true, s.operand(f, x.X)
			return symStopRet, nil
		default:
			s.fail = fmt.Sprintf("unsupported instruction %T in %s", in, f.fn.Name())
			return symStopFail, nil
		}
	}
}

func (s *symSide) zero(t types.Type) *symTerm {
	p := s.x.pool
	if _, tp := t.(*types.TypeParam); tp {
		return p.app("zero", s.typeKey(t))
	}
	switch u := t.Underlying().(type) {
	case *types.Basic:
		if u.Info()&types.IsInteger != 0 {
			return p.intc(0)
		}
		if u.Info()&types.IsBoolean != 0 {
			return p.boolc(false)
		}
	case *types.Pointer, *types.Map, *types.Slice, *types.Chan, *types.Signature:
		return p.nilc()
	case *types.Interface:
		return p.app("zero", s.typeKey(t))
	}
	return p.app("zero", s.typeKey(t))
}

// take follows the branch of the If the side is stopped at.
func (s *symSide) take(branch bool) {
	f := s.frame
	k := 1
	if branch {
		k = 0
	}
	f.prev, f.blk, f.idx = f.blk, f.blk.Succs[k], 0
}

func (s *symSide) doCall(pc *symPC, f *symFrame, x *ssa.Call) bool {
	p := s.x.pool
	cc := x.Common()
	var args []*symTerm
	for _, a := range cc.Args {
		args = append(args, s.operand(f, a))
	}
	var callee *ssa.Function
	var fvs []*symTerm
	var fterm *symTerm
	if !cc.IsInvoke() {
		switch v := cc.Value.(type) {
		case *ssa.Function:
			callee = v
		case *ssa.Builtin:
			if (v.Name() == "len" || v.Name() == "cap") && len(args) == 1 {
				a := args[0]
				if a.op == "slice" {
					a = a.args[0]
				}
				if n, ok := s.x.arrLen[a.id]; ok {
					f.env[x] = p.intc(int64(n))
					f.idx++
					return true
				}
			}
			s.fail = "builtin " + v.Name()
			return false
		default:
			fterm = s.operand(f, cc.Value)
			if fterm.op == "closure" {
				callee = s.x.fnByName[fterm.aux]
				fvs = fterm.args
			}
		}
	} else {
		fterm = p.app("method", cc.Method.Name(), s.operand(f, cc.Value))
	}
	if callee != nil {
		if o := callee.Origin(); o != nil && len(o.Blocks) > 0 {
			callee = o
		}
		if key, isOpaque := s.opaque(callee); isOpaque {
			fterm = p.app("func", key)
			callee = nil
		} else if len(callee.Blocks) == 0 {
			fterm = p.app("func", callee.Name())
			callee = nil
		}
	}
	if callee != nil {
		depth := 0
		for fr := f; fr != nil; fr = fr.caller {
			depth++
			if fr.fn == callee && depth > 1 {
				// recursion: not unrolled
				s.fail = "recursive call to " + callee.Name()
				return false
			}
		}
		if depth > 12 {
			s.fail = "call depth"
			return false
		}
		nf := &symFrame{fn: callee, env: map[ssa.Value]*symTerm{}, blk: callee.Blocks[0], caller: f, call: x}
		if len(callee.Params) != len(args) {
			s.fail = "arity mismatch calling " + callee.Name()
			return false
		}
		for i, pa := range callee.Params {
			nf.env[pa] = args[i]
		}
		for i, fv := range callee.FreeVars {
			if i < len(fvs) {
				nf.env[fv] = fvs[i]
			}
		}
		s.frame = nf
		return true
	}
	// external event: havocs memory
	s.x.tracef("%s: external call %v in %s", s.name, fterm, f.fn.Name())
	var fields []string
	for k := range s.mem {
		if !strings.HasPrefix(k, "cell:") {
			fields = append(fields, k)
		}
	}
	sort.Strings(fields)
	evArgs := []*symTerm{fterm}
	if s.ev != nil {
		evArgs = append(evArgs, s.ev)
	} else {
		evArgs = append(evArgs, p.app("ev0", ""))
	}
	evArgs = append(evArgs, args...)
	var memDesc []string
	for _, fk := range fields {
		// only memories that differ from the default are part of the event
		memDesc = append(memDesc, fk)
		evArgs = append(evArgs, s.mem[fk])
	}
	base := "init"
	if s.memBase != nil {
		base = fmt.Sprint(s.memBase.id)
	}
	ev := p.mk("call", base+";"+strings.Join(memDesc, ","), 0, evArgs, nil)
	s.ev = ev
	s.memBase = ev
	for k := range s.mem {
		if !strings.HasPrefix(k, "cell:") {
			delete(s.mem, k)
		}
	}
	f.env[x] = p.app("res", "", ev)
	if x.Call.Signature().Results().Len() > 1 {
		var parts []*symTerm
		for i := 0; i < x.Call.Signature().Results().Len(); i++ {
			parts = append(parts, p.app("res", fmt.Sprint(i), ev))
		}
		f.env[x] = p.mk("tuple", "", 0, parts, nil)
	}
	f.idx++
	return true
}

// ---- the product

type symMismatch struct {
	what string
	l, r string
	leaf bool
}

func (m *symMismatch) String() string {
	if m == nil {
		return ""
	}
	s := m.what
	if m.l != "" || m.r != "" {
		s += ": port " + m.l + " vs reference " + m.r
	}
	return s
}

type symState struct {
	L, R *symSide
	pc   *symPC
}

func (st *symState) clone() *symState {
	return &symState{L: st.L.clone(), R: st.R.clone(), pc: st.pc.clone()}
}

type symVisit struct {
	key   string
	snap  *symState
	gen   *symGen // non-nil: generalised
	depth int
	// noReturn: the path went through the branch of the cut condition that is
	// assumed never to lead back to the cut point
	noReturn bool
}

// member of an equivalence class of loop-carried values
type symMember struct {
	side  int // 0 = L, 1 = R
	depth int // frame depth from the top (0 = top frame)
	val   ssa.Value
	mem   string   // field key, or "" ; "!ev" for the event chain, "!base" for the memory base
	cell  *symTerm // with mem "cell:…": the contents of this variable cell
}

type symGen struct {
	classes  map[string][]symMember // class id -> members
	linear   map[string]int64       // member key -> delta per iteration (counter κ)
	kappa    *symTerm
	gterm    map[string]*symTerm // member key -> term in the generalised state
	variant  map[string]bool
	nallocL  int
	nallocR  int
	attempts int
	// prevMode: the generalised state stands for the 2nd, 3rd, .. visit.
	// prevFacts: literals l(κ) such that l(κ-1) is assumed at the cut point:
	// they were assumed during the concrete previous iteration (l(-1) is in
	// the path condition of the second visit) and are re-established by every
	// iteration that returns to the cut point (checked on arrival). cands are
	// candidates collected on arrivals, dead the ones found not inductive.
	prevMode  bool
	prevFacts []symFact
	cands     []symFact
	dead      map[int]bool
}

type symFact struct {
	term  *symTerm
	kappa *symTerm
	val   bool
}

func (x *symExec) factKey(f symFact) int {
	return x.subst(f.term, f.kappa, x.pool.sym("k", "canonical")).id
}

func (m symMember) key() string {
	c := 0
	if m.cell != nil {
		c = m.cell.id
	}
	return fmt.Sprintf("%d/%d/%p/%s/%d", m.side, m.depth, m.val, m.mem, c)
}

type symResult struct {
	ok       bool
	mismatch *symMismatch
	// signals
	genKey    string    // generalise at the visit with this key
	genSnap   *symState // the state at the repeated visit
	genBranch bool      // the branch of the cut condition on which the repeat was found
	prevFail  bool      // the "previous visit took branch b" assumption does not hold
}

func frameAt(s *symSide, depth int) *symFrame {
	f := s.frame
	for i := 0; i < depth && f != nil; i++ {
		f = f.caller
	}
	return f
}

func (x *symExec) sideOf(st *symState, i int) *symSide {
	if i == 0 {
		return st.L
	}
	return st.R
}

func (x *symExec) getMember(st *symState, m symMember) *symTerm {
	s := x.sideOf(st, m.side)
	switch {
	case m.mem == "!ev":
		if s.ev == nil {
			return x.pool.app("ev0", "")
		}
		return s.ev
	case m.mem == "!base":
		if s.memBase == nil {
			return x.pool.app("ev0", "")
		}
		return s.memBase
	case m.cell != nil:
		return s.load(newSymPC(x.pool), s.memGet(m.mem), m.cell)
	case m.mem != "":
		return s.memGet(m.mem)
	}
	f := frameAt(s, m.depth)
	if f == nil {
		return nil
	}
	return f.env[m.val]
}

func (x *symExec) setMember(st *symState, m symMember, t *symTerm) {
	s := x.sideOf(st, m.side)
	switch {
	case m.mem == "!ev":
		s.ev = t
	case m.mem == "!base":
		s.memBase = t
	case m.cell != nil:
		s.mem[m.mem] = x.pool.app("store", "", s.memGet(m.mem), m.cell, t)
	case m.mem != "":
		s.mem[m.mem] = t
	default:
		if f := frameAt(s, m.depth); f != nil {
			f.env[m.val] = t
		}
	}
}

// members enumerates the comparable state of both sides.
func (x *symExec) members(a, b *symState) []symMember {
	var out []symMember
	for side := 0; side < 2; side++ {
		sa, sb := x.sideOf(a, side), x.sideOf(b, side)
		depth := 0
		for fa, fb := sa.frame, sb.frame; fa != nil && fb != nil; fa, fb = fa.caller, fb.caller {
			var vals []ssa.Value
			for v := range fa.env {
				if _, ok := fb.env[v]; ok {
					vals = append(vals, v)
				}
			}
			sort.Slice(vals, func(i, j int) bool { return vals[i].Name() < vals[j].Name() })
			for _, v := range vals {
				out = append(out, symMember{side: side, depth: depth, val: v})
			}
			depth++
		}
		fields := map[string]bool{}
		for k := range sa.mem {
			fields[k] = true
		}
		for k := range sb.mem {
			fields[k] = true
		}
		var fks []string
		for k := range fields {
			fks = append(fks, k)
		}
		sort.Strings(fks)
		for _, k := range fks {
			out = append(out, symMember{side: side, mem: k})
			if !strings.HasPrefix(k, "cell:") {
				continue
			}
			// the variable cells written so far: their contents are loop-carried values
			seenCell := map[int]bool{}
			for _, st := range []*symSide{sa, sb} {
				for m := st.memGet(k); m.op == "store"; m = m.args[0] {
					if c := m.args[1]; c.isAlloc() && !seenCell[c.id] {
						seenCell[c.id] = true
						out = append(out, symMember{side: side, mem: k, cell: c})
					}
				}
			}
		}
		out = append(out, symMember{side: side, mem: "!ev"}, symMember{side: side, mem: "!base"})
	}
	return out
}

func sameDerefs(a, b map[int]*symTerm) bool {
	if len(a) != len(b) {
		return false
	}
	for k := range a {
		if _, ok := b[k]; !ok {
			return false
		}
	}
	return true
}

// generalise builds the generalised state from the first visit s1 and the
// repeated visit s2 (extraVariant: members found not to be invariant in an
// earlier attempt; split: members that must get a class of their own).
func (x *symExec) generalise(s1, s2 *symState, g *symGen, base2 bool) (*symState, bool) {
	p := x.pool
	x.gens++
	if !sameDerefs(s1.L.derefs, s1.R.derefs) || !sameDerefs(s2.L.derefs, s2.R.derefs) {
		x.tracef("generalise: derefs differ: visit1 L=%v R=%v; visit2 L=%v R=%v", derefList(s1.L.derefs), derefList(s1.R.derefs), derefList(s2.L.derefs), derefList(s2.R.derefs))
		return nil, false
	}
	if s1.L.nalloc-s1.R.nalloc != s2.L.nalloc-s2.R.nalloc || s1.L.nalloc != s1.R.nalloc {
		x.tracef("generalise: allocation counts differ")
		return nil, false
	}
	gs := s1.clone()
	if base2 {
		gs = s2.clone()
	}
	g.classes = map[string][]symMember{}
	g.linear = map[string]int64{}
	g.gterm = map[string]*symTerm{}
	g.kappa = p.freshSym("κ")
	classSym := map[string]*symTerm{}
	for _, m := range x.members(s1, s2) {
		t1, t2 := x.getMember(s1, m), x.getMember(s2, m)
		if t1 == nil || t2 == nil {
			continue
		}
		mk := m.key()
		if t1 == t2 && !g.variant[mk] {
			g.gterm[mk] = t1
			if m.cell != nil {
				x.setMember(gs, m, t1) // on top of the havoced cell memory
			}
			continue
		}
		tb := t1
		if base2 {
			tb = t2
		}
		g.variant[mk] = true
		// integer that moves by a constant per iteration: base + d*κ
		if (m.mem == "" || m.cell != nil) && !g.variant["nolin:"+mk] {
			d := p.sub(t2, t1)
			if d.op == "int" && d.k != 0 && (m.cell != nil || isIntType(m.val.Type())) {
				gt := p.add(tb, p.scale(g.kappa, d.k))
				g.linear[mk] = d.k
				g.gterm[mk] = gt
				x.tracef("linear member %s (%v -> %v) = %v", mk, t1, t2, gt)
				x.setMember(gs, m, gt)
				continue
			}
		}
		ck := fmt.Sprintf("%d>%d", t1.id, t2.id)
		if sp, ok := g.splitOf(mk); ok {
			ck += "/" + sp
		}
		sym, ok := classSym[ck]
		if !ok {
			kind := "σ"
			if m.mem != "" && m.cell == nil {
				kind = "μ"
			}
			sym = p.freshSym(kind)
			classSym[ck] = sym
		}
		g.classes[ck] = append(g.classes[ck], m)
		g.gterm[mk] = sym
		x.tracef("class %s: member %s (%v -> %v) = %v", ck, mk, t1, t2, sym)
		x.setMember(gs, m, sym)
	}
	// fresh allocation names inside the generalised iteration
	gs.L.aprefix = fmt.Sprintf("g%d.", x.gens)
	gs.R.aprefix = gs.L.aprefix
	g.nallocL, g.nallocR = gs.L.nalloc, gs.R.nalloc
	gs.pc.assume(p.lt0(g.kappa), false)
	// recompute values that are pure functions of other values
	for side := 0; side < 2; side++ {
		s := x.sideOf(gs, side)
		depth := 0
		for f := s.frame; f != nil; f = f.caller {
			for pass := 0; pass < 3; pass++ {
				for _, b := range f.fn.Blocks {
					for _, in := range b.Instrs {
						v, ok := in.(ssa.Value)
						if !ok {
							continue
						}
						if _, have := f.env[v]; !have {
							continue
						}
						mk := symMember{side: side, depth: depth, val: v}.key()
						if !g.variant[mk] {
							continue
						}
						if _, isLin := g.linear[mk]; isLin {
							continue
						}
						okOps := true
						for _, op := range in.Operands(nil) {
							if *op == nil {
								continue
							}
							switch (*op).(type) {
							case *ssa.Const, *ssa.Function, *ssa.Global, *ssa.Builtin:
							default:
								if _, have := f.env[*op]; !have {
									okOps = false
								}
							}
						}
						if !okOps {
							continue
						}
						if t, isPure := s.pure(f, in); isPure {
							f.env[v] = t
							g.gterm[mk] = t
							g.derived(mk)
						}
					}
				}
			}
			depth++
		}
	}
	return gs, true
}

func (g *symGen) splitOf(mk string) (string, bool) {
	if g.variant == nil {
		return "", false
	}
	if g.variant["split:"+mk] {
		return mk, true
	}
	return "", false
}

// derived removes a member from its class (its value is a function of others).
func (g *symGen) derived(mk string) {
	for ck, ms := range g.classes {
		var keep []symMember
		for _, m := range ms {
			if m.key() != mk {
				keep = append(keep, m)
			}
		}
		g.classes[ck] = keep
	}
}

// inductive checks that state s3 (a return to the cut point from the
// generalised state) satisfies the generalised state's assumptions with κ+1.
// On failure it records the refinement in g and returns false.
func (x *symExec) inductive(g *symGen, gs, s3 *symState) bool {
	p := x.pool
	ok := true
	if !sameDerefs(s3.L.derefs, s3.R.derefs) {
		x.tracef("derefs differ at the cut point: L=%v R=%v", derefList(s3.L.derefs), derefList(s3.R.derefs))
		return false
	}
	if s3.L.nalloc-g.nallocL != s3.R.nalloc-g.nallocR {
		x.tracef("allocation counts differ at the cut point")
		return false
	}
	for _, m := range x.members(gs, s3) {
		mk := m.key()
		t3 := x.getMember(s3, m)
		if t3 == nil {
			continue
		}
		if !g.variant[mk] {
			if gt, have := g.gterm[mk]; have && gt != t3 {
				g.variant[mk] = true
				ok = false
				x.tracef("not invariant: %s: %v -> %v", mk, gt, t3)
			}
			continue
		}
		if d, isLin := g.linear[mk]; isLin {
			if t3 != p.add(g.gterm[mk], p.intc(d)) {
				// not an induction variable after all: plain havoc next time
				g.variant["nolin:"+mk] = true
				ok = false
				x.tracef("not linear: %s: %v -> %v", mk, g.gterm[mk], t3)
			}
		}
	}
	for _, ms := range g.classes {
		if len(ms) < 2 {
			continue
		}
		first := x.getMember(s3, ms[0])
		for _, m := range ms[1:] {
			if x.getMember(s3, m) != first {
				g.variant["split:"+m.key()] = true
				ok = false
				x.tracef("class splits: %s: %v vs %v", m.key(), x.getMember(s3, m), first)
			}
		}
	}
	return ok
}

func (x *symExec) outcome(st *symState) *symMismatch {
	L, R := st.L, st.R
	if (L.panicT != nil) != (R.panicT != nil) {
		return &symMismatch{what: "one side panics", l: fmt.Sprint(L.panicT), r: fmt.Sprint(R.panicT)}
	}
	if len(L.result) != len(R.result) {
		return &symMismatch{what: "different number of results"}
	}
	for i := range L.result {
		if L.result[i] != R.result[i] {
			return &symMismatch{what: fmt.Sprintf("result %d differs", i), l: L.result[i].String(), r: R.result[i].String(), leaf: true}
		}
	}
	evL, evR := L.ev, R.ev
	if evL != evR {
		return &symMismatch{what: "the sequences of external calls differ", l: fmt.Sprint(evL), r: fmt.Sprint(evR)}
	}
	if L.memBase != R.memBase {
		return &symMismatch{what: "memory after the last external call differs"}
	}
	fields := map[string]bool{}
	for k := range L.mem {
		fields[k] = true
	}
	for k := range R.mem {
		fields[k] = true
	}
	var fks []string
	for k := range fields {
		if !strings.HasPrefix(k, "cell:") {
			fks = append(fks, k)
		}
	}
	sort.Strings(fks)
	for _, k := range fks {
		if a, b := L.memGet(k), R.memGet(k); a != b {
			return &symMismatch{what: "final contents of field " + k + " differ", l: a.String(), r: b.String(), leaf: true}
		}
	}
	if !sameDerefs(L.derefs, R.derefs) {
		var l, r []string
		for _, t := range L.derefs {
			if _, ok := R.derefs[t.id]; !ok {
				l = append(l, t.String())
			}
		}
		for _, t := range R.derefs {
			if _, ok := L.derefs[t.id]; !ok {
				r = append(r, t.String())
			}
		}
		sort.Strings(l)
		sort.Strings(r)
		return &symMismatch{what: "the sets of dereferenced pointers differ (a nil check or lazy initialisation was dropped or added)", l: strings.Join(l, ","), r: strings.Join(r, ",")}
	}
	return nil
}

// explore runs the product from st. hist is the list of cut points on the
// current path.
func (x *symExec) explore(st *symState, hist []*symVisit) symResult {
	for {
		if st.pc.infeas {
			x.tracef("infeasible path")
			return symResult{ok: true}
		}
		kL, cL := st.L.advance(st.pc)
		if kL == symStopFail {
			return symResult{mismatch: &symMismatch{what: "port: " + st.L.fail}}
		}
		kR, cR := st.R.advance(st.pc)
		if kR == symStopFail {
			return symResult{mismatch: &symMismatch{what: "reference: " + st.R.fail}}
		}
		if kL == symStopRet && kR == symStopRet {
			if m := x.outcome(st); m != nil {
				x.tracef("outcome mismatch: %v", m)
				return symResult{mismatch: m}
			}
			x.tracef("outcome equal: %v", st.L.result)
			return symResult{ok: true}
		}
		// a branch of R may have become determined by what L did? (no: the pc
		// only changes at forks) — fork on L's condition first
		cond := cL
		onL := true
		if kL != symStopIf {
			cond, onL = cR, false
		}
		key := st.L.posKey() + " || " + st.R.posKey()
		// repeated cut point on this path?
		for _, v := range hist {
			if v.key != key {
				continue
			}
			if v.gen != nil {
				if v.noReturn {
					return symResult{genKey: key, prevFail: true}
				}
				if x.inductive(v.gen, v.snap, st) {
					if v.gen.prevMode && !x.arrival(v.gen, v.snap, st) {
						return symResult{genKey: key, genSnap: nil}
					}
					x.tracef("inductive at %s", key)
					return symResult{ok: true}
				}
				return symResult{genKey: key, genSnap: nil}
			}
			return symResult{genKey: key, genSnap: st.clone()}
		}
		visit := &symVisit{key: key, snap: st.clone(), depth: len(hist)}
		res := x.fork(st, cond, onL, append(hist, visit))
		if res.genKey == "" || res.genKey != key {
			return res
		}
		// generalise here
		if res.genSnap == nil {
			return symResult{mismatch: &symMismatch{what: "loop invariant refinement escaped its cut point"}}
		}
		g := &symGen{variant: map[string]bool{}}
		s2 := res.genSnap
		b := res.genBranch
		// First choice: the generalised state stands for the 2nd, 3rd, ... visit
		// (base = second visit) and additionally knows that the previous visit
		// took branch b of this condition (the loop-exit value of a counted
		// loop follows from that); the first visit's other branch is explored
		// concretely. This needs the other branch not to lead back to the cut
		// point; otherwise the plain scheme (base = first visit) is used.
		usePrev := true
		for attempt := 0; attempt < 8; attempt++ {
			base := visit.snap
			if usePrev {
				base = s2
			}
			gs, ok := x.generalise(visit.snap, s2, g, usePrev)
			if !ok {
				return symResult{mismatch: &symMismatch{what: "the two loops are not aligned (different allocation or dereference pattern per iteration)"}}
			}
			_ = base
			gv := &symVisit{key: key, snap: gs.clone(), gen: g, depth: len(hist)}
			// the condition must be re-read from the generalised state
			run := gs.clone()
			var kk int
			var c2 *symTerm
			if onL {
				kk, c2 = run.L.advance(run.pc)
			} else {
				kk, c2 = run.R.advance(run.pc)
			}
			if usePrev {
				if kk != symStopIf || x.subst(c2, g.kappa, x.pool.intc(-1)) != cond {
					usePrev = false
					continue
				}
				// the first visit's other branch, concretely
				n := visit.snap.clone()
				n.pc.assume(cond, !b)
				if !n.pc.infeas {
					if onL {
						n.L.take(!b)
					} else {
						n.R.take(!b)
					}
					r0 := x.explore(n, append(hist, visit))
					if r0.genKey == key {
						usePrev = false // both branches lead back to the cut point
						continue
					}
					if !r0.ok {
						return r0
					}
				}
				km1 := x.pool.add(g.kappa, x.pool.intc(-1))
				run.pc.assume(x.subst(c2, g.kappa, km1), b)
				g.prevMode = true
				for _, f := range g.prevFacts {
					t := x.subst(f.term, f.kappa, g.kappa)
					run.pc.assume(x.subst(t, g.kappa, km1), f.val)
				}
				g.cands = nil
				gvNR := &symVisit{key: key, snap: gv.snap, gen: g, depth: len(hist), noReturn: true}
				var r2 symResult
				for _, branch := range []bool{b, !b} {
					n := run.clone()
					n.pc.assume(c2, branch)
					if n.pc.infeas {
						r2 = symResult{ok: true}
						continue
					}
					if onL {
						n.L.take(branch)
					} else {
						n.R.take(branch)
					}
					h := append(hist, gv)
					if branch != b {
						h = append(hist, gvNR)
					}
					r2 = x.explore(n, h)
					if !r2.ok {
						break
					}
				}
				if r2.genKey == key && r2.genSnap == nil {
					if r2.prevFail {
						usePrev = false
					}
					continue
				}
				if r2.mismatch != nil && len(g.cands) > 0 {
					// retry knowing what the previous iteration established
					g.prevFacts = append(g.prevFacts, g.cands...)
					g.cands = nil
					continue
				}
				return r2
			}
			g.prevMode = false
			if kk != symStopIf {
				// the branch became determined in the generalised state: just continue
				r2 := x.explore(run, append(hist, gv))
				if r2.genKey == key && r2.genSnap == nil {
					continue
				}
				return r2
			}
			r2 := x.fork(run, c2, onL, append(hist, gv))
			if r2.genKey == key && r2.genSnap == nil {
				continue // refined; try again
			}
			return r2
		}
		return symResult{mismatch: &symMismatch{what: "no inductive set of equalities between the two loops was found"}}
	}
}

// subst replaces the symbol `from` by `to` in t (rebuilding through the
// normalising constructors).
func (x *symExec) subst(t, from, to *symTerm) *symTerm {
	memo := map[int]*symTerm{}
	p := x.pool
	var rec func(t *symTerm) *symTerm
	rec = func(t *symTerm) *symTerm {
		if t == from {
			return to
		}
		if len(t.args) == 0 {
			return t
		}
		if r, ok := memo[t.id]; ok {
			return r
		}
		var r *symTerm
		switch t.op {
		case "lin":
			r = p.intc(t.k)
			for i, a := range t.args {
				r = p.add(r, p.scale(rec(a), t.coef[i]))
			}
		case "lt0":
			r = p.lt0(rec(t.args[0]))
		case "eq0":
			r = p.eq0(rec(t.args[0]))
		case "eq":
			r = p.eq(rec(t.args[0]), rec(t.args[1]))
		case "not":
			r = p.not(rec(t.args[0]))
		default:
			args := make([]*symTerm, len(t.args))
			for i, a := range t.args {
				args[i] = rec(a)
			}
			r = p.mk(t.op, t.aux, t.k, args, t.coef)
		}
		memo[t.id] = r
		return r
	}
	return rec(t)
}

func (x *symExec) fork(st *symState, cond *symTerm, onL bool, hist []*symVisit) symResult {
	for _, branch := range []bool{true, false} {
		n := st.clone()
		n.pc.assume(cond, branch)
		if n.pc.infeas {
			continue
		}
		// the side that is stopped at this condition takes the branch; the
		// other one re-evaluates its own condition under the new path condition
		if onL {
			n.L.take(branch)
		} else {
			n.R.take(branch)
		}
		res := x.explore(n, hist)
		if !res.ok {
			res.genBranch = branch
			return res
		}
	}
	return symResult{ok: true}
}

func (x *symExec) tracef(format string, args ...any) {
	if os.Getenv("KC_C14_TRACE") != "" {
		fmt.Fprintf(os.Stderr, "c14sym: "+format+"\n", args...)
	}
}

func derefList(m map[int]*symTerm) []string {
	var out []string
	for _, t := range m {
		out = append(out, t.String())
	}
	sort.Strings(out)
	return out
}

type symLeaf struct {
	sub string // "i" or "i/j/.."
	typ types.Type
}

// symStructLeaves: the non-struct fields of struct type t, by-value
// sub-structs flattened, in declaration order.
func symStructLeaves(t types.Type) []symLeaf {
	st, ok := deref(t).Underlying().(*types.Struct)
	if pt, isPtr := t.Underlying().(*types.Pointer); isPtr {
		st, ok = pt.Elem().Underlying().(*types.Struct)
	} else if s2, isS := t.Underlying().(*types.Struct); isS {
		st, ok = s2, true
	}
	if !ok {
		return nil
	}
	var out []symLeaf
	for i := 0; i < st.NumFields(); i++ {
		ft := st.Field(i).Type()
		if _, isStruct := ft.Underlying().(*types.Struct); isStruct {
			for _, l := range symStructLeaves(ft) {
				out = append(out, symLeaf{fmt.Sprintf("%d/%s", i, l.sub), l.typ})
			}
			continue
		}
		out = append(out, symLeaf{fmt.Sprint(i), ft})
	}
	return out
}

// structLeafKey: the memory key of leaf sub of the struct of type t at addr
// (addr is the address term of a by-value sub-struct, or a pointer to a whole object).
func (s *symSide) structLeafKey(addr *symTerm, t types.Type, sub string) string {
	if addr.op == "addr" {
		if strings.HasPrefix(addr.aux, "cell:") {
			return addr.aux + "/" + sub
		}
		return s.leafKey(addr.aux + "/" + sub)
	}
	if symIsLocal(addr) {
		return "cell:" + s.typeKey(t) + "." + sub
	}
	return s.leafKey(s.typeKey(t) + "." + sub)
}

// symIsLocal: the address of a non-escaping local variable (its memory is
// private to the activation and not part of the observable outcome).
func symIsLocal(t *symTerm) bool {
	return t.op == "alloc" && strings.HasPrefix(t.aux, "cell.")
}

// arrival is called when a path from the generalised state (2nd, 3rd, ..
// visit) returns to its cut point with state s3. It verifies that the
// assumed facts about the previous iteration were re-established by this
// one (else the fact is dropped and false is returned: retry without it) and
// collects further candidates: literals over κ assumed during this iteration
// whose κ=-1 instance is known with the same value at the second visit.
func (x *symExec) arrival(g *symGen, gs, s3 *symState) bool {
	ok := true
	var keep []symFact
	for _, f := range g.prevFacts {
		t := x.subst(f.term, f.kappa, g.kappa)
		if v, known := s3.pc.lookup(t); known && v == f.val {
			keep = append(keep, f)
			continue
		}
		if g.dead == nil {
			g.dead = map[int]bool{}
		}
		g.dead[x.factKey(f)] = true
		x.tracef("previous-iteration fact not re-established: %v", t)
		ok = false
	}
	g.prevFacts = keep
	if !ok {
		return false
	}
	minus1 := x.pool.intc(-1)
	var ids []int
	for id := range s3.pc.lits {
		if _, had := gs.pc.lits[id]; !had {
			ids = append(ids, id)
		}
	}
	sort.Ints(ids)
	for _, id := range ids {
		if id-1 >= len(x.pool.terms) {
			continue
		}
		t := x.pool.terms[id-1]
		tm1 := x.subst(t, g.kappa, minus1)
		if tm1 == t {
			continue // does not depend on κ
		}
		val := s3.pc.lits[id]
		if v0, known := gs.pc.lookup(tm1); !known || v0 != val {
			continue
		}
		f := symFact{term: t, kappa: g.kappa, val: val}
		k := x.factKey(f)
		if g.dead[k] {
			continue
		}
		dup := false
		for _, h := range append(append([]symFact{}, g.prevFacts...), g.cands...) {
			if x.factKey(h) == k {
				dup = true
			}
		}
		if !dup {
			x.tracef("candidate previous-iteration fact: %v = %v", t, val)
			g.cands = append(g.cands, f)
		}
	}
	return true
}
