package c14sec

// fixture for C14.own-storage: a container slice field must not adopt a caller's backing array

import "slices"

type bag struct {
	items []int
}

func (b *bag) GoodAppend(xs ...int) { b.items = append(b.items, xs...) }

func (b *bag) GoodConcat(xs []int) { b.items = slices.Concat(b.items, xs) }

func (b *bag) GoodCloneWhenEmpty(xs []int) {
	if len(b.items) == 0 {
		b.items = slices.Clone(xs)
		return
	}
	b.items = append(b.items, xs...)
}

func (b *bag) GoodCopyIntoFresh(xs []int) {
	buf := make([]int, len(b.items)+len(xs))
	copy(buf, b.items)
	copy(buf[len(b.items):], xs)
	b.items = buf
}

func (b *bag) BadAdopt(xs []int) { b.items = xs }

func (b *bag) BadAdoptWhenEmpty(xs ...int) {
	if len(b.items) == 0 {
		b.items = xs
		return
	}
	b.items = append(b.items, xs...)
}

func (b *bag) BadAdoptPrefix(xs []int, n int) { b.items = xs[:n:n] }

func (b *bag) BadThroughHelper(xs []int) { b.items = roomy(xs) }

func roomy(xs []int) []int { return slices.Grow(xs, 8) }
