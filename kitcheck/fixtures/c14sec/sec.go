// Package c14sec is a fixture for the C14 section rule with callee summaries
// and callback locksets (c14section.go).
package c14sec

import "sync"

type box struct {
	mu sync.RWMutex
	m  map[string]int
	n  int
}

func (b *box) lookup(k string) (int, bool) {
	b.mu.RLock()
	v, ok := b.m[k]
	b.mu.RUnlock()
	return v, ok
}

// re-checks under the write lock before inserting
func (b *box) createIfAbsent(k string) int {
	b.mu.Lock()
	defer b.mu.Unlock()
	v, ok := b.m[k]
	if !ok {
		v = 1
		b.m[k] = v
	}
	return v
}

// inserts without looking
func (b *box) create(k string) int {
	b.mu.Lock()
	defer b.mu.Unlock()
	b.m[k] = 1
	return 1
}

func (b *box) withRead(fn func()) {
	b.mu.RLock()
	defer b.mu.RUnlock()
	fn()
}

func (b *box) withReadReleasedTooEarly(fn func()) {
	b.mu.RLock()
	b.mu.RUnlock()
	fn()
}

func (b *box) length() int {
	b.mu.RLock()
	defer b.mu.RUnlock()
	return len(b.m)
}

// --- clean

func (b *box) GoodSplitHelpers(k string) int {
	if v, ok := b.lookup(k); ok {
		return v
	}
	return b.createIfAbsent(k)
}

func (b *box) GoodCallback() (n int) {
	b.withRead(func() { n = len(b.m) })
	return n
}

func (b *box) GoodEarlyReturnDefer(k string) int {
	b.mu.RLock()
	v, ok := b.m[k]
	b.mu.RUnlock()
	if ok {
		return v
	}
	b.mu.Lock()
	defer b.mu.Unlock()
	if v, ok = b.m[k]; ok {
		return v
	}
	b.m[k] = 2
	return 2
}

func (b *box) GoodUnrelatedEarlierSection(k string) int {
	if k == "" {
		b.mu.Lock()
		b.mu.Unlock()
	}
	b.mu.RLock()
	defer b.mu.RUnlock()
	return b.m[k]
}

// --- violations

func (b *box) BadSplitHelperNoRecheck(k string) int {
	if v, ok := b.lookup(k); ok {
		return v
	}
	return b.create(k)
}

func (b *box) BadCallbackAfterUnlock() (n int) {
	b.withReadReleasedTooEarly(func() { n = len(b.m) })
	return n
}

func (b *box) BadStoreThenLength(k string) int {
	b.mu.Lock()
	b.m[k] = 1
	b.mu.Unlock()
	return b.length()
}

func (b *box) BadTwoLookups(k string) int {
	v, _ := b.lookup(k)
	w, _ := b.lookup(k + "x")
	return v + w
}
