// Package c03kw: shapes of "serialise the step counter t = n*j+i and XOR it
// into a" for the counter-encoding bit-flow rule of C03.
package c03kw

import "encoding/binary"

func xor(a, b []byte) {
	for k := range a {
		a[k] ^= b[k]
	}
}

// GoodPutUint64: the RFC 3394 shape.
func GoodPutUint64(a []byte, n int) {
	for j := 0; j <= 5; j++ {
		for i := 1; i <= n; i++ {
			t := n*j + i
			tb := make([]byte, 8)
			binary.BigEndian.PutUint64(tb, uint64(t))
			xor(a, tb)
		}
	}
}

// GoodManualBytes: big-endian by hand, low four bytes (enough below 2^32).
func GoodManualBytes(a []byte, n int) {
	for j := 5; j >= 0; j-- {
		for i := n; i >= 1; i-- {
			t := uint64(n*j + i)
			a[7] ^= byte(t)
			a[6] ^= byte(t >> 8)
			a[5] ^= byte(t >> 16)
			a[4] ^= byte((t >> 24) & 0xff)
		}
	}
}

// GoodPutUint32: 32 bits into the low half.
func GoodPutUint32(a []byte, n int) {
	for j := 0; j <= 5; j++ {
		for i := 1; i <= n; i++ {
			tb := make([]byte, 8)
			binary.BigEndian.PutUint32(tb[4:], uint32(n*j+i))
			xor(a, tb)
		}
	}
}

// GoodShiftLoop: encodes with a shifting loop; not classifiable (a Phi merges
// t and t>>8) — must be UNDECIDED, never reported.
func GoodShiftLoop(a []byte, n int) {
	for j := 0; j <= 5; j++ {
		for i := 1; i <= n; i++ {
			t := uint64(n*j + i)
			for k := 7; k >= 0; k-- {
				a[k] ^= byte(t)
				t >>= 8
			}
		}
	}
}

// GoodRunningCounter: t kept as a running counter.
func GoodRunningCounter(a []byte, n int) {
	t := uint64(0)
	for j := 0; j <= 5; j++ {
		for i := 1; i <= n; i++ {
			t++
			tb := make([]byte, 8)
			binary.BigEndian.PutUint64(tb, t)
			xor(a, tb)
		}
	}
}

// BadLowByte: only the low byte of t is XORed in (differs once t > 255).
func BadLowByte(a []byte, n int) {
	for j := 0; j <= 5; j++ {
		for i := 1; i <= n; i++ {
			t := n*j + i
			a[7] ^= byte(t)
		}
	}
}

// BadUint16: 16 bits only.
func BadUint16(a []byte, n int) {
	for j := 0; j <= 5; j++ {
		for i := 1; i <= n; i++ {
			tb := make([]byte, 8)
			binary.BigEndian.PutUint16(tb[6:], uint16(n*j+i))
			xor(a, tb)
		}
	}
}

// BadLittleEndian: wrong byte order.
func BadLittleEndian(a []byte, n int) {
	for j := 0; j <= 5; j++ {
		for i := 1; i <= n; i++ {
			tb := make([]byte, 8)
			binary.LittleEndian.PutUint64(tb, uint64(n*j+i))
			xor(a, tb)
		}
	}
}

// BadTwoBytesByHand: bytes 0 and 1 only.
func BadTwoBytesByHand(a []byte, n int) {
	for j := 0; j <= 5; j++ {
		for i := 1; i <= n; i++ {
			t := n*j + i
			a[7] ^= uint8(t & 0xff)
			a[6] ^= uint8(t >> 8)
		}
	}
}
