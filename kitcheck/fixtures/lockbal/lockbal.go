// Package lockbal holds positive and negative examples for the lock-balance
// rule (lockbalance.go): analysed on every run, never executed.
package lockbal

import (
	"errors"
	"sync"
)

type box struct {
	lock   sync.RWMutex
	closed bool
	items  map[string]int
}

var errClosed = errors.New("closed")

// BadEarlyReturn: the early exit forgets the unlock (no results: the caller cannot know).
func (b *box) BadEarlyReturn(k string) {
	b.lock.Lock()
	if b.closed {
		return
	}
	b.items[k]++
	b.lock.Unlock()
}

// BadBreakToReturn: explicit unlock after the loop, early stop returns inside it.
func (b *box) BadBreakToReturn(fn func(string, int) bool) {
	b.lock.RLock()
	for k, v := range b.items {
		if !fn(k, v) {
			return
		}
	}
	b.lock.RUnlock()
}

// BadErrorExit: the error exit keeps the lock, the success exit releases it.
func (b *box) BadErrorExit(k string) error {
	b.lock.Lock()
	if b.closed {
		return errClosed
	}
	b.items[k]++
	b.lock.Unlock()
	return nil
}

// BadMergedPath: one return, reached with and without the lock.
func (b *box) BadMergedPath(k string) {
	b.lock.Lock()
	if !b.closed {
		b.items[k]++
		b.lock.Unlock()
	}
}

// BadDeferTooLate: the defer is registered after the early exit.
func (b *box) BadDeferTooLate(k string) {
	b.lock.Lock()
	if b.closed {
		return
	}
	defer b.lock.Unlock()
	b.items[k]++
}

// GoodDefer: released on every exit by the deferred call.
func (b *box) GoodDefer(k string) error {
	b.lock.Lock()
	defer b.lock.Unlock()
	if b.closed {
		return errClosed
	}
	b.items[k]++
	return nil
}

// GoodExplicit: every exit unlocks by hand.
func (b *box) GoodExplicit(k string) error {
	b.lock.Lock()
	if b.closed {
		b.lock.Unlock()
		return errClosed
	}
	b.items[k]++
	b.lock.Unlock()
	return nil
}

// GoodHandoff: returns holding the lock on every exit (the caller releases).
func (b *box) GoodHandoff() map[string]int {
	b.lock.RLock()
	return b.items
}

// GoodDeferredClosure: the deferred closure releases.
func (b *box) GoodDeferredClosure(fn func(string, int) bool) {
	b.lock.RLock()
	defer func() { b.lock.RUnlock() }()
	for k, v := range b.items {
		if !fn(k, v) {
			return
		}
	}
}

// GoodLockedHelper: a wrapper that takes the lock, defers the unlock and runs the closure.
func (b *box) GoodLockedHelper(fn func()) {
	b.lock.Lock()
	defer b.lock.Unlock()
	fn()
}

// GoodUpgrade: read section, then write section, each balanced.
func (b *box) GoodUpgrade(k string) int {
	b.lock.RLock()
	v, ok := b.items[k]
	b.lock.RUnlock()
	if ok {
		return v
	}
	b.lock.Lock()
	defer b.lock.Unlock()
	b.items[k] = 1
	return 1
}

var errBusy = errors.New("busy")

// BadErrorExitAmongSeveral: three exits — an early error without the lock, an
// error exit that keeps it, and the success exit that released it.
func (b *box) BadErrorExitAmongSeveral(k string) error {
	if k == "" {
		return errBusy
	}
	b.lock.Lock()
	if b.closed {
		return errClosed
	}
	b.items[k]++
	b.lock.Unlock()
	return nil
}
