// Package c05act is a fixture for the C05 activation rules (start guard and
// Prev/Next bookkeeping): Good* must stay silent, Bad* must be reported.
package c05act

import "time"

type Job interface{ Run() }

type Schedule interface{ Next(time.Time) time.Time }

type Entry struct {
	ID         int
	Schedule   Schedule
	Next, Prev time.Time
	WrappedJob Job
	Job        Job
}

type Cron struct {
	entries []*Entry
	loc     *time.Location
}

func (c *Cron) startJob(j Job) {
	go func() { j.Run() }()
}

func (c *Cron) now() time.Time { return time.Now().In(c.loc) }

// ---- clean idioms ----

func (c *Cron) GoodAfterForm() {
	now := c.now()
	for _, e := range c.entries {
		if e.Next.After(now) || e.Next.IsZero() {
			break
		}
		c.startJob(e.WrappedJob)
		e.Prev = e.Next
		e.Next = e.Schedule.Next(now)
	}
}

func (c *Cron) GoodNotBefore(d time.Duration) {
	now := <-time.After(d)
	for _, e := range c.entries {
		if !e.Next.IsZero() && !now.Before(e.Next) {
			c.startJob(e.Job)
			e.Prev = e.Next
			e.Next = e.Schedule.Next(now)
		}
	}
}

func (c *Cron) GoodEqualOrBefore() {
	now := time.Now()
	for i := 0; i < len(c.entries); i++ {
		e := c.entries[i]
		if e.Next.IsZero() {
			continue
		}
		if e.Next.Before(now) || e.Next.Equal(now) {
			c.startJob(e.WrappedJob)
			e.Prev = e.Next
			e.Next = e.Schedule.Next(now)
		}
	}
}

func (c *Cron) GoodCompare() {
	now := c.now()
	for _, e := range c.entries {
		if !e.Next.IsZero() && e.Next.Compare(now) <= 0 {
			c.startJob(e.WrappedJob)
			e.Prev = e.Next
			e.Next = e.Schedule.Next(now)
		}
	}
}

func (c *Cron) GoodSub() {
	now := c.now()
	for _, e := range c.entries {
		if e.Next.IsZero() || e.Next.Sub(now) > 0 {
			continue
		}
		c.startJob(e.WrappedJob)
		e.Prev = e.Next
		e.Next = e.Schedule.Next(now)
	}
}

func (c *Cron) GoodBookFirst() {
	now := c.now()
	for _, e := range c.entries {
		due := e.Next
		switch {
		case due.IsZero(), due.After(now):
			continue
		}
		e.Prev = due
		e.Next = e.Schedule.Next(now.UTC())
		c.startJob(e.WrappedJob)
	}
}

func (c *Cron) GoodViaHelper() {
	now := c.now()
	for _, e := range c.entries {
		if e.Next.After(now) || e.Next.IsZero() {
			return
		}
		c.goodFire(e, now)
	}
}

func (c *Cron) goodFire(e *Entry, now time.Time) {
	c.startJob(e.WrappedJob)
	e.Prev = e.Next
	e.Next = e.Schedule.Next(now)
}

// ---- violations ----

func (c *Cron) BadFlipped() {
	now := c.now()
	for _, e := range c.entries {
		if e.Next.Before(now) || e.Next.IsZero() {
			break
		}
		c.startJob(e.WrappedJob)
		e.Prev = e.Next
		e.Next = e.Schedule.Next(now)
	}
}

func (c *Cron) BadNoZero() {
	now := c.now()
	for _, e := range c.entries {
		if e.Next.After(now) {
			break
		}
		c.startJob(e.WrappedJob)
		e.Prev = e.Next
		e.Next = e.Schedule.Next(now)
	}
}

func (c *Cron) BadNoPrev() {
	now := c.now()
	for _, e := range c.entries {
		if e.Next.After(now) || e.Next.IsZero() {
			break
		}
		c.startJob(e.WrappedJob)
		e.Next = e.Schedule.Next(now)
	}
}

func (c *Cron) BadNextOnSomePaths(flag bool) {
	now := c.now()
	for _, e := range c.entries {
		if e.Next.After(now) || e.Next.IsZero() {
			break
		}
		c.startJob(e.WrappedJob)
		e.Prev = e.Next
		if flag {
			e.Next = e.Schedule.Next(now)
		}
	}
}

func (c *Cron) BadPrevAfterNext() {
	now := c.now()
	for _, e := range c.entries {
		if e.Next.After(now) || e.Next.IsZero() {
			break
		}
		c.startJob(e.WrappedJob)
		e.Next = e.Schedule.Next(now)
		e.Prev = e.Next
	}
}

func (c *Cron) BadSlack() {
	now := c.now()
	for _, e := range c.entries {
		if e.Next.After(now.Add(time.Second)) || e.Next.IsZero() {
			break
		}
		c.startJob(e.WrappedJob)
		e.Prev = e.Next
		e.Next = e.Schedule.Next(now)
	}
}

func (c *Cron) BadCompare() {
	now := c.now()
	for _, e := range c.entries {
		if !e.Next.IsZero() && e.Next.Compare(now) >= 0 {
			c.startJob(e.WrappedJob)
			e.Prev = e.Next
			e.Next = e.Schedule.Next(now)
		}
	}
}

func (c *Cron) BadSubSign() {
	now := c.now()
	for _, e := range c.entries {
		if e.Next.IsZero() || now.Sub(e.Next) > 0 {
			continue
		}
		c.startJob(e.WrappedJob)
		e.Prev = e.Next
		e.Next = e.Schedule.Next(now)
	}
}

func (c *Cron) BadOtherSchedule(other *Entry) {
	now := c.now()
	for _, e := range c.entries {
		if e.Next.After(now) || e.Next.IsZero() {
			break
		}
		c.startJob(e.WrappedJob)
		e.Prev = e.Next
		e.Next = other.Schedule.Next(now)
	}
}

func (c *Cron) BadNextFromPrev() {
	now := c.now()
	for _, e := range c.entries {
		if e.Next.After(now) || e.Next.IsZero() {
			break
		}
		c.startJob(e.WrappedJob)
		e.Prev = e.Next
		e.Next = e.Schedule.Next(e.Prev)
	}
}

func (c *Cron) BadGuardOnOnePath(force bool) {
	now := c.now()
	for _, e := range c.entries {
		if !force {
			if e.Next.After(now) || e.Next.IsZero() {
				break
			}
		}
		c.startJob(e.WrappedJob)
		e.Prev = e.Next
		e.Next = e.Schedule.Next(now)
	}
}

func (c *Cron) callerWithoutGuard() {
	now := c.now()
	for _, e := range c.entries {
		if e.Next.IsZero() {
			continue
		}
		c.badFire(e, now)
	}
}

func (c *Cron) badFire(e *Entry, now time.Time) {
	c.startJob(e.WrappedJob)
	e.Prev = e.Next
	e.Next = e.Schedule.Next(now)
}

func (c *Cron) BadTwice() {
	now := c.now()
	for _, e := range c.entries {
		if e.Next.After(now) || e.Next.IsZero() {
			break
		}
		c.startJob(e.WrappedJob)
		e.Prev = e.Next
		e.Next = e.Schedule.Next(now)
		c.startJob(e.Job)
	}
}

// due test that treats Next == now as not yet due: the entry is examined and skipped although due
func (c *Cron) BadSkipsExactlyDue() {
	now := c.now()
	for _, e := range c.entries {
		if e.Next.IsZero() || !e.Next.Before(now) {
			break
		}
		c.startJob(e.WrappedJob)
		e.Prev = e.Next
		e.Next = e.Schedule.Next(now)
	}
}

func (c *Cron) BadSkipsCompareGE() {
	now := c.now()
	for _, e := range c.entries {
		if e.Next.IsZero() || e.Next.Compare(now) >= 0 {
			continue
		}
		c.startJob(e.WrappedJob)
		e.Prev = e.Next
		e.Next = e.Schedule.Next(now)
	}
}

func (c *Cron) GoodSkipNowBefore() {
	now := c.now()
	for _, e := range c.entries {
		if e.Next.IsZero() || now.Before(e.Next) {
			break
		}
		c.startJob(e.WrappedJob)
		e.Prev = e.Next
		e.Next = e.Schedule.Next(now)
	}
}
