// Package c02seg holds tiny positive and negative examples for the C02 rules
// (segment decryptor: functions named *Seg; segment loop: functions named *Loop).
package c02seg

import (
	"bytes"
	"crypto/cipher"
	"encoding/binary"
	"errors"
	"fmt"
	"io"
	"sync"
)

var errFailed = errors.New("failed to decrypt segment")

var errTooLarge = errors.New("input stream is too large")

type key struct {
	aead   cipher.AEAD
	prefix []byte
}

func (k key) nonce(num uint32, last bool) []byte {
	n := make([]byte, 12)
	copy(n[0:7], k.prefix)
	binary.BigEndian.PutUint32(n[7:11], num)
	if last {
		n[11] = 1
	}
	return n
}

func lastByte(last bool) byte {
	if last {
		return 1
	}
	return 0
}

// nonce2: the flag goes through a helper.
func (k key) nonce2(num uint32, last bool) []byte {
	n := make([]byte, 12)
	copy(n, k.prefix)
	binary.BigEndian.PutUint32(n[7:], num)
	n[11] = lastByte(last)
	return n
}

// nonceSameFlag writes the same byte on both branches.
func (k key) nonceSameFlag(num uint32, last bool) []byte {
	n := make([]byte, 12)
	copy(n[0:7], k.prefix)
	binary.BigEndian.PutUint32(n[7:11], num)
	if last {
		n[11] = 0
	} else {
		n[11] = 0
	}
	return n
}

// ---- segment decryptors ----------------------------------------------------

func GoodIfSeg(k key, out io.Writer, data []byte, num uint32, last bool) error {
	if len(data) == 0 {
		return errors.New("empty")
	}
	nonce := k.nonce(num, last)
	data, err := k.aead.Open(data[:0], nonce, data, nil)
	if err != nil {
		return errFailed
	}
	_, err = out.Write(data)
	return err
}

func GoodElseSeg(k key, w io.Writer, seg []byte, idx uint32, final bool) error {
	plain, oerr := k.aead.Open(nil, k.nonce2(idx, final), seg, nil)
	if oerr == nil {
		if _, werr := w.Write(plain); werr != nil {
			return fmt.Errorf("write: %w", werr)
		}
		return nil
	}
	return oerr
}

func GoodSwitchSeg(k key, out io.Writer, data []byte, num uint32, last bool) error {
	plain, err := k.aead.Open(data[:0], k.nonce(num, last), data, nil)
	switch {
	case err != nil:
		return fmt.Errorf("segment %d: %w", num, errFailed)
	case len(plain) == 0:
		return nil
	}
	_, err = out.Write(data[:len(plain)])
	return err
}

func BadWriteFirstSeg(k key, out io.Writer, data []byte, num uint32, last bool) error {
	plain, err := k.aead.Open(data[:0], k.nonce(num, last), data, nil)
	if _, werr := out.Write(data[:len(data)-16]); werr != nil {
		return werr
	}
	if err != nil || plain == nil {
		return errFailed
	}
	return nil
}

func BadDiscardSeg(k key, out io.Writer, data []byte, num uint32, last bool) error {
	plain, _ := k.aead.Open(data[:0], k.nonce(num, last), data, nil)
	_, err := out.Write(plain)
	return err
}

func BadReturnNilSeg(k key, out io.Writer, data []byte, num uint32, last bool) error {
	plain, err := k.aead.Open(data[:0], k.nonce(num, last), data, nil)
	if err != nil {
		return nil
	}
	_, err = out.Write(plain)
	return err
}

func BadNonceNoLastSeg(k key, out io.Writer, data []byte, num uint32, last bool) error {
	plain, err := k.aead.Open(data[:0], k.nonce(num, false), data, nil)
	if err != nil {
		return errFailed
	}
	_, err = out.Write(plain)
	return err
}

func BadNonceNoNumSeg(k key, out io.Writer, data []byte, num uint32, last bool) error {
	plain, err := k.aead.Open(data[:0], k.nonce(0, last), data, nil)
	if err != nil {
		return errFailed
	}
	_, err = out.Write(plain)
	return err
}

func BadNonceSameFlagSeg(k key, out io.Writer, data []byte, num uint32, last bool) error {
	plain, err := k.aead.Open(data[:0], k.nonceSameFlag(num, last), data, nil)
	if err != nil {
		return errFailed
	}
	_, err = out.Write(plain)
	return err
}

func BadPartialSeg(k key, out io.Writer, data []byte, num uint32, last bool) error {
	plain, err := k.aead.Open(nil, k.nonce(num, last), data[1:], nil)
	if err != nil {
		return errFailed
	}
	_, err = out.Write(plain)
	return err
}

// ---- segment loops ---------------------------------------------------------

type procFn = func(out io.Writer, data []byte, num uint32, last bool) error

func GoodLoop(in io.Reader, out *io.PipeWriter, fn procFn, size int) {
	buf := make([]byte, size+1)
	var (
		err   error
		seg   uint32
		done  bool
		carry bool
		cb    byte
	)
	for !done {
		n := 0
		if carry {
			buf[0] = cb
			n = 1
			carry = false
		}
		for n < size+1 && err == nil {
			var nn int
			nn, err = in.Read(buf[n : size+1])
			n += nn
		}
		if err != nil && !errors.Is(err, io.EOF) {
			_ = out.CloseWithError(err)
			return
		}
		if n > size {
			cb = buf[n-1]
			carry = true
			n--
		} else {
			done = true
		}
		if n == 0 && seg != 0 {
			_ = out.CloseWithError(io.ErrUnexpectedEOF)
			return
		}
		err = fn(out, buf[:n], seg, done)
		if err != nil {
			_ = out.CloseWithError(fmt.Errorf("segment %d: %w", seg, err))
			return
		}
		if !done && seg == 1<<32-1 {
			_ = out.CloseWithError(errTooLarge)
			return
		}
		seg++
	}
	_ = out.Close()
}

// GoodSwitchLoop: switch-form error test, break-form exit, unwrapped error,
// err == io.EOF, deferred clean close as the fallback.
func GoodSwitchLoop(src io.Reader, pw *io.PipeWriter, process procFn, size int) {
	defer pw.Close()
	buf := make([]byte, size+1)
	have := 0
	for idx := uint32(0); ; idx++ {
		var rerr error
		for have < size+1 && rerr == nil {
			var k int
			k, rerr = src.Read(buf[have : size+1])
			have += k
		}
		switch {
		case rerr == nil, rerr == io.EOF:
		default:
			pw.CloseWithError(rerr)
			return
		}
		final := have <= size
		n := have
		if !final {
			n = size
		}
		if perr := process(pw, buf[:n], idx, final); perr != nil {
			pw.CloseWithError(perr)
			return
		}
		if final {
			break
		}
		if idx >= 1<<32-1 {
			pw.CloseWithError(errTooLarge)
			return
		}
		buf[0] = buf[size]
		have = 1
	}
}

func BadBreakLoop(in io.Reader, out *io.PipeWriter, fn procFn, size int) {
	buf := make([]byte, size+1)
	var (
		err   error
		seg   uint32
		done  bool
		carry bool
		cb    byte
	)
	for !done {
		n := 0
		if carry {
			buf[0] = cb
			n = 1
			carry = false
		}
		for n < size+1 && err == nil {
			var nn int
			nn, err = in.Read(buf[n : size+1])
			n += nn
		}
		if err != nil && !errors.Is(err, io.EOF) {
			_ = out.CloseWithError(err)
			return
		}
		if n > size {
			cb = buf[n-1]
			carry = true
			n--
		} else {
			done = true
		}
		err = fn(out, buf[:n], seg, done)
		if err != nil {
			break
		}
		seg++
	}
	_ = out.Close()
}

// BadEmptyLoop: an empty input is closed cleanly without any segment.
func BadEmptyLoop(in io.Reader, out *io.PipeWriter, fn procFn, size int) {
	buf := make([]byte, size+1)
	var (
		err   error
		seg   uint32
		done  bool
		carry bool
		cb    byte
	)
	for !done {
		n := 0
		if carry {
			buf[0] = cb
			n = 1
			carry = false
		}
		for n < size+1 && err == nil {
			var nn int
			nn, err = in.Read(buf[n : size+1])
			n += nn
		}
		if err != nil && !errors.Is(err, io.EOF) {
			_ = out.CloseWithError(err)
			return
		}
		if n > size {
			cb = buf[n-1]
			carry = true
			n--
		} else {
			done = true
		}
		if n == 0 {
			if seg != 0 {
				_ = out.CloseWithError(io.ErrUnexpectedEOF)
				return
			}
			break
		}
		err = fn(out, buf[:n], seg, done)
		if err != nil {
			_ = out.CloseWithError(err)
			return
		}
		seg++
	}
	_ = out.Close()
}

// BadAnyErrorIsEOFLoop: every source error ends the input quietly.
func BadAnyErrorIsEOFLoop(in io.Reader, out *io.PipeWriter, fn procFn, size int) {
	buf := make([]byte, size+1)
	var (
		err   error
		seg   uint32
		done  bool
		carry bool
		cb    byte
	)
	for !done {
		n := 0
		if carry {
			buf[0] = cb
			n = 1
			carry = false
		}
		for n < size+1 && err == nil {
			var nn int
			nn, err = in.Read(buf[n : size+1])
			n += nn
		}
		if n > size {
			cb = buf[n-1]
			carry = true
			n--
		} else {
			done = true
		}
		err = fn(out, buf[:n], seg, done)
		if err != nil {
			_ = out.CloseWithError(err)
			return
		}
		seg++
	}
	_ = out.Close()
}

// BadReturnLoop: leaves the pipe open when a segment is rejected.
func BadReturnLoop(in io.Reader, out *io.PipeWriter, fn procFn, size int) {
	buf := make([]byte, size+1)
	var seg uint32
	for {
		n, err := io.ReadFull(in, buf[:size])
		if err != nil && err != io.EOF && err != io.ErrUnexpectedEOF {
			_ = out.CloseWithError(err)
			return
		}
		last := err != nil
		if perr := fn(out, buf[:n], seg, last); perr != nil {
			return
		}
		seg++
		if last {
			break
		}
	}
	_ = out.Close()
}

// BadConstLastLoop: never marks a segment as final.
func BadConstLastLoop(in io.Reader, out *io.PipeWriter, fn procFn, size int) {
	buf := make([]byte, size+1)
	var seg uint32
	for {
		n, err := io.ReadFull(in, buf[:size])
		if err != nil && err != io.EOF && err != io.ErrUnexpectedEOF {
			_ = out.CloseWithError(err)
			return
		}
		if perr := fn(out, buf[:n], seg, false); perr != nil {
			_ = out.CloseWithError(perr)
			return
		}
		seg++
		if err != nil {
			break
		}
	}
	_ = out.Close()
}

// BadNoCounterLoop: every segment is number 0.
func BadNoCounterLoop(in io.Reader, out *io.PipeWriter, fn procFn, size int) {
	buf := make([]byte, size+1)
	var seg uint32
	for {
		n, err := io.ReadFull(in, buf[:size])
		if err != nil && err != io.EOF && err != io.ErrUnexpectedEOF {
			_ = out.CloseWithError(err)
			return
		}
		last := err != nil
		if perr := fn(out, buf[:n], seg, last); perr != nil {
			_ = out.CloseWithError(perr)
			return
		}
		if last {
			break
		}
	}
	_ = out.Close()
}

// BadReadFullLoop: everything right except that io.ErrUnexpectedEOF (which io.ReadFull
// cannot tell from a failing source) is treated as end of input.
func BadReadFullLoop(in io.Reader, out *io.PipeWriter, fn procFn, size int) {
	buf := make([]byte, size+1)
	var seg uint32
	for {
		n, err := io.ReadFull(in, buf[:size])
		if err != nil && err != io.EOF && err != io.ErrUnexpectedEOF {
			_ = out.CloseWithError(err)
			return
		}
		last := err != nil
		if perr := fn(out, buf[:n], seg, last); perr != nil {
			_ = out.CloseWithError(perr)
			return
		}
		seg++
		if last {
			break
		}
	}
	_ = out.Close()
}

// GoodCommonReturnSeg: single exit returning whichever error occurred.
func GoodCommonReturnSeg(k key, out io.Writer, data []byte, num uint32, last bool) error {
	plain, err := k.aead.Open(data[:0], k.nonce(num, last), data, nil)
	if err == nil {
		_, err = out.Write(plain)
	}
	return err
}

// BadCommonReturnSeg: the failure is replaced by nil before the common exit.
func BadCommonReturnSeg(k key, out io.Writer, data []byte, num uint32, last bool) error {
	var res error
	plain, err := k.aead.Open(data[:0], k.nonce(num, last), data, nil)
	if err == nil {
		_, res = out.Write(plain)
	}
	return res
}

// BadWeakenedCheckSeg: the failure of the final segment is ignored.
func BadWeakenedCheckSeg(k key, out io.Writer, data []byte, num uint32, last bool) error {
	plain, err := k.aead.Open(data[:0], k.nonce(num, last), data, nil)
	if err != nil && !last {
		return errFailed
	}
	_, err = out.Write(plain)
	return err
}

// ---- nonce layouts ---------------------------------------------------------

// nonceHand: hand-rolled big-endian counter, done right.
func (k key) nonceHand(num uint32, last bool) []byte {
	n := make([]byte, 12)
	copy(n[:7], k.prefix)
	n[7] = byte(num >> 24)
	n[8] = uint8(num>>16) & 0xff
	n[9] = byte(uint64(num) >> 8)
	n[10] = byte(num)
	n[len(n)-1] = lastByte(last)
	return n
}

// nonceDup: the second byte repeats num>>24 (num>>16 never stored).
func (k key) nonceDup(num uint32, last bool) []byte {
	n := make([]byte, 12)
	copy(n[:7], k.prefix)
	n[7] = byte(num >> 24)
	n[8] = byte(num >> 24)
	n[9] = byte(num >> 8)
	n[10] = byte(num)
	n[11] = lastByte(last)
	return n
}

// nonceSameOffset: two counter bytes land on the same offset.
func (k key) nonceSameOffset(num uint32, last bool) []byte {
	n := make([]byte, 12)
	copy(n[:7], k.prefix)
	n[7] = byte(num >> 24)
	n[8] = byte(num >> 16)
	n[9] = byte(num >> 8)
	n[9] = byte(num)
	n[11] = lastByte(last)
	return n
}

// nonceFlagOverlap: the finality byte overwrites the low counter byte.
func (k key) nonceFlagOverlap(num uint32, last bool) []byte {
	n := make([]byte, 12)
	copy(n[:7], k.prefix)
	binary.BigEndian.PutUint32(n[8:12], num)
	if last {
		n[11] = 1
	} else {
		n[11] = 0
	}
	return n
}

// noncePrefixAfter: the prefix is copied after the counter and covers it.
func (k key) noncePrefixAfter(num uint32, last bool) []byte {
	n := make([]byte, 12)
	binary.LittleEndian.PutUint32(n[4:8], num)
	copy(n[0:7], k.prefix)
	n[11] = lastByte(last)
	return n
}

func GoodHandRolledNonceSeg(k key, out io.Writer, data []byte, num uint32, last bool) error {
	plain, err := k.aead.Open(data[:0], k.nonceHand(num, last), data, nil)
	if err != nil {
		return errFailed
	}
	_, err = out.Write(plain)
	return err
}

func BadNonceDupShiftSeg(k key, out io.Writer, data []byte, num uint32, last bool) error {
	plain, err := k.aead.Open(data[:0], k.nonceDup(num, last), data, nil)
	if err != nil {
		return errFailed
	}
	_, err = out.Write(plain)
	return err
}

func BadNonceSameOffsetSeg(k key, out io.Writer, data []byte, num uint32, last bool) error {
	plain, err := k.aead.Open(data[:0], k.nonceSameOffset(num, last), data, nil)
	if err != nil {
		return errFailed
	}
	_, err = out.Write(plain)
	return err
}

func BadNonceFlagOverlapSeg(k key, out io.Writer, data []byte, num uint32, last bool) error {
	plain, err := k.aead.Open(data[:0], k.nonceFlagOverlap(num, last), data, nil)
	if err != nil {
		return errFailed
	}
	_, err = out.Write(plain)
	return err
}

func BadNoncePrefixAfterSeg(k key, out io.Writer, data []byte, num uint32, last bool) error {
	plain, err := k.aead.Open(data[:0], k.noncePrefixAfter(num, last), data, nil)
	if err != nil {
		return errFailed
	}
	_, err = out.Write(plain)
	return err
}

// ---- success without authentication ---------------------------------------

// BadEarlyNilSeg: a stub not longer than the tag is skipped with a nil error.
func BadEarlyNilSeg(k key, out io.Writer, data []byte, num uint32, last bool) error {
	if len(data) <= k.aead.Overhead() {
		return nil
	}
	plain, err := k.aead.Open(data[:0], k.nonce(num, last), data, nil)
	if err != nil {
		return errFailed
	}
	_, err = out.Write(plain)
	return err
}

// GoodShortIsErrorSeg: the same early exit, reporting an error.
func GoodShortIsErrorSeg(k key, out io.Writer, data []byte, num uint32, last bool) error {
	if len(data) < k.aead.Overhead() {
		return fmt.Errorf("segment of %d bytes is shorter than the tag", len(data))
	}
	plain, err := k.aead.Open(data[:0], k.nonce(num, last), data, nil)
	if err != nil {
		return errFailed
	}
	if len(plain) == 0 {
		return nil
	}
	_, err = out.Write(plain)
	return err
}

// ---- counter range ---------------------------------------------------------

// BadNoGuardLoop: uint32 counter without an overflow guard (wraps after 2^32 segments).
func BadNoGuardLoop(src io.Reader, pw *io.PipeWriter, process procFn, size int) {
	buf := make([]byte, size+1)
	have := 0
	var idx uint32
	for {
		var rerr error
		for have < size+1 && rerr == nil {
			var k int
			k, rerr = src.Read(buf[have : size+1])
			have += k
		}
		if rerr != nil && rerr != io.EOF {
			pw.CloseWithError(rerr)
			return
		}
		final := have <= size
		n := have
		if !final {
			n = size
		}
		if perr := process(pw, buf[:n], idx, final); perr != nil {
			pw.CloseWithError(perr)
			return
		}
		if final {
			break
		}
		idx++
		buf[0] = buf[size]
		have = 1
	}
	pw.Close()
}

// BadWideCounterLoop: 64-bit counter truncated at the call, no bound.
func BadWideCounterLoop(src io.Reader, pw *io.PipeWriter, process procFn, size int) {
	buf := make([]byte, size+1)
	have := 0
	var idx uint64
	for {
		var rerr error
		for have < size+1 && rerr == nil {
			var k int
			k, rerr = src.Read(buf[have : size+1])
			have += k
		}
		if rerr != nil && rerr != io.EOF {
			pw.CloseWithError(rerr)
			return
		}
		final := have <= size
		n := have
		if !final {
			n = size
		}
		if perr := process(pw, buf[:n], uint32(idx), final); perr != nil {
			pw.CloseWithError(perr)
			return
		}
		if final {
			break
		}
		idx++
		buf[0] = buf[size]
		have = 1
	}
	pw.Close()
}

// BadWideLateGuardLoop: the bound lets 2^32 itself through (truncates to 0).
func BadWideLateGuardLoop(src io.Reader, pw *io.PipeWriter, process procFn, size int) {
	buf := make([]byte, size+1)
	have := 0
	var idx uint64
	for {
		var rerr error
		for have < size+1 && rerr == nil {
			var k int
			k, rerr = src.Read(buf[have : size+1])
			have += k
		}
		if rerr != nil && rerr != io.EOF {
			pw.CloseWithError(rerr)
			return
		}
		final := have <= size
		n := have
		if !final {
			n = size
		}
		if perr := process(pw, buf[:n], uint32(idx), final); perr != nil {
			pw.CloseWithError(perr)
			return
		}
		if final {
			break
		}
		if idx > 1<<32-1 {
			pw.CloseWithError(errTooLarge)
			return
		}
		idx++
		buf[0] = buf[size]
		have = 1
	}
	pw.Close()
}

// GoodWideGuardLoop: 64-bit counter, bounded before the increment.
func GoodWideGuardLoop(src io.Reader, pw *io.PipeWriter, process procFn, size int) {
	buf := make([]byte, size+1)
	have := 0
	var idx uint64
	for {
		var rerr error
		for have < size+1 && rerr == nil {
			var k int
			k, rerr = src.Read(buf[have : size+1])
			have += k
		}
		if rerr != nil && rerr != io.EOF {
			pw.CloseWithError(rerr)
			return
		}
		final := have <= size
		n := have
		if !final {
			n = size
		}
		if perr := process(pw, buf[:n], uint32(idx), final); perr != nil {
			pw.CloseWithError(perr)
			return
		}
		if final {
			break
		}
		if idx+1 > 1<<32-1 {
			pw.CloseWithError(errTooLarge)
			return
		}
		idx++
		buf[0] = buf[size]
		have = 1
	}
	pw.Close()
}

// ---- header readers --------------------------------------------------------

// GoodHeader: reads one line; a non-EOF error is returned even when the line is complete.
func GoodHeader(in *io.Reader) (line []byte, err error) {
	buf := make([]byte, 512)
	defer func() { buf = nil }()
	n, end := 0, -1
	for end < 0 && err == nil {
		var nn int
		nn, err = (*in).Read(buf[n:])
		n += nn
		end = bytes.IndexByte(buf[:n], '\n')
	}
	if end < 0 {
		return nil, errors.New("header not found")
	}
	if err != nil && !errors.Is(err, io.EOF) {
		return nil, err
	}
	if n > end+1 {
		extra := bytes.Clone(buf[end+1 : n])
		*in = io.MultiReader(bytes.NewReader(extra), *in)
	}
	return bytes.Clone(buf[:end]), nil
}

// GoodDropAtEOFHeader: the exhausted source may be dropped.
func GoodDropAtEOFHeader(in *io.Reader) ([]byte, error) {
	buf := make([]byte, 512)
	n, end := 0, -1
	var err error
	for end < 0 && err == nil {
		var nn int
		nn, err = (*in).Read(buf[n:])
		n += nn
		end = bytes.IndexByte(buf[:n], '\n')
	}
	if end < 0 {
		return nil, errors.New("header not found")
	}
	switch {
	case err == nil:
		*in = io.MultiReader(bytes.NewReader(bytes.Clone(buf[end+1:n])), *in)
	case err == io.EOF:
		*in = bytes.NewReader(bytes.Clone(buf[end+1 : n]))
	default:
		return nil, fmt.Errorf("reading header: %w", err)
	}
	return bytes.Clone(buf[:end]), nil
}

// BadDropErrHeader: an error that arrives with the end of the line is forgotten.
func BadDropErrHeader(in *io.Reader) (line []byte, err error) {
	buf := make([]byte, 512)
	defer func() { buf = nil }()
	n, end := 0, -1
	for end < 0 && err == nil {
		var nn int
		nn, err = (*in).Read(buf[n:])
		n += nn
		end = bytes.IndexByte(buf[:n], '\n')
	}
	if end < 0 {
		return nil, errors.New("header not found")
	}
	if n > end+1 {
		extra := bytes.Clone(buf[end+1 : n])
		*in = io.MultiReader(bytes.NewReader(extra), *in)
	}
	return bytes.Clone(buf[:end]), nil
}

// BadDropSourceHeader: any error is taken for "source exhausted".
func BadDropSourceHeader(in *io.Reader) ([]byte, error) {
	buf := make([]byte, 512)
	n, end := 0, -1
	var err error
	for end < 0 && err == nil {
		var nn int
		nn, err = (*in).Read(buf[n:])
		n += nn
		end = bytes.IndexByte(buf[:n], '\n')
	}
	if end < 0 {
		return nil, errors.New("header not found")
	}
	extra := bytes.Clone(buf[end+1 : n])
	if err != nil {
		*in = bytes.NewReader(extra)
	} else {
		*in = io.MultiReader(bytes.NewReader(extra), *in)
	}
	return bytes.Clone(buf[:end]), nil
}

// BadAlwaysDropSourceHeader: errors are returned, but the source is dropped even when it has more to give.
func BadAlwaysDropSourceHeader(in *io.Reader) ([]byte, error) {
	buf := make([]byte, 512)
	n, end := 0, -1
	var err error
	for end < 0 && err == nil {
		var nn int
		nn, err = (*in).Read(buf[n:])
		n += nn
		end = bytes.IndexByte(buf[:n], '\n')
	}
	if err != nil && err != io.EOF {
		return nil, err
	}
	if end < 0 {
		return nil, errors.New("header not found")
	}
	*in = bytes.NewReader(bytes.Clone(buf[end+1 : n]))
	return bytes.Clone(buf[:end]), nil
}

// ---- helpers followed by the rules ----------------------------------------

// openWith authenticates in a helper and returns the plaintext.
func openWith(k key, data []byte, num uint32, last bool) ([]byte, error) {
	plain, err := k.aead.Open(data[:0], k.nonce(num, last), data, nil)
	if err != nil {
		return nil, errFailed
	}
	return plain, nil
}

// openOrSkip reports success for a stub without authenticating it.
func openOrSkip(k key, data []byte, num uint32, last bool) ([]byte, error) {
	if len(data) <= 16 {
		return nil, nil
	}
	plain, err := k.aead.Open(data[:0], k.nonce(num, last), data, nil)
	if err != nil {
		return nil, errFailed
	}
	return plain, nil
}

func GoodHelperOpenSeg(k key, out io.Writer, data []byte, num uint32, last bool) error {
	plain, err := openWith(k, data, num, last)
	if err != nil {
		return err
	}
	_, err = out.Write(plain)
	return err
}

func BadHelperOpenSkipSeg(k key, out io.Writer, data []byte, num uint32, last bool) error {
	plain, err := openOrSkip(k, data, num, last)
	if err != nil {
		return err
	}
	_, err = out.Write(plain)
	return err
}

// cipherAndNonce returns the nonce out of a tuple.
func cipherAndNonce(k key, num uint32, last bool) (cipher.AEAD, []byte, error) {
	if k.aead == nil {
		return nil, nil, errors.New("no cipher")
	}
	return k.aead, k.nonce(num, last), nil
}

func GoodTupleNonceSeg(k key, out io.Writer, data []byte, num uint32, last bool) error {
	aead, nonce, err := cipherAndNonce(k, num, last)
	if err != nil {
		return err
	}
	plain, err := aead.Open(data[:0], nonce, data, nil)
	if err != nil {
		return errFailed
	}
	_, err = out.Write(plain)
	return err
}

// GoodInlineNonceSeg builds the nonce in place.
func GoodInlineNonceSeg(k key, out io.Writer, data []byte, num uint32, last bool) error {
	n := make([]byte, 12)
	copy(n[:7], k.prefix)
	binary.BigEndian.PutUint32(n[7:11], num)
	if last {
		n[11] = 1
	}
	plain, err := k.aead.Open(data[:0], n, data, nil)
	if err != nil {
		return errFailed
	}
	_, err = out.Write(plain)
	return err
}

// fillOK reads a segment plus the look-ahead byte; EOF is not an error.
func fillOK(in io.Reader, dst []byte, n int) (int, error) {
	var err error
	for n < len(dst) && err == nil {
		var k int
		k, err = in.Read(dst[n:])
		n += k
	}
	if err != nil && !errors.Is(err, io.EOF) {
		return n, err
	}
	return n, nil
}

// fillLossy forgets the error when it has data.
func fillLossy(in io.Reader, dst []byte, n int) (int, error) {
	var err error
	for n < len(dst) && err == nil {
		var k int
		k, err = in.Read(dst[n:])
		n += k
	}
	if err != nil && !errors.Is(err, io.EOF) && n == 0 {
		return n, err
	}
	return n, nil
}

func fail(pw *io.PipeWriter, err error) { _ = pw.CloseWithError(err) }

func failQuietly(pw *io.PipeWriter, err error) {
	_ = err
	_ = pw.Close()
}

func isFatal(err error) bool { return err != nil && !errors.Is(err, io.EOF) }

// GoodHelpersLoop: read helper, close helper, deferred clean close.
func GoodHelpersLoop(src io.Reader, pw *io.PipeWriter, process procFn, size int) {
	defer pw.Close()
	buf := make([]byte, size+1)
	have := 0
	for idx := uint32(0); ; idx++ {
		var err error
		have, err = fillOK(src, buf, have)
		if err != nil {
			fail(pw, err)
			return
		}
		final := have <= size
		n := have
		if !final {
			n = size
		}
		if perr := process(pw, buf[:n], idx, final); perr != nil {
			fail(pw, fmt.Errorf("segment %d: %w", idx, perr))
			return
		}
		if final {
			return
		}
		if idx == 1<<32-1 {
			fail(pw, errTooLarge)
			return
		}
		buf[0] = buf[size]
		have = 1
	}
}

func BadLossyReadHelperLoop(src io.Reader, pw *io.PipeWriter, process procFn, size int) {
	defer pw.Close()
	buf := make([]byte, size+1)
	have := 0
	for idx := uint32(0); ; idx++ {
		var err error
		have, err = fillLossy(src, buf, have)
		if err != nil {
			fail(pw, err)
			return
		}
		final := have <= size
		n := have
		if !final {
			n = size
		}
		if perr := process(pw, buf[:n], idx, final); perr != nil {
			fail(pw, perr)
			return
		}
		if final {
			return
		}
		if idx == 1<<32-1 {
			fail(pw, errTooLarge)
			return
		}
		buf[0] = buf[size]
		have = 1
	}
}

func BadQuietCloseHelperLoop(src io.Reader, pw *io.PipeWriter, process procFn, size int) {
	buf := make([]byte, size+1)
	have := 0
	for idx := uint32(0); ; idx++ {
		var rerr error
		for have < size+1 && rerr == nil {
			var k int
			k, rerr = src.Read(buf[have : size+1])
			have += k
		}
		if isFatal(rerr) {
			failQuietly(pw, rerr)
			return
		}
		final := have <= size
		n := have
		if !final {
			n = size
		}
		if perr := process(pw, buf[:n], idx, final); perr != nil {
			fail(pw, perr)
			return
		}
		if final {
			break
		}
		if idx == 1<<32-1 {
			fail(pw, errTooLarge)
			return
		}
		buf[0] = buf[size]
		have = 1
	}
	pw.Close()
}

// GoodReturnsErrLoop reports its outcome to its caller, which closes the pipe.
func GoodReturnsErrLoop(src io.Reader, w io.Writer, process procFn, size int) error {
	buf := make([]byte, size+1)
	have := 0
	for idx := uint32(0); ; idx++ {
		var rerr error
		for have < size+1 && rerr == nil {
			var k int
			k, rerr = src.Read(buf[have : size+1])
			have += k
		}
		if isFatal(rerr) {
			return rerr
		}
		final := have <= size
		n := have
		if !final {
			n = size
		}
		if perr := process(w, buf[:n], idx, final); perr != nil {
			return fmt.Errorf("segment %d: %w", idx, perr)
		}
		if final {
			return nil
		}
		if idx == 1<<32-1 {
			return errTooLarge
		}
		buf[0] = buf[size]
		have = 1
	}
}

func driveReturnsErr(src io.Reader, pw *io.PipeWriter, process procFn, size int) {
	if err := GoodReturnsErrLoop(src, pw, process, size); err != nil {
		_ = pw.CloseWithError(err)
		return
	}
	_ = pw.Close()
}

// GoodReturnsErr2Loop is fine itself; its caller below ignores the outcome.
func GoodReturnsErr2Loop(src io.Reader, w io.Writer, process procFn, size int) error {
	buf := make([]byte, size+1)
	have := 0
	for idx := uint32(0); ; idx++ {
		var rerr error
		for have < size+1 && rerr == nil {
			var k int
			k, rerr = src.Read(buf[have : size+1])
			have += k
		}
		if isFatal(rerr) {
			return rerr
		}
		final := have <= size
		n := have
		if !final {
			n = size
		}
		if perr := process(w, buf[:n], idx, final); perr != nil {
			return perr
		}
		if final {
			return nil
		}
		if idx == 1<<32-1 {
			return errTooLarge
		}
		buf[0] = buf[size]
		have = 1
	}
}

func BadIgnoresLoopOutcome(src io.Reader, pw *io.PipeWriter, process procFn, size int) {
	_ = GoodReturnsErr2Loop(src, pw, process, size)
	_ = pw.Close()
}

// ---- authentication reported through an ok flag ----------------------------

func tryOpen(k key, data []byte, num uint32, last bool) ([]byte, bool) {
	plain, err := k.aead.Open(data[:0], k.nonce(num, last), data, nil)
	if err != nil {
		return nil, false
	}
	return plain, true
}

// tryOpenLax says ok for a stub it never authenticated.
func tryOpenLax(k key, data []byte, num uint32, last bool) ([]byte, bool) {
	if len(data) <= 16 {
		return nil, true
	}
	plain, err := k.aead.Open(data[:0], k.nonce(num, last), data, nil)
	return plain, err == nil
}

func GoodOkFlagSeg(k key, out io.Writer, data []byte, num uint32, last bool) error {
	plain, ok := tryOpen(k, data, num, last)
	if !ok {
		return errFailed
	}
	_, err := out.Write(plain)
	return err
}

func BadOkFlagIgnoredSeg(k key, out io.Writer, data []byte, num uint32, last bool) error {
	plain, _ := tryOpen(k, data, num, last)
	_, err := out.Write(plain)
	return err
}

func BadOkFlagLaxSeg(k key, out io.Writer, data []byte, num uint32, last bool) error {
	plain, ok := tryOpenLax(k, data, num, last)
	if !ok {
		return errFailed
	}
	_, err := out.Write(plain)
	return err
}

// tryOpen2 computes its ok flag from the error.
func tryOpen2(k key, data []byte, num uint32, last bool) ([]byte, bool) {
	plain, err := k.aead.Open(data[:0], k.nonce(num, last), data, nil)
	return plain, err == nil
}

func GoodOkFlagExprSeg(k key, out io.Writer, data []byte, num uint32, last bool) error {
	if plain, ok := tryOpen2(k, data, num, last); ok {
		_, err := out.Write(plain)
		return err
	}
	return errFailed
}

// ---- pooled segment buffer ---------------------------------------------------

var segPool = sync.Pool{New: func() any { b := make([]byte, 1<<16+17); return &b }}

// GoodPooledLoop takes its buffer from a pool and gives it back once, by a deferred closure.
func GoodPooledLoop(src io.Reader, pw *io.PipeWriter, process procFn, size int) {
	bp := segPool.Get().(*[]byte)
	defer func() {
		segPool.Put(bp)
	}()
	buf := *bp
	have := 0
	for idx := uint32(0); ; idx++ {
		var rerr error
		for have < size+1 && rerr == nil {
			var k int
			k, rerr = src.Read(buf[have : size+1])
			have += k
		}
		if rerr != nil && rerr != io.EOF {
			pw.CloseWithError(rerr)
			return
		}
		final := have <= size
		n := have
		if !final {
			n = size
		}
		if perr := process(pw, buf[:n], idx, final); perr != nil {
			pw.CloseWithError(perr)
			return
		}
		if final {
			break
		}
		if idx >= 1<<32-1 {
			pw.CloseWithError(errTooLarge)
			return
		}
		buf[0] = buf[size]
		have = 1
	}
	pw.Close()
}

// BadDoublePutLoop gives the buffer back explicitly before the final close although the deferred release still runs.
func BadDoublePutLoop(src io.Reader, pw *io.PipeWriter, process procFn, size int) {
	bp := segPool.Get().(*[]byte)
	defer segPool.Put(bp)
	buf := *bp
	have := 0
	for idx := uint32(0); ; idx++ {
		var rerr error
		for have < size+1 && rerr == nil {
			var k int
			k, rerr = src.Read(buf[have : size+1])
			have += k
		}
		if rerr != nil && rerr != io.EOF {
			pw.CloseWithError(rerr)
			return
		}
		final := have <= size
		n := have
		if !final {
			n = size
		}
		if perr := process(pw, buf[:n], idx, final); perr != nil {
			pw.CloseWithError(perr)
			return
		}
		if final {
			break
		}
		if idx >= 1<<32-1 {
			pw.CloseWithError(errTooLarge)
			return
		}
		buf[0] = buf[size]
		have = 1
	}
	segPool.Put(bp)
	pw.Close()
}

// ---- over-read bytes of the header phase ---------------------------------------

// GoodPushBackHeader puts back whatever was read beyond the line.
func GoodPushBackHeader(in *io.Reader) (line []byte, err error) {
	buf := make([]byte, 512)
	n, nn, end := 0, 0, -1
	for end < 0 && err == nil {
		nn, err = (*in).Read(buf[n:])
		n += nn
		end = bytes.IndexByte(buf[:n], '\n')
	}
	if end < 0 {
		return nil, errors.New("header not found")
	}
	if err != nil && !errors.Is(err, io.EOF) {
		return nil, err
	}
	start := end + 1
	if n-start > 0 {
		*in = io.MultiReader(bytes.NewReader(bytes.Clone(buf[start:n])), *in)
	}
	return bytes.Clone(buf[:end]), nil
}

// BadPushBackLastReadHeader decides on the size of the last read whether anything is left.
func BadPushBackLastReadHeader(in *io.Reader) (line []byte, err error) {
	buf := make([]byte, 512)
	n, nn, end := 0, 0, -1
	for end < 0 && err == nil {
		nn, err = (*in).Read(buf[n:])
		n += nn
		end = bytes.IndexByte(buf[:n], '\n')
	}
	if end < 0 {
		return nil, errors.New("header not found")
	}
	if err != nil && !errors.Is(err, io.EOF) {
		return nil, err
	}
	start := end + 1
	if nn > start {
		*in = io.MultiReader(bytes.NewReader(bytes.Clone(buf[start:n])), *in)
	}
	return bytes.Clone(buf[:end]), nil
}
