// Package c06exit: fixture for the atomic-exit typestate (queue-empty
// observation and token release in one critical section).
package c06exit

import "sync"

type proc struct {
	mu      sync.Mutex
	running chan struct{}
	stop    chan struct{}
	items   []int
}

func (p *proc) Peek() (int, bool) {
	if len(p.items) == 0 {
		return 0, false
	}
	return p.items[0], true
}

func (p *proc) GoodLoop() {
	for {
		p.mu.Lock()
		_, ok := p.Peek()
		if !ok {
			<-p.running
			p.mu.Unlock()
			return
		}
		p.mu.Unlock()
		select {
		case <-p.stop:
			<-p.running
			return
		default:
		}
	}
}

func (p *proc) BadLoopDeferred() {
	defer func() { <-p.running }()
	for {
		p.mu.Lock()
		_, ok := p.Peek()
		p.mu.Unlock()
		if !ok {
			return
		}
	}
}

func (p *proc) BadLoopUnlockFirst() {
	for {
		p.mu.Lock()
		_, ok := p.Peek()
		if !ok {
			p.mu.Unlock()
			<-p.running
			return
		}
		p.mu.Unlock()
	}
}

func (p *proc) BadLoopDoubleRelease() {
	defer func() { <-p.running }()
	for {
		p.mu.Lock()
		_, ok := p.Peek()
		if !ok {
			<-p.running
			p.mu.Unlock()
			return
		}
		p.mu.Unlock()
	}
}

// ---- the same shapes with the events in helpers, closures and deferred calls

func (p *proc) release() { <-p.running }

func (p *proc) peekOrRelease() (int, bool) {
	p.mu.Lock()
	defer p.mu.Unlock()
	v, ok := p.Peek()
	if !ok {
		p.release()
	}
	return v, ok
}

func (p *proc) peekUnlocked() (int, bool) {
	p.mu.Lock()
	v, ok := p.Peek()
	p.mu.Unlock()
	return v, ok
}

func (p *proc) withLock(fn func()) {
	p.mu.Lock()
	defer p.mu.Unlock()
	fn()
}

func (p *proc) GoodLoopHelpers() {
	for {
		_, ok := p.peekOrRelease()
		if !ok {
			return
		}
		select {
		case <-p.stop:
			p.release()
			return
		default:
		}
	}
}

func (p *proc) GoodLoopFlagDefer() {
	released := false
	defer func() {
		if !released {
			<-p.running
		}
	}()
	for {
		p.mu.Lock()
		_, ok := p.Peek()
		if !ok {
			<-p.running
			released = true
			p.mu.Unlock()
			return
		}
		p.mu.Unlock()
		select {
		case <-p.stop:
			return
		default:
		}
	}
}

func (p *proc) GoodLoopClosure() {
	for {
		var ok bool
		p.withLock(func() {
			_, ok = p.Peek()
			if !ok {
				<-p.running
			}
		})
		if ok == false {
			return
		}
	}
}

func (p *proc) BadLoopHelperUnlockFirst() {
	for {
		_, ok := p.peekUnlocked()
		if !ok {
			p.release()
			return
		}
	}
}

func (p *proc) BadLoopHelperForgetsRelease() {
	for {
		_, ok := p.peekOrRelease()
		if !ok {
			return
		}
		select {
		case <-p.stop:
			return
		default:
		}
	}
}

func (p *proc) BadLoopClosureReleaseOutside() {
	for {
		var ok bool
		p.withLock(func() {
			_, ok = p.Peek()
		})
		if !ok {
			<-p.running
			return
		}
	}
}
