// Package c06exit: fixture for the atomic-exit typestate (queue-empty
// observation and token release in one critical section).
package c06exit

import "sync"

type proc struct {
	mu      sync.Mutex
	running chan struct{}
	stop    chan struct{}
	items   []int
}

func (p *proc) Peek() (int, bool) {
	if len(p.items) == 0 {
		return 0, false
	}
	return p.items[0], true
}

func (p *proc) GoodLoop() {
	for {
		p.mu.Lock()
		_, ok := p.Peek()
		if !ok {
			<-p.running
			p.mu.Unlock()
			return
		}
		p.mu.Unlock()
		select {
		case <-p.stop:
			<-p.running
			return
		default:
		}
	}
}

func (p *proc) BadLoopDeferred() {
	defer func() { <-p.running }()
	for {
		p.mu.Lock()
		_, ok := p.Peek()
		p.mu.Unlock()
		if !ok {
			return
		}
	}
}

func (p *proc) BadLoopUnlockFirst() {
	for {
		p.mu.Lock()
		_, ok := p.Peek()
		if !ok {
			p.mu.Unlock()
			<-p.running
			return
		}
		p.mu.Unlock()
	}
}

func (p *proc) BadLoopDoubleRelease() {
	defer func() { <-p.running }()
	for {
		p.mu.Lock()
		_, ok := p.Peek()
		if !ok {
			<-p.running
			p.mu.Unlock()
			return
		}
		p.mu.Unlock()
	}
}
