// Package c12flow is a fixture for the C12 helper rules: worker goroutines
// that must report exactly once, started==collected counting, and a flag
// that must be tested under the lock that protects the guarded append.
package c12flow

import (
	"errors"
	"sync"
	"sync/atomic"
)

type mgr struct {
	mu      sync.Mutex
	closing atomic.Bool
	items   []func() error
	tasks   []func() error
	started atomic.Bool
}

// --- spawn / collect ---

func (m *mgr) GoodCollect() error {
	ch := make(chan error)
	for _, t := range m.tasks {
		go func(t func() error) {
			ch <- t()
		}(t)
	}
	var errs []error
	for i := 0; i < len(m.tasks); i++ {
		if err := <-ch; err != nil {
			errs = append(errs, err)
		}
	}
	return errors.Join(errs...)
}

func (m *mgr) GoodCollectSwitchRange() error {
	ch := make(chan error)
	for _, t := range m.tasks {
		go func(t func() error) {
			err := t()
			switch {
			case err == nil:
				ch <- nil
			default:
				ch <- err
			}
		}(t)
	}
	var errs []error
	for range m.tasks {
		errs = append(errs, <-ch)
	}
	return errors.Join(errs...)
}

func (m *mgr) BadCollectShort() error {
	ch := make(chan error)
	for _, t := range m.tasks {
		go func(t func() error) {
			ch <- t()
		}(t)
	}
	var errs []error
	for i := 1; i < len(m.tasks); i++ {
		errs = append(errs, <-ch)
	}
	return errors.Join(errs...)
}

func (m *mgr) BadEarlyReturn() error {
	ch := make(chan error)
	for _, t := range m.tasks {
		go func(t func() error) {
			ch <- t()
		}(t)
	}
	var errs []error
	for i := 0; i < len(m.tasks); i++ {
		err := <-ch
		if err != nil {
			return err
		}
		errs = append(errs, err)
	}
	return errors.Join(errs...)
}

func (m *mgr) BadWorkerSilentOnError() error {
	ch := make(chan error)
	for _, t := range m.tasks {
		go func(t func() error) {
			err := t()
			if err != nil {
				return
			}
			ch <- nil
		}(t)
	}
	var errs []error
	for i := 0; i < len(m.tasks); i++ {
		errs = append(errs, <-ch)
	}
	return errors.Join(errs...)
}

func (m *mgr) BadWorkerDoubleSend() error {
	ch := make(chan error)
	for _, t := range m.tasks {
		go func(t func() error) {
			err := t()
			if err != nil {
				ch <- err
			}
			ch <- nil
		}(t)
	}
	var errs []error
	for i := 0; i < len(m.tasks); i++ {
		errs = append(errs, <-ch)
	}
	return errors.Join(errs...)
}

func (m *mgr) BadWorkerSendsFirst() error {
	ch := make(chan error)
	for _, t := range m.tasks {
		go func(t func() error) {
			ch <- nil
			_ = t()
		}(t)
	}
	var errs []error
	for i := 0; i < len(m.tasks); i++ {
		errs = append(errs, <-ch)
	}
	return errors.Join(errs...)
}

// --- flag tested under the lock ---

var errClosed = errors.New("closed")

func (m *mgr) GoodAddLocked(f func() error) error {
	m.mu.Lock()
	defer m.mu.Unlock()
	if m.closing.Load() {
		return errClosed
	}
	m.items = append(m.items, f)
	return nil
}

func (m *mgr) GoodAddDoubleChecked(f func() error) error {
	if m.closing.Load() {
		return errClosed
	}
	m.mu.Lock()
	defer m.mu.Unlock()
	if !m.closing.Load() {
		m.items = append(m.items, f)
		return nil
	}
	return errClosed
}

func (m *mgr) BadAddCheckThenLock(f func() error) error {
	if m.closing.Load() {
		return errClosed
	}
	m.mu.Lock()
	defer m.mu.Unlock()
	m.items = append(m.items, f)
	return nil
}

func (m *mgr) BadAddNoCheck(f func() error) error {
	m.mu.Lock()
	m.items = append(m.items, f)
	m.mu.Unlock()
	return nil
}

func (m *mgr) BadAddCheckAfterUnlock(f func() error) error {
	m.mu.Lock()
	closing := m.closing.Load()
	m.mu.Unlock()
	if closing {
		return errClosed
	}
	m.mu.Lock()
	m.items = append(m.items, f)
	m.mu.Unlock()
	return nil
}

// --- run at most once: success only after winning the flag ---

var errBusy = errors.New("already started")

func (m *mgr) GoodOnce() error {
	if !m.started.CompareAndSwap(false, true) {
		return errBusy
	}
	return nil
}

func (m *mgr) GoodOnceEmptyAfter() error {
	if m.started.Swap(true) {
		return errBusy
	}
	if len(m.tasks) == 0 {
		return nil
	}
	return nil
}

func (m *mgr) BadOnceEmptyBefore() error {
	if len(m.tasks) == 0 {
		return nil
	}
	if !m.started.CompareAndSwap(false, true) {
		return errBusy
	}
	return nil
}

func (m *mgr) BadOnceNilWhenLost() error {
	if !m.started.CompareAndSwap(false, true) {
		return nil
	}
	return nil
}
