// Package locks is a fixture for the guarded-by and single-section rules.
package locks

import "sync"

type box struct {
	mu sync.RWMutex
	m  map[string]int
	n  int
}

func newBox() *box { return &box{m: map[string]int{}} }

// --- clean idioms ---

func (b *box) GoodLoad(k string) (int, bool) {
	b.mu.RLock()
	defer b.mu.RUnlock()
	v, ok := b.m[k]
	return v, ok
}

func (b *box) GoodStore(k string, v int) {
	b.mu.Lock()
	b.m[k] = v
	b.mu.Unlock()
}

func (b *box) GoodGetOrCreate(k string) int {
	b.mu.RLock()
	v, ok := b.m[k]
	b.mu.RUnlock()
	if !ok {
		b.mu.Lock()
		v, ok = b.m[k]
		if !ok {
			v = 1
			b.m[k] = v
		}
		b.mu.Unlock()
	}
	return v
}

func (b *box) GoodViaHelper() int {
	b.mu.Lock()
	defer b.mu.Unlock()
	return b.goodLockedHelper()
}

// must be called with mu held
func (b *box) goodLockedHelper() int {
	b.n++
	return b.n
}

func (b *box) GoodRange(f func(string, int)) {
	b.mu.RLock()
	defer b.mu.RUnlock()
	for k, v := range b.m {
		f(k, v)
	}
}

func (b *box) GoodDeferClosure() {
	b.mu.Lock()
	defer func() {
		b.n = 0
		b.mu.Unlock()
	}()
	b.n++
}

// --- violations ---

func (b *box) BadUnlockedLen() int {
	return len(b.m)
}

func (b *box) BadWriteUnderRLock(k string) {
	b.mu.RLock()
	defer b.mu.RUnlock()
	delete(b.m, k)
}

func (b *box) BadSplitLoadAndDelete(k string) (int, bool) {
	b.mu.RLock()
	v, ok := b.m[k]
	b.mu.RUnlock()
	b.mu.Lock()
	delete(b.m, k)
	b.mu.Unlock()
	return v, ok
}

func (b *box) BadReadAfterUnlock() int {
	b.mu.Lock()
	b.n++
	b.mu.Unlock()
	return b.n
}

func (b *box) BadEarlyUnlockOnBranch(k string) int {
	b.mu.Lock()
	if k == "" {
		b.mu.Unlock()
	}
	v := b.m[k]
	if k != "" {
		b.mu.Unlock()
	}
	return v
}

func (b *box) BadSplitAdd(d int) int {
	b.mu.RLock()
	cur := b.n
	b.mu.RUnlock()
	b.mu.Lock()
	b.n = cur + d
	b.mu.Unlock()
	return cur + d
}

func (b *box) BadRangeOutsideLock(f func(string, int)) {
	b.mu.RLock()
	m := b.m
	b.mu.RUnlock()
	for k, v := range m {
		f(k, v)
	}
}

func (b *box) BadGoroutineInheritsNothing() {
	b.mu.Lock()
	defer b.mu.Unlock()
	go func() {
		b.n++
	}()
}

func (b *box) goodLen() int {
	b.mu.RLock()
	defer b.mu.RUnlock()
	return len(b.m)
}

// a pure wrapper is one section
func (b *box) GoodWrapper() int { return b.goodLen() }

func (b *box) BadStoreThenLen(k string) int {
	b.mu.Lock()
	b.m[k] = 1
	b.mu.Unlock()
	return b.goodLen()
}
