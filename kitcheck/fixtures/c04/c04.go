// Package c04 is a fixture for the generic C04 rules: error discipline
// (functions whose name contains "Err") and dominating range facts before the
// bit-set builder `bits`.
package c04

import (
	"errors"
	"fmt"
)

type bnd struct {
	lo, hi uint
	names  map[string]uint
}

func bits(lo, hi, step uint) uint64 {
	var b uint64
	for i := lo; i <= hi; i += step {
		b |= 1 << i
	}
	return b
}

func parse(s string) (uint, error) {
	if s == "" {
		return 0, errors.New("empty")
	}
	return uint(len(s)), nil
}

// ---- error discipline: clean idioms ----

func GoodErrDirect(s string) (uint, error) {
	v, err := parse(s)
	if err != nil {
		return 0, err
	}
	return v, nil
}

func GoodErrWrapped(s string) (uint, error) {
	v, err := parse(s)
	if err == nil {
		return v, nil
	}
	return 0, fmt.Errorf("bad %s: %w", s, err)
}

func GoodErrTail(s string) (uint, error) {
	return parse(s)
}

func GoodErrSwitch(s string) (uint, error) {
	v, err := parse(s)
	switch {
	case err != nil:
		return 0, err
	case v > 3:
		return 0, errors.New("too long")
	}
	return v, nil
}

func GoodErrCell(a, b string) (uint, error) {
	var err error
	f := func(s string) uint {
		if err != nil {
			return 0
		}
		var v uint
		v, err = parse(s)
		return v
	}
	x := f(a)
	y := f(b)
	if err != nil {
		return 0, err
	}
	return x + y, nil
}

func GoodErrCellReturned(a, b string) (uint, error) {
	var err error
	f := func(s string) uint {
		if err != nil {
			return 0
		}
		var v uint
		v, err = parse(s)
		return v
	}
	x := f(a)
	y := f(b)
	return x + y, err
}

// ---- error discipline: violations ----

func BadErrDropped(s string) (uint, error) {
	v, _ := parse(s)
	return v, nil
}

func BadErrSwallowed(s string) (uint, error) {
	v, err := parse(s)
	if err != nil {
		v = 0
	}
	return v, nil
}

func BadErrCellOverwrite(a, b string) (uint, error) {
	var err error
	f := func(s string) uint {
		var v uint
		v, err = parse(s)
		return v
	}
	x := f(a)
	y := f(b)
	if err != nil {
		return 0, err
	}
	return x + y, nil
}

func BadErrCellCheckedEarly(a, b string) (uint, error) {
	var err error
	f := func(s string) uint {
		if err != nil {
			return 0
		}
		var v uint
		v, err = parse(s)
		return v
	}
	x := f(a)
	if err != nil {
		return 0, err
	}
	y := f(b)
	return x + y, nil
}

// ---- range facts: clean idioms ----

func GoodRangeIf(start, end, step uint, r bnd) (uint64, error) {
	if start < r.lo {
		return 0, errors.New("low")
	}
	if end > r.hi {
		return 0, errors.New("high")
	}
	if start > end {
		return 0, errors.New("inverted")
	}
	if step == 0 {
		return 0, errors.New("step")
	}
	return bits(start, end, step), nil
}

func GoodRangeSwitch(start, end, step uint, r bnd) (uint64, error) {
	switch {
	case r.lo > start, r.hi < end, end < start, step < 1:
		return 0, errors.New("bad")
	}
	return bits(start, end, step), nil
}

func GoodRangeNested(start, end, step uint, r bnd) (uint64, error) {
	if start >= r.lo && end <= r.hi && start <= end && step > 0 {
		return bits(start, end, step), nil
	}
	return 0, errors.New("bad")
}

func GoodRangePhi(star bool, a, b uint, r bnd) (uint64, error) {
	var start, end uint
	step := uint(1)
	if star {
		start, end = r.lo, r.hi
	} else {
		if a < r.lo || b > r.hi || a > b {
			return 0, errors.New("bad")
		}
		start, end = a, b
	}
	return bits(start, end, step), nil
}

func GoodRangeAll(r bnd) uint64 {
	return bits(r.lo, r.hi, 1)
}

// ---- range facts: violations ----

func BadRangeNoStep(start, end, step uint, r bnd) (uint64, error) {
	if start < r.lo || end > r.hi || start > end {
		return 0, errors.New("bad")
	}
	return bits(start, end, step), nil
}

func BadRangeNoInverted(start, end, step uint, r bnd) (uint64, error) {
	if start < r.lo || end > r.hi || step == 0 {
		return 0, errors.New("bad")
	}
	return bits(start, end, step), nil
}

func BadRangeWrongSide(start, end, step uint, r bnd) (uint64, error) {
	if start < r.lo || start > r.hi || start > end || step == 0 {
		return 0, errors.New("bad")
	}
	return bits(start, end, step), nil
}

func BadRangeOnlyOneBranch(star bool, a, b uint, r bnd) (uint64, error) {
	start, end := a, b
	if star {
		if a < r.lo || b > r.hi || a > b {
			return 0, errors.New("bad")
		}
	}
	return bits(start, end, 1), nil
}

func GoodErrPhi(s string) (uint, error) {
	var err error
	v, e := parse(s)
	if e != nil {
		err = fmt.Errorf("bad %s: %w", s, e)
	}
	return v, err
}

func validate(start, end, step uint, r bnd) error {
	if start < r.lo || end > r.hi {
		return errors.New("out of range")
	}
	if start > end || step == 0 {
		return errors.New("bad")
	}
	return nil
}

func GoodRangeHelper(start, end, step uint, r bnd) (uint64, error) {
	if err := validate(start, end, step, r); err != nil {
		return 0, err
	}
	return bits(start, end, step), nil
}

func validateNoStep(start, end, step uint, r bnd) error {
	if start < r.lo || end > r.hi || start > end {
		return errors.New("bad")
	}
	return nil
}

func BadRangeHelperNoStep(start, end, step uint, r bnd) (uint64, error) {
	if err := validateNoStep(start, end, step, r); err != nil {
		return 0, err
	}
	return bits(start, end, step), nil
}

// ---- N/step means N-hi/step ----

func GoodNStep(parts []string, a, b, st uint, r bnd) (uint64, error) {
	var start, end, step uint
	single := len(parts) == 1
	switch len(parts) {
	case 1:
		start, _ = parse(parts[0])
		end = start
	default:
		start, _ = parse(parts[0])
		end, _ = parse(parts[1])
	}
	if st == 0 {
		step = 1
	} else {
		step, _ = parse("x")
		if single {
			end = r.hi
		}
	}
	if start < r.lo || end > r.hi || start > end || step == 0 {
		return 0, errors.New("bad")
	}
	return bits(start, end, step), nil
}

func BadNStepOnlyBigSteps(parts []string, a, b, st uint, r bnd) (uint64, error) {
	var start, end, step uint
	single := len(parts) == 1
	switch len(parts) {
	case 1:
		start, _ = parse(parts[0])
		end = start
	default:
		start, _ = parse(parts[0])
		end, _ = parse(parts[1])
	}
	if st == 0 {
		step = 1
	} else {
		step, _ = parse("x")
		if step > 1 {
			if single {
				end = r.hi
			}
		}
	}
	if start < r.lo || end > r.hi || start > end || step == 0 {
		return 0, errors.New("bad")
	}
	return bits(start, end, step), nil
}

func BadNStepMissing(parts []string, a, b, st uint, r bnd) (uint64, error) {
	var start, end, step uint
	switch len(parts) {
	case 1:
		start, _ = parse(parts[0])
		end = start
	default:
		start, _ = parse(parts[0])
		end, _ = parse(parts[1])
	}
	if st == 0 {
		step = 1
	} else {
		step, _ = parse("x")
	}
	if start < r.lo || end > r.hi || start > end || step == 0 {
		return 0, errors.New("bad")
	}
	return bits(start, end, step), nil
}

// ---- list terms: every term of a list reaches the validating call ----

const star = 1 << 63

func oneTerm(s string, r bnd) (uint64, error) {
	if s == "*" {
		return bits(r.lo, r.hi, 1) | star, nil
	}
	v, err := parse(s)
	if err != nil {
		return 0, err
	}
	if v < r.lo || v > r.hi {
		return 0, errors.New("out of range")
	}
	return bits(v, v, 1), nil
}

func split(s string) []string {
	var out []string
	cur := ""
	for _, c := range s {
		if c == ',' {
			out = append(out, cur)
			cur = ""
		} else {
			cur += string(c)
		}
	}
	return append(out, cur)
}

func GoodListAll(s string, r bnd) (uint64, error) {
	var acc uint64
	for _, t := range split(s) {
		b, err := oneTerm(t, r)
		if err != nil {
			return acc, err
		}
		acc |= b
	}
	return acc, nil
}

func GoodListLateCheck(s string, r bnd) (uint64, error) {
	var acc uint64
	var failure error
	terms := split(s)
	for i := 0; i < len(terms); i++ {
		b, e := oneTerm(terms[i], r)
		if e != nil {
			failure = e
			break
		}
		acc |= b
	}
	if failure != nil {
		return 0, failure
	}
	return acc, nil
}

func GoodListSkipEmpty(s string, r bnd) (uint64, error) {
	var acc uint64
	for _, t := range split(s) {
		if t == "" {
			continue
		}
		b, err := oneTerm(t, r)
		if err != nil {
			return 0, fmt.Errorf("term %q: %w", t, err)
		}
		acc |= b
	}
	return acc, nil
}

func BadListStopAtStar(s string, r bnd) (uint64, error) {
	var acc uint64
	for _, t := range split(s) {
		b, err := oneTerm(t, r)
		if err != nil {
			return acc, err
		}
		acc |= b
		if acc&star != 0 {
			break // everything is selected already
		}
	}
	return acc, nil
}

func BadListSkipAfterStar(s string, r bnd) (uint64, error) {
	var acc uint64
	for _, t := range split(s) {
		if acc&star != 0 {
			continue
		}
		b, err := oneTerm(t, r)
		if err != nil {
			return acc, err
		}
		acc |= b
	}
	return acc, nil
}

func BadListReturnAtStar(s string, r bnd) (uint64, error) {
	var acc uint64
	for _, t := range split(s) {
		b, err := oneTerm(t, r)
		if err != nil {
			return acc, err
		}
		if b&star != 0 {
			return b, nil
		}
		acc |= b
	}
	return acc, nil
}

// ---- error discipline: the first failure copied into a local and the loop left ----

func GoodErrFirstFailureBreak(ss []string) (uint, error) {
	var sum uint
	var failure error
	for _, s := range ss {
		v, err := parse(s)
		if err != nil {
			failure = err
			break
		}
		sum += v
	}
	if failure != nil {
		return 0, failure
	}
	return sum, nil
}

func BadErrFirstFailureDropped(ss []string) (uint, error) {
	var sum uint
	var failure error
	for _, s := range ss {
		v, err := parse(s)
		if err != nil {
			failure = err
			break
		}
		sum += v
	}
	_ = failure
	return sum, nil
}
