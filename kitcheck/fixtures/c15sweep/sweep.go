// Package c15sweep is a fixture for the C15 "only expired entries are deleted"
// rule: every key handed to a delete must be a ForEach key committed under
// now >(=) exp of its own entry, from a key slice that starts empty in every run.
package c15sweep

import (
	"time"

	"kitcheck/fixtures/c15sweep/hmap"
)

type clk interface{ Now() time.Time }

type entry struct {
	val int
	exp time.Time
}

type cache struct {
	clock clk
	m     *hmap.Map[string, entry]
}

// collect appends the expired keys to buf and deletes them; returns the slice for re-use.
func (c *cache) collect(buf []string) []string {
	now := c.clock.Now()
	keys := buf
	c.m.ForEach(func(k string, e entry) bool {
		if e.exp.Before(now) {
			keys = append(keys, k)
		}
		return true
	})
	c.m.Del(keys...)
	return keys
}

// --- clean ---

func (c *cache) GoodPlainSweep() {
	now := c.clock.Now()
	keys := make([]string, 0, c.m.Len())
	c.m.ForEach(func(k string, e entry) bool {
		if !e.exp.After(now) {
			keys = append(keys, k)
		}
		return true
	})
	c.m.Del(keys...)
}

func (c *cache) GoodScratchTruncatedSweep(rounds int) {
	var scratch []string
	for i := 0; i < rounds; i++ {
		scratch = c.collect(scratch[:0])
	}
}

func (c *cache) GoodNilBufferSweep() { c.collect(nil) }

func (c *cache) GoodLoopEmptiedSweep(rounds int) {
	var keys []string
	for i := 0; i < rounds; i++ {
		keys = keys[:0]
		now := c.clock.Now()
		c.m.ForEach(func(k string, e entry) bool {
			if e.exp.Before(now) {
				keys = append(keys, k)
			}
			return true
		})
		c.m.Del(keys...)
	}
}

// --- violations ---

func (c *cache) BadScratchCarriedSweep(rounds int) {
	var scratch []string
	for i := 0; i < rounds; i++ {
		scratch = c.collect(scratch)
	}
}

func (c *cache) BadLoopCarriedSweep(rounds int) {
	var keys []string
	for i := 0; i < rounds; i++ {
		now := c.clock.Now()
		c.m.ForEach(func(k string, e entry) bool {
			if e.exp.Before(now) {
				keys = append(keys, k)
			}
			return true
		})
		c.m.Del(keys...)
	}
}

func (c *cache) BadPrefilledSweep() {
	now := c.clock.Now()
	keys := make([]string, c.m.Len())
	c.m.ForEach(func(k string, e entry) bool {
		if e.exp.Before(now) {
			keys = append(keys, k)
		}
		return true
	})
	c.m.Del(keys...)
}

func (c *cache) BadNoTestSweep() {
	var keys []string
	c.m.ForEach(func(k string, e entry) bool {
		keys = append(keys, k)
		return true
	})
	c.m.Del(keys...)
}

func (c *cache) BadInvertedSweep() {
	now := c.clock.Now()
	var keys []string
	c.m.ForEach(func(k string, e entry) bool {
		if e.exp.After(now) {
			keys = append(keys, k)
		}
		return true
	})
	c.m.Del(keys...)
}
