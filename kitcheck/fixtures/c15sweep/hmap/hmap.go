// Package hmap is a stand-in for the concurrent map library in the c15sweep fixture.
package hmap

type Map[K comparable, V any] struct{ m map[K]V }

func New[K comparable, V any]() *Map[K, V] { return &Map[K, V]{m: map[K]V{}} }

func (m *Map[K, V]) Len() uintptr { return uintptr(len(m.m)) }

func (m *Map[K, V]) Del(keys ...K) {
	for _, k := range keys {
		delete(m.m, k)
	}
}

func (m *Map[K, V]) ForEach(f func(K, V) bool) {
	for k, v := range m.m {
		if !f(k, v) {
			return
		}
	}
}
