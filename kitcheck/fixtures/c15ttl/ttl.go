// Package c15ttl is a fixture for the C15 time-relation rules: getters must
// report a hit only under entry.exp > clock.Now() (strict, cache clock), and
// setters must cap the TTL with maxTTL when it is configured.
package c15ttl

import "time"

type clk interface{ Now() time.Time }

type entry struct {
	val int
	exp time.Time
}

type cache struct {
	clock  clk
	maxTTL int64
	data   map[string]entry
}

func (c *cache) lookup(k string) (entry, bool) { e, ok := c.data[k]; return e, ok }
func (c *cache) store(k string, e entry)       { c.data[k] = e }

func (e entry) expired(now time.Time) bool { return !e.exp.After(now) }

// --- getters: clean idioms ---

func (c *cache) GoodPlainGet(k string) (int, bool) {
	e, ok := c.lookup(k)
	if !ok || !e.exp.After(c.clock.Now()) {
		return 0, false
	}
	return e.val, true
}

func (c *cache) GoodBeforeGet(k string) (int, bool) {
	now := c.clock.Now()
	e, ok := c.lookup(k)
	if ok && now.Before(e.exp) {
		return e.val, true
	}
	return 0, false
}

func (c *cache) GoodSwitchGet(k string) (v int, found bool) {
	e, ok := c.lookup(k)
	switch {
	case !ok:
		return 0, false
	case e.exp.Compare(c.clock.Now()) <= 0:
		return 0, false
	}
	return e.val, true
}

func (c *cache) GoodHelperGet(k string) (int, bool) {
	e, ok := c.lookup(k)
	if !ok {
		return 0, false
	}
	if e.expired(c.clock.Now()) {
		return 0, false
	}
	return e.val, true
}

func (c *cache) GoodBoolExprGet(k string) (int, bool) {
	e, ok := c.lookup(k)
	live := ok && e.exp.Sub(c.clock.Now()) > 0
	return e.val, live
}

func (c *cache) GoodNoOkGet(k string) (int, bool) {
	e, _ := c.lookup(k)
	if e.exp.After(c.clock.Now()) {
		return e.val, true
	}
	return 0, false
}

func (c *cache) GoodEqualOrAfterGet(k string) (v int, ok bool) {
	var e entry
	if e, ok = c.lookup(k); !ok {
		return
	}
	if now := c.clock.Now(); now.Equal(e.exp) || now.After(e.exp) {
		ok = false
		return
	}
	v = e.val
	return
}

// --- getters: violations ---

func (c *cache) BadNonStrictGet(k string) (int, bool) {
	e, ok := c.lookup(k)
	if !ok || e.exp.Before(c.clock.Now()) {
		return 0, false
	}
	return e.val, true
}

func (c *cache) BadNoCheckGet(k string) (int, bool) {
	e, ok := c.lookup(k)
	if !ok {
		return 0, false
	}
	return e.val, true
}

func (c *cache) BadWallClockGet(k string) (int, bool) {
	e, ok := c.lookup(k)
	if !ok || !e.exp.After(time.Now()) {
		return 0, false
	}
	return e.val, true
}

func (c *cache) BadInvertedGet(k string) (int, bool) {
	e, ok := c.lookup(k)
	if ok && e.exp.Before(c.clock.Now()) {
		return e.val, true
	}
	return 0, false
}

func (c *cache) BadGraceGet(k string) (int, bool) {
	e, ok := c.lookup(k)
	if !ok || !e.exp.After(c.clock.Now().Add(-time.Second)) {
		return 0, false
	}
	return e.val, true
}

func (c *cache) BadOrGet(k string) (int, bool) {
	e, ok := c.lookup(k)
	if ok || e.exp.After(c.clock.Now()) {
		return e.val, true
	}
	return 0, false
}

// --- setters: clean idioms ---

func (c *cache) GoodPlainSet(k string, v int, ttl int64) {
	if c.maxTTL > 0 && ttl > c.maxTTL {
		ttl = c.maxTTL
	}
	c.store(k, entry{val: v, exp: c.clock.Now().Add(time.Duration(ttl) * time.Second)})
}

func (c *cache) GoodNestedSet(k string, v int, ttl int64) {
	now := c.clock.Now()
	if c.maxTTL >= 1 {
		if c.maxTTL <= ttl {
			ttl = c.maxTTL
		}
	}
	d := time.Second * time.Duration(ttl)
	c.store(k, entry{exp: now.Add(d), val: v})
}

func (c *cache) capped(ttl int64) int64 {
	if c.maxTTL <= 0 || ttl <= c.maxTTL {
		return ttl
	}
	return c.maxTTL
}

func (c *cache) GoodHelperSet(k string, v int, ttl int64) {
	c.store(k, entry{val: v, exp: c.clock.Now().Add(time.Duration(c.capped(ttl)) * time.Second)})
}

func (c *cache) GoodMinSet(k string, v int, ttl int64) {
	if c.maxTTL > 0 {
		ttl = min(ttl, c.maxTTL)
	}
	c.store(k, entry{val: v, exp: c.clock.Now().Add(time.Duration(ttl) * time.Second)})
}

func (c *cache) GoodSameInstantSet(k string, v int, ttl int64) {
	if c.maxTTL > 0 && ttl > c.maxTTL {
		ttl = c.maxTTL
	}
	c.store(k, entry{val: v, exp: c.clock.Now().Round(0).Add(time.Duration(ttl) * time.Second).UTC()})
}

// --- setters: violations ---

func (c *cache) BadTruncatedExpirySet(k string, v int, ttl int64) {
	if c.maxTTL > 0 && ttl > c.maxTTL {
		ttl = c.maxTTL
	}
	c.store(k, entry{val: v, exp: c.clock.Now().Add(time.Duration(ttl) * time.Second).Truncate(time.Second)})
}

func (c *cache) BadRoundedBaseSet(k string, v int, ttl int64) {
	if c.maxTTL > 0 && ttl > c.maxTTL {
		ttl = c.maxTTL
	}
	now := c.clock.Now().Round(time.Second)
	c.store(k, entry{val: v, exp: now.Add(time.Duration(ttl) * time.Second)})
}

func (c *cache) BadMinUnguardedSet(k string, v int, ttl int64) {
	ttl = min(ttl, c.maxTTL)
	c.store(k, entry{val: v, exp: c.clock.Now().Add(time.Duration(ttl) * time.Second)})
}

func (c *cache) BadKeepLaterSet(k string, v int, ttl int64) {
	if c.maxTTL > 0 && ttl > c.maxTTL {
		ttl = c.maxTTL
	}
	exp := c.clock.Now().Add(time.Duration(ttl) * time.Second)
	if old, ok := c.lookup(k); ok && old.exp.After(exp) {
		exp = old.exp
	}
	c.store(k, entry{val: v, exp: exp})
}

func (c *cache) BadOrCapSet(k string, v int, ttl int64) {
	if c.maxTTL > 0 || ttl > c.maxTTL {
		ttl = c.maxTTL
	}
	c.store(k, entry{val: v, exp: c.clock.Now().Add(time.Duration(ttl) * time.Second)})
}

func (c *cache) BadNoCapSet(k string, v int, ttl int64) {
	c.store(k, entry{val: v, exp: c.clock.Now().Add(time.Duration(ttl) * time.Second)})
}

func (c *cache) BadLateCapSet(k string, v int, ttl int64) {
	exp := c.clock.Now().Add(time.Duration(ttl) * time.Second)
	if c.maxTTL > 0 && ttl > c.maxTTL {
		ttl = c.maxTTL
	}
	_ = ttl
	c.store(k, entry{val: v, exp: exp})
}

func (c *cache) BadWrongDirSet(k string, v int, ttl int64) {
	if c.maxTTL > 0 && ttl < c.maxTTL {
		ttl = c.maxTTL
	}
	c.store(k, entry{val: v, exp: c.clock.Now().Add(time.Duration(ttl) * time.Second)})
}

func (c *cache) BadUnsetCapSet(k string, v int, ttl int64) {
	if ttl > c.maxTTL {
		ttl = c.maxTTL
	}
	c.store(k, entry{val: v, exp: c.clock.Now().Add(time.Duration(ttl) * time.Second)})
}

func (c *cache) BadUnitSet(k string, v int, ttl int64) {
	if c.maxTTL > 0 && ttl > c.maxTTL {
		ttl = c.maxTTL
	}
	c.store(k, entry{val: v, exp: c.clock.Now().Add(time.Duration(ttl) * time.Minute)})
}

func (c *cache) BadWallClockSet(k string, v int, ttl int64) {
	if c.maxTTL > 0 && ttl > c.maxTTL {
		ttl = c.maxTTL
	}
	c.store(k, entry{val: v, exp: time.Now().Add(time.Duration(ttl) * time.Second)})
}
