// Package c18life is a fixture for C18.S2-dir-lifetime: users of a writer whose
// clean-up of superseded versions works only through state kept in the writer.
package c18life

type W struct {
	target string
	prev   *string
}

func NewW(target string) *W { return &W{target: target} }

func (w *W) Write(files map[string][]byte) error {
	v := w.target + "-v"
	w.prev = &v
	return nil
}

type owner struct {
	target string
	w      *W
}

func newOwner(target string) *owner { return &owner{target: target, w: NewW(target)} }

func makeWriter(o *owner) *W { return NewW(o.target) }

// GoodKept: the writer is constructed once with its owner and kept.
func GoodKept(o *owner, files map[string][]byte) error { return o.w.Write(files) }

// GoodOneShot: constructed and used once (not provably repeated).
func GoodOneShot(target string, files map[string][]byte) error { return NewW(target).Write(files) }

// BadPerWrite: a new writer for every write (the function runs in a loop).
func BadPerWrite(o *owner, files map[string][]byte) error {
	w := NewW(o.target)
	return w.Write(files)
}

type resetting struct {
	target string
	w      *W
}

// BadFieldReset: the kept writer is replaced by a new one before every write.
func BadFieldReset(o *resetting, files map[string][]byte) error {
	o.w = NewW(o.target)
	return o.w.Write(files)
}

// BadThroughHelper: a helper constructs the writer for every write.
func BadThroughHelper(o *owner, files map[string][]byte) error {
	return makeWriter(o).Write(files)
}

func rotate(o *owner, rounds int) {
	for i := 0; i < rounds; i++ {
		_ = GoodKept(o, nil)
		_ = BadPerWrite(o, nil)
		_ = BadThroughHelper(o, nil)
	}
}

func setup(target string) *owner {
	_ = GoodOneShot(target, nil)
	o := newOwner(target)
	rs := &resetting{target: target}
	_ = BadFieldReset(rs, nil)
	rotate(o, 3)
	_ = BadFieldReset(rs, nil)
	return o
}
