// Package c09reg: fixture for C09's wg.Add registration rule (L12) and the
// direction of the pending-cap comparison (part of L7). A miniature limiter
// with the exported anchors of events/ratelimiting; the exported Bad*/Good*
// methods carry the shapes.
package c09reg

import (
	"context"
	"sync"
	"sync/atomic"
	"time"
)

type RateLimiter interface {
	Run(ctx context.Context, eventCh chan<- struct{}) error
	Add()
	Close()
}

type OptionsCoalescing struct {
	InitialDelay     *time.Duration
	MaxDelay         *time.Duration
	MaxPendingEvents *int
}

type ticker interface {
	C() <-chan time.Time
	Stop() bool
	Reset(d time.Duration) bool
}

type lim struct {
	first, longest time.Duration
	most           *int

	n      int
	t      ticker
	open   atomic.Bool
	tokens chan struct{}
	length time.Duration
	mult   int

	group  sync.WaitGroup
	mu     sync.RWMutex
	quit   chan struct{}
	closed atomic.Bool
	mk     func(time.Duration) ticker
}

func NewCoalescing(opts OptionsCoalescing) (RateLimiter, error) {
	first, longest := time.Second, 5*time.Second
	if opts.InitialDelay != nil {
		first = *opts.InitialDelay
	}
	if opts.MaxDelay != nil {
		longest = *opts.MaxDelay
	}
	return &lim{first: first, longest: longest, most: opts.MaxPendingEvents, length: first, mult: 1,
		tokens: make(chan struct{}), quit: make(chan struct{})}, nil
}

func (c *lim) Run(ctx context.Context, ch chan<- struct{}) error {
	c.mu.Lock()
	if c.closed.Load() {
		c.mu.Unlock()
		return nil
	}
	c.group.Add(1)
	c.mu.Unlock()
	defer c.group.Done()
	ctx, cancel := context.WithCancel(ctx)
	defer cancel()
	for {
		var tc <-chan time.Time
		c.mu.RLock()
		if c.open.Load() {
			tc = c.t.C()
		}
		c.mu.RUnlock()
		select {
		case <-ctx.Done():
			return nil
		case <-c.quit:
			return nil
		case <-c.tokens:
			c.GoodCapGeq(ctx, ch)
		case <-tc:
			c.mu.Lock()
			c.fire(ctx, ch)
			c.t.Stop()
			c.n, c.length, c.mult, c.t = 0, c.first, 1, nil
			c.open.Store(false)
			c.mu.Unlock()
		}
	}
}

func (c *lim) fire(ctx context.Context, ch chan<- struct{}) {
	if c.n > 0 {
		c.n = 0
		c.group.Add(1)
		go func() {
			defer c.group.Done()
			select {
			case ch <- struct{}{}:
			case <-ctx.Done():
			}
		}()
	}
}

func (c *lim) extend() {
	if !c.t.Stop() {
		<-c.t.C()
	}
	if c.length < c.longest {
		c.mult *= 2
		c.length = min(time.Duration(float64(c.first)*float64(c.mult)), c.longest)
	}
	c.t.Reset(c.length)
}

func (c *lim) Add() {
	c.mu.Lock()
	defer c.mu.Unlock()
	if c.closed.Load() {
		return
	}
	c.n++
	c.group.Add(1)
	go c.token()
}

func (c *lim) token() {
	defer c.group.Done()
	select {
	case c.tokens <- struct{}{}:
	case <-c.quit:
	}
}

func (c *lim) Close() {
	if c.closed.CompareAndSwap(false, true) {
		close(c.quit)
	}
	c.mu.Lock()
	c.mu.Unlock() //nolint:staticcheck
	c.group.Wait()
}

// ---- cap comparison direction

func (c *lim) GoodCapGeq(ctx context.Context, ch chan<- struct{}) {
	c.mu.Lock()
	defer c.mu.Unlock()
	if !c.open.Load() {
		c.t = c.mk(c.first)
		c.open.Store(true)
		c.fire(ctx, ch)
		return
	}
	if c.most != nil && c.n >= *c.most {
		c.fire(ctx, ch)
		return
	}
	c.extend()
}

func (c *lim) GoodCapFlipped(ctx context.Context, ch chan<- struct{}) {
	c.mu.Lock()
	defer c.mu.Unlock()
	if limit := c.most; limit != nil && !(*limit > c.n) {
		c.fire(ctx, ch)
		return
	}
	c.extend()
}

func (c *lim) BadCapEquals(ctx context.Context, ch chan<- struct{}) {
	c.mu.Lock()
	defer c.mu.Unlock()
	if c.most != nil && c.n == *c.most {
		c.fire(ctx, ch)
		return
	}
	c.extend()
}

func (c *lim) BadCapFallsThrough(ctx context.Context, ch chan<- struct{}) {
	c.mu.Lock()
	defer c.mu.Unlock()
	if c.most != nil && c.n >= *c.most {
		c.fire(ctx, ch)
	}
	c.extend()
}

func (c *lim) GoodCapSwitch(ctx context.Context, ch chan<- struct{}) {
	c.mu.Lock()
	defer c.mu.Unlock()
	switch {
	case c.most != nil && c.n >= *c.most:
		c.fire(ctx, ch)
	default:
		c.extend()
	}
}

func (c *lim) reached() bool {
	most := c.most
	return most != nil && *most < c.n
}

func (c *lim) BadCapStrictInHelper(ctx context.Context, ch chan<- struct{}) {
	c.mu.Lock()
	defer c.mu.Unlock()
	if c.reached() {
		c.fire(ctx, ch)
		return
	}
	c.extend()
}

// ---- wg.Add registration

func (c *lim) enter() (ok bool) {
	c.mu.Lock()
	defer c.mu.Unlock()
	ok = !c.closed.Load()
	if ok {
		c.group.Add(1)
	}
	return ok
}

func (c *lim) GoodRegisterInHelper() {
	if !c.enter() {
		return
	}
	defer c.group.Done()
	// holds its own count: further Adds are safe
	c.group.Add(1)
	go c.token()
}

func (c *lim) GoodRegisterUnderRLock() {
	c.mu.RLock()
	if c.closed.Load() {
		c.mu.RUnlock()
		return
	}
	c.group.Add(1)
	c.mu.RUnlock()
	c.group.Done()
}

func (c *lim) BadRegisterAfterUnlock() {
	c.mu.Lock()
	closed := c.closed.Load()
	c.mu.Unlock()
	if closed {
		return
	}
	c.group.Add(1)
	defer c.group.Done()
}

func (c *lim) BadRegisterWithoutClosedCheck() {
	c.mu.Lock()
	c.group.Add(1)
	c.mu.Unlock()
	c.group.Done()
}

func (c *lim) locked(f func()) {
	c.mu.Lock()
	defer c.mu.Unlock()
	f()
}

func (c *lim) BadRegisterOutsideWrapper() {
	var closed bool
	c.locked(func() { closed = c.closed.Load() })
	if !closed {
		c.group.Add(1)
		go c.token()
	}
}
