// Package c03unpad: shapes of a PKCS#7 unpad function for the C03 branch-fact rules.
package c03unpad

import (
	"bytes"
	"errors"
)

var errPad = errors.New("bad padding")

// GoodReference: the reference shape.
func GoodReference(buf []byte, size int) ([]byte, error) {
	l := len(buf)
	if l == 0 || l%size != 0 {
		return nil, errPad
	}
	padLen := int(buf[l-1])
	if padLen <= 0 || padLen > size {
		return nil, errPad
	}
	padLenB := byte(padLen)
	for i := l - padLen; i < l; i++ {
		if buf[i] != padLenB {
			return nil, errPad
		}
	}
	return buf[:l-padLen], nil
}

// GoodOtherIdioms: byte compared before conversion, switch form, size+1, break-style loop, == with else.
func GoodOtherIdioms(buf []byte, size int) ([]byte, error) {
	if len(buf) == 0 || len(buf)%size != 0 {
		return nil, errPad
	}
	last := buf[len(buf)-1]
	switch {
	case last == 0:
		return nil, errPad
	case !(int(last) < size+1):
		return nil, errPad
	}
	n := int(last)
	i := len(buf) - n
	for {
		if i >= len(buf) {
			break
		}
		if buf[i] == last {
			i++
		} else {
			return nil, errPad
		}
	}
	return buf[:len(buf)-n], nil
}

// GoodBytesEqual: verifies with bytes.Equal — bounds decided, loop part UNDECIDED (silent).
func GoodBytesEqual(buf []byte, size int) ([]byte, error) {
	l := len(buf)
	if l == 0 || l%size != 0 {
		return nil, errPad
	}
	padLen := int(buf[l-1])
	if padLen < 1 || size < padLen {
		return nil, errPad
	}
	if !bytes.Equal(buf[l-padLen:], bytes.Repeat([]byte{buf[l-1]}, padLen)) {
		return nil, errPad
	}
	return buf[:l-padLen], nil
}

// BadBoundedByLength: upper bound against the message length.
func BadBoundedByLength(buf []byte, size int) ([]byte, error) {
	l := len(buf)
	if l == 0 || l%size != 0 {
		return nil, errPad
	}
	padLen := int(buf[l-1])
	if padLen == 0 || padLen > l {
		return nil, errPad
	}
	padLenB := byte(padLen)
	for i := l - padLen; i < l; i++ {
		if buf[i] != padLenB {
			return nil, errPad
		}
	}
	return buf[:l-padLen], nil
}

// BadNoLowerBound: a final zero byte is accepted.
func BadNoLowerBound(buf []byte, size int) ([]byte, error) {
	l := len(buf)
	if l == 0 || l%size != 0 {
		return nil, errPad
	}
	padLen := int(buf[l-1])
	if padLen > size {
		return nil, errPad
	}
	for i := l - padLen; i < l; i++ {
		if buf[i] != byte(padLen) {
			return nil, errPad
		}
	}
	return buf[:l-padLen], nil
}

// BadStrictUpper: refuses a full block of padding.
func BadStrictUpper(buf []byte, size int) ([]byte, error) {
	l := len(buf)
	if l == 0 || l%size != 0 {
		return nil, errPad
	}
	padLen := int(buf[l-1])
	if padLen < 1 || padLen >= size {
		return nil, errPad
	}
	for i := l - padLen; i < l; i++ {
		if buf[i] != byte(padLen) {
			return nil, errPad
		}
	}
	return buf[:l-padLen], nil
}

// BadLoopSkipsFirst: the verification loop starts one byte late.
func BadLoopSkipsFirst(buf []byte, size int) ([]byte, error) {
	l := len(buf)
	if l == 0 || l%size != 0 {
		return nil, errPad
	}
	padLen := int(buf[l-1])
	if padLen <= 0 || padLen > size {
		return nil, errPad
	}
	for i := l - (padLen - 1); i < l; i++ {
		if buf[i] != byte(padLen) {
			return nil, errPad
		}
	}
	return buf[:l-padLen], nil
}

// BadMismatchIgnored: a mismatch only ends the loop.
func BadMismatchIgnored(buf []byte, size int) ([]byte, error) {
	l := len(buf)
	if l == 0 || l%size != 0 {
		return nil, errPad
	}
	padLen := int(buf[l-1])
	if padLen <= 0 || padLen > size {
		return nil, errPad
	}
	for i := l - padLen; i < l; i++ {
		if buf[i] != byte(padLen) {
			break
		}
	}
	return buf[:l-padLen], nil
}
