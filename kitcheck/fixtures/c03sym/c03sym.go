// Package c03sym: tiny decrypt-shaped functions for the C03 scenario rules.
// Every function has the shape f(msg, iv []byte, alg string) ([]byte, error).
// The rule run on them: with a 12-byte iv (or a 7-byte msg, or an unknown alg)
// every path must return errSize/errAlg and never reach the panicking
// precondition of NewCBCDecrypter / CryptBlocks; with right sizes some path
// must return output.
package c03sym

import (
	"crypto/aes"
	"crypto/cipher"
	"errors"
)

var (
	errSize = errors.New("bad size")
	errAlg  = errors.New("bad alg")
	key     = make([]byte, 16)
)

func keySize(alg string) int {
	switch alg[1:4] {
	case "128":
		return 16
	case "256":
		return 32
	}
	return 0
}

// GoodIfForm: plain if guards, early returns.
func GoodIfForm(msg, iv []byte, alg string) ([]byte, error) {
	if alg != "A128" && alg != "A256" {
		return nil, errAlg
	}
	if len(iv) != aes.BlockSize {
		return nil, errSize
	}
	if len(msg)%aes.BlockSize != 0 {
		return nil, errSize
	}
	if keySize(alg) == 0 {
		return nil, errAlg
	}
	b, err := aes.NewCipher(key)
	if err != nil {
		return nil, err
	}
	out := make([]byte, len(msg))
	cipher.NewCBCDecrypter(b, iv).CryptBlocks(out, msg)
	return out, nil
}

// GoodSwitchForm: the same guards as switch statements, else-form, negations.
func GoodSwitchForm(msg, iv []byte, alg string) ([]byte, error) {
	switch alg {
	case "A128", "A256":
	default:
		return nil, errAlg
	}
	var out []byte
	switch {
	case !(len(iv) == 16):
		return nil, errSize
	case len(msg)%16 > 0:
		return nil, errSize
	default:
		b, err := aes.NewCipher(key)
		if err == nil {
			out = make([]byte, len(msg))
			cipher.NewCBCDecrypter(b, iv).CryptBlocks(out, msg)
		} else {
			return nil, err
		}
	}
	return out, nil
}

func validate(msg, iv []byte, alg string) (err error) {
	if alg == "A128" || alg == "A256" {
		if len(iv) != 16 || len(msg)%16 != 0 {
			err = errSize
		}
		return
	}
	return errAlg
}

// GoodHelperGuard: the guards live in a helper that reports through its error.
func GoodHelperGuard(msg, iv []byte, alg string) ([]byte, error) {
	if err := validate(msg, iv, alg); err != nil {
		return nil, err
	}
	b, _ := aes.NewCipher(key)
	out := make([]byte, len(msg))
	cipher.NewCBCDecrypter(b, iv).CryptBlocks(out, msg)
	return out, nil
}

// BadNoIVGuard: the IV length is never checked.
func BadNoIVGuard(msg, iv []byte, alg string) ([]byte, error) {
	if alg != "A128" && alg != "A256" {
		return nil, errAlg
	}
	if len(msg)%aes.BlockSize != 0 {
		return nil, errSize
	}
	b, _ := aes.NewCipher(key)
	out := make([]byte, len(msg))
	cipher.NewCBCDecrypter(b, iv).CryptBlocks(out, msg)
	return out, nil
}

// BadGuardIgnored: the helper's verdict is dropped.
func BadGuardIgnored(msg, iv []byte, alg string) ([]byte, error) {
	_ = validate(msg, iv, alg)
	b, _ := aes.NewCipher(key)
	out := make([]byte, len(msg))
	cipher.NewCBCDecrypter(b, iv).CryptBlocks(out, msg)
	return out, nil
}

// BadWeakComparison: `<` lets oversized IVs through.
func BadWeakComparison(msg, iv []byte, alg string) ([]byte, error) {
	if alg != "A128" && alg != "A256" {
		return nil, errAlg
	}
	if len(iv) < aes.BlockSize || len(msg)%aes.BlockSize != 0 {
		return nil, errSize
	}
	b, _ := aes.NewCipher(key)
	out := make([]byte, len(msg))
	cipher.NewCBCDecrypter(b, iv).CryptBlocks(out, msg)
	return out, nil
}

// BadWrongSentinel: rejects, but with the error of another case.
func BadWrongSentinel(msg, iv []byte, alg string) ([]byte, error) {
	if alg != "A128" && alg != "A256" {
		return nil, errAlg
	}
	if len(iv) != aes.BlockSize {
		return nil, errAlg
	}
	if len(msg)%aes.BlockSize != 0 {
		return nil, errSize
	}
	b, _ := aes.NewCipher(key)
	out := make([]byte, len(msg))
	cipher.NewCBCDecrypter(b, iv).CryptBlocks(out, msg)
	return out, nil
}

// BadFallThrough: the failure branch of the guard does not return.
func BadFallThrough(msg, iv []byte, alg string) ([]byte, error) {
	var err error
	if alg != "A128" && alg != "A256" {
		return nil, errAlg
	}
	if len(iv) != aes.BlockSize || len(msg)%aes.BlockSize != 0 {
		err = errSize
	}
	b, _ := aes.NewCipher(key)
	out := make([]byte, len(msg))
	cipher.NewCBCDecrypter(b, iv).CryptBlocks(out, msg)
	return out, err
}

// BadRejectsEverything: the dispatch misses a listed name.
func BadRejectsEverything(msg, iv []byte, alg string) ([]byte, error) {
	if alg != "A256" {
		return nil, errAlg
	}
	if len(iv) != aes.BlockSize || len(msg)%aes.BlockSize != 0 {
		return nil, errSize
	}
	b, _ := aes.NewCipher(key)
	out := make([]byte, len(msg))
	cipher.NewCBCDecrypter(b, iv).CryptBlocks(out, msg)
	return out, nil
}
