// Package c08pool: fixture for the pooled-buffer escape rule.
package c08pool

import (
	"bytes"
	"io"
	"sync"
)

var pool = sync.Pool{New: func() any { b := make([]byte, 64); return &b }}

type holder struct{ hdr []byte }

func GoodCopyOut(r io.Reader) ([]byte, error) {
	buf := pool.Get().(*[]byte)
	defer pool.Put(buf)
	n, err := r.Read(*buf)
	return bytes.Clone((*buf)[:n]), err
}

func GoodWriteThrough(r io.Reader, w io.Writer) error {
	buf := pool.Get().(*[]byte)
	defer func() { pool.Put(buf) }()
	n, _ := r.Read(*buf)
	_, err := w.Write((*buf)[:n])
	return err
}

func helperSum(b []byte) int {
	n := 0
	for _, x := range b {
		n += int(x)
	}
	return n
}

func GoodHelper(r io.Reader) int {
	buf := pool.Get().(*[]byte)
	defer pool.Put(buf)
	n, _ := r.Read(*buf)
	return helperSum((*buf)[:n])
}

func goodLoop(r io.Reader, fn func([]byte) int) int {
	buf := pool.Get().(*[]byte)
	defer pool.Put(buf)
	n, _ := r.Read(*buf)
	return fn((*buf)[:n])
}

func GoodCallback(r io.Reader) int { return goodLoop(r, helperSum) }

func BadReturnSlice(r io.Reader) []byte {
	buf := pool.Get().(*[]byte)
	defer pool.Put(buf)
	n, _ := r.Read(*buf)
	return (*buf)[:n]
}

func BadStoreField(r io.Reader, h *holder) {
	buf := pool.Get().(*[]byte)
	defer pool.Put(buf)
	n, _ := r.Read(*buf)
	h.hdr = (*buf)[2:n]
}

func BadSend(r io.Reader, ch chan []byte) {
	buf := pool.Get().(*[]byte)
	defer pool.Put(buf)
	n, _ := r.Read(*buf)
	ch <- (*buf)[:n]
}

func BadGoroutine(r io.Reader, w io.Writer) {
	buf := pool.Get().(*[]byte)
	defer pool.Put(buf)
	n, _ := r.Read(*buf)
	go w.Write((*buf)[:n])
}

func helperKeep(h *holder, b []byte) { h.hdr = b }

func BadViaHelper(r io.Reader, h *holder) {
	buf := pool.Get().(*[]byte)
	defer pool.Put(buf)
	n, _ := r.Read(*buf)
	helperKeep(h, (*buf)[:n])
}

func BadTrim(r io.Reader) []byte {
	buf := pool.Get().(*[]byte)
	defer pool.Put(buf)
	n, _ := r.Read(*buf)
	return bytes.TrimSpace((*buf)[:n])
}
