// Package c08pool: fixture for the pooled-buffer escape rule.
package c08pool

import (
	"bytes"
	"io"
	"log"
	"sync"
)

var pool = sync.Pool{New: func() any { b := make([]byte, 64); return &b }}

type holder struct{ hdr []byte }

func GoodCopyOut(r io.Reader) ([]byte, error) {
	buf := pool.Get().(*[]byte)
	defer pool.Put(buf)
	n, err := r.Read(*buf)
	return bytes.Clone((*buf)[:n]), err
}

func GoodWriteThrough(r io.Reader, w io.Writer) error {
	buf := pool.Get().(*[]byte)
	defer func() { pool.Put(buf) }()
	n, _ := r.Read(*buf)
	_, err := w.Write((*buf)[:n])
	return err
}

func helperSum(b []byte) int {
	n := 0
	for _, x := range b {
		n += int(x)
	}
	return n
}

func GoodHelper(r io.Reader) int {
	buf := pool.Get().(*[]byte)
	defer pool.Put(buf)
	n, _ := r.Read(*buf)
	return helperSum((*buf)[:n])
}

func goodLoop(r io.Reader, fn func([]byte) int) int {
	buf := pool.Get().(*[]byte)
	defer pool.Put(buf)
	n, _ := r.Read(*buf)
	return fn((*buf)[:n])
}

func GoodCallback(r io.Reader) int { return goodLoop(r, helperSum) }

func BadReturnSlice(r io.Reader) []byte {
	buf := pool.Get().(*[]byte)
	defer pool.Put(buf)
	n, _ := r.Read(*buf)
	return (*buf)[:n]
}

func BadStoreField(r io.Reader, h *holder) {
	buf := pool.Get().(*[]byte)
	defer pool.Put(buf)
	n, _ := r.Read(*buf)
	h.hdr = (*buf)[2:n]
}

func BadSend(r io.Reader, ch chan []byte) {
	buf := pool.Get().(*[]byte)
	defer pool.Put(buf)
	n, _ := r.Read(*buf)
	ch <- (*buf)[:n]
}

func BadGoroutine(r io.Reader, w io.Writer) {
	buf := pool.Get().(*[]byte)
	defer pool.Put(buf)
	n, _ := r.Read(*buf)
	go w.Write((*buf)[:n])
}

func helperKeep(h *holder, b []byte) { h.hdr = b }

func BadViaHelper(r io.Reader, h *holder) {
	buf := pool.Get().(*[]byte)
	defer pool.Put(buf)
	n, _ := r.Read(*buf)
	helperKeep(h, (*buf)[:n])
}

func BadTrim(r io.Reader) []byte {
	buf := pool.Get().(*[]byte)
	defer pool.Put(buf)
	n, _ := r.Read(*buf)
	return bytes.TrimSpace((*buf)[:n])
}

// ---- Get / Put behind helpers

func getBuf() *[]byte  { return pool.Get().(*[]byte) }
func putBuf(b *[]byte) { pool.Put(b) }

var lastBuf *[]byte

func putAndKeep(b *[]byte) {
	pool.Put(b)
	lastBuf = b
}

func GoodWrapped(r io.Reader) ([]byte, error) {
	buf := getBuf()
	defer putBuf(buf)
	n, err := r.Read(*buf)
	return bytes.Clone((*buf)[:n]), err
}

func GoodWrappedExplicit(r io.Reader) ([]byte, error) {
	buf := getBuf()
	n, err := r.Read(*buf)
	out := append([]byte(nil), (*buf)[:n]...)
	putBuf(buf)
	return out, err
}

func BadWrappedReturn(r io.Reader) []byte {
	buf := getBuf()
	defer putBuf(buf)
	n, _ := r.Read(*buf)
	return (*buf)[:n]
}

func BadPutHelperKeeps(r io.Reader) {
	buf := getBuf()
	defer putAndKeep(buf)
	_, _ = r.Read(*buf)
}

func BadHandOverAndRelease() *[]byte {
	buf := pool.Get().(*[]byte)
	defer pool.Put(buf)
	return buf
}

// ---- zeroing of recycled slices (functions with Zero in their name)

var slices sync.Pool

func zeroAll(b []byte) {
	for i := range b {
		b[i] = 0
	}
}

func zeroSmall(b []byte) {
	if len(b) > 1024 {
		return
	}
	clear(b)
}

func GoodZeroRange() []byte {
	v := slices.Get()
	if v == nil {
		return make([]byte, 0, 8)
	}
	b := v.([]byte)
	for i := range b {
		b[i] = 0
	}
	return b[:0]
}

func GoodZeroThreeClause() []byte {
	v := slices.Get()
	if v == nil {
		return make([]byte, 0, 8)
	}
	b := v.([]byte)
	for i := 0; i < len(b); i++ {
		b[i] = 0
	}
	return b[:0]
}

func GoodZeroRangeInt() []byte {
	v := slices.Get()
	if v == nil {
		return make([]byte, 0, 8)
	}
	b := v.([]byte)
	for i := range len(b) {
		b[i] = 0
	}
	return b[:0]
}

func GoodZeroDown() []byte {
	b, ok := slices.Get().([]byte)
	if !ok {
		return make([]byte, 0, 8)
	}
	for i := len(b) - 1; i >= 0; i-- {
		b[i] = 0
	}
	return b[:0]
}

func GoodZeroClearPhi() []byte {
	var out []byte
	if v := slices.Get(); v != nil {
		b := v.([]byte)
		clear(b)
		out = b[:0]
	} else {
		out = make([]byte, 0, 8)
	}
	return out
}

func GoodZeroHelper() []byte {
	v := slices.Get()
	if v == nil {
		return make([]byte, 0, 8)
	}
	b := v.([]byte)
	zeroAll(b[:len(b)])
	return b[:0]
}

func BadZeroNone() []byte {
	v := slices.Get()
	if v == nil {
		return make([]byte, 0, 8)
	}
	return v.([]byte)[:0]
}

func BadZeroHalf() []byte {
	v := slices.Get()
	if v == nil {
		return make([]byte, 0, 8)
	}
	b := v.([]byte)
	for i := 0; i < len(b)/2; i++ {
		b[i] = 0
	}
	return b[:0]
}

func BadZeroSkipFirst() []byte {
	v := slices.Get()
	if v == nil {
		return make([]byte, 0, 8)
	}
	b := v.([]byte)
	for i := 1; i < len(b); i++ {
		b[i] = 0
	}
	return b[:0]
}

func BadZeroOnePath(quick bool) []byte {
	v := slices.Get()
	if v == nil {
		return make([]byte, 0, 8)
	}
	b := v.([]byte)
	if !quick {
		clear(b)
	}
	return b[:0]
}

func BadZeroHelperSomePaths() []byte {
	v := slices.Get()
	if v == nil {
		return make([]byte, 0, 8)
	}
	b := v.([]byte)
	zeroSmall(b)
	return b[:0]
}

func BadZeroBreak(stop int) []byte {
	v := slices.Get()
	if v == nil {
		return make([]byte, 0, 8)
	}
	b := v.([]byte)
	for i := range b {
		if i == stop {
			break
		}
		b[i] = 0
	}
	return b[:0]
}

func BadZeroStep2() []byte {
	v := slices.Get()
	if v == nil {
		return make([]byte, 0, 8)
	}
	b := v.([]byte)
	for i := 0; i < len(b); i += 2 {
		b[i] = 0
	}
	return b[:0]
}

func GoodZeroLenMinusOne() []byte {
	v := slices.Get()
	if v == nil {
		return make([]byte, 0, 8)
	}
	b := v.([]byte)
	for i := 0; i <= len(b)-1; i++ {
		b[i] = 0
	}
	return b[:0]
}

func GoodZeroCopyFresh() []byte {
	v := slices.Get()
	if v == nil {
		return make([]byte, 0, 8)
	}
	b := v.([]byte)
	copy(b, make([]byte, len(b)))
	return b[:0]
}

func GoodZeroTypeSwitch() []byte {
	switch b := slices.Get().(type) {
	case []byte:
		b = b[:cap(b)]
		clear(b)
		return b[:0]
	default:
		return make([]byte, 0, 8)
	}
}

// ---- hand-over helpers that give the buffer back on some paths only

// GoodFillOrRelease hands the buffer to its caller on success and gives it back on failure.
func GoodFillOrRelease(r io.Reader) (*[]byte, error) {
	buf := pool.Get().(*[]byte)
	if _, err := r.Read(*buf); err != nil {
		pool.Put(buf)
		return nil, err
	}
	return buf, nil
}

func BadPutThenReturn(r io.Reader) *[]byte {
	buf := pool.Get().(*[]byte)
	_, _ = r.Read(*buf)
	pool.Put(buf)
	return buf
}

// ---- release closure returned together with the buffer; pool behind a one-implementation interface

func borrow() (*[]byte, func()) {
	b := pool.Get().(*[]byte)
	return b, func() { pool.Put(b) }
}

func GoodBorrowRelease(r io.Reader) ([]byte, error) {
	buf, release := borrow()
	defer release()
	n, err := r.Read(*buf)
	return bytes.Clone((*buf)[:n]), err
}

func BadBorrowReleaseReturn(r io.Reader) []byte {
	buf, release := borrow()
	defer release()
	n, _ := r.Read(*buf)
	return (*buf)[:n]
}

type source interface {
	take() *[]byte
	give(*[]byte)
}

type poolSource struct{}

func (poolSource) take() *[]byte  { return pool.Get().(*[]byte) }
func (poolSource) give(b *[]byte) { pool.Put(b) }

var src source = poolSource{}

func GoodSeam(r io.Reader) int {
	buf := src.take()
	defer src.give(buf)
	n, _ := r.Read(*buf)
	return n
}

func BadSeamReturn(r io.Reader) []byte {
	buf := src.take()
	defer src.give(buf)
	n, _ := r.Read(*buf)
	return (*buf)[:n]
}

func BadCachedPoolReturn(r io.Reader) []byte {
	p := &pool
	buf := p.Get().(*[]byte)
	defer func() { p.Put(buf) }()
	n, _ := r.Read(*buf)
	return (*buf)[:n]
}

// ---- a buffer is given back at most once (escape rule is silent on these; see the release rule in the fixture callback)

func GoodOnceExplicitEveryExit(r io.Reader) (int, error) {
	buf := pool.Get().(*[]byte)
	n, err := r.Read(*buf)
	if err != nil {
		pool.Put(buf)
		return 0, err
	}
	pool.Put(buf)
	return n, nil
}

func BadTwiceDeferAndExplicit(r io.Reader) (int, error) {
	buf := pool.Get().(*[]byte)
	defer pool.Put(buf)
	n, err := r.Read(*buf)
	if err != nil {
		pool.Put(buf)
		return 0, err
	}
	return n, nil
}

func BadTwiceHelperAndClosure(r io.Reader) int {
	buf := getBuf()
	defer func() { pool.Put(buf) }()
	n, _ := r.Read(*buf)
	putBuf(buf)
	return n
}

// ---- borrowed memory is not put into a pool by a function that returns something

func GoodReleaseOp(b *[]byte) { pool.Put(b) }

func GoodGrowCopy(b []byte, n int) []byte {
	out := make([]byte, n)
	copy(out, b)
	return out
}

func BadGrowAndRelease(b *[]byte, n int) []byte {
	out := make([]byte, n)
	copy(out, *b)
	putBuf(b)
	return out
}

// ---- process-wide library objects

type named struct{ l *log.Logger }

func GoodOwnLogger(w io.Writer) *named {
	l := log.New(w, "", 0)
	l.SetPrefix("x")
	return &named{l: l}
}

func BadSharedLoggerReconfigured(w io.Writer) *named {
	l := log.Default()
	l.SetOutput(w)
	return &named{l: l}
}

func BadPackageSetter(w io.Writer) { log.SetOutput(w) }
