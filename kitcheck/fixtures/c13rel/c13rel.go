// Package c13rel is a fixture for the reader-release rules of C13.OC
// (wg.Done at most once, entry removed, configured cause, cancelled before
// the WaitGroup is signalled). Methods of reader named Good* must be silent,
// Bad* must be reported.
package c13rel

import (
	"context"
	"sync"
	"sync/atomic"
)

type owner struct {
	mu    sync.Mutex
	wg    sync.WaitGroup
	table map[uint64]context.CancelFunc
	cause error
}

type reader struct {
	o      *owner
	id     uint64
	done   bool
	state  int
	flag   atomic.Bool
	once   sync.Once
	gone   chan struct{}
	cancel context.CancelCauseFunc
}

// ---- clean forms ----

func (r *reader) GoodInline() {
	r.o.mu.Lock()
	if !r.done {
		close(r.gone)
		r.cancel(r.o.cause)
		delete(r.o.table, r.id)
		r.o.wg.Done()
		r.done = true
	}
	r.o.mu.Unlock()
}

func (r *reader) GoodEarlyReturnWorkAfterUnlock() {
	o := r.o
	o.mu.Lock()
	if r.done {
		o.mu.Unlock()
		return
	}
	r.done = true
	delete(o.table, r.id)
	o.mu.Unlock()
	r.cancel(o.cause)
	close(r.gone)
	o.wg.Done()
}

func (r *reader) GoodOnce() {
	r.once.Do(func() {
		r.o.mu.Lock()
		defer r.o.mu.Unlock()
		r.cancel(r.o.cause)
		delete(r.o.table, r.id)
		r.o.wg.Done()
	})
}

func (r *reader) GoodSwap() {
	if r.flag.Swap(true) {
		return
	}
	r.o.mu.Lock()
	defer r.o.mu.Unlock()
	r.cancel(r.o.cause)
	delete(r.o.table, r.id)
	r.o.wg.Done()
}

func (r *reader) GoodClosedChannelFlag() {
	r.o.mu.Lock()
	defer r.o.mu.Unlock()
	select {
	case <-r.gone:
	default:
		close(r.gone)
		r.cancel(r.o.cause)
		delete(r.o.table, r.id)
		r.o.wg.Done()
	}
}

func (r *reader) GoodEnumState() {
	r.o.mu.Lock()
	defer r.o.mu.Unlock()
	if r.state != 0 {
		return
	}
	r.state = 1
	r.stop()
	delete(r.o.table, r.id)
	r.o.wg.Done()
}

func (r *reader) stop() { r.cancel(r.o.cause) }

// ---- violations ----

func (r *reader) BadDoneBeforeCancel() {
	o := r.o
	o.mu.Lock()
	if r.done {
		o.mu.Unlock()
		return
	}
	r.done = true
	delete(o.table, r.id)
	o.wg.Done()
	o.mu.Unlock()
	r.cancel(o.cause)
}

func (r *reader) signal() { r.o.wg.Done() }

func (r *reader) BadDoneBeforeCancelInHelpers() {
	r.o.mu.Lock()
	defer r.o.mu.Unlock()
	if r.done {
		return
	}
	r.done = true
	delete(r.o.table, r.id)
	defer r.stop()
	r.signal()
}

func (r *reader) BadNotOnce() {
	r.o.mu.Lock()
	r.cancel(r.o.cause)
	delete(r.o.table, r.id)
	r.o.wg.Done()
	r.o.mu.Unlock()
}

func (r *reader) BadFlagNeverSet() {
	r.o.mu.Lock()
	if !r.done {
		r.cancel(r.o.cause)
		delete(r.o.table, r.id)
		r.o.wg.Done()
	}
	r.o.mu.Unlock()
}

func (r *reader) BadWrongCause() {
	r.o.mu.Lock()
	if !r.done {
		r.done = true
		r.cancel(context.Canceled)
		delete(r.o.table, r.id)
		r.o.wg.Done()
	}
	r.o.mu.Unlock()
}

func (r *reader) BadEntryKept() {
	r.o.mu.Lock()
	if !r.done {
		r.done = true
		r.cancel(r.o.cause)
		r.o.wg.Done()
	}
	r.o.mu.Unlock()
}
