// Package c01read is a fixture for the io.Reader contract rules (C01.R1a/R1b).
package c01read

import (
	"errors"
	"io"
)

// GoodFill: the canonical fill loop.
func GoodFill(in io.Reader, buf []byte) (int, error) {
	var (
		n, nn int
		err   error
	)
	for n < len(buf) && err == nil {
		nn, err = in.Read(buf[n:])
		n += nn
	}
	return n, err
}

// GoodBreakForm: same loop written with breaks, error looked at after the add.
func GoodBreakForm(in io.Reader, buf []byte) (int, error) {
	n := 0
	for {
		nn, err := in.Read(buf[n:])
		n += nn
		if err != nil {
			if errors.Is(err, io.EOF) {
				return n, nil
			}
			return n, err
		}
		if n >= len(buf) {
			return n, nil
		}
	}
}

// GoodSkipEmpty: an empty read is retried (continue), not treated as the end.
func GoodSkipEmpty(in io.Reader, buf []byte) (int, error) {
	n := 0
	var err error
	for n < len(buf) && err == nil {
		var nn int
		nn, err = in.Read(buf[n:])
		if nn <= 0 {
			continue
		}
		n += nn
	}
	return n, err
}

// BadErrFirst: data returned together with an error is dropped.
func BadErrFirst(in io.Reader, buf []byte) (int, error) {
	n := 0
	for n < len(buf) {
		nn, err := in.Read(buf[n:])
		if err != nil {
			return n, err
		}
		n += nn
	}
	return n, nil
}

// BadSingleRead: one Read, no loop.
func BadSingleRead(in io.Reader, buf []byte) (int, error) {
	n, err := in.Read(buf)
	return 0 + n, err
}

// BadZeroIsEnd: a zero-length read ends the loop.
func BadZeroIsEnd(in io.Reader, buf []byte) int {
	n := 0
	for n < len(buf) {
		nn, _ := in.Read(buf[n:])
		n += nn
		if nn == 0 {
			break
		}
	}
	return n
}

// BadCountDropped: the count is thrown away.
func BadCountDropped(in io.Reader, buf []byte) error {
	for {
		_, err := in.Read(buf)
		if err != nil {
			return err
		}
	}
}
