// Package c18dir is a fixture for the C18 writer rules: tiny atomic directory
// writers, clean (Good*) and broken (Bad*).
package c18dir

import (
	"errors"
	"fmt"
	"io/fs"
	"os"
	"path/filepath"
	"sort"
	"time"
)

type D struct {
	base, target, targetDir string
	prev                    *string
}

func fresh(d *D) string {
	return filepath.Join(d.base, fmt.Sprintf("%d-%s", time.Now().UnixNano(), d.targetDir))
}

// GoodRemoveFirst: reference shape with the leftover link removed first.
func GoodRemoveFirst(d *D, files map[string][]byte) error {
	v := fresh(d)
	if err := os.MkdirAll(v, 0o755); err != nil {
		return err
	}
	for n, b := range files {
		if err := os.WriteFile(filepath.Join(v, n), b, 0o600); err != nil {
			return err
		}
	}
	tmp := d.target + ".new"
	if err := os.RemoveAll(tmp); err != nil {
		return err
	}
	if err := os.Symlink(v, tmp); err != nil {
		return err
	}
	if err := os.Rename(tmp, d.target); err != nil {
		return err
	}
	if d.prev != nil {
		if err := os.RemoveAll(*d.prev); err != nil {
			return err
		}
	}
	d.prev = &v
	return nil
}

// GoodSwitchForm: same with else/switch forms, Remove + ErrNotExist tolerance.
func GoodSwitchForm(d *D, files map[string][]byte) error {
	v := filepath.Join(d.base, fmt.Sprintf("%d-%s", time.Now().UTC().UnixNano(), d.targetDir))
	err := os.MkdirAll(v, 0o755)
	switch {
	case err != nil:
		return err
	}
	for n, b := range files {
		if werr := os.WriteFile(filepath.Join(v, n), b, 0o600); werr == nil {
			continue
		} else {
			return werr
		}
	}
	if err := os.Remove(d.target + "." + "new"); err != nil && !errors.Is(err, fs.ErrNotExist) {
		return err
	}
	if err := os.Symlink(v, d.target+".new"); err == nil {
		if err := os.Rename(d.target+".new", d.target); err != nil {
			return fmt.Errorf("rename: %w", err)
		}
		if d.prev != nil {
			if err := os.RemoveAll(*d.prev); err != nil {
				return err
			}
		}
		cur := v
		d.prev = &cur
		return nil
	} else {
		return err
	}
}

// GoodUniqueLink: the temporary link has a per-call name, no removal needed.
func GoodUniqueLink(d *D, files map[string][]byte) error {
	v := fresh(d)
	if err := os.MkdirAll(v, 0o755); err != nil {
		return err
	}
	for n, b := range files {
		if err := os.WriteFile(filepath.Join(v, n), b, 0o600); err != nil {
			return err
		}
	}
	if err := os.Symlink(v, v+".lnk"); err != nil {
		return err
	}
	if err := os.Rename(v+".lnk", d.target); err != nil {
		return err
	}
	if d.prev != nil {
		if err := os.RemoveAll(*d.prev); err != nil {
			return err
		}
	}
	d.prev = &v
	return nil
}

// BadLeftover: today's dir.Write shape (D18).
func BadLeftover(d *D, files map[string][]byte) error {
	v := fresh(d)
	if err := os.MkdirAll(v, 0o755); err != nil {
		return err
	}
	for n, b := range files {
		if err := os.WriteFile(filepath.Join(v, n), b, 0o600); err != nil {
			return err
		}
	}
	if err := os.Symlink(v, d.target+".new"); err != nil {
		return err
	}
	if err := os.Rename(d.target+".new", d.target); err != nil {
		return err
	}
	if d.prev != nil {
		if err := os.RemoveAll(*d.prev); err != nil {
			return err
		}
	}
	d.prev = &v
	return nil
}

// BadRemoveOnOnePath: the leftover is removed only on one branch.
func BadRemoveOnOnePath(d *D, files map[string][]byte) error {
	v := fresh(d)
	if err := os.MkdirAll(v, 0o755); err != nil {
		return err
	}
	for n, b := range files {
		if err := os.WriteFile(filepath.Join(v, n), b, 0o600); err != nil {
			return err
		}
	}
	if d.prev != nil {
		os.Remove(d.target + ".new")
	}
	if err := os.Symlink(v, d.target+".new"); err != nil {
		return err
	}
	if err := os.Rename(d.target+".new", d.target); err != nil {
		return err
	}
	if d.prev != nil {
		if err := os.RemoveAll(*d.prev); err != nil {
			return err
		}
	}
	d.prev = &v
	return nil
}

// BadLoggedWrite: a failed write is skipped and the set is published anyway.
func BadLoggedWrite(d *D, files map[string][]byte) error {
	v := fresh(d)
	if err := os.MkdirAll(v, 0o755); err != nil {
		return err
	}
	for n, b := range files {
		if err := os.WriteFile(filepath.Join(v, n), b, 0o600); err != nil {
			fmt.Println("skip", n)
		}
	}
	os.Remove(d.target + ".new")
	if err := os.Symlink(v, d.target+".new"); err != nil {
		return err
	}
	if err := os.Rename(d.target+".new", d.target); err != nil {
		return err
	}
	if d.prev != nil {
		if err := os.RemoveAll(*d.prev); err != nil {
			return err
		}
	}
	d.prev = &v
	return nil
}

// BadPublishFirst: link and rename before the files are written.
func BadPublishFirst(d *D, files map[string][]byte) error {
	v := fresh(d)
	if err := os.MkdirAll(v, 0o755); err != nil {
		return err
	}
	os.Remove(d.target + ".new")
	if err := os.Symlink(v, d.target+".new"); err != nil {
		return err
	}
	if err := os.Rename(d.target+".new", d.target); err != nil {
		return err
	}
	for n, b := range files {
		if err := os.WriteFile(filepath.Join(v, n), b, 0o600); err != nil {
			return err
		}
	}
	if d.prev != nil {
		if err := os.RemoveAll(*d.prev); err != nil {
			return err
		}
	}
	d.prev = &v
	return nil
}

// BadInPlace: the version directory has a fixed name.
func BadInPlace(d *D, files map[string][]byte) error {
	v := filepath.Join(d.base, d.targetDir+"-data")
	if err := os.MkdirAll(v, 0o755); err != nil {
		return err
	}
	for n, b := range files {
		if err := os.WriteFile(filepath.Join(v, n), b, 0o600); err != nil {
			return err
		}
	}
	os.Remove(d.target + ".new")
	if err := os.Symlink(v, d.target+".new"); err != nil {
		return err
	}
	if err := os.Rename(d.target+".new", d.target); err != nil {
		return err
	}
	if d.prev != nil {
		if err := os.RemoveAll(*d.prev); err != nil {
			return err
		}
	}
	d.prev = &v
	return nil
}

// BadNonAtomic: remove the target, then link it.
func BadNonAtomic(d *D, files map[string][]byte) error {
	v := fresh(d)
	if err := os.MkdirAll(v, 0o755); err != nil {
		return err
	}
	for n, b := range files {
		if err := os.WriteFile(filepath.Join(v, n), b, 0o600); err != nil {
			return err
		}
	}
	os.Remove(d.target)
	if err := os.Symlink(v, d.target); err != nil {
		return err
	}
	if d.prev != nil {
		if err := os.RemoveAll(*d.prev); err != nil {
			return err
		}
	}
	d.prev = &v
	return nil
}

// BadPrevOrder: prev overwritten before the old version is removed.
func BadPrevOrder(d *D, files map[string][]byte) error {
	v := fresh(d)
	if err := os.MkdirAll(v, 0o755); err != nil {
		return err
	}
	for n, b := range files {
		if err := os.WriteFile(filepath.Join(v, n), b, 0o600); err != nil {
			return err
		}
	}
	os.Remove(d.target + ".new")
	if err := os.Symlink(v, d.target+".new"); err != nil {
		return err
	}
	if err := os.Rename(d.target+".new", d.target); err != nil {
		return err
	}
	old := d.prev
	d.prev = &v
	if old != nil {
		if err := os.RemoveAll(*d.prev); err != nil {
			return err
		}
	}
	return nil
}

// BadCoarseClock: second resolution in the version directory name.
func BadCoarseClock(d *D, files map[string][]byte) error {
	v := filepath.Join(d.base, fmt.Sprintf("%d-%s", time.Now().Unix(), d.targetDir))
	if err := os.MkdirAll(v, 0o755); err != nil {
		return err
	}
	for n, b := range files {
		if err := os.WriteFile(filepath.Join(v, n), b, 0o600); err != nil {
			return err
		}
	}
	os.Remove(d.target + ".new")
	if err := os.Symlink(v, d.target+".new"); err != nil {
		return err
	}
	if err := os.Rename(d.target+".new", d.target); err != nil {
		return err
	}
	if d.prev != nil {
		if err := os.RemoveAll(*d.prev); err != nil {
			return err
		}
	}
	d.prev = &v
	return nil
}

// BadRecomputedName: the helper is evaluated again for the link (another time.Now()).
func BadRecomputedName(d *D, files map[string][]byte) error {
	v := fresh(d)
	if err := os.MkdirAll(v, 0o755); err != nil {
		return err
	}
	for n, b := range files {
		if err := os.WriteFile(filepath.Join(v, n), b, 0o600); err != nil {
			return err
		}
	}
	os.Remove(d.target + ".new")
	if err := os.Symlink(fresh(d), d.target+".new"); err != nil {
		return err
	}
	if err := os.Rename(d.target+".new", d.target); err != nil {
		return err
	}
	if d.prev != nil {
		if err := os.RemoveAll(*d.prev); err != nil {
			return err
		}
	}
	d.prev = &v
	return nil
}

// BadSwallowedRename: nil returned although the rename failed.
func BadSwallowedRename(d *D, files map[string][]byte) error {
	v := fresh(d)
	if err := os.MkdirAll(v, 0o755); err != nil {
		return err
	}
	for n, b := range files {
		if err := os.WriteFile(filepath.Join(v, n), b, 0o600); err != nil {
			return err
		}
	}
	os.Remove(d.target + ".new")
	if err := os.Symlink(v, d.target+".new"); err != nil {
		return err
	}
	if err := os.Rename(d.target+".new", d.target); err != nil {
		fmt.Println(err)
		return nil
	}
	if d.prev != nil {
		if err := os.RemoveAll(*d.prev); err != nil {
			return err
		}
	}
	d.prev = &v
	return nil
}

// BadTolerateExist: no removal; EEXIST on the link is "tolerated": the stale
// link of a crashed call gets published.
func BadTolerateExist(d *D, files map[string][]byte) error {
	v := fresh(d)
	if err := os.MkdirAll(v, 0o755); err != nil {
		return err
	}
	for n, b := range files {
		if err := os.WriteFile(filepath.Join(v, n), b, 0o600); err != nil {
			return err
		}
	}
	if err := os.Symlink(v, d.target+".new"); err != nil && !errors.Is(err, os.ErrExist) {
		return err
	}
	if err := os.Rename(d.target+".new", d.target); err != nil {
		return err
	}
	if d.prev != nil {
		if err := os.RemoveAll(*d.prev); err != nil {
			return err
		}
	}
	d.prev = &v
	return nil
}

// BadTolerateIsExist: same with os.IsExist in a switch.
func BadTolerateIsExist(d *D, files map[string][]byte) error {
	v := fresh(d)
	if err := os.MkdirAll(v, 0o755); err != nil {
		return err
	}
	for n, b := range files {
		if err := os.WriteFile(filepath.Join(v, n), b, 0o600); err != nil {
			return err
		}
	}
	err := os.Symlink(v, d.target+".new")
	switch {
	case err == nil:
	case os.IsExist(err):
		fmt.Println("link exists, tolerate it")
	default:
		return err
	}
	if err := os.Rename(d.target+".new", d.target); err != nil {
		return err
	}
	if d.prev != nil {
		if err := os.RemoveAll(*d.prev); err != nil {
			return err
		}
	}
	d.prev = &v
	return nil
}

// BadIgnoreLinkError: no removal and the link error is dropped altogether.
func BadIgnoreLinkError(d *D, files map[string][]byte) error {
	v := fresh(d)
	if err := os.MkdirAll(v, 0o755); err != nil {
		return err
	}
	for n, b := range files {
		if err := os.WriteFile(filepath.Join(v, n), b, 0o600); err != nil {
			return err
		}
	}
	_ = os.Symlink(v, d.target+".new")
	if err := os.Rename(d.target+".new", d.target); err != nil {
		return err
	}
	if d.prev != nil {
		if err := os.RemoveAll(*d.prev); err != nil {
			return err
		}
	}
	d.prev = &v
	return nil
}

// GoodRecreate: EEXIST handled by removing the leftover and creating the link again.
func GoodRecreate(d *D, files map[string][]byte) error {
	v := fresh(d)
	if err := os.MkdirAll(v, 0o755); err != nil {
		return err
	}
	for n, b := range files {
		if err := os.WriteFile(filepath.Join(v, n), b, 0o600); err != nil {
			return err
		}
	}
	tmp := d.target + ".new"
	if err := os.Symlink(v, tmp); err != nil {
		if !errors.Is(err, fs.ErrExist) {
			return err
		}
		if err := os.Remove(tmp); err != nil {
			return err
		}
		if err := os.Symlink(v, tmp); err != nil {
			return err
		}
	}
	if err := os.Rename(tmp, d.target); err != nil {
		return err
	}
	if d.prev != nil {
		if err := os.RemoveAll(*d.prev); err != nil {
			return err
		}
	}
	d.prev = &v
	return nil
}

// GoodUncheckedLinkAfterRemove: the link error is dropped, but the path was
// removed first: the rename then fails, nothing wrong is published.
func GoodUncheckedLinkAfterRemove(d *D, files map[string][]byte) error {
	v := fresh(d)
	if err := os.MkdirAll(v, 0o755); err != nil {
		return err
	}
	for n, b := range files {
		if err := os.WriteFile(filepath.Join(v, n), b, 0o600); err != nil {
			return err
		}
	}
	if err := os.Remove(d.target + ".new"); err != nil && !errors.Is(err, fs.ErrNotExist) {
		return err
	}
	os.Symlink(v, d.target+".new")
	if err := os.Rename(d.target+".new", d.target); err != nil {
		return err
	}
	if d.prev != nil {
		if err := os.RemoveAll(*d.prev); err != nil {
			return err
		}
	}
	d.prev = &v
	return nil
}

// BadDeferCleanup: "don't leave a half-written version dir on failure" — but
// the error of RemoveAll(*prev) is returned after the rename committed, so the
// deferred clean-up deletes the live directory.
func BadDeferCleanup(d *D, files map[string][]byte) (err error) {
	v := fresh(d)
	defer func() {
		if err != nil {
			os.RemoveAll(v)
		}
	}()
	if err = os.MkdirAll(v, 0o755); err != nil {
		return err
	}
	for n, b := range files {
		if err = os.WriteFile(filepath.Join(v, n), b, 0o600); err != nil {
			return err
		}
	}
	if err = os.Remove(d.target + ".new"); err != nil && !errors.Is(err, fs.ErrNotExist) {
		return err
	}
	if err = os.Symlink(v, d.target+".new"); err != nil {
		return err
	}
	if err = os.Rename(d.target+".new", d.target); err != nil {
		return err
	}
	if d.prev != nil {
		if err = os.RemoveAll(*d.prev); err != nil {
			return err
		}
	}
	d.prev = &v
	return nil
}

// BadDeferFlagTooLate: the flag that disarms the clean-up is set after the
// last failing step instead of right after the rename.
func BadDeferFlagTooLate(d *D, files map[string][]byte) (err error) {
	v := fresh(d)
	published := false
	defer func() {
		if err != nil && !published {
			os.RemoveAll(v)
		}
	}()
	if err = os.MkdirAll(v, 0o755); err != nil {
		return err
	}
	for n, b := range files {
		if err = os.WriteFile(filepath.Join(v, n), b, 0o600); err != nil {
			return err
		}
	}
	if err = os.Remove(d.target + ".new"); err != nil && !errors.Is(err, fs.ErrNotExist) {
		return err
	}
	if err = os.Symlink(v, d.target+".new"); err != nil {
		return err
	}
	if err = os.Rename(d.target+".new", d.target); err != nil {
		return err
	}
	if d.prev != nil {
		if err = os.RemoveAll(*d.prev); err != nil {
			return err
		}
	}
	published = true
	d.prev = &v
	return nil
}

// GoodDeferCleanupFlag: same clean-up, disarmed as soon as the rename succeeded.
func GoodDeferCleanupFlag(d *D, files map[string][]byte) (err error) {
	v := fresh(d)
	published := false
	defer func() {
		if err != nil && !published {
			os.RemoveAll(v)
		}
	}()
	if err = os.MkdirAll(v, 0o755); err != nil {
		return err
	}
	for n, b := range files {
		if err = os.WriteFile(filepath.Join(v, n), b, 0o600); err != nil {
			return err
		}
	}
	if err = os.Remove(d.target + ".new"); err != nil && !errors.Is(err, fs.ErrNotExist) {
		return err
	}
	if err = os.Symlink(v, d.target+".new"); err != nil {
		return err
	}
	if err = os.Rename(d.target+".new", d.target); err != nil {
		return err
	}
	published = true
	if d.prev != nil {
		if err = os.RemoveAll(*d.prev); err != nil {
			return err
		}
	}
	d.prev = &v
	return nil
}

// GoodDeferCleanupArmed: clean-up controlled by a flag only.
func GoodDeferCleanupArmed(d *D, files map[string][]byte) error {
	v := fresh(d)
	cleanup := true
	defer func() {
		if cleanup {
			os.RemoveAll(v)
		}
	}()
	var err error
	if err = os.MkdirAll(v, 0o755); err != nil {
		return err
	}
	for n, b := range files {
		if err = os.WriteFile(filepath.Join(v, n), b, 0o600); err != nil {
			return err
		}
	}
	if err = os.Remove(d.target + ".new"); err != nil && !errors.Is(err, fs.ErrNotExist) {
		return err
	}
	if err = os.Symlink(v, d.target+".new"); err != nil {
		return err
	}
	if err = os.Rename(d.target+".new", d.target); err != nil {
		return err
	}
	cleanup = false
	if d.prev != nil {
		if err = os.RemoveAll(*d.prev); err != nil {
			return err
		}
	}
	d.prev = &v
	return nil
}

// GoodNamedResult: named result without any deferred clean-up.
func GoodNamedResult(d *D, files map[string][]byte) (err error) {
	v := fresh(d)
	if err = os.MkdirAll(v, 0o755); err != nil {
		return err
	}
	for n, b := range files {
		if err = os.WriteFile(filepath.Join(v, n), b, 0o600); err != nil {
			return err
		}
	}
	if err = os.Remove(d.target + ".new"); err != nil && !errors.Is(err, fs.ErrNotExist) {
		return err
	}
	if err = os.Symlink(v, d.target+".new"); err != nil {
		return err
	}
	if err = os.Rename(d.target+".new", d.target); err != nil {
		return err
	}
	if d.prev != nil {
		if err = os.RemoveAll(*d.prev); err != nil {
			return err
		}
	}
	d.prev = &v
	return nil
}

// ---- steps in helpers / other enumeration of the file map ------------------------

func fill(d *D, v string, files map[string][]byte) error {
	if err := os.MkdirAll(v, 0o755); err != nil {
		return err
	}
	for n, b := range files {
		if err := os.WriteFile(filepath.Join(v, n), b, 0o600); err != nil {
			return err
		}
	}
	return nil
}

func fillSloppy(d *D, v string, files map[string][]byte) error {
	if err := os.MkdirAll(v, 0o755); err != nil {
		return err
	}
	for n, b := range files {
		if err := os.WriteFile(filepath.Join(v, n), b, 0o600); err != nil {
			fmt.Println("skipping", n)
		}
	}
	return nil
}

func swap(d *D, v string) error {
	tmp := d.target + ".new"
	if err := os.Remove(tmp); err != nil && !errors.Is(err, fs.ErrNotExist) {
		return err
	}
	if err := os.Symlink(v, tmp); err != nil {
		return err
	}
	return os.Rename(tmp, d.target)
}

func dropPrev(d *D) error {
	if d.prev == nil {
		return nil
	}
	return os.RemoveAll(*d.prev)
}

// GoodSplitHelpers: the reference shape split into helpers (tail calls included).
func GoodSplitHelpers(d *D, files map[string][]byte) error {
	v := fresh(d)
	if err := fill(d, v, files); err != nil {
		return err
	}
	if err := swap(d, v); err != nil {
		return err
	}
	if err := dropPrev(d); err != nil {
		return err
	}
	d.prev = &v
	return nil
}

// BadHelperSwallows: the helper goes on after a failed write.
func BadHelperSwallows(d *D, files map[string][]byte) error {
	v := fresh(d)
	if err := fillSloppy(d, v, files); err != nil {
		return err
	}
	if err := swap(d, v); err != nil {
		return err
	}
	if err := dropPrev(d); err != nil {
		return err
	}
	d.prev = &v
	return nil
}

// BadHelperOrder: the previous version is dropped before the swap.
func BadHelperOrder(d *D, files map[string][]byte) error {
	v := fresh(d)
	if err := fill(d, v, files); err != nil {
		return err
	}
	if err := dropPrev(d); err != nil {
		return err
	}
	if err := swap(d, v); err != nil {
		return err
	}
	d.prev = &v
	return nil
}

// GoodSortedKeys: files written in sorted name order.
func GoodSortedKeys(d *D, files map[string][]byte) error {
	v := fresh(d)
	if err := os.MkdirAll(v, 0o755); err != nil {
		return err
	}
	names := make([]string, 0, len(files))
	for n := range files {
		names = append(names, n)
	}
	sort.Strings(names)
	for _, n := range names {
		if err := os.WriteFile(filepath.Join(v, n), files[n], 0o600); err != nil {
			return err
		}
	}
	if err := swap(d, v); err != nil {
		return err
	}
	if err := dropPrev(d); err != nil {
		return err
	}
	d.prev = &v
	return nil
}

// BadSortedKeysFiltered: some names are left out when the names are collected.
func BadSortedKeysFiltered(d *D, files map[string][]byte) error {
	v := fresh(d)
	if err := os.MkdirAll(v, 0o755); err != nil {
		return err
	}
	var names []string
	for n := range files {
		if len(files[n]) == 0 {
			continue
		}
		names = append(names, n)
	}
	sort.Strings(names)
	for _, n := range names {
		if err := os.WriteFile(filepath.Join(v, n), files[n], 0o600); err != nil {
			return err
		}
	}
	if err := swap(d, v); err != nil {
		return err
	}
	if err := dropPrev(d); err != nil {
		return err
	}
	d.prev = &v
	return nil
}

// ---- loops over literal slices, callbacks, value+flag ---------------------------------

type D2 struct {
	base, target, targetDir string
	prev                    string
	hasPrev                 bool
}

func fresh2(d *D2) string {
	return filepath.Join(d.base, fmt.Sprintf("%d-%s", time.Now().UnixNano(), d.targetDir))
}

func locked(f func() error) error { return f() }

// GoodLiteralLoopsFlag: directories made by a loop over a literal slice, phases run as
// callbacks of a helper through a literal slice of closures, previous version as value+flag.
func GoodLiteralLoopsFlag(d *D2, files map[string][]byte) error {
	v := fresh2(d)
	tmp := d.target + ".new"
	fill := func() error {
		for _, dir := range []string{d.base, v} {
			if err := os.MkdirAll(dir, 0o755); err != nil {
				return err
			}
		}
		for n, b := range files {
			if err := os.WriteFile(filepath.Join(v, n), b, 0o600); err != nil {
				return err
			}
		}
		return nil
	}
	swapIn := func() error {
		if err := os.Remove(tmp); err != nil && !errors.Is(err, fs.ErrNotExist) {
			return err
		}
		if err := os.Symlink(v, tmp); err != nil {
			return err
		}
		return os.Rename(tmp, d.target)
	}
	for _, step := range []func() error{fill, swapIn} {
		if err := locked(step); err != nil {
			return err
		}
	}
	if d.hasPrev {
		if err := os.RemoveAll(d.prev); err != nil {
			return err
		}
	}
	d.prev, d.hasPrev = v, true
	return nil
}

// BadLiteralLoopOrder: the same with the phases listed in the wrong order.
func BadLiteralLoopOrder(d *D2, files map[string][]byte) error {
	v := fresh2(d)
	tmp := d.target + ".new"
	fill := func() error {
		for _, dir := range []string{d.base, v} {
			if err := os.MkdirAll(dir, 0o755); err != nil {
				return err
			}
		}
		for n, b := range files {
			if err := os.WriteFile(filepath.Join(v, n), b, 0o600); err != nil {
				return err
			}
		}
		return nil
	}
	swapIn := func() error {
		if err := os.Remove(tmp); err != nil && !errors.Is(err, fs.ErrNotExist) {
			return err
		}
		if err := os.Symlink(v, tmp); err != nil {
			return err
		}
		return os.Rename(tmp, d.target)
	}
	for _, step := range []func() error{swapIn, fill} {
		if err := locked(step); err != nil {
			return err
		}
	}
	if d.hasPrev {
		if err := os.RemoveAll(d.prev); err != nil {
			return err
		}
	}
	d.prev, d.hasPrev = v, true
	return nil
}

// BadFlagNeverSet: the flag that says a previous version is recorded is never set.
func BadFlagNeverSet(d *D2, files map[string][]byte) error {
	v := fresh2(d)
	tmp := d.target + ".new"
	for _, dir := range []string{d.base, v} {
		if err := os.MkdirAll(dir, 0o755); err != nil {
			return err
		}
	}
	for n, b := range files {
		if err := os.WriteFile(filepath.Join(v, n), b, 0o600); err != nil {
			return err
		}
	}
	if err := os.Remove(tmp); err != nil && !errors.Is(err, fs.ErrNotExist) {
		return err
	}
	if err := os.Symlink(v, tmp); err != nil {
		return err
	}
	if err := os.Rename(tmp, d.target); err != nil {
		return err
	}
	if d.hasPrev {
		if err := os.RemoveAll(d.prev); err != nil {
			return err
		}
	}
	d.prev = v
	return nil
}

// ---- phase helpers whose flag result the caller branches on; combined errors ----------

func retiredOf(d *D) (string, bool) {
	if d.prev == nil {
		return "", false
	}
	return *d.prev, true
}

func retiredWrong(d *D) (string, bool) {
	if d.prev != nil {
		return "", false
	}
	return "", true
}

func ensure(dirs ...string) error {
	for _, dir := range dirs {
		if err := os.MkdirAll(dir, 0o755); err != nil {
			return err
		}
	}
	return nil
}

// GoodFlagTupleHelper: directories through a variadic helper, previous version through a
// (dir, ok) helper whose flag the caller branches on.
func GoodFlagTupleHelper(d *D, files map[string][]byte) error {
	v := fresh(d)
	if err := ensure(d.base, v); err != nil {
		return err
	}
	for n, b := range files {
		if err := os.WriteFile(filepath.Join(v, n), b, 0o600); err != nil {
			return err
		}
	}
	if err := swap(d, v); err != nil {
		return err
	}
	if old, ok := retiredOf(d); ok {
		if err := os.RemoveAll(old); err != nil {
			return err
		}
	}
	d.prev = &v
	return nil
}

// BadFlagTupleHelperInverted: the helper says "none" exactly when there is a previous version.
func BadFlagTupleHelperInverted(d *D, files map[string][]byte) error {
	v := fresh(d)
	if err := ensure(d.base, v); err != nil {
		return err
	}
	for n, b := range files {
		if err := os.WriteFile(filepath.Join(v, n), b, 0o600); err != nil {
			return err
		}
	}
	if err := swap(d, v); err != nil {
		return err
	}
	if old, ok := retiredWrong(d); ok {
		if err := os.RemoveAll(old); err != nil {
			return err
		}
	}
	d.prev = &v
	return nil
}

// ---- steps chained through one error variable --------------------------------------

// GoodErrChain: `err := a(); if err == nil { err = b() }; …; return err`.
func GoodErrChain(d *D, files map[string][]byte) error {
	v := fresh(d)
	err := fill(d, v, files)
	if err == nil {
		err = swap(d, v)
	}
	if err == nil {
		err = dropPrev(d)
	}
	if err == nil {
		d.prev = &v
	}
	return err
}

// BadErrChainUnguarded: the previous version is dropped whatever the swap returned.
func BadErrChainUnguarded(d *D, files map[string][]byte) error {
	v := fresh(d)
	err := fill(d, v, files)
	if err == nil {
		err = swap(d, v)
	}
	if derr := dropPrev(d); err == nil {
		err = derr
	}
	if err == nil {
		d.prev = &v
	}
	return err
}

// ---- the previous version handed down as an argument ----------------------------------

func retireArg(prev *string) error {
	if prev == nil {
		return nil
	}
	return os.RemoveAll(*prev)
}

// GoodPrevAsArgument: the helper tests and removes the pointer it is given.
func GoodPrevAsArgument(d *D, files map[string][]byte) error {
	v := fresh(d)
	if err := fill(d, v, files); err != nil {
		return err
	}
	if err := swap(d, v); err != nil {
		return err
	}
	if err := retireArg(d.prev); err != nil {
		return err
	}
	d.prev = &v
	return nil
}

// BadPrevArgumentNil: the helper is always given nil.
func BadPrevArgumentNil(d *D, files map[string][]byte) error {
	v := fresh(d)
	if err := fill(d, v, files); err != nil {
		return err
	}
	if err := swap(d, v); err != nil {
		return err
	}
	if err := retireArg(nil); err != nil {
		return err
	}
	d.prev = &v
	return nil
}

// ---- exclusive marker / lock files ---------------------------------------------------

// BadLockFile: an O_EXCL lock file at a fixed path, removed only by a defer: a crash leaves it
// behind and every later write fails.
func BadLockFile(d *D, files map[string][]byte) error {
	lock, err := os.OpenFile(d.target+".lock", os.O_CREATE|os.O_EXCL|os.O_WRONLY, 0o600)
	if err != nil {
		return err
	}
	defer func() {
		lock.Close()
		os.Remove(d.target + ".lock")
	}()
	v := fresh(d)
	if err := fill(d, v, files); err != nil {
		return err
	}
	if err := swap(d, v); err != nil {
		return err
	}
	if err := dropPrev(d); err != nil {
		return err
	}
	d.prev = &v
	return nil
}

// GoodBestEffortLock: the same lock, but failing to take it does not abort the write.
func GoodBestEffortLock(d *D, files map[string][]byte) error {
	if lock, err := os.OpenFile(d.target+".lock", os.O_CREATE|os.O_EXCL|os.O_WRONLY, 0o600); err == nil {
		defer func() {
			lock.Close()
			os.Remove(d.target + ".lock")
		}()
	}
	v := fresh(d)
	if err := fill(d, v, files); err != nil {
		return err
	}
	if err := swap(d, v); err != nil {
		return err
	}
	if err := dropPrev(d); err != nil {
		return err
	}
	d.prev = &v
	return nil
}

// GoodExclInFreshDir: exclusive creations on per-call paths cannot collide with leftovers.
func GoodExclInFreshDir(d *D, files map[string][]byte) error {
	v := fresh(d)
	if err := os.MkdirAll(d.base, 0o755); err != nil {
		return err
	}
	if err := os.Mkdir(v, 0o755); err != nil {
		return err
	}
	for n, b := range files {
		f, err := os.OpenFile(filepath.Join(v, n), os.O_CREATE|os.O_EXCL|os.O_WRONLY, 0o600)
		if err != nil {
			return err
		}
		f.Write(b)
		f.Close()
	}
	if err := swap(d, v); err != nil {
		return err
	}
	if err := dropPrev(d); err != nil {
		return err
	}
	d.prev = &v
	return nil
}
