// Package c01cb is a fixture for C01.R9: byte slices returned by a caller-supplied key callback are not overwritten.
package c01cb

import (
	"bytes"
	"crypto/subtle"
)

// Options mirrors the shape of the decrypt options: a callback that returns key bytes it may keep.
type Options struct {
	UnwrapKeyFn func(wrapped []byte) ([]byte, error)
}

func use(k []byte) int { return len(k) }

// BadClear wipes the callback's slice.
func BadClear(o Options, w []byte) int {
	k, _ := o.UnwrapKeyFn(w)
	n := use(k)
	clear(k)
	return n
}

// BadDeferredWipe wipes it in a deferred helper.
func BadDeferredWipe(o Options, w []byte) int {
	k, _ := o.UnwrapKeyFn(w)
	defer wipe(k)
	return use(k)
}

func wipe(b []byte) {
	for i := range b {
		b[i] = 0
	}
}

// BadMaybePlaceholder overwrites a slice that is the callback's on one path.
func BadMaybePlaceholder(o Options, w []byte) int {
	k, err := o.UnwrapKeyFn(w)
	if err != nil {
		k = make([]byte, 32)
	}
	n := use(k)
	subtle.XORBytes(k, k, k)
	return n
}

// BadCopyInto copies other bytes over it.
func BadCopyInto(o Options, w []byte) {
	k, _ := o.UnwrapKeyFn(w)
	copy(k[:4], w)
}

// GoodReadOnly only reads it.
func GoodReadOnly(o Options, w []byte) int {
	k, _ := o.UnwrapKeyFn(w)
	return use(k)
}

// GoodWipeOwnCopy clones it and wipes the clone.
func GoodWipeOwnCopy(o Options, w []byte) int {
	k, _ := o.UnwrapKeyFn(w)
	own := bytes.Clone(k)
	defer clear(own)
	return use(own)
}

// GoodWipePlaceholderOnly wipes only the buffer it allocated itself.
func GoodWipePlaceholderOnly(o Options, w []byte) int {
	k, err := o.UnwrapKeyFn(w)
	if err != nil {
		ph := make([]byte, 32)
		n := use(ph)
		clear(ph)
		return n
	}
	return use(k)
}
