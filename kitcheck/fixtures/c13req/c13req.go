// Package c13req is a fixture for the requester-side rules of C13.OC: a
// requester with a context hands its request over in a select that also
// watches ctx.Done(); after the hand-over the reply is always collected.
// Methods named Good* must be silent, Bad* must be reported.
package c13req

import (
	"context"
	"errors"
)

var errClosed = errors.New("closed")

type reply struct{ err error }

type request struct {
	ctx   context.Context
	reply chan *reply
}

type Owner struct {
	req    chan *request
	closed chan struct{}
}

func (o *Owner) await(h *request) error {
	select {
	case <-o.closed:
		return errClosed
	case r := <-h.reply:
		return r.err
	}
}

func (o *Owner) GoodSubmit(ctx context.Context) error {
	h := &request{ctx: ctx, reply: make(chan *reply, 1)}
	select {
	case <-o.closed:
		return errClosed
	case <-ctx.Done():
		return ctx.Err()
	case o.req <- h:
	}
	return o.await(h)
}

func (o *Owner) submit(h *request, done <-chan struct{}) bool {
	select {
	case o.req <- h:
		return true
	case <-done:
	case <-o.closed:
	}
	return false
}

func (o *Owner) GoodSubmitViaHelper(ctx context.Context) error {
	h := &request{ctx: ctx, reply: make(chan *reply, 1)}
	if !o.submit(h, ctx.Done()) {
		if err := ctx.Err(); err != nil {
			return err
		}
		return errClosed
	}
	return o.await(h)
}

func (o *Owner) GoodSubmitNoContext() error {
	h := &request{reply: make(chan *reply, 1)}
	select {
	case <-o.closed:
		return errClosed
	case o.req <- h:
	}
	return o.await(h)
}

func (o *Owner) BadSubmitNoDoneCase(ctx context.Context) error {
	h := &request{ctx: ctx, reply: make(chan *reply, 1)}
	select {
	case <-o.closed:
		return errClosed
	case o.req <- h:
	}
	return o.await(h)
}

func (o *Owner) BadSubmitPlainSend(ctx context.Context) error {
	if err := ctx.Err(); err != nil {
		return err
	}
	h := &request{ctx: ctx, reply: make(chan *reply, 1)}
	o.req <- h
	return o.await(h)
}

func (o *Owner) BadSubmitHelperIgnoresDone(ctx context.Context) error {
	h := &request{ctx: ctx, reply: make(chan *reply, 1)}
	if !o.submit(h, nil) {
		return errClosed
	}
	return o.await(h)
}

func (o *Owner) BadGivesUpAfterHandOver(ctx context.Context) error {
	h := &request{ctx: ctx, reply: make(chan *reply, 1)}
	select {
	case <-o.closed:
		return errClosed
	case <-ctx.Done():
		return ctx.Err()
	case o.req <- h:
	}
	select {
	case <-ctx.Done():
		return ctx.Err()
	case r := <-h.reply:
		return r.err
	}
}
