// Package c07len holds tiny positive/negative examples for the generic C07
// rules (N2 type assertions, N3 sentinel index, N4 constant offsets, N5 make).
package c07len

import (
	"bytes"
	"crypto/aes"
	"crypto/cipher"
	"errors"
	"reflect"
	"strings"
	"time"
)

var errShort = errors.New("short")

// ---- N4

func BadIndexNoGuard(b []byte) byte { return b[0] }

func BadSliceWeakGuard(b []byte) ([]byte, error) {
	if len(b) < 4 {
		return nil, errShort
	}
	return b[:8], nil
}

func BadLenMinus(s string) string { return s[len(s)-3:] }

func BadSplitSecond(s string) string {
	parts := strings.Split(s, "/")
	return parts[1]
}

func badHelper(alg string) string { return alg[1:4] }

func CallerPassesAnything(alg string) string { return badHelper(alg) }

func GoodIfGuard(b []byte) (byte, error) {
	if len(b) == 0 {
		return 0, errShort
	}
	return b[0], nil
}

func GoodSwitchGuard(b []byte) ([]byte, error) {
	switch {
	case len(b) < 8:
		return nil, errShort
	}
	return b[:8], nil
}

func GoodOrGuard(b []byte) ([]byte, error) {
	if len(b) < 16 || len(b)%8 != 0 {
		return nil, errShort
	}
	return b[:8], nil
}

func GoodElse(b []byte) []byte {
	if len(b) >= 2 {
		return b[:2]
	} else {
		return nil
	}
}

func GoodLocalLen(s string) (byte, error) {
	l := len(s)
	if l < 2 {
		return 0, errShort
	}
	return s[1], nil
}

func GoodLastByte(b []byte) int {
	l := len(b)
	if l == 0 {
		return 0
	}
	return int(b[l-1])
}

func GoodPrefix(s string) string {
	const p = "@every "
	if strings.HasPrefix(s, p) {
		return s[len(p):]
	}
	return ""
}

func GoodSplitFirst(s string) string { return strings.Split(s, ",")[0] }

func GoodSplitSecondGuarded(s string) string {
	parts := strings.Split(s, "/")
	if len(parts) == 2 {
		return parts[1]
	}
	return ""
}

func goodHelper(alg string) string { return alg[1:4] }

func GoodCallerSwitch(alg string) string {
	switch alg {
	case "A128KW", "A192KW", "A256KW":
		return goodHelper(alg)
	}
	return ""
}

func GoodNotEmpty(s string) rune {
	if s == "" {
		return 0
	}
	r := []rune(s)
	return r[0]
}

func GoodMake() []byte {
	b := make([]byte, 12)
	return b[7:11]
}

func normalize(in []string) ([]string, error) {
	if len(in) > 3 {
		return nil, errShort
	}
	out := make([]string, 3)
	copy(out, in)
	return out, nil
}

func GoodErrNilSummary(in []string) string {
	f, err := normalize(in)
	if err != nil {
		return ""
	}
	return f[2]
}

// an opaque guard must keep the engine silent (unclassified, not reported)
func longEnough(b []byte) bool { return len(b) >= 4 }

func GoodOpaqueGuard(b []byte) []byte {
	if !longEnough(b) {
		return nil
	}
	return b[:4]
}

// ---- N3

func BadIndexUnchecked(s string) string {
	i := strings.Index(s, " ")
	return s[:i]
}

func BadIndexPlusOne(s string) string {
	i := strings.Index(s, "=")
	j := strings.Index(s, " ")
	if i < 0 {
		return ""
	}
	return s[i+1 : j]
}

func GoodIndexChecked(s string) string {
	i := strings.Index(s, " ")
	if i < 0 {
		return s
	}
	return s[:i]
}

func GoodIndexNeqMinusOne(b []byte) []byte {
	i := bytes.IndexByte(b, '\n')
	if i == -1 {
		return nil
	}
	return b[i+1:]
}

func GoodIndexSwitch(s string) string {
	i := strings.LastIndex(s, "/")
	switch {
	case i >= 0:
		return s[i+1:]
	}
	return s
}

func GoodIndexPrefixImplies(s string) string {
	if strings.HasPrefix(s, "TZ=") || strings.HasPrefix(s, "CRON_TZ=") {
		eq := strings.Index(s, "=")
		return s[eq+1:]
	}
	return s
}

func GoodIndexPlusOneUnchecked(s string) string {
	// -1+1 == 0 is a valid bound
	return s[strings.Index(s, ":")+1:]
}

// ---- N5

func BadMakeNegative(b []byte) [][]byte {
	n := len(b)/8 - 1
	return make([][]byte, n)
}

func GoodMakeGuarded(b []byte) [][]byte {
	if len(b) < 16 {
		return nil
	}
	n := len(b)/8 - 1
	return make([][]byte, n)
}

func BadDivisor(n, size int) int { return n % size }

func GoodDivisor(n, size int) int {
	if size <= 1 || size >= 256 {
		return 0
	}
	return n % size
}

func BadRepeat(n int) []byte { return bytes.Repeat([]byte{1}, n-4) }

func GoodRepeat(b []byte, size int) []byte {
	if size <= 1 {
		return nil
	}
	pad := size - len(b)%size
	return bytes.Repeat([]byte{byte(pad)}, pad)
}

// ---- N2

func BadAssertParam(v any) string { return v.(string) }

func GoodAssertCommaOk(v any) string {
	s, ok := v.(string)
	if !ok {
		return ""
	}
	return s
}

func BadReflectKindOnly(input any) map[string]string {
	v := reflect.ValueOf(input)
	if v.Kind() == reflect.Struct {
		f := v.FieldByName("Properties")
		if f.IsValid() && f.Kind() == reflect.Map {
			return f.Interface().(map[string]string)
		}
	}
	return nil
}

func GoodReflectCommaOk(input any) map[string]string {
	v := reflect.ValueOf(input)
	if v.Kind() == reflect.Struct {
		f := v.FieldByName("Properties")
		if f.IsValid() && f.Kind() == reflect.Map {
			if m, ok := f.Interface().(map[string]string); ok {
				return m
			}
		}
	}
	return nil
}

func BadHook() func(f, t reflect.Type, data any) (any, error) {
	return func(f, t reflect.Type, data any) (any, error) {
		return strings.ToUpper(data.(string)), nil
	}
}

func GoodHook() func(f, t reflect.Type, data any) (any, error) {
	stringType := reflect.TypeOf("")
	return func(f, t reflect.Type, data any) (any, error) {
		if f == stringType && t == stringType {
			return strings.ToUpper(data.(string)), nil
		}
		if f != stringType {
			return data, nil
		}
		return data.(string) + "!", nil
	}
}

// ---- N6 step progress (calendar day steps)

func wantedDay(t time.Time) bool { return t.Day() == 31 }

// the zone may skip a day: AddDate can land on the instant it started from
func BadCalendarDayStep(t time.Time) time.Time {
	for !wantedDay(t) {
		t = t.AddDate(0, 0, 1)
		if t.Hour() != 0 {
			t = t.Add(time.Duration(-t.Hour()) * time.Hour)
		}
		if t.Day() == 1 {
			return time.Time{}
		}
	}
	return t
}

// compares the post-step time with itself / with a constant: no progress guard
func BadGuardPostOnly(t time.Time) time.Time {
	for !wantedDay(t) {
		t = t.AddDate(0, 0, 1)
		if t.Day() == t.YearDay()-400 || t.Day() == 40 {
			for i := 0; i < 3; i++ {
				t = t.Add(time.Hour)
			}
		}
	}
	return t
}

func GoodGuardedDayStep(t time.Time) time.Time {
	for !wantedDay(t) {
		prev := t
		t = t.AddDate(0, 0, 1)
		if t.Day() == prev.Day() {
			t = prev
			for t.Day() == prev.Day() {
				t = t.Add(time.Hour)
			}
		}
	}
	return t
}

func advanced(prev, next time.Time) bool { return next.After(prev) }

func GoodGuardInHelper(t time.Time) time.Time {
	for !wantedDay(t) {
		prev := t
		t = time.Date(t.Year(), t.Month(), t.Day()+1, 0, 0, 0, 0, t.Location())
		if !advanced(prev, t) {
			return time.Time{}
		}
	}
	return t
}

func GoodAbsoluteStep(t time.Time) time.Time {
	for !wantedDay(t) {
		t = t.Add(24 * time.Hour)
		t = t.Add(-time.Duration(t.Hour()) * time.Hour)
	}
	return t
}

func GoodMonthStep(t time.Time) time.Time {
	for t.Month() != time.March {
		t = t.AddDate(0, 1, 0)
	}
	return t
}

func GoodUTCDayStep(t time.Time) time.Time {
	u := t.UTC()
	for !wantedDay(u) {
		u = u.AddDate(0, 0, 1)
	}
	return u
}

// ---- N6 step progress: the guard must hold when the step stalls (post == pre)

func BadGuardBefore(t time.Time) time.Time {
	for !wantedDay(t) {
		prev := t
		t = t.AddDate(0, 0, 1)
		if t.Before(prev) { // false when the step lands exactly on prev
			t = prev.Add(24 * time.Hour)
		}
	}
	return t
}

func BadGuardSubNegative(t time.Time) time.Time {
	for !wantedDay(t) {
		prev := t
		t = t.AddDate(0, 0, 1)
		if t.Sub(prev) < 0 {
			return time.Time{}
		}
	}
	return t
}

func GoodGuardNotAfter(t time.Time) time.Time {
	for !wantedDay(t) {
		prev := t
		t = t.AddDate(0, 0, 1)
		if !t.After(prev) {
			t = prev.Add(24 * time.Hour)
		}
	}
	return t
}

func GoodGuardCompare(t time.Time) time.Time {
	for !wantedDay(t) {
		prev := t
		t = t.AddDate(0, 0, 1)
		if t.Compare(prev) <= 0 || t.Equal(prev) {
			return time.Time{}
		}
	}
	return t
}

// ---- N5 AEAD nonce

var errNonce = errors.New("nonce")

func gcmLoose(key, nonce []byte) (cipher.AEAD, error) {
	if len(nonce) != 12 && len(nonce) != 16 {
		return nil, errNonce
	}
	blk, err := aes.NewCipher(key)
	if err != nil {
		return nil, err
	}
	return cipher.NewGCM(blk)
}

func BadAEADNonceLoose(key, nonce, msg []byte) ([]byte, error) {
	aead, err := gcmLoose(key, nonce)
	if err != nil {
		return nil, err
	}
	return aead.Seal(nil, nonce, msg, nil), nil
}

func gcmStrict(key, nonce []byte) (aead cipher.AEAD, err error) {
	blk, err := aes.NewCipher(key)
	if err != nil {
		return nil, err
	}
	aead, err = cipher.NewGCM(blk)
	if err == nil && len(nonce) != 12 {
		err = errNonce
	}
	return
}

func GoodAEADNonceStrict(key, nonce, msg []byte) ([]byte, error) {
	aead, err := gcmStrict(key, nonce)
	if err != nil {
		return nil, err
	}
	return aead.Open(nil, nonce, msg, nil)
}

func GoodAEADNonceSize(aead cipher.AEAD, nonce, msg []byte) ([]byte, error) {
	if len(nonce) != aead.NonceSize() {
		return nil, errNonce
	}
	return aead.Seal(nil, nonce, msg, nil), nil
}

// ---- N6 input progress

func takeOne(b []byte) (byte, []byte, error) {
	if len(b) == 0 {
		return 0, nil, nil
	}
	return b[0], b[1:], nil
}

func GoodLoopRest(b []byte) int {
	n := 0
	for len(b) > 0 {
		var c byte
		var err error
		c, b, err = takeOne(b)
		if err != nil {
			return -1
		}
		n += int(c)
	}
	return n
}

func skipSpace(b []byte) (*int, []byte, error) {
	if b[0] == ' ' {
		return nil, b, nil // hands the input back unchanged
	}
	v := int(b[0])
	return &v, b[1:], nil
}

func BadLoopSameInput(b []byte) int {
	n := 0
	for len(b) > 0 {
		var v *int
		var err error
		v, b, err = skipSpace(b)
		if err != nil {
			return -1
		}
		if v != nil {
			n += *v
		}
	}
	return n
}
