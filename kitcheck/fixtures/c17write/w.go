// Package c17write: fixture for the may-write analysis.
package c17write

import (
	"bytes"
	"crypto/cipher"
	"encoding/binary"
	"slices"
)

func GoodCopyOut(in []byte) []byte {
	out := make([]byte, len(in))
	copy(out, in)
	out[0] ^= 1
	return out
}

func GoodAppendCapped(in []byte) []byte {
	return append(in[:len(in):len(in)], 1, 2, 3)
}

func GoodAppendToFresh(in []byte) []byte {
	out := make([]byte, 0, len(in)+4)
	out = append(out, in...)
	return append(out, 1)
}

func GoodReadOnly(in []byte) int {
	n := 0
	for _, b := range in {
		n += int(b)
	}
	return n + bytes.IndexByte(in, 0)
}

func GoodSealFresh(a cipher.AEAD, nonce, pt []byte) []byte {
	return a.Seal(nil, nonce, pt, nil)
}

func helperThatReads(b []byte) byte { return b[0] }

func GoodViaHelper(in []byte) byte { return helperThatReads(in[1:]) }

func BadAppend(in []byte) []byte {
	return append(in, 0x80)
}

func BadStore(in []byte) {
	in[0] = 1
}

func BadSubsliceStore(in []byte) {
	t := in[2:4]
	t[1] = 9
}

func BadCopyInto(in, other []byte) {
	copy(in[4:], other)
}

func helperThatWrites(b []byte) { binary.BigEndian.PutUint32(b, 7) }

func BadViaHelper(in []byte) { helperThatWrites(in[8:]) }

func BadSealInto(a cipher.AEAD, nonce, pt []byte) []byte {
	return a.Seal(pt[:0], nonce, pt, nil)
}

func BadPhi(in []byte, c bool) {
	var t []byte
	if c {
		t = in
	} else {
		t = make([]byte, 4)
	}
	t[0] = 1
}

type keeper struct{ k []byte }

func BadNewKeeper(k []byte) *keeper { return &keeper{k: k} }

func (x *keeper) scrub() {
	for i := range x.k {
		x.k[i] = 0
	}
}

func BadClosure(in []byte) func() {
	return func() { in[0] = 3 }
}

func BadCryptBlocks(m cipher.BlockMode, in []byte) {
	m.CryptBlocks(in, in)
}

func GoodAppendCappedLen(in, tag []byte) []byte {
	return append(in[:len(in):len(in)], tag...)
}

func BadAppendCappedWrong(in, tag []byte) []byte {
	return append(in[:2:len(in)], tag...)
}

// BadInsertInPlace: slices.Insert shifts inside the caller's backing array when it has spare capacity.
func BadInsertInPlace(sig []byte, missing int) []byte {
	return slices.Insert(sig, 0, make([]byte, missing)...)
}

// BadDeleteInPlace: slices.Delete shifts the tail down inside the caller's array.
func BadDeleteInPlace(in []byte) []byte { return slices.Delete(in, 0, 1) }

// GoodInsertClipped: with cap == len the insertion reallocates.
func GoodInsertClipped(sig []byte, missing int) []byte {
	return slices.Insert(slices.Clip(sig), 0, make([]byte, missing)...)
}

// GoodInsertIntoCopy: edits a private copy.
func GoodInsertIntoCopy(sig []byte, missing int) []byte {
	return slices.Insert(slices.Clone(sig), 0, make([]byte, missing)...)
}
