// Package c13x is a fixture for the path-explorer based table rules of C13
// (B blocking outside, DC double-checked create, RC refcount removal, P count
// pairing). Methods named Good* must be silent, Bad* must be reported. The
// word Lock / Unlock in the name tells the rule which operation it examines.
package c13x

import "sync"

type ent struct {
	n  uint64
	mu *sync.Mutex
}

type tbl struct {
	mu    sync.Mutex
	items map[string]*ent
}

func newTbl() *tbl { return &tbl{items: map[string]*ent{}} }

// ---- clean forms ----

func (t *tbl) GoodLockInline(k string) {
	t.mu.Lock()
	e, ok := t.items[k]
	if !ok {
		e = &ent{mu: &sync.Mutex{}}
		t.items[k] = e
	}
	e.n++
	t.mu.Unlock()
	e.mu.Lock()
}

func (t *tbl) enter(k string) *ent {
	t.mu.Lock()
	defer t.mu.Unlock()
	e := t.items[k]
	if e == nil {
		e = &ent{mu: &sync.Mutex{}, n: 1}
		t.items[k] = e
		return e
	}
	e.n = 1 + e.n
	return e
}

func (t *tbl) GoodLockViaHelper(k string) { t.enter(k).mu.Lock() }

func (t *tbl) with(f func()) {
	t.mu.Lock()
	defer t.mu.Unlock()
	f()
}

func (t *tbl) find(k string) (*ent, bool) {
	e, ok := t.items[k]
	return e, ok
}

func (t *tbl) GoodLockFuncValue(k string) {
	var e *ent
	t.with(func() {
		var ok bool
		if e, ok = t.find(k); !ok {
			e = &ent{mu: &sync.Mutex{}}
			t.items[k] = e
		}
		e.n += 1
	})
	lock := e.mu.Lock
	lock()
}

func (t *tbl) GoodUnlockGuardInverted(k string) {
	t.mu.Lock()
	e := t.items[k]
	left := e.n - 1
	e.n = left
	if left > 0 {
		t.mu.Unlock()
		e.mu.Unlock()
		return
	}
	delete(t.items, k)
	t.mu.Unlock()
	e.mu.Unlock()
}

func (t *tbl) leave(k string) (e *ent) {
	t.with(func() {
		e = t.items[k]
		if e.n--; !(e.n >= 1) {
			delete(t.items, k)
		}
	})
	return e
}

func (t *tbl) GoodUnlockViaHelper(k string) {
	defer t.leave(k).mu.Unlock()
}

// ---- violations ----

func (t *tbl) BadLockUnderTable(k string) {
	e := t.enterHolding(k)
	e.mu.Lock()
	t.mu.Unlock()
}

func (t *tbl) enterHolding(k string) *ent {
	t.mu.Lock()
	e, ok := t.items[k]
	if !ok {
		e = &ent{mu: &sync.Mutex{}}
		t.items[k] = e
	}
	e.n++
	return e
}

func (t *tbl) peek(k string) (*ent, bool) {
	t.mu.Lock()
	defer t.mu.Unlock()
	e, ok := t.items[k]
	return e, ok
}

func (t *tbl) BadLockNoRecheck(k string) {
	e, ok := t.peek(k)
	t.mu.Lock()
	if !ok {
		e = &ent{mu: &sync.Mutex{}}
		t.items[k] = e
	}
	e.n++
	t.mu.Unlock()
	e.mu.Lock()
}

func (t *tbl) BadLockCountedTwice(k string) {
	e := t.enter(k)
	t.with(func() { e.n++ })
	e.mu.Lock()
}

func (t *tbl) tryEnter(k string) (*ent, bool) {
	t.mu.Lock()
	defer t.mu.Unlock()
	e, ok := t.items[k]
	if !ok {
		return nil, false
	}
	e.n++
	return e, true
}

func (t *tbl) BadLockHelperSomePaths(k string) {
	if e, ok := t.tryEnter(k); ok {
		e.mu.Lock()
	}
}

func (t *tbl) BadLockCountInLaterSection(k string) {
	t.mu.Lock()
	e, ok := t.items[k]
	if !ok {
		e = &ent{mu: &sync.Mutex{}}
		t.items[k] = e
	}
	t.mu.Unlock()
	t.with(func() { e.n++ })
	e.mu.Lock()
}

func (t *tbl) BadUnlockDeleteAlways(k string) {
	e := t.items[k]
	t.with(func() {
		e.n--
		delete(t.items, k)
	})
	e.mu.Unlock()
}

func (t *tbl) BadUnlockStaleZero(k string) {
	t.mu.Lock()
	e := t.items[k]
	e.n--
	zero := e.n == 0
	t.mu.Unlock()
	if zero {
		t.with(func() { delete(t.items, k) })
	}
	e.mu.Unlock()
}

func (t *tbl) BadUnlockInvertedTest(k string) {
	t.mu.Lock()
	e := t.items[k]
	e.n--
	if e.n != 0 {
		delete(t.items, k)
	}
	t.mu.Unlock()
	e.mu.Unlock()
}

func (t *tbl) BadUnlockNotCountedOut(k string) {
	t.mu.Lock()
	e := t.items[k]
	if len(t.items) > 1 {
		e.n--
	}
	t.mu.Unlock()
	e.mu.Unlock()
}
