package main

// E4: summary-based may-alias / may-write / may-escape analysis for byte
// slices (and other reference values) over go/ssa.

import (
	"fmt"
	"go/token"
	"go/types"
	"sort"
	"strings"

	"golang.org/x/tools/go/ssa"
)

// Labels: "p<i>" parameter i of the function being summarised, "fv<i>" free
// variable i, "field:<pkg.Type.f>", "global:<pkg.var>", "pool:<id>".
type labelSet map[string]bool

func (a labelSet) addAll(b labelSet) bool {
	ch := false
	for k := range b {
		if !a[k] {
			a[k] = true
			ch = true
		}
	}
	return ch
}

func (a labelSet) sorted() []string {
	var out []string
	for k := range a {
		out = append(out, k)
	}
	sort.Strings(out)
	return out
}

// TSite is a sink occurrence.
type TSite struct {
	Pos   token.Pos
	Fn    *ssa.Function
	What  string
	Instr ssa.Instruction // the sink instruction itself (nil for sinks inherited from a callee)
	Local bool            // the sink is in Fn itself (not inherited through a call)
	// Mapped (inherited sinks only): the callee reached the memory through one of
	// its parameters / captured variables, i.e. the label was translated at this
	// call; false: the callee reaches it by itself (a package-level variable,
	// a field) and has the same sink as a Local one of its own.
	Mapped bool
}

// TSummary of one function.
type TSummary struct {
	Writes      map[string][]TSite  // label -> write sites reaching memory with that label
	Escapes     map[string][]TSite  // label -> escape sites (stored to field/global, sent, captured by go)
	Ret         map[int]labelSet    // result index -> labels
	FieldStores map[string]labelSet // field label -> labels of values stored into the field
	// FieldAliasStores: like FieldStores, but only the labels of memory the
	// stored value itself may share (its alias relation), without the labels
	// of references its elements hold: tells `f = items` from `f = append(f, items...)`.
	FieldAliasStores map[string]labelSet
	Unmodelled       []TSite // external/dynamic calls receiving tracked values
	// Releases (only with TaintEngine.PoolRelease): label -> sync.Pool.Put sites
	// that give memory with that label back to a pool. With the option the Put
	// is NOT recorded as an escape, so Escapes holds real escapes only.
	Releases map[string][]TSite
	// Unknown (only with TaintEngine.PoolRelease): label -> unmodelled external /
	// dynamic calls that receive memory with that label (label-keyed Unmodelled).
	Unknown map[string][]TSite
	// RetFuncs (only with PoolRelease): result index -> function literals the
	// function returns as values, each with the labels of what it captured
	// (in the labels of THIS function). Their effects apply where the returned
	// value is called (`buf, release := borrow(); defer release()`).
	RetFuncs map[int][]TRetFunc
	// DynCalls (only with PoolRelease): calls through function values whose targets are not resolved.
	DynCalls []TSite
}

// TRetFunc is a function literal returned as a value.
type TRetFunc struct {
	Fn   *ssa.Function
	Bind []labelSet
}

func newTSummary() *TSummary {
	return &TSummary{Writes: map[string][]TSite{}, Escapes: map[string][]TSite{}, Ret: map[int]labelSet{}, FieldStores: map[string]labelSet{}, FieldAliasStores: map[string]labelSet{}, Releases: map[string][]TSite{}, Unknown: map[string][]TSite{}, RetFuncs: map[int][]TRetFunc{}}
}

func (s *TSummary) size() int {
	n := len(s.Unmodelled)
	for _, v := range s.Writes {
		n += len(v)
	}
	for _, v := range s.Escapes {
		n += len(v)
	}
	for _, v := range s.FieldAliasStores {
		n += len(v)
	}
	for _, v := range s.Ret {
		n += len(v)
	}
	for _, v := range s.FieldStores {
		n += len(v)
	}
	for _, v := range s.Releases {
		n += len(v)
	}
	for _, v := range s.Unknown {
		n += len(v)
	}
	for _, v := range s.RetFuncs {
		for _, rf := range v {
			n++
			for _, b := range rf.Bind {
				n += len(b)
			}
		}
	}
	n += len(s.DynCalls)
	return n
}

// ExtModel describes an external (or interface) function's effect on its
// arguments; indices are relative to the declared parameters (receiver excluded).
type ExtModel struct {
	Writes   []int // parameters whose memory is written
	RetAlias []int // parameters the (first) result may alias
	Retains  []int // parameters retained beyond the call (escape)
	Capped   bool  // the result has cap == len (append to it reallocates)
	// Grows: like the append builtin, the call writes parameter 0 in place and
	// returns it — unless parameter 0 is known to have cap == len, in which
	// case growing reallocates and neither writes nor aliases it. Only for
	// calls that always add at least one element when they write at all.
	Grows bool
}

// TaintEngine computes summaries for a set of functions.
type TaintEngine struct {
	P      *Prog
	Models map[string]ExtModel // "pkgpath.[Recv.]Name"
	// ReadOnly: externals reviewed as neither writing nor retaining nor aliasing their arguments.
	ReadOnly map[string]bool
	// PoolGet: treat results of sync.Pool.Get as label pool:<ident>
	TrackPools bool
	// PoolRelease (opt-in, needs TrackPools): sync.Pool.Put(x) is recorded in
	// TSummary.Releases (and propagated to callers) instead of as a "retained
	// by sync.Pool.Put" escape; Escapes of a caller then never hide a real
	// escape of a helper behind the helper's Put.
	PoolRelease bool
	Sum         map[*ssa.Function]*TSummary
	UsedModels  map[string]int
	callSites   map[*ssa.Function][]ssa.CallInstruction
	funcFields  map[FieldID][]ssa.Value
	soleImpl    map[*types.Func]*ssa.Function          // interface method -> the method of its only implementation (nil entry: none / several)
	fwdBusy     map[*ssa.Parameter]bool                // paramFuncTargets: forwarded parameters being resolved (cycle guard)
	extTargets  map[*ssa.Parameter]map[int]*types.Func // per function-typed parameter: call-site index -> bound library method
}

func NewTaintEngine(p *Prog) *TaintEngine {
	t := &TaintEngine{P: p, Models: map[string]ExtModel{}, ReadOnly: map[string]bool{}, Sum: map[*ssa.Function]*TSummary{}, UsedModels: map[string]int{}}
	// writers
	for k, m := range map[string]ExtModel{
		"crypto/cipher.Block.Encrypt":            {Writes: []int{0}},
		"crypto/cipher.Block.Decrypt":            {Writes: []int{0}},
		"crypto/cipher.BlockMode.CryptBlocks":    {Writes: []int{0}},
		"crypto/cipher.Stream.XORKeyStream":      {Writes: []int{0}},
		"crypto/cipher.AEAD.Seal":                {Writes: []int{0}, RetAlias: []int{0}},
		"crypto/cipher.AEAD.Open":                {Writes: []int{0}, RetAlias: []int{0}},
		"hash.Hash.Sum":                          {Writes: []int{0}, RetAlias: []int{0}},
		"io.ReadFull":                            {Writes: []int{1}},
		"io.ReadAtLeast":                         {Writes: []int{1}},
		"io.Reader.Read":                         {Writes: []int{0}},
		"crypto/rand.Read":                       {Writes: []int{0}},
		"encoding/binary.bigEndian.PutUint16":    {Writes: []int{0}},
		"encoding/binary.bigEndian.PutUint32":    {Writes: []int{0}},
		"encoding/binary.bigEndian.PutUint64":    {Writes: []int{0}},
		"encoding/binary.littleEndian.PutUint32": {Writes: []int{0}},
		"encoding/binary.littleEndian.PutUint64": {Writes: []int{0}},
		"encoding/binary.ByteOrder.PutUint32":    {Writes: []int{0}},
		"encoding/binary.ByteOrder.PutUint64":    {Writes: []int{0}},
		"encoding/base64.Encoding.Encode":        {Writes: []int{0}},
		"encoding/base64.Encoding.Decode":        {Writes: []int{0}},
		"encoding/hex.Encode":                    {Writes: []int{0}},
		"encoding/hex.Decode":                    {Writes: []int{0}},
		"crypto/subtle.XORBytes":                 {Writes: []int{0}},
		"crypto/subtle.ConstantTimeCopy":         {Writes: []int{1}},
		"bytes.Buffer.Read":                      {Writes: []int{0}},
		"sort.Slice":                             {Writes: []int{0}},
		"slices.Sort":                            {Writes: []int{0}},
		"slices.Reverse":                         {Writes: []int{0}},
		"slices.SortFunc":                        {Writes: []int{0}},
		"slices.SortStableFunc":                  {Writes: []int{0}},
		// in-place editors of package slices: they shift the elements of
		// parameter 0 inside its backing array (Insert/Replace also into its
		// spare capacity) and return a slice of it
		"slices.Insert":      {Writes: []int{0}, RetAlias: []int{0}, Grows: true},
		"slices.Delete":      {Writes: []int{0}, RetAlias: []int{0}},
		"slices.DeleteFunc":  {Writes: []int{0}, RetAlias: []int{0}},
		"slices.Replace":     {Writes: []int{0}, RetAlias: []int{0}},
		"slices.Compact":     {Writes: []int{0}, RetAlias: []int{0}},
		"slices.CompactFunc": {Writes: []int{0}, RetAlias: []int{0}},
		// aliasers
		"bytes.TrimRight":     {RetAlias: []int{0}},
		"bytes.TrimLeft":      {RetAlias: []int{0}},
		"bytes.TrimSpace":     {RetAlias: []int{0}},
		"bytes.Trim":          {RetAlias: []int{0}},
		"bytes.TrimPrefix":    {RetAlias: []int{0}},
		"bytes.TrimSuffix":    {RetAlias: []int{0}},
		"bytes.Split":         {RetAlias: []int{0}},
		"bytes.SplitN":        {RetAlias: []int{0}},
		"bytes.Fields":        {RetAlias: []int{0}},
		"bytes.Cut":           {RetAlias: []int{0}},
		"bytes.NewBuffer":     {RetAlias: []int{0}, Retains: []int{0}},
		"bytes.NewReader":     {RetAlias: []int{0}, Retains: []int{0}},
		"slices.Clip":         {RetAlias: []int{0}, Capped: true},
		"slices.Grow":         {RetAlias: []int{0}},
		"encoding/pem.Decode": {RetAlias: []int{0}},
		"sync.Pool.Put":       {Retains: []int{0}},
		"io.Writer.Write":     {},
		"io.PipeWriter.Write": {},
		"bytes.Buffer.Write":  {},
		"hash.Hash.Write":     {},
	} {
		t.Models[k] = m
	}
	// pure or copying helpers: they neither write, retain nor return an alias of a slice argument
	for _, k := range []string{"bytes.Clone", "slices.Clone", "strings.Clone", "slices.Contains", "slices.Index", "slices.Equal", "slices.Compare",
		"bytes.Equal", "bytes.Compare", "bytes.Contains", "bytes.Index", "bytes.IndexByte", "bytes.HasPrefix", "bytes.HasSuffix", "bytes.Count", "slices.Concat", "bytes.Join", "bytes.Repeat"} {
		t.ReadOnly[k] = true
	}
	return t
}

func extKey(obj *types.Func) string {
	if obj == nil || obj.Pkg() == nil {
		return ""
	}
	sig := obj.Type().(*types.Signature)
	if r := sig.Recv(); r != nil {
		return obj.Pkg().Path() + "." + typeBaseName(r.Type()) + "." + obj.Name()
	}
	return obj.Pkg().Path() + "." + obj.Name()
}

func isTrackedType(t types.Type) bool {
	switch u := t.Underlying().(type) {
	case *types.Slice:
		return true
	case *types.Pointer:
		_, isArr := u.Elem().Underlying().(*types.Array)
		return isArr
	case *types.Interface:
		return true
	}
	return false
}

// Run computes summaries of all module functions to a fixpoint.
func (t *TaintEngine) Run() {
	t.callSites = map[*ssa.Function][]ssa.CallInstruction{}
	for _, fn := range t.P.Funcs {
		t.Sum[fn] = newTSummary()
		allInstrs(fn, func(in ssa.Instruction) {
			if ci, ok := in.(ssa.CallInstruction); ok {
				if cal := staticCallee(ci); cal != nil && t.P.funcSet[cal] {
					t.callSites[cal] = append(t.callSites[cal], ci)
				}
			}
		})
	}
	for round := 0; round < 12; round++ {
		changed := false
		for _, fn := range t.P.Funcs {
			ns := t.summarise(fn)
			if ns.size() != t.Sum[fn].size() {
				changed = true
			}
			t.Sum[fn] = ns
		}
		if !changed {
			break
		}
	}
}

type fnState struct {
	curMapped  bool                 // applySummary: the sink being inherited had a parameter / free-variable label
	noRelease  bool                 // see MakeClosure: the literal is only returned, it does not run here
	fvOverride func(i int) labelSet // applySummary: labels of the callee's free variables when no binding values are at hand
	t          *TaintEngine
	fn         *ssa.Function
	alias      map[ssa.Value]labelSet // memory the value's own backing store may share
	holds      map[ssa.Value]labelSet // memory the ELEMENTS of a container of references may refer to
	capped     map[ssa.Value]bool
	sum        *TSummary
	seenW      map[string]bool
}

func (s *fnState) get(v ssa.Value) labelSet {
	if v == nil {
		return nil
	}
	if ls, ok := s.alias[v]; ok {
		return ls
	}
	return nil
}

func (s *fnState) getHolds(v ssa.Value) labelSet {
	if v == nil {
		return nil
	}
	return s.holds[v]
}

func (s *fnState) addHolds(v ssa.Value, ls labelSet) bool {
	if len(ls) == 0 {
		return false
	}
	cur := s.holds[v]
	if cur == nil {
		cur = labelSet{}
		s.holds[v] = cur
	}
	return cur.addAll(ls)
}

// both: own memory and held references (what a callee can reach through the value).
func (s *fnState) both(v ssa.Value) labelSet {
	out := labelSet{}
	out.addAll(s.get(v))
	out.addAll(s.getHolds(v))
	return out
}

func isRefElemContainer(t types.Type) bool {
	switch u := t.Underlying().(type) {
	case *types.Slice:
		return isTrackedType(u.Elem()) || isRefKind(u.Elem())
	case *types.Array:
		return isTrackedType(u.Elem()) || isRefKind(u.Elem())
	case *types.Pointer:
		if a, ok := u.Elem().Underlying().(*types.Array); ok {
			return isTrackedType(a.Elem()) || isRefKind(a.Elem())
		}
	case *types.Map:
		return isTrackedType(u.Elem()) || isRefKind(u.Elem())
	}
	return false
}

func (s *fnState) add(v ssa.Value, ls labelSet) bool {
	if len(ls) == 0 {
		return false
	}
	cur := s.alias[v]
	if cur == nil {
		cur = labelSet{}
		s.alias[v] = cur
	}
	return cur.addAll(ls)
}

func (s *fnState) sink(kind string, ls labelSet, in ssa.Instruction, what string) {
	for l := range ls {
		key := fmt.Sprintf("%s|%s|%p", kind, l, in)
		if s.seenW[key] {
			continue
		}
		s.seenW[key] = true
		site := TSite{Pos: instrPos(in), Fn: s.fn, What: what, Instr: in, Local: !strings.HasPrefix(what, "via "), Mapped: s.curMapped}
		if kind == "w" {
			s.sum.Writes[l] = append(s.sum.Writes[l], site)
		} else if kind == "r" {
			if s.noRelease {
				continue
			}
			s.sum.Releases[l] = append(s.sum.Releases[l], site)
		} else if kind == "u" {
			s.sum.Unknown[l] = append(s.sum.Unknown[l], site)
		} else {
			s.sum.Escapes[l] = append(s.sum.Escapes[l], site)
		}
	}
}

func (t *TaintEngine) summarise(fn *ssa.Function) *TSummary {
	s := &fnState{t: t, fn: fn, alias: map[ssa.Value]labelSet{}, holds: map[ssa.Value]labelSet{}, capped: map[ssa.Value]bool{}, sum: newTSummary(), seenW: map[string]bool{}}
	for i, pa := range fn.Params {
		if isTrackedType(pa.Type()) || isRefKind(pa.Type()) {
			s.alias[pa] = labelSet{fmt.Sprintf("p%d", i): true}
			if isRefElemContainer(pa.Type()) {
				s.holds[pa] = labelSet{fmt.Sprintf("p%d", i): true}
			}
		}
	}
	for i, fv := range fn.FreeVars {
		s.alias[fv] = labelSet{fmt.Sprintf("fv%d", i): true}
	}
	for iter := 0; iter < 20; iter++ {
		changed := false
		for _, b := range fn.Blocks {
			for _, in := range b.Instrs {
				if s.step(in) {
					changed = true
				}
			}
		}
		if !changed {
			break
		}
	}
	return s.sum
}

// mapLabels translates a callee's labels at a call site.
func (s *fnState) mapLabels(ls labelSet, argAlias func(i int) labelSet, fvAlias func(i int) labelSet) labelSet {
	out := labelSet{}
	for l := range ls {
		switch {
		case strings.HasPrefix(l, "pool:"):
			// not a parameter label ("p<i>"): a pool label passes through calls unchanged
			out[l] = true
		case strings.HasPrefix(l, "p"):
			var i int
			if _, err := fmt.Sscanf(l, "p%d", &i); err == nil {
				out.addAll(argAlias(i))
			}
		case strings.HasPrefix(l, "fv"):
			var i int
			if _, err := fmt.Sscanf(l, "fv%d", &i); err == nil && fvAlias != nil {
				out.addAll(fvAlias(i))
			}
		default:
			out[l] = true
		}
	}
	return out
}

func (s *fnState) applySummary(in ssa.Instruction, callee *ssa.Function, args []ssa.Value, bindings []ssa.Value, result ssa.Value) bool {
	cs := s.t.Sum[callee]
	if cs == nil {
		return false
	}
	changed := false
	argAlias := func(i int) labelSet {
		if i < len(args) && args[i] != nil {
			return s.both(args[i])
		}
		return nil
	}
	var fvAlias func(i int) labelSet
	if bindings != nil {
		fvAlias = func(i int) labelSet {
			if i < len(bindings) {
				return s.both(bindings[i])
			}
			return nil
		}
	} else if s.fvOverride != nil {
		fvAlias = s.fvOverride
	}
	// sinks of a callee's own pooled values ("pool:" labels) are reported in the
	// callee, where the value lives; only its results carry the label outwards
	own := func(l string) bool { return strings.HasPrefix(l, "pool:") }
	for l, sites := range cs.Writes {
		if own(l) {
			continue
		}
		m := s.mapLabels(labelSet{l: true}, argAlias, fvAlias)
		if len(m) > 0 {
			w := sites[0]
			s.curMapped = (strings.HasPrefix(l, "p") || strings.HasPrefix(l, "fv")) && !strings.HasPrefix(l, "pool:")
			s.sink("w", m, in, fmt.Sprintf("via %s: %s at %s", FuncName(s.t.P, callee), w.What, s.t.P.Pos(w.Pos)))
			s.curMapped = false
		}
	}
	for l, sites := range cs.Escapes {
		if own(l) {
			continue
		}
		m := s.mapLabels(labelSet{l: true}, argAlias, fvAlias)
		if len(m) > 0 {
			w := sites[0]
			s.sink("e", m, in, fmt.Sprintf("via %s: %s at %s", FuncName(s.t.P, callee), w.What, s.t.P.Pos(w.Pos)))
		}
	}
	for l, sites := range cs.Releases {
		if own(l) {
			continue
		}
		m := s.mapLabels(labelSet{l: true}, argAlias, fvAlias)
		if len(m) > 0 {
			w := sites[0]
			s.sink("r", m, in, fmt.Sprintf("via %s: %s at %s", FuncName(s.t.P, callee), w.What, s.t.P.Pos(w.Pos)))
		}
	}
	for l, sites := range cs.Unknown {
		if own(l) {
			continue
		}
		m := s.mapLabels(labelSet{l: true}, argAlias, fvAlias)
		if len(m) > 0 {
			w := sites[0]
			s.sink("u", m, in, fmt.Sprintf("via %s: %s at %s", FuncName(s.t.P, callee), w.What, s.t.P.Pos(w.Pos)))
		}
	}
	for f, ls := range cs.FieldAliasStores {
		if m := s.mapLabels(ls, argAlias, fvAlias); len(m) > 0 {
			cur := s.sum.FieldAliasStores[f]
			if cur == nil {
				cur = labelSet{}
				s.sum.FieldAliasStores[f] = cur
			}
			if cur.addAll(m) {
				changed = true
			}
		}
	}
	for f, ls := range cs.FieldStores {
		m := s.mapLabels(ls, argAlias, fvAlias)
		if len(m) > 0 {
			cur := s.sum.FieldStores[f]
			if cur == nil {
				cur = labelSet{}
				s.sum.FieldStores[f] = cur
			}
			if cur.addAll(m) {
				changed = true
			}
		}
	}
	if len(cs.Unmodelled) > 0 && len(s.sum.Unmodelled) < 50 {
		// propagate only once per callee
		key := "u|" + FuncName(s.t.P, callee)
		if !s.seenW[key] {
			s.seenW[key] = true
			s.sum.Unmodelled = append(s.sum.Unmodelled, cs.Unmodelled...)
		}
	}
	if result != nil {
		nres := callee.Signature.Results().Len()
		if nres == 1 {
			if s.add(result, s.mapLabels(cs.Ret[0], argAlias, fvAlias)) {
				changed = true
			}
		} else {
			for _, r := range refs(result) {
				if ex, ok := r.(*ssa.Extract); ok {
					if s.add(ex, s.mapLabels(cs.Ret[ex.Index], argAlias, fvAlias)) {
						changed = true
					}
				}
			}
		}
	}
	return changed
}

func (s *fnState) step(in ssa.Instruction) bool {
	switch x := in.(type) {
	case *ssa.Slice:
		ch := s.add(x, s.get(x.X))
		if s.addHolds(x, s.getHolds(x.X)) {
			ch = true
		}
		if x.Max != nil && x.High != nil && sameIntValue(x.Max, x.High) {
			s.capped[x] = true
		}
		return ch
	case *ssa.Phi:
		ch := false
		for _, e := range x.Edges {
			if s.add(x, s.get(e)) {
				ch = true
			}
			if s.addHolds(x, s.getHolds(e)) {
				ch = true
			}
		}
		return ch
	case *ssa.ChangeType:
		ch := s.add(x, s.get(x.X))
		if s.addHolds(x, s.getHolds(x.X)) {
			ch = true
		}
		return ch
	case *ssa.ChangeInterface:
		return s.add(x, s.get(x.X))
	case *ssa.MakeInterface:
		return s.add(x, s.get(x.X))
	case *ssa.TypeAssert:
		return s.add(x, s.get(x.X))
	case *ssa.Convert:
		// []byte <-> string conversions copy; slice->array pointer conversions alias
		_, fromSlice := x.X.Type().Underlying().(*types.Slice)
		_, toSlice := x.Type().Underlying().(*types.Slice)
		_, toPtr := x.Type().Underlying().(*types.Pointer)
		if fromSlice && (toSlice || toPtr) {
			return s.add(x, s.get(x.X))
		}
		return false
	case *ssa.SliceToArrayPointer:
		return s.add(x, s.get(x.X))
	case *ssa.IndexAddr:
		ch := s.add(x, s.get(x.X))
		if s.addHolds(x, s.getHolds(x.X)) {
			ch = true
		}
		return ch
	case *ssa.Lookup:
		if isTrackedType(x.Type()) || isRefKind(x.Type()) {
			return s.add(x, s.getHolds(x.X))
		}
	case *ssa.Extract:
		// results of calls are handled at the call; the value component of a
		// comma-ok type assertion / map look-up aliases what the operand does
		if x.Index == 0 {
			switch tu := x.Tuple.(type) {
			case *ssa.TypeAssert:
				return s.add(x, s.get(tu))
			case *ssa.Lookup:
				if isTrackedType(x.Type()) || isRefKind(x.Type()) {
					return s.add(x, s.getHolds(tu.X))
				}
			}
		}
	case *ssa.FieldAddr:
		// address of a field: remember as field label
		id := fieldIDOfAddr(x)
		if id.Type != "" {
			ch := s.add(x, labelSet{"field:" + id.Type + "." + id.Field: true})
			if la := localStruct(x); la != nil && s.t.PoolRelease {
				// a struct-typed local variable whose address does not leave the
				// function is a bundle of cells: its fields hold what was stored into them
				if s.add(x, s.get(la)) {
					ch = true
				}
			}
			return ch
		}
		return s.add(x, s.get(x.X))
	case *ssa.Field:
		id := fieldIDOfField(x)
		if id.Type != "" && (isTrackedType(x.Type()) || isRefKind(x.Type())) {
			return s.add(x, labelSet{"field:" + id.Type + "." + id.Field: true})
		}
	case *ssa.Alloc:
		// contents tracked through stores (see Store); nothing here
	case *ssa.UnOp:
		if x.Op != token.MUL {
			return false
		}
		if !(isTrackedType(x.Type()) || isRefKind(x.Type())) {
			return false
		}
		switch a := x.X.(type) {
		case *ssa.Global:
			return s.add(x, labelSet{"global:" + a.Pkg.Pkg.Path() + "." + a.Name(): true})
		case *ssa.IndexAddr:
			// element of a container of references: refers to what the container holds
			ch := s.add(x, s.getHolds(a.X))
			if isRefElemContainer(x.Type()) && s.addHolds(x, s.getHolds(a.X)) {
				ch = true
			}
			return ch
		default:
			// Alloc cell, FieldAddr (field label), FreeVar (fv label), pointer param
			if cell, ok := x.X.(*ssa.Alloc); ok {
				if st := lastStoreInBlock(cell, x); st != nil {
					// flow-sensitive within the block: the value stored last is what is loaded
					ch := s.add(x, s.get(st.Val))
					if s.addHolds(x, s.getHolds(st.Val)) {
						ch = true
					}
					return ch
				}
			}
			ch := s.add(x, s.get(x.X))
			if s.addHolds(x, s.getHolds(x.X)) {
				ch = true
			}
			return ch
		}
	case *ssa.Store:
		ch := false
		va := s.get(x.Val)
		if _, toIdx := x.Addr.(*ssa.IndexAddr); !toIdx {
			if hv := s.getHolds(x.Val); len(hv) > 0 {
				// containers keep their held references when stored into cells/fields
				if s.addHolds(x.Addr, hv) {
					ch = true
				}
				va = s.both(x.Val)
			}
		}
		switch a := x.Addr.(type) {
		case *ssa.IndexAddr:
			// write into the memory a points into
			if ls := s.get(a.X); len(ls) > 0 {
				s.sink("w", ls, in, "element store")
			}
			// storing a reference into a container element: the container now holds it
			if len(va) > 0 {
				if s.addHolds(a.X, va) {
					ch = true
				}
				// the container's other views hold it too (backing array alloc for varargs)
				if sl, ok := a.X.(*ssa.Slice); ok && s.addHolds(sl.X, va) {
					ch = true
				}
			}
			if hv := s.getHolds(x.Val); len(hv) > 0 && s.addHolds(a.X, hv) {
				ch = true
			}
		case *ssa.FieldAddr:
			id := fieldIDOfAddr(a)
			if pure := s.get(x.Val); len(pure) > 0 && id.Type != "" {
				lbl := "field:" + id.Type + "." + id.Field
				cur := s.sum.FieldAliasStores[lbl]
				if cur == nil {
					cur = labelSet{}
					s.sum.FieldAliasStores[lbl] = cur
				}
				if cur.addAll(pure) {
					ch = true
				}
			}
			if len(va) > 0 && id.Type != "" {
				lbl := "field:" + id.Type + "." + id.Field
				cur := s.sum.FieldStores[lbl]
				if cur == nil {
					cur = labelSet{}
					s.sum.FieldStores[lbl] = cur
				}
				if cur.addAll(va) {
					ch = true
				}
				if la := localStruct(a); la != nil && s.t.PoolRelease {
					// value flow into a local struct variable, not an escape: whoever
					// loads the field (or the whole struct) gets the labels
					if s.add(la, va) {
						ch = true
					}
					break
				}
				// storing into a field of an object that is not a fresh local object is an escape
				if !isFreshBase(a.X) || true {
					s.sink("e", va, in, "stored into field "+shortID(id.Type)+"."+id.Field)
				}
			}
		case *ssa.Alloc:
			if s.add(a, va) {
				ch = true
			}
		case *ssa.Global:
			if len(va) > 0 {
				s.sink("e", va, in, "stored into package-level variable "+a.Name())
			}
		case *ssa.FreeVar:
			if s.add(a, va) {
				ch = true
			}
			if s.t.PoolRelease {
				// a function literal that stores memory derived from one of its own
				// parameters into a variable of the enclosing function keeps it
				// beyond the call: an escape from the point of view of whoever calls it
				pl := labelSet{}
				for l := range va {
					if strings.HasPrefix(l, "p") && !strings.HasPrefix(l, "pool:") {
						pl[l] = true
					}
				}
				if len(pl) > 0 {
					s.sink("e", pl, in, "stored into a variable captured from the enclosing function")
				}
			}
		default:
			if s.add(x.Addr, va) {
				ch = true
			}
		}
		return ch
	case *ssa.Send:
		if ls := s.both(x.X); len(ls) > 0 {
			s.sink("e", ls, in, "sent on a channel")
		}
	case *ssa.MapUpdate:
		if ls := s.get(x.Map); len(ls) > 0 {
			s.sink("w", ls, in, "map update")
		}
		if ls := s.get(x.Value); len(ls) > 0 {
			if s.addHolds(x.Map, ls) {
				return true
			}
		}
	case *ssa.Return:
		ch := false
		if x.Block() == s.fn.Recover && !mayRecover(s.fn) {
			return false // the recover block only runs after a deferred call recovered a panic
		}
		for j, res := range x.Results {
			if ls := s.both(s.reachingValue(res, x)); len(ls) > 0 {
				cur := s.sum.Ret[j]
				if cur == nil {
					cur = labelSet{}
					s.sum.Ret[j] = cur
				}
				if cur.addAll(ls) {
					ch = true
				}
			}
		}
		return ch
	case *ssa.MakeClosure:
		f, _ := x.Fn.(*ssa.Function)
		if f == nil {
			return false
		}
		// conservatively apply the closure's effects where it is created
		onlyReturned := s.t.PoolRelease && closureOnlyReturned(x)
		s.noRelease = onlyReturned
		ch := s.applySummary(in, origin(f), nil, x.Bindings, nil)
		s.noRelease = false
		if onlyReturned {
			// the literal does not run here: it gives back what it captured where the returned value is called
			if s.recordRetFunc(x, origin(f)) {
				ch = true
			}
		}
		// closure value aliases its bindings (so passing it on keeps taint)
		for _, b := range x.Bindings {
			if s.add(x, s.get(b)) {
				ch = true
			}
		}
		return ch
	case ssa.CallInstruction:
		return s.call(x)
	}
	return false
}

func (s *fnState) call(ci ssa.CallInstruction) bool {
	cc := ci.Common()
	in := ci.(ssa.Instruction)
	var result ssa.Value
	if v, ok := ci.(*ssa.Call); ok {
		result = v
	}
	if _, isGo := ci.(*ssa.Go); isGo {
		// values handed to a goroutine escape
		for _, a := range cc.Args {
			if ls := s.get(a); len(ls) > 0 {
				s.sink("e", ls, in, "passed to a goroutine")
			}
		}
		if mc, ok := cc.Value.(*ssa.MakeClosure); ok {
			for _, b := range mc.Bindings {
				if ls := s.get(b); len(ls) > 0 {
					s.sink("e", ls, in, "captured by a goroutine")
				}
			}
		}
	}
	if b := builtinName(ci); b != "" {
		switch b {
		case "append":
			if len(cc.Args) == 0 {
				return false
			}
			base := cc.Args[0]
			ch := false
			if !s.capped[base] {
				if ls := s.get(base); len(ls) > 0 && len(cc.Args) > 1 {
					s.sink("w", ls, in, "append to the slice (writes its spare capacity)")
				}
				if result != nil && s.add(result, s.get(base)) {
					ch = true
				}
			}
			// appended element values that are themselves references (e.g. [][]byte)
			if len(cc.Args) > 1 && result != nil {
				if _, isSliceOfRef := result.Type().Underlying().(*types.Slice); isSliceOfRef {
					el := result.Type().Underlying().(*types.Slice).Elem()
					if isTrackedType(el) || isRefKind(el) {
						if s.addHolds(result, s.getHolds(cc.Args[1])) {
							ch = true
						}
						if s.addHolds(result, s.getHolds(base)) {
							ch = true
						}
					}
				}
			}
			return ch
		case "copy":
			if ls := s.get(cc.Args[0]); len(ls) > 0 {
				s.sink("w", ls, in, "copy into the slice")
			}
		case "clear":
			if ls := s.get(cc.Args[0]); len(ls) > 0 {
				s.sink("w", ls, in, "clear of the slice")
			}
		}
		return false
	}
	// static module callee
	if cal := staticCallee(ci); cal != nil && s.t.P.funcSet[cal] {
		var bindings []ssa.Value
		if mc, ok := cc.Value.(*ssa.MakeClosure); ok {
			bindings = mc.Bindings
		}
		return s.applySummary(in, cal, cc.Args, bindings, result)
	}
	// call through a function-typed parameter: resolve through the call sites of this function
	if pa, ok := cc.Value.(*ssa.Parameter); ok && !cc.IsInvoke() {
		if targets, shift, ok := s.t.paramFuncTargets(s.fn, pa); ok {
			ch := false
			for i, tg := range targets {
				if tg == nil {
					// bound method value of a library / interface method (aead.Open): the model of that method applies
					if s.external(in, s.t.extTargets[pa][i], cc.Args, result) {
						ch = true
					}
					continue
				}
				args := cc.Args
				if shift[i] {
					// bound method: receiver is the closure's binding, unknown here
					args = append([]ssa.Value{nil}, cc.Args...)
				}
				if s.applySummary(in, tg, args, nil, result) {
					ch = true
				}
			}
			return ch
		}
	}
	// call through a function-typed unexported struct field: every value ever stored into it is known
	if !cc.IsInvoke() {
		if targets, ok := s.t.fieldFuncTargets(cc.Value); ok {
			ch := false
			for _, tg := range targets {
				if s.applySummary(in, tg, cc.Args, nil, result) {
					ch = true
				}
			}
			return ch
		}
	}
	// call of a function value that a same-module function returned (`x, release := borrow(); defer release()`)
	if s.t.PoolRelease && !cc.IsInvoke() {
		if src, j := retFuncSource(cc.Value); src != nil {
			if cal := staticCallee(src); cal != nil && s.t.P.funcSet[cal] && s.t.Sum[cal] != nil {
				if rfs := s.t.Sum[cal].RetFuncs[j]; len(rfs) > 0 {
					ch := false
					srcArgs := src.Call.Args
					for _, rf := range rfs {
						rf := rf
						s.fvOverride = func(i int) labelSet {
							if i >= len(rf.Bind) {
								return nil
							}
							return s.mapLabels(rf.Bind[i], func(k int) labelSet {
								if k < len(srcArgs) {
									return s.both(srcArgs[k])
								}
								return nil
							}, nil)
						}
						if s.applySummary(in, rf.Fn, cc.Args, nil, result) {
							ch = true
						}
						s.fvOverride = nil
					}
					return ch
				}
			}
		}
	}
	// method call through a module interface that has exactly one implementation in the module (a seam)
	if s.t.PoolRelease && cc.IsInvoke() {
		if m := s.t.soleImplementation(cc); m != nil {
			return s.applySummary(in, m, append([]ssa.Value{cc.Value}, cc.Args...), nil, result)
		}
	}
	// sync.Pool.Get
	if s.t.TrackPools && callIs(ci, "sync", "Pool", "Get") && result != nil {
		id, _ := lockIdent(throughSingleStoreCells(cc.Args[0], 0))
		return s.add(result, labelSet{"pool:" + id: true})
	}
	// external / interface
	obj := calleeObj(ci)
	args := cc.Args
	if obj != nil && !cc.IsInvoke() {
		if sig, ok := obj.Type().(*types.Signature); ok && sig.Recv() != nil && len(args) > 0 {
			args = args[1:]
			// receiver taint flows to results for methods on tracked values (e.g. buf.Bytes())
		}
	}
	return s.external(in, obj, args, result)
}

// external applies the library model (or records an unmodelled call) for a
// call of the external / interface method obj with the given non-receiver
// arguments.
func (s *fnState) external(in ssa.Instruction, obj *types.Func, args []ssa.Value, result ssa.Value) bool {
	key := extKey(obj)
	if s.t.PoolRelease && obj == nil {
		if ci, ok := in.(ssa.CallInstruction); ok && !ci.Common().IsInvoke() && builtinName(ci) == "" {
			k := fmt.Sprintf("d|%p", in)
			if !s.seenW[k] {
				s.seenW[k] = true
				s.sum.DynCalls = append(s.sum.DynCalls, TSite{Pos: instrPos(in), Fn: s.fn, What: "call through a function value whose targets are not resolved", Instr: in, Local: true})
			}
		}
	}
	if s.t.PoolRelease && key != "sync.Pool.Put" {
		if _, modelled := s.t.Models[key]; !modelled || key == "" {
			k := key
			if k == "" {
				k = "dynamic call"
			}
			if !s.t.ReadOnly[k] {
				for _, a := range args {
					if (isTrackedType(a.Type()) || isRefKind(a.Type())) && !isErrorType(a.Type()) {
						if ls := s.get(a); len(ls) > 0 {
							s.sink("u", ls, in, k)
						}
					}
				}
			}
		}
	}
	tracked := false
	for _, a := range args {
		if len(s.get(a)) > 0 && isTrackedType(a.Type()) && !isErrorType(a.Type()) {
			tracked = true
		}
	}
	if s.t.TrackPools && s.t.PoolRelease && key == "sync.Pool.Put" {
		s.t.UsedModels[key]++
		if len(args) > 0 {
			if ls := s.both(args[0]); len(ls) > 0 {
				s.sink("r", ls, in, "given back by sync.Pool.Put")
			}
		}
		return false
	}
	if m, ok := s.t.Models[key]; ok && key != "" {
		s.t.UsedModels[key]++
		ch := false
		if m.Grows && len(args) > 0 && s.capped[args[0]] {
			return false
		}
		for _, i := range m.Writes {
			if i < len(args) {
				if ls := s.get(args[i]); len(ls) > 0 {
					s.sink("w", ls, in, "written by "+shortID(key)+" (argument "+fmt.Sprint(i)+")")
				}
			}
		}
		for _, i := range m.Retains {
			if i < len(args) {
				if ls := s.get(args[i]); len(ls) > 0 {
					s.sink("e", ls, in, "retained by "+shortID(key))
				}
			}
		}
		if m.Capped && result != nil && !s.capped[result] {
			s.capped[result] = true
			ch = true
		}
		for _, i := range m.RetAlias {
			if i < len(args) && result != nil {
				if result.Type() != nil {
					if tup, isTuple := result.Type().(*types.Tuple); isTuple && tup.Len() > 1 {
						for _, r := range refs(result) {
							if ex, ok := r.(*ssa.Extract); ok && isTrackedType(ex.Type()) || ok && isRefKind(ex.Type()) {
								if s.add(ex, s.get(args[i])) {
									ch = true
								}
							}
						}
						continue
					}
				}
				if s.add(result, s.get(args[i])) {
					ch = true
				}
			}
		}
		return ch
	}
	if tracked {
		if key == "" {
			key = "dynamic call"
		}
		if !s.t.ReadOnly[key] {
			k2 := "u|" + key + fmt.Sprintf("|%p", in)
			if !s.seenW[k2] {
				s.seenW[k2] = true
				s.sum.Unmodelled = append(s.sum.Unmodelled, TSite{Pos: instrPos(in), Fn: s.fn, What: key})
			}
		} else {
			s.t.UsedModels[key]++
		}
	}
	return false
}

// ResolveFields expands "field:F" labels: returns for every field label the
// set of non-field labels (per function: "fn|pN") whose values reach the field.
type RootRef struct {
	Fn    *ssa.Function
	Param int
}

// FieldRoots: which (function, param) values are stored into each field (transitively through fields).
func (t *TaintEngine) FieldRoots() map[string][]RootRef {
	out := map[string][]RootRef{}
	direct := map[string]map[string]bool{} // field -> field
	for fn, s := range t.Sum {
		for f, ls := range s.FieldStores {
			for l := range ls {
				if strings.HasPrefix(l, "p") {
					var i int
					if _, err := fmt.Sscanf(l, "p%d", &i); err == nil {
						out[f] = append(out[f], RootRef{fn, i})
					}
				} else if strings.HasPrefix(l, "field:") {
					if direct[f] == nil {
						direct[f] = map[string]bool{}
					}
					direct[f][l] = true
				}
			}
		}
	}
	for changed := true; changed; {
		changed = false
		for f, srcs := range direct {
			for src := range srcs {
				for _, rr := range out[src] {
					dup := false
					for _, e := range out[f] {
						if e == rr {
							dup = true
						}
					}
					if !dup {
						out[f] = append(out[f], rr)
						changed = true
					}
				}
			}
		}
	}
	return out
}

// sameIntValue: a and b denote the same integer: the same SSA value, equal
// constants, or len() of the same SSA value (go/ssa performs no CSE).
func sameIntValue(a, b ssa.Value) bool {
	if a == b {
		return true
	}
	ka, oka := a.(*ssa.Const)
	kb, okb := b.(*ssa.Const)
	if oka && okb && ka.Value != nil && kb.Value != nil {
		return ka.Value.ExactString() == kb.Value.ExactString()
	}
	ca, oka := a.(*ssa.Call)
	cb, okb := b.(*ssa.Call)
	if oka && okb && builtinName(ca) == "len" && builtinName(cb) == "len" {
		return ca.Call.Args[0] == cb.Call.Args[0]
	}
	return false
}

func isErrorType(t types.Type) bool {
	return types.Identical(t, types.Universe.Lookup("error").Type())
}

// paramFuncTargets resolves the functions that may be bound to the
// function-typed parameter pa of fn, by looking at every in-module call site
// of fn. ok=false if fn's address is taken, it has no call site, or some
// argument is not a function literal / method value.
func (t *TaintEngine) paramFuncTargets(fn *ssa.Function, pa *ssa.Parameter) (targets []*ssa.Function, bound []bool, ok bool) {
	idx := -1
	for i, p := range fn.Params {
		if p == pa {
			idx = i
		}
	}
	sites := t.callSites[origin(fn)]
	if idx < 0 || len(sites) == 0 || isExportedFunc(fn) {
		return nil, nil, false
	}
	ext := map[int]*types.Func{}
	defer func() {
		if ok {
			if t.extTargets == nil {
				t.extTargets = map[*ssa.Parameter]map[int]*types.Func{}
			}
			t.extTargets[pa] = ext
		}
	}()
	for _, cs := range sites {
		args := cs.Common().Args
		if idx >= len(args) {
			return nil, nil, false
		}
		// the argument may be a function value kept in a local / captured variable,
		// or a function-typed parameter of the caller that is passed on
		origins, okO := funcValueOrigins(args[idx], 0)
		if !okO {
			return nil, nil, false
		}
		for _, av := range origins {
			switch v := av.(type) {
			case *ssa.Parameter:
				// forwarded: the targets are those of the caller's parameter
				if t.fwdBusy == nil {
					t.fwdBusy = map[*ssa.Parameter]bool{}
				}
				if t.fwdBusy[v] || v == pa {
					return nil, nil, false
				}
				t.fwdBusy[v] = true
				tg2, b2, ok2 := t.paramFuncTargets(v.Parent(), v)
				delete(t.fwdBusy, v)
				if !ok2 {
					return nil, nil, false
				}
				for i2 := range tg2 {
					if tg2[i2] == nil {
						ext[len(targets)] = t.extTargets[v][i2]
					}
					targets, bound = append(targets, tg2[i2]), append(bound, b2[i2])
				}
			case *ssa.Function:
				targets, bound = append(targets, origin(v)), append(bound, false)
			case *ssa.MakeClosure:
				f, _ := v.Fn.(*ssa.Function)
				if f == nil {
					return nil, nil, false
				}
				if t.P.funcSet[origin(f)] {
					// the literal's captured variables are not available at the call through the
					// parameter: its effects must not go through them
					if len(v.Bindings) > 0 && t.sumUsesFreeVars(origin(f)) {
						return nil, nil, false
					}
					targets, bound = append(targets, origin(f)), append(bound, false)
				} else if strings.Contains(f.Synthetic, "bound method") && f.Object() != nil {
					mobj := f.Object().(*types.Func)
					m := t.P.SSA.FuncValue(mobj)
					if m == nil || !t.P.funcSet[origin(m)] {
						if mobj.Pkg() != nil && strings.HasPrefix(mobj.Pkg().Path(), t.P.ModPath) {
							return nil, nil, false // a module interface method: implementations unknown here
						}
						ext[len(targets)] = mobj
						targets, bound = append(targets, nil), append(bound, true)
						continue
					}
					targets, bound = append(targets, origin(m)), append(bound, true)
				} else {
					return nil, nil, false
				}
			default:
				return nil, nil, false
			}
		}
	}
	return targets, bound, true
}

// sumUsesFreeVars: the summary of f has a write, escape, release or result that
// goes through one of f's captured variables.
func (t *TaintEngine) sumUsesFreeVars(f *ssa.Function) bool {
	sum := t.Sum[f]
	if sum == nil {
		return false
	}
	for _, m := range []map[string][]TSite{sum.Writes, sum.Escapes} {
		for l := range m {
			if strings.HasPrefix(l, "fv") {
				return true
			}
		}
	}
	for _, ls := range sum.Ret {
		for l := range ls {
			if strings.HasPrefix(l, "fv") {
				return true
			}
		}
	}
	return false
}

// funcValueOrigins: the function literals / functions / forwarded parameters a
// function-typed value may be: looks through conversions, phis, local variable
// cells (every value ever stored) and variables captured from the enclosing function.
func funcValueOrigins(v ssa.Value, depth int) ([]ssa.Value, bool) {
	if depth > 6 {
		return nil, false
	}
	switch x := v.(type) {
	case *ssa.Function, *ssa.MakeClosure:
		return []ssa.Value{v}, true
	case *ssa.Parameter:
		if _, isSig := x.Type().Underlying().(*types.Signature); isSig {
			return []ssa.Value{v}, true
		}
	case *ssa.ChangeType:
		return funcValueOrigins(x.X, depth+1)
	case *ssa.Call:
		// a function value built by a factory: every return of the (statically known, single-result) callee
		cal := staticCallee(x)
		if cal == nil || len(cal.Blocks) == 0 || cal.Signature.Results().Len() != 1 {
			return nil, false
		}
		var out []ssa.Value
		for _, b := range cal.Blocks {
			if len(b.Instrs) == 0 {
				continue
			}
			ret, ok := b.Instrs[len(b.Instrs)-1].(*ssa.Return)
			if !ok || len(ret.Results) != 1 {
				continue
			}
			o, ok := funcValueOrigins(ret.Results[0], depth+1)
			if !ok {
				return nil, false
			}
			for _, v := range o {
				if _, isParam := v.(*ssa.Parameter); isParam {
					return nil, false // a factory that forwards its own parameter: not followed
				}
			}
			out = append(out, o...)
		}
		return out, len(out) > 0
	case *ssa.Phi:
		var out []ssa.Value
		for _, ed := range x.Edges {
			o, ok := funcValueOrigins(ed, depth+1)
			if !ok {
				return nil, false
			}
			out = append(out, o...)
		}
		return out, true
	case *ssa.UnOp:
		if x.Op != token.MUL {
			return nil, false
		}
		var cell *ssa.Alloc
		switch a := x.X.(type) {
		case *ssa.Alloc:
			cell = a
		case *ssa.FreeVar:
			// not assigned inside the literal itself (or its siblings): only the enclosing function's stores count
			for _, r := range refs(a) {
				if st, ok := r.(*ssa.Store); ok && st.Addr == ssa.Value(a) {
					return nil, false
				}
			}
			if b, ok := resolveFreeVar(a).(*ssa.Alloc); ok {
				cell = b
			} else if fv2, ok := resolveFreeVar(a).(*ssa.FreeVar); ok {
				return funcValueOrigins(&ssa.UnOp{Op: token.MUL, X: fv2}, depth+1)
			}
		}
		if cell == nil {
			return nil, false
		}
		var out []ssa.Value
		for _, r := range refs(cell) {
			switch y := r.(type) {
			case *ssa.Store:
				if y.Addr != ssa.Value(cell) {
					return nil, false
				}
				o, ok := funcValueOrigins(y.Val, depth+1)
				if !ok {
					return nil, false
				}
				out = append(out, o...)
			case *ssa.UnOp, *ssa.DebugRef:
			case *ssa.MakeClosure:
				// captured: a literal that assigns the variable makes it unknown
				if f, ok := y.Fn.(*ssa.Function); ok {
					for i, b := range y.Bindings {
						if b == ssa.Value(cell) && i < len(f.FreeVars) {
							for _, rr := range refs(f.FreeVars[i]) {
								if st, ok := rr.(*ssa.Store); ok && st.Addr == ssa.Value(f.FreeVars[i]) {
									return nil, false
								}
							}
						}
					}
				}
			default:
				return nil, false
			}
		}
		return out, len(out) > 0
	}
	return nil, false
}

// fieldFuncTargets: v is the value of an unexported function-typed field of a
// module struct; returns the module functions stored into that field anywhere
// in the module. ok=false when a stored value is not a known function, or when
// a stored closure's effect on tracked memory goes through a captured variable
// (whose binding is not available at the call).
func (t *TaintEngine) fieldFuncTargets(v ssa.Value) ([]*ssa.Function, bool) {
	var id FieldID
	switch x := v.(type) {
	case *ssa.UnOp:
		fa, ok := x.X.(*ssa.FieldAddr)
		if !ok || x.Op != token.MUL {
			return nil, false
		}
		id = fieldIDOfAddr(fa)
	case *ssa.Field:
		id = fieldIDOfField(x)
	default:
		return nil, false
	}
	if id.Type == "" || token.IsExported(id.Field) || !strings.HasPrefix(id.Type, t.P.ModPath) {
		return nil, false
	}
	if t.funcFields == nil {
		t.funcFields = map[FieldID][]ssa.Value{}
		for _, fn := range t.P.Funcs {
			allInstrs(fn, func(in ssa.Instruction) {
				st, ok := in.(*ssa.Store)
				if !ok {
					return
				}
				fa, ok := st.Addr.(*ssa.FieldAddr)
				if !ok {
					return
				}
				if _, isSig := st.Val.Type().Underlying().(*types.Signature); isSig {
					k := fieldIDOfAddr(fa)
					t.funcFields[k] = append(t.funcFields[k], st.Val)
				}
			})
		}
	}
	vals := t.funcFields[id]
	if len(vals) == 0 {
		return nil, false
	}
	var out []*ssa.Function
	for _, sv := range vals {
		var f *ssa.Function
		switch y := sv.(type) {
		case *ssa.Function:
			f = y
		case *ssa.MakeClosure:
			f, _ = y.Fn.(*ssa.Function)
		}
		if f == nil || !t.P.funcSet[origin(f)] {
			return nil, false
		}
		f = origin(f)
		if sum := t.Sum[f]; sum != nil {
			for _, m := range []map[string][]TSite{sum.Writes, sum.Escapes} {
				for l := range m {
					if strings.HasPrefix(l, "fv") {
						return nil, false
					}
				}
			}
			for _, ls := range sum.Ret {
				for l := range ls {
					if strings.HasPrefix(l, "fv") {
						return nil, false
					}
				}
			}
		}
		out = append(out, f)
	}
	return out, true
}

// lastStoreInBlock: the last store to cell that precedes load in the same
// block, provided the cell is not captured by a closure (no call between can
// then change it). nil if none.
func lastStoreInBlock(cell *ssa.Alloc, load ssa.Instruction) *ssa.Store {
	for _, r := range refs(cell) {
		if _, ok := r.(*ssa.MakeClosure); ok {
			return nil
		}
	}
	var last *ssa.Store
	for _, in := range load.Block().Instrs {
		if in == load {
			break
		}
		if st, ok := in.(*ssa.Store); ok && st.Addr == ssa.Value(cell) {
			last = st
		}
	}
	return last
}

// reachingValue: for a returned value that is a reload of a spilled result
// slot, the value stored into the slot in the returning block (if any).
func (s *fnState) reachingValue(v ssa.Value, at ssa.Instruction) ssa.Value {
	u, ok := v.(*ssa.UnOp)
	if !ok || u.Op != token.MUL {
		return v
	}
	cell, ok := u.X.(*ssa.Alloc)
	if !ok {
		return v
	}
	if st := lastStoreInBlock(cell, u); st != nil {
		return st.Val
	}
	return v
}

// mayRecover: some deferred call of fn may call recover() (directly in a
// deferred module function, or the deferred callee is unknown).
func mayRecover(fn *ssa.Function) bool {
	res := false
	allInstrs(fn, func(in ssa.Instruction) {
		d, ok := in.(*ssa.Defer)
		if !ok {
			return
		}
		cal := staticCallee(d)
		if cal == nil {
			if d.Call.IsInvoke() || builtinName(d) == "" {
				// unknown function value / interface method: library Close/Unlock/cancel do not recover
				if _, isFn := d.Call.Value.(*ssa.Function); !isFn && !d.Call.IsInvoke() {
					if _, isParamOrLoad := d.Call.Value.(*ssa.MakeClosure); isParamOrLoad {
						res = true
					}
				}
			}
			return
		}
		allInstrs(cal, func(j ssa.Instruction) {
			if c, ok := j.(ssa.CallInstruction); ok && builtinName(c) == "recover" {
				res = true
			}
		})
	})
	return res
}

// localStruct: fa addresses a field of a struct-typed local variable that go/ssa
// keeps on the stack (its address is not taken, it is not captured): the Alloc, else nil.
func localStruct(fa *ssa.FieldAddr) *ssa.Alloc {
	a, ok := fa.X.(*ssa.Alloc)
	if !ok || a.Heap {
		return nil
	}
	for _, r := range refs(a) {
		switch x := r.(type) {
		case *ssa.FieldAddr, *ssa.UnOp, *ssa.DebugRef:
		case *ssa.Store:
			if x.Addr != ssa.Value(a) {
				return nil
			}
		default:
			return nil
		}
	}
	return a
}

// closureOnlyReturned: the function literal mc is not called, deferred, started
// or passed on in the function that creates it; it only flows to that
// function's results (directly, through a phi, or through a named-result slot).
func closureOnlyReturned(mc *ssa.MakeClosure) bool {
	n := 0
	var ok func(v ssa.Value, depth int) bool
	ok = func(v ssa.Value, depth int) bool {
		if depth > 4 {
			return false
		}
		for _, r := range refs(v) {
			switch x := r.(type) {
			case *ssa.Return:
				n++
			case *ssa.DebugRef:
			case *ssa.Phi:
				if !ok(x, depth+1) {
					return false
				}
			case *ssa.Store:
				cell, isCell := x.Addr.(*ssa.Alloc)
				if !isCell || x.Val != v {
					return false
				}
				for _, rr := range refs(cell) {
					switch y := rr.(type) {
					case *ssa.Store:
						if y.Addr != ssa.Value(cell) {
							return false
						}
					case *ssa.UnOp:
						if !ok(y, depth+1) {
							return false
						}
					case *ssa.DebugRef:
					default:
						return false
					}
				}
			default:
				return false
			}
		}
		return true
	}
	return ok(mc, 0) && n > 0
}

// recordRetFunc notes, for every result the literal flows to, the literal and what it captured.
func (s *fnState) recordRetFunc(mc *ssa.MakeClosure, f *ssa.Function) bool {
	changed := false
	idxs := map[int]bool{}
	var walk func(v ssa.Value, depth int)
	walk = func(v ssa.Value, depth int) {
		if depth > 4 {
			return
		}
		for _, r := range refs(v) {
			switch x := r.(type) {
			case *ssa.Return:
				for j, res := range x.Results {
					if res == v {
						idxs[j] = true
					}
				}
			case *ssa.Phi:
				walk(x, depth+1)
			case *ssa.Store:
				if cell, ok := x.Addr.(*ssa.Alloc); ok {
					for _, rr := range refs(cell) {
						if ld, ok := rr.(*ssa.UnOp); ok {
							walk(ld, depth+1)
						}
					}
				}
			}
		}
	}
	walk(mc, 0)
	for j := range idxs {
		var cur *TRetFunc
		for i := range s.sum.RetFuncs[j] {
			if s.sum.RetFuncs[j][i].Fn == f {
				cur = &s.sum.RetFuncs[j][i]
			}
		}
		if cur == nil {
			s.sum.RetFuncs[j] = append(s.sum.RetFuncs[j], TRetFunc{Fn: f, Bind: make([]labelSet, len(mc.Bindings))})
			cur = &s.sum.RetFuncs[j][len(s.sum.RetFuncs[j])-1]
			changed = true
		}
		for i, b := range mc.Bindings {
			if cur.Bind[i] == nil {
				cur.Bind[i] = labelSet{}
			}
			if cur.Bind[i].addAll(s.both(b)) {
				changed = true
			}
		}
	}
	return changed
}

// retFuncSource: v is (a component of) the result of a call; returns the call and the result index.
func retFuncSource(v ssa.Value) (*ssa.Call, int) {
	switch x := v.(type) {
	case *ssa.Call:
		if x.Call.Signature().Results().Len() == 1 {
			return x, 0
		}
	case *ssa.Extract:
		if c, ok := x.Tuple.(*ssa.Call); ok {
			return c, x.Index
		}
	}
	return nil, 0
}

// throughSingleStoreCells: v loaded from a local (possibly captured) variable that
// is assigned exactly once: the value assigned. Otherwise v.
func throughSingleStoreCells(v ssa.Value, depth int) ssa.Value {
	if depth > 4 {
		return v
	}
	u, ok := v.(*ssa.UnOp)
	if !ok || u.Op != token.MUL {
		return v
	}
	var cell *ssa.Alloc
	switch a := u.X.(type) {
	case *ssa.Alloc:
		cell = a
	case *ssa.FreeVar:
		for _, r := range refs(a) {
			if st, ok := r.(*ssa.Store); ok && st.Addr == ssa.Value(a) {
				return v
			}
		}
		cell, _ = resolveFreeVar(a).(*ssa.Alloc)
	}
	if cell == nil {
		return v
	}
	var val ssa.Value
	for _, r := range refs(cell) {
		switch y := r.(type) {
		case *ssa.Store:
			if y.Addr != ssa.Value(cell) || val != nil {
				return v
			}
			val = y.Val
		case *ssa.UnOp, *ssa.DebugRef:
		case *ssa.MakeClosure:
			if f, ok := y.Fn.(*ssa.Function); ok {
				for i, b := range y.Bindings {
					if b == ssa.Value(cell) && i < len(f.FreeVars) {
						for _, rr := range refs(f.FreeVars[i]) {
							if st, ok := rr.(*ssa.Store); ok && st.Addr == ssa.Value(f.FreeVars[i]) {
								return v
							}
						}
					}
				}
			}
		default:
			return v
		}
	}
	if val == nil {
		return v
	}
	return throughSingleStoreCells(val, depth+1)
}

// soleImplementation: cc invokes a method of an interface declared in the
// module; if exactly one named type of the module implements that interface,
// returns that type's method (a module function), else nil.
func (t *TaintEngine) soleImplementation(cc *ssa.CallCommon) *ssa.Function {
	m := cc.Method
	if m == nil || m.Pkg() == nil || !strings.HasPrefix(m.Pkg().Path(), t.P.ModPath) {
		return nil
	}
	if t.soleImpl == nil {
		t.soleImpl = map[*types.Func]*ssa.Function{}
	}
	if f, ok := t.soleImpl[m]; ok {
		return f
	}
	t.soleImpl[m] = nil
	iface, ok := cc.Value.Type().Underlying().(*types.Interface)
	if !ok || iface.NumMethods() == 0 {
		return nil
	}
	var impl types.Type
	n := 0
	for _, pkg := range t.P.Pkgs {
		if !strings.HasPrefix(pkg.PkgPath, t.P.ModPath) || pkg.Types == nil {
			continue
		}
		sc := pkg.Types.Scope()
		for _, name := range sc.Names() {
			tn, ok := sc.Lookup(name).(*types.TypeName)
			if !ok || tn.IsAlias() {
				continue
			}
			nt, ok := tn.Type().(*types.Named)
			if !ok || nt.TypeParams().Len() > 0 {
				continue
			}
			if _, isI := nt.Underlying().(*types.Interface); isI {
				continue
			}
			switch {
			case types.Implements(nt, iface):
				impl, n = nt, n+1
			case types.Implements(types.NewPointer(nt), iface):
				impl, n = types.NewPointer(nt), n+1
			}
		}
	}
	if n != 1 {
		return nil
	}
	sel := t.P.SSA.MethodSets.MethodSet(impl).Lookup(m.Pkg(), m.Name())
	if sel == nil {
		return nil
	}
	f := t.P.SSA.MethodValue(sel)
	if f == nil || !t.P.funcSet[origin(f)] {
		// promoted / wrapper: use the declared method if it is a module function
		if obj, ok := sel.Obj().(*types.Func); ok {
			f = t.P.SSA.FuncValue(obj)
		}
	}
	if f == nil || !t.P.funcSet[origin(f)] {
		return nil
	}
	t.soleImpl[m] = origin(f)
	return origin(f)
}
