package main

// C05‑S3: job accounting (jobWaiter) and the context returned by Stop.

import (
	"go/constant"
	"go/token"
	"go/types"

	"golang.org/x/tools/go/ssa"
)

// wgCall: call is the method <name> (Add/Done/Wait) of Cron.jobWaiter — a
// sync.WaitGroup today; any type with the same method set is accepted.
func (a *c05) wgCall(ci ssa.CallInstruction, name string) bool {
	if ci.Common().IsInvoke() {
		return false
	}
	obj := calleeObj(ci)
	if obj == nil || obj.Name() != name || obj.Type().(*types.Signature).Recv() == nil {
		return false
	}
	args := ci.Common().Args
	if len(args) == 0 {
		return false
	}
	_, ok := c05FieldAddr(args[0], a.fJobWaiter)
	return ok
}

// checkWaiterReuse: sync.WaitGroup must not be waited on by a detached
// goroutine while later Add calls (jobs started after a restart) are possible:
// "new Add calls must happen after all previous Wait calls have returned",
// otherwise Wait panics ("WaitGroup is reused before previous Wait has returned").
func (a *c05) checkWaiterReuse() {
	r := a.r
	isWG := false
	if st, ok := a.p.Named("cron", "Cron").Underlying().(*types.Struct); ok {
		for i := 0; i < st.NumFields(); i++ {
			if st.Field(i).Name() == a.fJobWaiter.Field && namedKey(st.Field(i).Type()) == "sync.WaitGroup" {
				isWG = true
			}
		}
	}
	n := 0
	for _, fn := range a.funcs {
		allInstrs(fn, func(in ssa.Instruction) {
			call, ok := in.(*ssa.Call)
			if !ok || !a.wgCall(call, "Wait") {
				return
			}
			n++
			construct := a.name(fn) + " waits on Cron.jobWaiter"
			if !isWG {
				r.Trivial("C05.S3-waiter-reuse", construct, a.pos(in), "Cron.jobWaiter is not a sync.WaitGroup; its reuse restriction does not apply")
				return
			}
			detached := false
			if par := fn.Parent(); par != nil {
				allInstrs(par, func(j ssa.Instruction) {
					if g, ok := j.(*ssa.Go); ok {
						if mc, ok := g.Call.Value.(*ssa.MakeClosure); ok && mc.Fn == fn {
							detached = true
						}
					}
				})
			}
			for _, s := range a.sites[fn] {
				if _, ok := s.(*ssa.Go); ok {
					detached = true
				}
			}
			held := a.e.At(in)[a.lockID] == ModeW
			r.Check(!detached && held, "C05.S3-waiter-reuse", construct, a.pos(in),
				"Wait runs with runningMu held (no scheduler can be started, hence no Add, until it returns)",
				"sync.WaitGroup.Wait on Cron.jobWaiter runs in a goroutine nobody joins, while a later Start lets the new scheduler call jobWaiter.Add: when the last old job's Done wakes this Wait and a job of the restarted scheduler is counted before the woken goroutine re-checks the state, Wait panics with 'sync: WaitGroup is reused before previous Wait has returned' and the process dies (history: job blocks; Stop; Start; job returns while an activation is reached)")
		})
	}
	if n == 0 {
		r.Trivial("C05.S3-waiter-reuse", "cron.Cron.jobWaiter is never waited on", "-", "no Wait call")
	}
}

// addDominates: a jobWaiter.Add(n>0) dominates instruction at.
func (a *c05) addDominates(at ssa.Instruction) bool {
	found := false
	allInstrs(at.Parent(), func(in ssa.Instruction) {
		call, ok := in.(*ssa.Call)
		if !ok || !a.wgCall(call, "Add") || len(call.Call.Args) != 2 {
			return
		}
		k, ok := call.Call.Args[1].(*ssa.Const)
		if !ok || k.Value == nil || constant.Sign(k.Value) <= 0 {
			return
		}
		if instrDominates(in, at) {
			found = true
		}
	})
	return found
}

// isJobBody: fn is itself the body of a Job (a closure converted to FuncJob /
// a Run method of a Job implementation): invoking another Job's Run inside it
// is wrapping, not starting.
func (a *c05) isJobBody(fn *ssa.Function) bool {
	jobT := a.p.Named("cron", "Job")
	iface, _ := jobT.Underlying().(*types.Interface)
	if recv := fn.Signature.Recv(); recv != nil && fn.Name() == "Run" && iface != nil {
		if types.Implements(recv.Type(), iface) || types.Implements(types.NewPointer(recv.Type()), iface) {
			return true
		}
	}
	par := fn.Parent()
	if par == nil {
		return false
	}
	ok := false
	allInstrs(par, func(in ssa.Instruction) {
		mc, isMC := in.(*ssa.MakeClosure)
		if !isMC || mc.Fn != fn {
			return
		}
		for _, r := range refs(mc) {
			if ct, isCT := r.(*ssa.ChangeType); isCT && iface != nil && types.Implements(ct.Type(), iface) {
				ok = true
			}
		}
	})
	return ok
}

func (a *c05) checkJobAccounting() {
	r := a.r
	for _, fn := range a.funcs {
		// go j.Run() / defer j.Run() directly on the interface
		allInstrs(fn, func(in ssa.Instruction) {
			ci, ok := in.(ssa.CallInstruction)
			if !ok || !ci.Common().IsInvoke() || !callIs(ci, a.pkg, "Job", "Run") {
				return
			}
			switch in.(type) {
			case *ssa.Go:
				r.Check(a.addDominates(in), "C05.S3-counted-start", a.name(fn)+" go Job.Run", a.pos(in),
					"the goroutine is counted in jobWaiter before it is spawned",
					"a job is started in a goroutine that is not counted in jobWaiter (no jobWaiter.Add before the go statement, and a bare 'go j.Run()' cannot call Done): the context returned by Stop completes although this job is still running")
			case *ssa.Defer:
				r.Undecide("C05.S3: %s defers Job.Run at %s; accounting scheme not understood", a.name(fn), a.pos(in))
			}
		})
	}
	for _, fn := range a.funcs {
		sites := a.runSites(fn)
		if len(sites) == 0 {
			continue
		}
		construct := a.name(fn) + " invokes Job.Run"
		pos := a.pos(sites[0])
		if a.isJobBody(fn) {
			r.Trivial("C05.S3-counted-start", construct, pos, "a Job wrapping another Job (chain wrapper): runs inside the counted goroutine of the outer job")
			continue
		}
		// fn must be a goroutine body whose every go statement is preceded by jobWaiter.Add
		var gos []ssa.Instruction
		other := ""
		if par := fn.Parent(); par != nil {
			allInstrs(par, func(in ssa.Instruction) {
				mc, ok := in.(*ssa.MakeClosure)
				if !ok || mc.Fn != fn {
					return
				}
				for _, u := range refs(mc) {
					if g, isGo := u.(*ssa.Go); isGo && g.Call.Value == mc {
						gos = append(gos, g)
					} else {
						other = "the closure is used other than as the operand of a go statement at " + a.pos(u)
					}
				}
			})
		} else {
			if a.addrTaken[fn] || isExportedFunc(fn) {
				other = "the function is exported or used as a value"
			}
			for _, s := range a.sites[fn] {
				if g, isGo := s.(*ssa.Go); isGo {
					gos = append(gos, g)
				} else {
					other = "called synchronously at " + a.pos(s)
				}
			}
		}
		if other != "" || len(gos) == 0 {
			r.Undecide("C05.S3: %s invokes Job.Run outside a chain wrapper and not (only) as a goroutine body (%s): the job accounting scheme changed and is not understood", a.name(fn), other)
			continue
		}
		why := ""
		for _, g := range gos {
			ok := a.addDominates(g)
			if !ok {
				// Add performed by every caller of the spawning function
				sp := g.Parent()
				if !isExportedFunc(sp) && !a.addrTaken[sp] && len(a.sites[sp]) > 0 {
					ok = true
					for _, s := range a.sites[sp] {
						if !a.addDominates(s) {
							ok = false
						}
					}
				}
			}
			if !ok {
				why = "the go statement at " + a.pos(g) + " in " + a.name(g.Parent()) + " is not preceded on every path by jobWaiter.Add(n>0)"
			}
		}
		// Done must not precede Run
		allInstrs(fn, func(in ssa.Instruction) {
			call, ok := in.(*ssa.Call)
			if !ok || !a.wgCall(call, "Done") {
				return
			}
			for _, rs := range sites {
				if (rs.Block() == in.Block() && instrIndex(in) < instrIndex(rs)) || (rs.Block() != in.Block() && reachableFrom(in.Block(), nil)[rs.Block()]) {
					why = "jobWaiter.Done() at " + a.pos(in) + " runs before Job.Run returns"
				}
			}
		})
		hasDone := false
		allInstrs(fn, func(in ssa.Instruction) {
			if ci, ok := in.(ssa.CallInstruction); ok && a.wgCall(ci, "Done") {
				hasDone = true
			}
		})
		if !hasDone {
			r.Note("C05.S3: %s never calls jobWaiter.Done: Stop's context would never complete (liveness; the statement only says 'completes only when', not armed)", a.name(fn))
		}
		r.Check(why == "", "C05.S3-counted-start", construct, pos,
			"Job.Run runs in a goroutine counted in jobWaiter before it is spawned; Done only after Run",
			"a started job is not (yet) counted in jobWaiter while it runs: the context returned by Stop can complete although this job has not returned ("+why+")")
	}
}

// checkStopContext: Stop returns the ctx of context.WithCancel(Background) and
// cancel is invoked only after jobWaiter.Wait().
func (a *c05) checkStopContext() {
	r, p := a.r, a.p
	stop := p.Func("cron", "Cron.Stop")
	var wc *ssa.Call
	kind := ""
	allInstrs(stop, func(in ssa.Instruction) {
		call, ok := in.(*ssa.Call)
		if !ok {
			return
		}
		obj := calleeObj(call)
		if obj == nil || obj.Pkg() == nil || obj.Pkg().Path() != "context" {
			return
		}
		switch obj.Name() {
		case "WithCancel", "WithCancelCause":
			wc, kind = call, obj.Name()
		case "WithTimeout", "WithDeadline", "WithTimeoutCause", "WithDeadlineCause":
			wc, kind = call, obj.Name()
		}
	})
	cRet := "cron.Cron.Stop returns the job-completion context"
	cCan := "cron.Cron.Stop cancels only after jobWaiter.Wait"
	if wc == nil {
		r.Undecide("C05.S3: Stop no longer derives its result from context.WithCancel; the completion signal is not understood")
		return
	}
	if kind != "WithCancel" && kind != "WithCancelCause" {
		r.Violation("C05.S3-stop-context", cRet, a.pos(wc), "the context returned by Stop comes from context."+kind+": it completes when the deadline passes although started jobs are still running")
		return
	}
	parentOK := false
	if pc, ok := wc.Call.Args[0].(*ssa.Call); ok {
		if callIs(pc, "context", "", "Background") || callIs(pc, "context", "", "TODO") {
			parentOK = true
		}
	}
	if !parentOK {
		r.Undecide("C05.S3: the parent of Stop's context is not context.Background()/TODO(); whether it can be cancelled early is not decided")
	}
	ctxRes, cancelRes := callResult(wc, 0), callResult(wc, 1)
	// returned values
	retOK, nRet := true, 0
	var resolve func(v ssa.Value, depth int) bool
	resolve = func(v ssa.Value, depth int) bool {
		if v == ctxRes {
			return true
		}
		if depth > 4 {
			return false
		}
		if u, ok := v.(*ssa.UnOp); ok && u.Op == token.MUL {
			if cell, ok := u.X.(*ssa.Alloc); ok {
				n := 0
				for _, rr := range refs(cell) {
					if st, ok := rr.(*ssa.Store); ok && st.Addr == cell {
						n++
						if !resolve(st.Val, depth+1) {
							return false
						}
					}
				}
				return n > 0
			}
		}
		return false
	}
	allInstrs(stop, func(in ssa.Instruction) {
		ret, ok := in.(*ssa.Return)
		if !ok || len(ret.Results) != 1 || len(in.Block().Preds) == 0 && in.Block().Index != 0 {
			return
		}
		nRet++
		if ctxRes == nil || !resolve(ret.Results[0], 0) {
			retOK = false
		}
	})
	r.Check(retOK && nRet > 0, "C05.S3-stop-context", cRet, a.pos(wc),
		"every return of Stop yields the context created by context."+kind,
		"Stop returns a context other than the one cancelled after jobWaiter.Wait(): its completion says nothing about the started jobs having returned")

	// uses of cancel
	if cancelRes == nil {
		r.Note("C05.S3: Stop discards the cancel function: the returned context never completes (liveness, not armed)")
		r.Trivial("C05.S3-stop-context", cCan, a.pos(wc), "cancel is never called")
		return
	}
	var cells []*ssa.Alloc
	escaped := ""
	for _, u := range refs(cancelRes) {
		switch x := u.(type) {
		case *ssa.Store:
			if cell, ok := x.Addr.(*ssa.Alloc); ok && x.Val == cancelRes {
				cells = append(cells, cell)
			} else {
				escaped = "stored at " + a.pos(u)
			}
		case ssa.CallInstruction:
			if x.Common().Value != cancelRes {
				escaped = "passed to a call at " + a.pos(u)
			}
		case *ssa.DebugRef:
		default:
			escaped = "used at " + a.pos(u)
		}
	}
	isCancel := func(v ssa.Value) bool {
		if v == cancelRes {
			return true
		}
		if fv, ok := v.(*ssa.FreeVar); ok && resolveFreeVar(fv) == cancelRes {
			return true
		}
		u, ok := v.(*ssa.UnOp)
		if !ok || u.Op != token.MUL {
			return false
		}
		var base ssa.Value = u.X
		if fv, ok := base.(*ssa.FreeVar); ok {
			base = resolveFreeVar(fv)
		}
		for _, c := range cells {
			if base == c {
				return true
			}
		}
		return false
	}
	// the cells must only be loaded/captured
	for _, cell := range cells {
		for _, u := range refs(cell) {
			switch x := u.(type) {
			case *ssa.Store:
				if x.Addr != cell {
					escaped = "cell stored at " + a.pos(u)
				}
			case *ssa.UnOp, *ssa.MakeClosure, *ssa.DebugRef:
			default:
				escaped = "cell used at " + a.pos(u)
			}
		}
	}
	if escaped != "" {
		r.Undecide("C05.S3: Stop's cancel function escapes (%s); its call sites cannot be enumerated", escaped)
		return
	}
	why, nCalls := "", 0
	fns := []*ssa.Function{stop}
	for i := 0; i < len(fns); i++ {
		fns = append(fns, fns[i].AnonFuncs...)
	}
	for _, fn := range fns {
		var waits []ssa.Instruction
		allInstrs(fn, func(in ssa.Instruction) {
			if call, ok := in.(*ssa.Call); ok && a.wgCall(call, "Wait") {
				waits = append(waits, in)
			}
		})
		domByWait := func(at ssa.Instruction) bool {
			for _, w := range waits {
				if instrDominates(w, at) {
					return true
				}
			}
			return false
		}
		allInstrs(fn, func(in ssa.Instruction) {
			ci, ok := in.(ssa.CallInstruction)
			if !ok || !isCancel(ci.Common().Value) {
				return
			}
			nCalls++
			switch in.(type) {
			case *ssa.Call:
				if !domByWait(in) {
					why = "cancel() at " + a.pos(in) + " in " + a.name(fn) + " is not preceded by jobWaiter.Wait()"
				}
			case *ssa.Go:
				why = "cancel is spawned with go at " + a.pos(in) + " (no wait for the jobs)"
			case *ssa.Defer:
				// runs at function exit: every exit must come after the Wait
				allInstrs(fn, func(j ssa.Instruction) {
					if _, isRD := j.(*ssa.RunDefers); isRD && !domByWait(j) {
						why = "deferred cancel() (defer at " + a.pos(in) + " in " + a.name(fn) + ") runs at an exit not preceded by jobWaiter.Wait()"
					}
				})
			}
		})
	}
	if nCalls == 0 {
		r.Note("C05.S3: Stop's cancel function is never called: the returned context never completes (liveness, not armed)")
	}
	r.Check(why == "", "C05.S3-stop-context", cCan, a.pos(wc),
		"every call of the context's cancel is dominated by jobWaiter.Wait()",
		"the context returned by Stop can complete while a started job is still running: "+why)
}
