package main

// C05‑S3: job accounting (jobWaiter) and the context returned by Stop.

import (
	"go/constant"
	"go/token"
	"go/types"
	"sort"
	"strings"

	"golang.org/x/tools/go/ssa"
)

// wgCall: call is the method <name> (Add/Done/Wait) of Cron.jobWaiter — a
// sync.WaitGroup today; any type with the same method set is accepted.
func (a *c05) wgCall(ci ssa.CallInstruction, name string) bool {
	if ci.Common().IsInvoke() {
		return false
	}
	obj := calleeObj(ci)
	if obj == nil || obj.Name() != name || obj.Type().(*types.Signature).Recv() == nil {
		return false
	}
	args := ci.Common().Args
	if len(args) == 0 {
		return false
	}
	return a.isJobCounter(args[0], 0)
}

// isJobCounter: v denotes Cron's job counter: its address (&c.jobWaiter), the
// pointer held in the field, or a parameter / captured variable / local bound
// to one of those at every call site.
func (a *c05) isJobCounter(v ssa.Value, depth int) bool {
	if depth > 6 {
		return false
	}
	if _, ok := c05FieldAddr(v, a.fJobWaiter); ok {
		return true
	}
	if _, ok := c05LoadOf(v, a.fJobWaiter); ok {
		return true
	}
	switch x := v.(type) {
	case *ssa.Parameter:
		acts := a.actualsOf(x)
		if len(acts) == 0 {
			return false
		}
		for _, av := range acts {
			if !a.isJobCounter(av, depth+1) {
				return false
			}
		}
		return true
	case *ssa.FreeVar:
		return a.isJobCounter(resolveFreeVar(x), depth+1)
	case *ssa.Phi:
		for _, ed := range x.Edges {
			if !a.isJobCounter(ed, depth+1) {
				return false
			}
		}
		return true
	case *ssa.UnOp:
		if x.Op == token.MUL {
			addr := x.X
			if fv, ok := addr.(*ssa.FreeVar); ok {
				addr = resolveFreeVar(fv)
			}
			if addr == nil {
				return false
			}
			vals := c05CapturedStores(addr, 0)
			if len(vals) == 0 {
				return false
			}
			for _, sv := range vals {
				if !a.isJobCounter(sv, depth+1) {
					return false
				}
			}
			return true
		}
	}
	return false
}

// checkWaiterReuse: sync.WaitGroup must not be waited on by a detached
// goroutine while later Add calls (jobs started after a restart) are possible:
// "new Add calls must happen after all previous Wait calls have returned",
// otherwise Wait panics ("WaitGroup is reused before previous Wait has returned").
func (a *c05) checkWaiterReuse() {
	r := a.r
	isWG := false
	isWG = a.jobWaiterIsWG
	n := 0
	for _, fn := range a.funcs {
		allInstrs(fn, func(in ssa.Instruction) {
			call, ok := in.(*ssa.Call)
			if !ok || !a.wgCall(call, "Wait") {
				return
			}
			n++
			// The obligation key is role-based: the exported entry point(s) whose
			// goroutine does the waiting, not the name of the closure/helper that
			// happens to contain the call.
			detached := false
			spawners := map[*ssa.Function]bool{}
			seenUp := map[*ssa.Function]bool{}
			var up func(f *ssa.Function)
			up = func(f *ssa.Function) {
				if seenUp[f] {
					return
				}
				seenUp[f] = true
				for _, s := range a.sites[f] {
					if _, ok := s.(*ssa.Go); ok {
						detached = true
						spawners[s.Parent()] = true
					} else if !isExportedFunc(f) {
						up(s.Parent())
					}
				}
			}
			up(fn)
			if !detached {
				spawners[fn] = true
			}
			rootSet := map[string]bool{}
			for sp := range spawners {
				for _, rn := range a.apiRoots(sp) {
					rootSet[rn] = true
				}
			}
			var rootNames []string
			for rn := range rootSet {
				rootNames = append(rootNames, rn)
			}
			sort.Strings(rootNames)
			construct := strings.Join(rootNames, "+") + ": wait on the job counter"
			if !isWG {
				r.Trivial("C05.S3-waiter-reuse", construct, a.pos(in), "the job counter is not a sync.WaitGroup; its reuse restriction does not apply")
				return
			}
			held := a.e.At(in)[a.lockID] == ModeW
			r.Check(!detached && held, "C05.S3-waiter-reuse", construct, a.pos(in),
				"Wait runs with runningMu held (no scheduler can be started, hence no Add, until it returns)",
				"sync.WaitGroup.Wait on Cron.jobWaiter runs in a goroutine nobody joins, while a later Start lets the new scheduler call jobWaiter.Add: when the last old job's Done wakes this Wait and a job of the restarted scheduler is counted before the woken goroutine re-checks the state, Wait panics with 'sync: WaitGroup is reused before previous Wait has returned' and the process dies (history: job blocks; Stop; Start; job returns while an activation is reached)")
		})
	}
	if n == 0 {
		r.Trivial("C05.S3-waiter-reuse", "cron.Cron.jobWaiter is never waited on", "-", "no Wait call")
	}
}

// addDominates: a jobWaiter.Add(n>0) dominates instruction at.
func (a *c05) addDominates(at ssa.Instruction) bool {
	found := false
	allInstrs(at.Parent(), func(in ssa.Instruction) {
		call, ok := in.(*ssa.Call)
		if !ok || !a.wgCall(call, "Add") || len(call.Call.Args) != 2 {
			return
		}
		k, ok := call.Call.Args[1].(*ssa.Const)
		if !ok || k.Value == nil || constant.Sign(k.Value) <= 0 {
			return
		}
		if instrDominates(in, at) {
			found = true
		}
	})
	return found
}

// isJobBody: fn is itself the body of a Job (a closure converted to FuncJob /
// a Run method of a Job implementation): invoking another Job's Run inside it
// is wrapping, not starting.
func (a *c05) isJobBody(fn *ssa.Function) bool {
	jobT := a.p.Named("cron", "Job")
	iface, _ := jobT.Underlying().(*types.Interface)
	if recv := fn.Signature.Recv(); recv != nil && fn.Name() == "Run" && iface != nil {
		if types.Implements(recv.Type(), iface) || types.Implements(types.NewPointer(recv.Type()), iface) {
			return true
		}
	}
	par := fn.Parent()
	if par == nil {
		return false
	}
	for _, u := range a.funcValueUses(fn) {
		if ct, isCT := u.(*ssa.ChangeType); isCT && iface != nil && types.Implements(ct.Type(), iface) {
			return true
		}
	}
	return false
}

func (a *c05) checkJobAccounting() {
	r := a.r
	for _, fn := range a.funcs {
		// go j.Run() / defer j.Run() directly on the interface
		allInstrs(fn, func(in ssa.Instruction) {
			ci, ok := in.(ssa.CallInstruction)
			if !ok || !ci.Common().IsInvoke() || !callIs(ci, a.pkg, "Job", "Run") {
				return
			}
			switch in.(type) {
			case *ssa.Go:
				r.Check(a.addDominates(in), "C05.S3-counted-start", a.name(fn)+" go Job.Run", a.pos(in),
					"the goroutine is counted in jobWaiter before it is spawned",
					"a job is started in a goroutine that is not counted in jobWaiter (no jobWaiter.Add before the go statement, and a bare 'go j.Run()' cannot call Done): the context returned by Stop completes although this job is still running")
			case *ssa.Defer:
				r.Undecide("C05.S3: %s defers Job.Run at %s; accounting scheme not understood", a.name(fn), a.pos(in))
			}
		})
	}
	for _, fn := range a.funcs {
		sites := a.runSites(fn)
		if len(sites) == 0 {
			continue
		}
		construct := a.name(fn) + " invokes Job.Run"
		pos := a.pos(sites[0])
		if a.isJobBody(fn) {
			r.Trivial("C05.S3-counted-start", construct, pos, "a Job wrapping another Job (chain wrapper): runs inside the counted goroutine of the outer job")
			continue
		}
		// fn must be a goroutine body whose every go statement is preceded by jobWaiter.Add
		var gos []ssa.Instruction
		other := ""
		if par := fn.Parent(); par != nil {
			// a closure (with or without captured variables) used as the operand of go statements
			for _, u := range a.funcValueUses(fn) {
				if g, isGo := u.(*ssa.Go); isGo && staticCallee(g) == fn {
					gos = append(gos, g)
				} else {
					other = "the closure is used other than as the operand of a go statement at " + a.pos(u)
				}
			}
		} else {
			if a.addrTaken[fn] || isExportedFunc(fn) {
				other = "the function is exported or used as a value"
			}
			for _, s := range a.sites[fn] {
				if g, isGo := s.(*ssa.Go); isGo {
					gos = append(gos, g)
				} else {
					other = "called synchronously at " + a.pos(s)
				}
			}
		}
		if other != "" || len(gos) == 0 {
			r.Undecide("C05.S3: %s invokes Job.Run outside a chain wrapper and not (only) as a goroutine body (%s): the job accounting scheme changed and is not understood", a.name(fn), other)
			continue
		}
		why := ""
		for _, g := range gos {
			ok := a.addDominates(g)
			if !ok {
				// Add performed by every caller of the spawning function
				sp := g.Parent()
				if !isExportedFunc(sp) && !a.addrTaken[sp] && len(a.sites[sp]) > 0 {
					ok = true
					for _, s := range a.sites[sp] {
						if !a.addDominates(s) {
							ok = false
						}
					}
				}
			}
			if !ok {
				why = "the go statement at " + a.pos(g) + " in " + a.name(g.Parent()) + " is not preceded on every path by jobWaiter.Add(n>0)"
			}
		}
		// Done must not precede Run
		allInstrs(fn, func(in ssa.Instruction) {
			call, ok := in.(*ssa.Call)
			if !ok || !a.wgCall(call, "Done") {
				return
			}
			for _, rs := range sites {
				if (rs.Block() == in.Block() && instrIndex(in) < instrIndex(rs)) || (rs.Block() != in.Block() && reachableFrom(in.Block(), nil)[rs.Block()]) {
					why = "jobWaiter.Done() at " + a.pos(in) + " runs before Job.Run returns"
				}
			}
		})
		hasDone := false
		allInstrs(fn, func(in ssa.Instruction) {
			if ci, ok := in.(ssa.CallInstruction); ok && a.wgCall(ci, "Done") {
				hasDone = true
			}
		})
		if !hasDone {
			r.Note("C05.S3: %s never calls jobWaiter.Done: Stop's context would never complete (liveness; the statement only says 'completes only when', not armed)", a.name(fn))
		}
		r.Check(why == "", "C05.S3-counted-start", construct, pos,
			"Job.Run runs in a goroutine counted in jobWaiter before it is spawned; Done only after Run",
			"a started job is not (yet) counted in jobWaiter while it runs: the context returned by Stop can complete although this job has not returned ("+why+")")
	}
}

// checkStopContext: what the exported Stop returns is (on every return, through
// helpers, named results and temporaries) the context of one
// context.WithCancel(Background) call, and every invocation of that call's
// cancel function — in the creating function, its closures, or functions it is
// handed to — happens after jobWaiter.Wait().
func (a *c05) checkStopContext() {
	r, p := a.r, a.p
	stop := p.Func("cron", "Cron.Stop")
	cRet := "cron.Cron.Stop returns the job-completion context"
	cCan := "cron.Cron.Stop cancels only after the job counter's Wait"
	// resolve the returned value to context-creating calls
	wcs := map[*ssa.Call]bool{}
	unknown := ""
	var resolve func(v ssa.Value, depth int)
	seenV := map[ssa.Value]bool{}
	resolve = func(v ssa.Value, depth int) {
		if seenV[v] {
			return
		}
		seenV[v] = true
		if depth > 8 {
			unknown = "value chain too deep"
			return
		}
		switch x := v.(type) {
		case *ssa.Extract:
			if call, ok := x.Tuple.(*ssa.Call); ok {
				if obj := calleeObj(call); obj != nil && obj.Pkg() != nil && obj.Pkg().Path() == "context" && x.Index == 0 {
					wcs[call] = true
					return
				}
				if rets := a.returnsOf(call, x.Index); rets != nil {
					for _, rv := range rets {
						resolve(rv, depth+1)
					}
					return
				}
			}
		case *ssa.Call:
			if rets := a.returnsOf(x, 0); rets != nil {
				for _, rv := range rets {
					resolve(rv, depth+1)
				}
				return
			}
			if obj := calleeObj(x); obj != nil && obj.Pkg() != nil && obj.Pkg().Path() == "context" {
				unknown = "Stop returns context." + obj.Name() + "() itself"
				return
			}
		case *ssa.Phi:
			for _, ed := range x.Edges {
				resolve(ed, depth+1)
			}
			return
		case *ssa.UnOp:
			if x.Op == token.MUL {
				if cell, ok := x.X.(*ssa.Alloc); ok {
					vals := c05CellStores(cell)
					if len(vals) == 0 {
						vals = c05CapturedStores(cell, 0) // assigned inside a callback
					}
					if len(vals) > 0 {
						for _, sv := range vals {
							resolve(sv, depth+1)
						}
						return
					}
				}
			}
		case *ssa.MakeInterface:
			resolve(x.X, depth+1)
			return
		case *ssa.ChangeInterface:
			resolve(x.X, depth+1)
			return
		}
		unknown = "a returned value is not traced to a context-creating call (" + v.String() + ")"
	}
	nRet := 0
	allInstrs(stop, func(in ssa.Instruction) {
		ret, ok := in.(*ssa.Return)
		if !ok || len(ret.Results) != 1 || len(in.Block().Preds) == 0 && in.Block().Index != 0 {
			return
		}
		nRet++
		resolve(ret.Results[0], 0)
	})
	if nRet == 0 || (len(wcs) == 0 && unknown == "") {
		r.Undecide("C05.S3: Stop has no return value that can be traced; the completion signal is not understood")
		return
	}
	if unknown != "" {
		if len(wcs) == 0 {
			r.Undecide("C05.S3: Stop no longer derives its result from context.WithCancel (%s); the completion signal is not understood", unknown)
			return
		}
		r.Violation("C05.S3-stop-context", cRet, p.Pos(stop.Pos()), "on some return Stop yields a context other than the one cancelled after the job counter's Wait ("+unknown+"): its completion says nothing about the started jobs having returned")
		return
	}
	why := ""
	nCalls := 0
	var firstWC *ssa.Call
	for wc := range wcs {
		if firstWC == nil || wc.Pos() < firstWC.Pos() {
			firstWC = wc
		}
	}
	for wc := range wcs {
		kind := calleeObj(wc).Name()
		if kind != "WithCancel" && kind != "WithCancelCause" {
			r.Violation("C05.S3-stop-context", cRet, a.pos(wc), "the context returned by Stop comes from context."+kind+": it completes when the deadline passes (or never reports the jobs) although started jobs are still running")
			return
		}
		parentOK := false
		if pc, ok := wc.Call.Args[0].(*ssa.Call); ok {
			if callIs(pc, "context", "", "Background") || callIs(pc, "context", "", "TODO") {
				parentOK = true
			}
		}
		if !parentOK {
			r.Undecide("C05.S3: the parent of Stop's context is not context.Background()/TODO(); whether it can be cancelled early is not decided")
		}
		cancelRes := callResult(wc, 1)
		if cancelRes == nil {
			r.Note("C05.S3: Stop discards the cancel function: the returned context never completes (liveness, not armed)")
			continue
		}
		// follow the cancel function: values denoting it, per function
		type item struct {
			fn  *ssa.Function
			val ssa.Value
		}
		work := []item{{wc.Parent(), cancelRes}}
		done := map[ssa.Value]bool{}
		escaped := ""
		for len(work) > 0 {
			it := work[0]
			work = work[1:]
			if done[it.val] {
				continue
			}
			done[it.val] = true
			fn := it.fn
			var waits []ssa.Instruction
			allInstrs(fn, func(in ssa.Instruction) {
				if call, ok := in.(*ssa.Call); ok && a.wgCall(call, "Wait") {
					waits = append(waits, in)
				}
			})
			domByWait := func(at ssa.Instruction) bool {
				for _, w := range waits {
					if instrDominates(w, at) {
						return true
					}
				}
				return false
			}
			for _, u := range refs(it.val) {
				switch x := u.(type) {
				case *ssa.DebugRef:
				case *ssa.Store:
					cell, ok := x.Addr.(*ssa.Alloc)
					if !ok || x.Val != it.val {
						escaped = "stored at " + a.pos(u)
						continue
					}
					// a local cell: loads and captures denote the cancel function too
					for _, cu := range refs(cell) {
						switch y := cu.(type) {
						case *ssa.Store:
							if y.Addr != cell {
								escaped = "cell stored at " + a.pos(cu)
							}
						case *ssa.UnOp:
							work = append(work, item{fn, y})
						case *ssa.MakeClosure:
							cl := y.Fn.(*ssa.Function)
							for bi, b := range y.Bindings {
								if b == ssa.Value(cell) && bi < len(cl.FreeVars) {
									for _, fu := range refs(cl.FreeVars[bi]) {
										if ld, ok := fu.(*ssa.UnOp); ok && ld.Op == token.MUL {
											work = append(work, item{cl, ld})
										}
									}
								}
							}
						case *ssa.DebugRef:
						default:
							escaped = "cell used at " + a.pos(cu)
						}
					}
				case *ssa.MakeClosure:
					cl := x.Fn.(*ssa.Function)
					for bi, b := range x.Bindings {
						if b == it.val && bi < len(cl.FreeVars) {
							work = append(work, item{cl, cl.FreeVars[bi]})
						}
					}
				case ssa.CallInstruction:
					if x.Common().Value == it.val {
						nCalls++
						switch u.(type) {
						case *ssa.Call:
							if !domByWait(u) {
								why = "cancel() at " + a.pos(u) + " in " + a.name(fn) + " is not preceded by the job counter's Wait()"
							}
						case *ssa.Go:
							why = "cancel is spawned with go at " + a.pos(u) + " (no wait for the jobs)"
						case *ssa.Defer:
							allInstrs(fn, func(j ssa.Instruction) {
								if _, isRD := j.(*ssa.RunDefers); isRD && !domByWait(j) {
									why = "deferred cancel() (defer at " + a.pos(u) + " in " + a.name(fn) + ") runs at an exit not preceded by the job counter's Wait()"
								}
							})
						}
						continue
					}
					// passed as an argument to a module function: follow the parameter
					h := staticCallee(x)
					followed := false
					if h != nil && a.p.funcSet[h] {
						for k, arg := range x.Common().Args {
							if arg == it.val && k < len(h.Params) {
								work = append(work, item{h, h.Params[k]})
								followed = true
							}
						}
					}
					if !followed {
						escaped = "passed to a call at " + a.pos(u)
					}
				case *ssa.Return:
					escaped = "returned at " + a.pos(u)
				default:
					escaped = "used at " + a.pos(u)
				}
			}
		}
		if escaped != "" {
			r.Undecide("C05.S3: Stop's cancel function escapes (%s); its call sites cannot be enumerated", escaped)
			return
		}
	}
	r.OK("C05.S3-stop-context", cRet, a.pos(firstWC), "every return of Stop yields the context created by context.WithCancel")
	if nCalls == 0 {
		r.Note("C05.S3: Stop's cancel function is never called: the returned context never completes (liveness, not armed)")
	}
	r.Check(why == "", "C05.S3-stop-context", cCan, a.pos(firstWC),
		"every call of the context's cancel is dominated by the job counter's Wait()",
		"the context returned by Stop can complete while a started job is still running: "+why)
}

// checkWaitAfterHandoff (S3-wait-after-stop): the wait whose end completes the
// context Stop returns must BEGIN after the scheduler has taken the stop
// request (or with the running flag read false): a Wait started earlier can
// see a zero counter and complete the context while the scheduler, not yet
// stopped, starts another job. Decided on the flow from the exported methods
// that send the stop request: at every point where such a method starts the
// wait (the go statement whose goroutine reaches jobWaiter.Wait(), or a
// synchronous Wait), the stop request has been sent or running was read false.
func (a *c05) checkWaitAfterHandoff() {
	r := a.r
	const sent, notRunning = 1, 2
	f := &c05Flow{a: a, G: 4}
	f.Tracked = func(v ssa.Value) bool { return a.isRunningLoad(v) }
	isStopSend := func(in ssa.Instruction) bool {
		switch x := in.(type) {
		case *ssa.Send:
			fl, ok := a.chanFieldOf(x.Chan)
			return ok && fl == a.fStop
		case *ssa.Select:
			for _, st := range x.States {
				if st.Dir == types.SendOnly {
					if fl, ok := a.chanFieldOf(st.Chan); ok && fl == a.fStop {
						return true
					}
				}
			}
		}
		return false
	}
	f.Step = func(in ssa.Instruction, g int) (int, bool) {
		if isStopSend(in) {
			return g | sent, false
		}
		return g, false
	}
	f.Cond = func(at ssa.Instruction, v ssa.Value, tv bool, g int) int {
		if a.isRunningLoad(v) && !tv && a.mutexHeldAt(v.(ssa.Instruction)) {
			return g | notRunning
		}
		return g
	}
	f.Run(nil)
	// functions from which a Wait on the job counter is reached through calls
	waits := map[*ssa.Function]bool{}
	for _, fn := range a.funcs {
		allInstrs(fn, func(in ssa.Instruction) {
			if call, ok := in.(*ssa.Call); ok && a.wgCall(call, "Wait") {
				waits[fn] = true
			}
		})
	}
	reachesWait := func(fn *ssa.Function) bool {
		for h := range a.reachFrom(fn, false) {
			if waits[h] {
				return true
			}
		}
		return false
	}
	// the exported methods that hand the stop request over
	n := 0
	for _, root := range a.funcs {
		if !isExportedFunc(root) {
			continue
		}
		sends := false
		scope := a.reachFrom(root, false)
		for h := range scope {
			allInstrs(h, func(in ssa.Instruction) {
				if isStopSend(in) {
					sends = true
				}
			})
		}
		if !sends {
			continue
		}
		why := ""
		for h := range scope {
			allInstrs(h, func(in ssa.Instruction) {
				starts := false
				switch x := in.(type) {
				case *ssa.Go:
					for _, t := range a.calleesOf(x) {
						if reachesWait(t) {
							starts = true
						}
					}
				case *ssa.Call:
					starts = a.wgCall(x, "Wait")
				}
				if !starts {
					return
				}
				ok, reached := f.All(in, func(g int) bool { return g&(sent|notRunning) != 0 })
				if !reached {
					return
				}
				n++
				if !ok {
					why = "the wait for the jobs is started at " + a.pos(in) + " on a path where the stop request has not yet been handed to the scheduler (and the running flag was not read false)"
				}
			})
		}
		if n == 0 {
			continue
		}
		r.Check(why == "", "C05.S3-wait-after-stop", a.name(root)+": job wait begins after the stop hand-off", a.p.Pos(root.Pos()),
			"every start of the wait on the job counter follows the send of the stop request (or a read of running==false under the mutex)",
			why+": Wait can observe a zero counter and the returned context completes while the scheduler — not stopped yet — starts a job that is then still running although the context is Done")
	}
	if n == 0 {
		r.Undecide("C05.S3-wait-after-stop: no start of a wait on the job counter is reached from the method that sends the stop request")
	}
}
