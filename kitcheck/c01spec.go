package main

// C01.R3 (spec constants), R4 (siblings), R7 (push-back), R8 (wiring).

import (
	"fmt"
	"go/constant"
	"go/token"
	"go/types"
	"strings"

	"golang.org/x/tools/go/ssa"
)

const (
	c01R3 = "C01.R3-spec-constants"
	c01R4 = "C01.R4-siblings"
	c01R7 = "C01.R7-header-pushback"
	c01R8 = "C01.R8-manifest-wiring"
)

func (x *c01Ctx) constInt(name string) (int64, bool) {
	c, ok := x.p.Pkg(c01Rel).Types.Scope().Lookup(name).(*types.Const)
	if !ok {
		undecided("anchor constant %s.%s no longer resolves", c01Rel, name)
	}
	return constant.Int64Val(constant.ToInt(c.Val()))
}

func (x *c01Ctx) specConstants() {
	r, p, s := x.r, x.p, x.spec
	scope := p.Pkg(c01Rel).Types.Scope()
	posOf := func(name string) string {
		if o := scope.Lookup(name); o != nil {
			return p.Pos(o.Pos())
		}
		return "-"
	}
	// named constants
	if c, ok := scope.Lookup("SchemeName").(*types.Const); ok && c.Val().Kind() == constant.String {
		got := constant.StringVal(c.Val())
		r.Check(got == s.Scheme, c01R3, "const SchemeName", posOf("SchemeName"), "equals the README's scheme line", fmt.Sprintf("SchemeName is %q, the published scheme line is %q: spec implementations reject the header (and Decrypt rejects theirs)", got, s.Scheme))
	} else {
		undecided("anchor constant %s.SchemeName no longer resolves", c01Rel)
	}
	for _, k := range []struct {
		name string
		want int64
		what string
	}{{"SegmentSize", s.SegmentSize, "segment size"}, {"SegmentOverhead", s.TagSize, "tag size"}, {"NoncePrefixLength", s.PrefixLen, "nonce prefix length"}} {
		got, _ := x.constInt(k.name)
		r.Check(got == k.want, c01R3, "const "+k.name, posOf(k.name), fmt.Sprintf("= %d as in the README", got), fmt.Sprintf("%s is %d but the README's %s is %d: the ciphertext layout differs from the published format", k.name, got, k.what, k.want))
	}

}

// headerLayout: SignHeader returns message || base64(MAC) || '\n' (checked
// for the make+copy+Encode form; other forms are not decided).
func (x *c01Ctx) headerLayout(sign *ssa.Function) {
	r, p := x.r, x.p
	fname := FuncName(p, sign)
	var root *ssa.MakeSlice
	multi := false
	for _, b := range sign.Blocks {
		if len(b.Instrs) == 0 {
			continue
		}
		ret, ok := b.Instrs[len(b.Instrs)-1].(*ssa.Return)
		if !ok || len(ret.Results) == 0 || isNilConst(ret.Results[0]) {
			continue
		}
		ms, ok := c01Root(ret.Results[0]).(*ssa.MakeSlice)
		if !ok || (root != nil && root != ms) {
			multi = true
			continue
		}
		root = ms
	}
	if root == nil || multi {
		r.Undecide("C01.R3: %s does not build the header in one make([]byte, …) buffer; layout not decided", fname)
		return
	}
	hasMsg, hasMAC, hasNL := false, false, false
	allInstrs(sign, func(in ssa.Instruction) {
		switch y := in.(type) {
		case *ssa.Call:
			if builtinName(y) == "copy" && c01Root(y.Call.Args[0]) == ssa.Value(root) {
				if sl, ok := y.Call.Args[0].(*ssa.Slice); !ok || sl.Low == nil {
					hasMsg = true
				} else if k, ok := c01ConstInt(sl.Low); ok && k == 0 {
					hasMsg = true
				}
			}
			if obj := calleeObj(y); obj != nil && obj.Pkg() != nil && obj.Pkg().Path() == "encoding/base64" && obj.Name() == "Encode" {
				for _, a := range y.Call.Args {
					if c01Root(a) == ssa.Value(root) {
						hasMAC = true
					}
				}
			}
		case *ssa.Store:
			ia, ok := y.Addr.(*ssa.IndexAddr)
			if !ok || c01Root(ia.X) != ssa.Value(root) {
				return
			}
			if k, ok := c01ConstInt(y.Val); ok && k == 10 {
				l := c01Linear(ia.Index)
				if lc, ok := l.Base.(*ssa.Call); ok && builtinName(lc) == "len" && c01Root(lc.Call.Args[0]) == ssa.Value(root) && l.K == -1 {
					hasNL = true
				}
				// index = (the length the buffer was made with) - 1
				if ml := c01Linear(root.Len); ml.Base != nil && l.Base == ml.Base && l.K == ml.K-1 {
					hasNL = true
				}
				if ml := c01Linear(root.Len); ml.Base == nil && l.Base == nil && l.K == ml.K-1 {
					hasNL = true
				}
			}
		}
	})
	r.Check(hasMsg && hasMAC && hasNL, c01R3, "Encrypt header layout", p.Pos(sign.Pos()), "message || base64(MAC) || LF",
		fmt.Sprintf("the signed header is not message (%v) || base64 MAC (%v) || final line feed (%v): the README says each of the three header items is terminated by 0x0A and the payload starts right after the third", hasMsg, hasMAC, hasNL))
}

func (x *c01Ctx) nonceLayout(nf *ssa.Function, root ssa.Value, dir string) {
	r, p, s := x.r, x.p, x.spec
	fname := dir
	pos := p.Pos(nf.Pos())
	var num, last *ssa.Parameter
	for _, pa := range nf.Params {
		if b, ok := pa.Type().Underlying().(*types.Basic); ok {
			if b.Kind() == types.Uint32 {
				num = pa
			}
			if b.Kind() == types.Bool {
				last = pa
			}
		}
	}
	if num == nil || last == nil {
		r.Undecide("C01.R3: %s no longer takes (uint32 counter, bool last)", fname)
		return
	}
	// the nonce buffer (found by role: what is handed to the AEAD as nonce)
	var size int64 = -1
	switch a := root.(type) {
	case *ssa.Alloc:
		if arr, ok := deref(a.Type()).Underlying().(*types.Array); ok {
			size = arr.Len()
		}
	case *ssa.MakeSlice:
		if k, ok := c01ConstInt(a.Len); ok {
			size = k
		}
	}
	if size < 0 {
		r.Undecide("C01.R3: cannot determine the nonce length allocated in %s", fname)
		return
	}
	r.Check(size == s.NonceSize, c01R3, fname+" nonce length", pos, fmt.Sprintf("%d bytes as in the README", size), fmt.Sprintf("the nonce is %d bytes, the README says %d", size, s.NonceSize))

	win := func(v ssa.Value) (lo, hi int64, ok bool) { // constant window of root
		sl, isSl := v.(*ssa.Slice)
		if !isSl || c01Root(v) != root {
			return 0, 0, false
		}
		lo, hi = 0, size
		if sl.Low != nil {
			k, ok := c01ConstInt(sl.Low)
			if !ok {
				return 0, 0, false
			}
			lo = k
		}
		if sl.High != nil {
			k, ok := c01ConstInt(sl.High)
			if !ok {
				return 0, 0, false
			}
			hi = k
		}
		if inner, ok := sl.X.(*ssa.Slice); ok && c01Root(inner) == root && inner.Low != nil {
			if k, ok := c01ConstInt(inner.Low); ok {
				lo, hi = lo+k, hi+k
			}
		}
		return lo, hi, true
	}
	// prefix
	prefixOK, prefixSeen := false, false
	// counter
	ctrOK, ctrSeen, ctrWhy := false, false, ""
	allInstrs(nf, func(in ssa.Instruction) {
		c, ok := in.(*ssa.Call)
		if !ok {
			return
		}
		if builtinName(c) == "copy" && len(c.Call.Args) == 2 {
			if lo, hi, ok := win(c.Call.Args[0]); ok {
				prefixSeen = true
				// where the prefix bytes come from is compared with the manifest's NoncePrefix by R8
				if lo == 0 && hi == s.PrefixLen {
					prefixOK = true
				}
			}
		}
		if obj := calleeObj(c); obj != nil && obj.Pkg() != nil && obj.Pkg().Path() == "encoding/binary" && len(c.Call.Args) >= 2 {
			args := c.Call.Args
			if !c.Call.IsInvoke() && obj.Type().(*types.Signature).Recv() != nil {
				args = args[1:]
			}
			if len(args) == 2 && args[1] == num {
				ctrSeen = true
				recv := typeBaseName(obj.Type().(*types.Signature).Recv().Type())
				lo, hi, wok := win(args[0])
				switch {
				case obj.Name() != "PutUint32":
					ctrWhy = "the counter is written with " + obj.Name() + " (spec: 4 bytes, 32-bit unsigned)"
				case recv != "bigEndian":
					ctrWhy = "the counter is written with byte order " + recv + " (spec: big-endian)"
				case !wok:
					ctrWhy = ""
					ctrSeen = false
				case lo != s.PrefixLen || hi < lo+s.CounterLen:
					ctrWhy = fmt.Sprintf("the counter is written at bytes [%d:%d) of the nonce (spec: [%d:%d))", lo, hi, s.PrefixLen, s.PrefixLen+s.CounterLen)
				default:
					ctrOK = true
				}
			}
		}
	})
	switch {
	case prefixOK:
		r.OK(c01R3, fname+" nonce prefix", pos, fmt.Sprintf("bytes [0:%d) are copied in", s.PrefixLen))
	case prefixSeen:
		r.Violation(c01R3, fname+" nonce prefix", pos, fmt.Sprintf("the copy into the nonce does not fill bytes [0:%d) (spec: nonce_prefix (%d bytes) first)", s.PrefixLen, s.PrefixLen))
	default:
		r.Undecide("C01.R3: no copy(nonce[...], prefix) recognised in %s", fname)
	}
	switch {
	case ctrOK:
		r.OK(c01R3, fname+" nonce counter", pos, "big-endian uint32 after the prefix")
	case len(refs(num)) == 0:
		r.Violation(c01R3, fname+" nonce counter", pos, "the segment counter does not enter the nonce at all: every segment is sealed with the same nonce and segments can be reordered; spec implementations cannot open them")
	case ctrSeen && ctrWhy != "":
		r.Violation(c01R3, fname+" nonce counter", pos, ctrWhy+": self-consistent, but not the published format")
	default:
		r.Undecide("C01.R3: the way %s writes the counter into the nonce is not recognised", fname)
	}
	// last flag
	flagIdx := s.PrefixLen + s.CounterLen
	cons := fname + " nonce last flag"
	if len(refs(last)) == 0 {
		r.Violation(c01R3, cons, pos, "the 'last' parameter does not influence the nonce: the final segment is not distinguishable (spec: last byte 0x01 on the last segment, 0x00 otherwise)")
		return
	}
	oneOK, bad, seen := false, "", false
	allInstrs(nf, func(in ssa.Instruction) {
		st, ok := in.(*ssa.Store)
		if !ok {
			return
		}
		ia, ok := st.Addr.(*ssa.IndexAddr)
		if !ok || c01Root(ia.X) != root {
			return
		}
		idx, ok := c01ConstInt(ia.Index)
		if !ok {
			// len(nonce)-k
			l := c01Linear(ia.Index)
			if lc, isCall := l.Base.(*ssa.Call); isCall && builtinName(lc) == "len" && c01Root(lc.Call.Args[0]) == root {
				idx, ok = size+l.K, true
			}
		}
		if !ok {
			return
		}
		val, isK := c01ConstInt(st.Val)
		lv, lknown := c01BoolAt(last, st.Block())
		if !isK || !lknown {
			if idx == flagIdx {
				seen = true
				bad = "?"
			}
			return
		}
		seen = true
		switch {
		case idx == flagIdx && lv && val == 1:
			oneOK = true
		case idx == flagIdx && !lv && val == 0:
		case idx == flagIdx && lv:
			bad = fmt.Sprintf("on the last segment byte %d of the nonce is set to %d (spec: 0x01)", idx, val)
		case idx == flagIdx:
			bad = fmt.Sprintf("on a non-last segment byte %d of the nonce is set to %d (spec: 0x00)", idx, val)
		default:
			bad = fmt.Sprintf("the last-segment flag is written at byte %d of the nonce (spec: byte %d, after prefix and counter)", idx, flagIdx)
		}
	})
	switch {
	case bad == "?" || !seen:
		r.Undecide("C01.R3: the way %s encodes the last-segment flag is not recognised", fname)
	case bad != "":
		r.Violation(c01R3, cons, pos, bad)
	case !oneOK:
		r.Violation(c01R3, cons, pos, "no path sets the final nonce byte to 0x01 when last is true")
	default:
		r.OK(c01R3, cons, pos, fmt.Sprintf("byte %d = 1 iff last", flagIdx))
	}
}

// ---------------------------------------------------------------- R4

// ---------------------------------------------------------------- R7

// ---------------------------------------------------------------- R8

func typeShort(t string) string {
	if i := strings.LastIndex(t, "."); i >= 0 {
		return t[i+1:]
	}
	return t
}

// c01Choice: one admissible source of a chosen string and the fact under
// which it may be chosen.
type c01Choice struct {
	src        string // "Type.Field" or "const:<s>"
	underField string // field whose test guards this choice ("" = none required)
	underType  string // optional type of that field's struct
	underBool  bool   // the guard is `field` being true
	underEmpty bool   // the guard is `field == ""`
}

// headerSizeLimit (R4): the limit SignHeader enforces is applied to the
// complete header it returns and does not exceed what readHeader scans.
func (x *c01Ctx) headerSizeLimit(sign *ssa.Function, scan int64) {
	r, p := x.r, x.p
	cons := "header size limit: writer vs reader scan limit"
	// writer side: success returns
	n := 0
	for _, b := range sign.Blocks {
		if len(b.Instrs) == 0 {
			continue
		}
		ret, ok := b.Instrs[len(b.Instrs)-1].(*ssa.Return)
		if !ok || len(ret.Results) == 0 || isNilConst(ret.Results[0]) {
			continue
		}
		n++
		pos := p.Pos(instrPos(ret))
		root := c01Root(ret.Results[0])
		var fullLen *c01Lin
		if ms, ok := root.(*ssa.MakeSlice); ok {
			l := c01Linear(ms.Len)
			fullLen = &l
		}
		isFull := func(e ssa.Value) bool {
			if c, ok := e.(*ssa.Call); ok && builtinName(c) == "len" && c01Root(c.Call.Args[0]) == root {
				return true
			}
			return fullLen != nil && fullLen.Base != nil && c01Linear(e) == *fullLen
		}
		// parts: values copied / encoded into the output
		isPart := func(e ssa.Value) bool {
			c, ok := e.(*ssa.Call)
			if !ok || builtinName(c) != "len" {
				return false
			}
			return c01Root(c.Call.Args[0]) != root
		}
		verdict, why := "", ""
		for _, dc := range domConds(b) {
			cmp, ok := decodeCond(dc.If.Cond, dc.Branch)
			if !ok {
				continue
			}
			e, kv, op := cmp.X, cmp.Y, cmp.Op
			if _, isK := c01ConstInt(e); isK {
				e, kv = kv, e
				switch op {
				case token.LSS:
					op = token.GTR
				case token.GTR:
					op = token.LSS
				case token.LEQ:
					op = token.GEQ
				case token.GEQ:
					op = token.LEQ
				}
			}
			k, isK := c01ConstInt(kv)
			if !isK {
				continue
			}
			switch op {
			case token.LEQ:
			case token.LSS:
				k--
			default:
				continue
			}
			switch {
			case isFull(e):
				if k <= scan {
					if verdict != "bad-full" {
						verdict = "ok"
						why = fmt.Sprintf("complete header limited to %d bytes <= %d scanned by readHeader", k, scan)
					}
				} else if verdict != "ok" {
					verdict, why = "bad-full", fmt.Sprintf("SignHeader lets headers of up to %d bytes through but readHeader only scans the first %d bytes: Encrypt emits documents whose MAC line Decrypt never finds", k, scan)
				}
			case isPart(e):
				// the complete header is strictly longer than any of its parts: a part limit k >= scan
				// certainly lets an over-long header through; a smaller one cannot be judged
				if verdict == "" && k < scan {
					verdict = "part-unknown"
				}
				if (verdict == "" || verdict == "part-unknown") && k >= scan {
					verdict, why = "bad", fmt.Sprintf("the size limit (%d) is applied to only a part of the header (not to the buffer that is returned: message + base64 MAC + final newline); headers of up to %d bytes plus the MAC line pass, but readHeader only scans the first %d bytes, so Encrypt emits documents that Decrypt rejects ('message authentication code not found') instead of refusing them", k, k, scan)
				}
			}
		}
		switch verdict {
		case "ok":
			r.OK(c01R4, cons, pos, why)
		case "bad", "bad-full":
			r.Violation(c01R4, cons, pos, why)
		case "part-unknown":
			r.Undecide("C01.R4: SignHeader limits only a part of the header to less than readHeader's scan limit; whether the complete header fits is not decided")
		default:
			// a limit enforced by the caller on SignHeader's result is a shape this rule does not model
			inCaller := false
			for _, fn := range x.fns {
				for _, ci := range c01CallsTo([]*ssa.Function{fn}, sign) {
					if call, ok := ci.(*ssa.Call); ok {
						if res := callResult(call, 0); res != nil {
							for _, u := range refs(res) {
								if c, ok := u.(*ssa.Call); ok && builtinName(c) == "len" {
									inCaller = true
								}
							}
						}
					}
				}
			}
			if inCaller {
				r.Undecide("C01.R4: the header size limit seems to be enforced by SignHeader's caller; not modelled")
			} else {
				r.Violation(c01R4, cons, pos, fmt.Sprintf("no size limit dominates the return of the signed header, but readHeader only scans the first %d bytes: with a long key name / wrapped key Encrypt emits documents that Decrypt rejects instead of refusing them", scan))
			}
		}
	}
	if n == 0 {
		r.Undecide("C01.R4: SignHeader has no return delivering a header")
	}
}
