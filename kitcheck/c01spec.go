package main

// C01.R3 (spec constants), R4 (siblings), R7 (push-back), R8 (wiring).

import (
	"fmt"
	"go/constant"
	"go/token"
	"go/types"
	"strings"

	"golang.org/x/tools/go/ssa"
)

const (
	c01R3 = "C01.R3-spec-constants"
	c01R4 = "C01.R4-siblings"
	c01R7 = "C01.R7-header-pushback"
	c01R8 = "C01.R8-manifest-wiring"
)

func (x *c01Ctx) constInt(name string) (int64, bool) {
	c, ok := x.p.Pkg(c01Rel).Types.Scope().Lookup(name).(*types.Const)
	if !ok {
		undecided("anchor constant %s.%s no longer resolves", c01Rel, name)
	}
	return constant.Int64Val(constant.ToInt(c.Val()))
}

func (x *c01Ctx) specConstants() {
	r, p, s := x.r, x.p, x.spec
	scope := p.Pkg(c01Rel).Types.Scope()
	posOf := func(name string) string {
		if o := scope.Lookup(name); o != nil {
			return p.Pos(o.Pos())
		}
		return "-"
	}
	// named constants
	if c, ok := scope.Lookup("SchemeName").(*types.Const); ok && c.Val().Kind() == constant.String {
		got := constant.StringVal(c.Val())
		r.Check(got == s.Scheme, c01R3, "const SchemeName", posOf("SchemeName"), "equals the README's scheme line", fmt.Sprintf("SchemeName is %q, the published scheme line is %q: spec implementations reject the header (and Decrypt rejects theirs)", got, s.Scheme))
	} else {
		undecided("anchor constant %s.SchemeName no longer resolves", c01Rel)
	}
	for _, k := range []struct {
		name string
		want int64
		what string
	}{{"SegmentSize", s.SegmentSize, "segment size"}, {"SegmentOverhead", s.TagSize, "tag size"}, {"NoncePrefixLength", s.PrefixLen, "nonce prefix length"}} {
		got, _ := x.constInt(k.name)
		r.Check(got == k.want, c01R3, "const "+k.name, posOf(k.name), fmt.Sprintf("= %d as in the README", got), fmt.Sprintf("%s is %d but the README's %s is %d: the ciphertext layout differs from the published format", k.name, got, k.what, k.want))
	}

}

// headerLayout: SignHeader returns message || base64(MAC) || '\n' (checked
// for the make+copy+Encode form; other forms are not decided).
func (x *c01Ctx) headerLayout(sign *ssa.Function) {
	r, p := x.r, x.p
	fname := FuncName(p, sign)
	var root *ssa.MakeSlice
	multi := false
	for _, b := range sign.Blocks {
		if len(b.Instrs) == 0 {
			continue
		}
		ret, ok := b.Instrs[len(b.Instrs)-1].(*ssa.Return)
		if !ok || len(ret.Results) == 0 || isNilConst(ret.Results[0]) {
			continue
		}
		ms, ok := c01Root(ret.Results[0]).(*ssa.MakeSlice)
		if !ok || (root != nil && root != ms) {
			multi = true
			continue
		}
		root = ms
	}
	if root == nil || multi {
		r.Undecide("C01.R3: %s does not build the header in one make([]byte, …) buffer; layout not decided", fname)
		return
	}
	hasMsg, hasMAC, hasNL := false, false, false
	allInstrs(sign, func(in ssa.Instruction) {
		switch y := in.(type) {
		case *ssa.Call:
			if builtinName(y) == "copy" && c01Root(y.Call.Args[0]) == ssa.Value(root) {
				if sl, ok := y.Call.Args[0].(*ssa.Slice); !ok || sl.Low == nil {
					hasMsg = true
				} else if k, ok := c01ConstInt(sl.Low); ok && k == 0 {
					hasMsg = true
				}
			}
			if obj := calleeObj(y); obj != nil && obj.Pkg() != nil && obj.Pkg().Path() == "encoding/base64" && obj.Name() == "Encode" {
				for _, a := range y.Call.Args {
					if c01Root(a) == ssa.Value(root) {
						hasMAC = true
					}
				}
			}
		case *ssa.Store:
			ia, ok := y.Addr.(*ssa.IndexAddr)
			if !ok || c01Root(ia.X) != ssa.Value(root) {
				return
			}
			if k, ok := c01ConstInt(y.Val); ok && k == 10 {
				l := c01Linear(ia.Index)
				if lc, ok := l.Base.(*ssa.Call); ok && builtinName(lc) == "len" && c01Root(lc.Call.Args[0]) == ssa.Value(root) && l.K == -1 {
					hasNL = true
				}
				// index = (the length the buffer was made with) - 1
				if ml := c01Linear(root.Len); ml.Base != nil && l.Base == ml.Base && l.K == ml.K-1 {
					hasNL = true
				}
				if ml := c01Linear(root.Len); ml.Base == nil && l.Base == nil && l.K == ml.K-1 {
					hasNL = true
				}
			}
		}
	})
	r.Check(hasMsg && hasMAC && hasNL, c01R3, "Encrypt header layout", p.Pos(sign.Pos()), "message || base64(MAC) || LF",
		fmt.Sprintf("the signed header is not message (%v) || base64 MAC (%v) || final line feed (%v): the README says each of the three header items is terminated by 0x0A and the payload starts right after the third", hasMsg, hasMAC, hasNL))
}

// ---- the nonce as a byte layout, independent of the idiom that builds it
//
// The value handed to the AEAD is either a buffer written in place (copy,
// binary.*.PutUintN, nonce[i] = v), or a slice grown by append-like calls
// (append(x, y...), append(x, b), binary.*.AppendUintN), or a buffer of known
// length filled in place and then grown. Both are turned into the same list
// of items (offset, width, what) and the spec's layout is checked on the list.

type c01NItem struct {
	off, n int64     // off < 0 / n < 0: not statically known
	kind   int       // 0 bytes taken from src, 1 integer src in a fixed width, 2 the single byte src
	src    ssa.Value //
	fn     string    // PutUint32 / AppendUint32 …
	order  string    // bigEndian / littleEndian
	winHi  int64     // in-place integer: end of the window it is written into (-1: grows as needed)
	blk    *ssa.BasicBlock
	in     ssa.Instruction // the call / store that writes the item
}

// c01StaticLen: the constant length of a byte-slice value.
func c01StaticLen(v ssa.Value) (int64, bool) {
	switch x := v.(type) {
	case *ssa.MakeSlice:
		return c01ConstInt(x.Len)
	case *ssa.ChangeType:
		return c01StaticLen(x.X)
	case *ssa.Alloc:
		if arr, ok := deref(x.Type()).Underlying().(*types.Array); ok {
			return arr.Len(), true
		}
	case *ssa.Convert:
		if c, ok := x.X.(*ssa.Const); ok && c.Value != nil && c.Value.Kind() == constant.String {
			return int64(len(constant.StringVal(c.Value))), true
		}
	case *ssa.Slice:
		var lo int64
		if x.Low != nil {
			k, ok := c01ConstInt(x.Low)
			if !ok {
				return 0, false
			}
			lo = k
		}
		if x.High != nil {
			k, ok := c01ConstInt(x.High)
			return k - lo, ok
		}
		n, ok := c01StaticLen(x.X)
		return n - lo, ok
	}
	return 0, false
}

// c01VarargElems: v is the literal element list of a variadic call
// (append(x, a, b)): the elements in order.
func c01VarargElems(v ssa.Value) ([]ssa.Value, bool) {
	sl, ok := v.(*ssa.Slice)
	if !ok || sl.Low != nil || sl.High != nil {
		return nil, false
	}
	al, ok := sl.X.(*ssa.Alloc)
	if !ok {
		return nil, false
	}
	arr, ok := deref(al.Type()).Underlying().(*types.Array)
	if !ok {
		return nil, false
	}
	elems := make([]ssa.Value, arr.Len())
	for _, u := range refs(al) {
		switch y := u.(type) {
		case *ssa.IndexAddr:
			k, ok := c01ConstInt(y.Index)
			if !ok || k < 0 || k >= arr.Len() {
				return nil, false
			}
			for _, w := range refs(y) {
				st, ok := w.(*ssa.Store)
				if !ok || st.Addr != ssa.Value(y) || elems[k] != nil {
					return nil, false
				}
				elems[k] = st.Val
			}
		case *ssa.Slice:
			if y != sl {
				return nil, false
			}
		case *ssa.DebugRef:
		default:
			return nil, false
		}
	}
	for _, e := range elems {
		if e == nil {
			return nil, false
		}
	}
	return elems, true
}

// c01ByteOrderCall: c is a method of encoding/binary's byte orders whose name
// starts with prefix: the arguments after the receiver, the order's type name.
func c01ByteOrderCall(c *ssa.Call, prefix string) (args []ssa.Value, name, order string, ok bool) {
	obj := calleeObj(c)
	if obj == nil || obj.Pkg() == nil || obj.Pkg().Path() != "encoding/binary" || !strings.HasPrefix(obj.Name(), prefix) {
		return nil, "", "", false
	}
	recv := obj.Type().(*types.Signature).Recv()
	if recv == nil {
		return nil, "", "", false
	}
	args = c.Call.Args
	if !c.Call.IsInvoke() {
		if len(args) == 0 {
			return nil, "", "", false
		}
		args = args[1:]
	}
	if len(args) != 2 {
		return nil, "", "", false
	}
	return args, obj.Name(), typeBaseName(recv.Type()), true
}

func c01UintWidth(name string) int64 {
	switch {
	case strings.HasSuffix(name, "Uint16"):
		return 2
	case strings.HasSuffix(name, "Uint32"):
		return 4
	case strings.HasSuffix(name, "Uint64"):
		return 8
	}
	return -1
}

// c01InstrBefore: instruction a is executed before b on every path to b.
func c01InstrBefore(a, b ssa.Instruction) bool {
	if a.Block() == b.Block() {
		for _, in := range a.Block().Instrs {
			if in == a {
				return true
			}
			if in == b {
				return false
			}
		}
		return false
	}
	return a.Block().Dominates(b.Block())
}

// c01BoolOnEdge: the value of boolean v when control goes from pred to succ.
func c01BoolOnEdge(v ssa.Value, pred, succ *ssa.BasicBlock) (val, known bool) {
	if n := len(pred.Instrs); n > 0 && len(pred.Succs) == 2 && pred.Succs[0] != pred.Succs[1] {
		if iff, ok := pred.Instrs[n-1].(*ssa.If); ok {
			cond, br := iff.Cond, succ == pred.Succs[0]
			for {
				if u, ok := cond.(*ssa.UnOp); ok && u.Op == token.NOT {
					cond, br = u.X, !br
					continue
				}
				break
			}
			if cond == v {
				return br, true
			}
		}
	}
	return c01BoolAt(v, pred)
}

// c01NonceModel: the items of the nonce built in nf. root is the buffer the
// construction starts from (nil: none), final the value handed on (nil: the
// buffer itself, written in place only). why != "": not understood.
func c01NonceModel(nf *ssa.Function, root, final ssa.Value) (items []c01NItem, size int64, why string) {
	var baseUser ssa.Instruction
	baseLen := int64(-1)
	var walk func(v ssa.Value, user ssa.Instruction, d int) (int64, bool)
	walk = func(v ssa.Value, user ssa.Instruction, d int) (int64, bool) {
		if d > 16 {
			why = "the construction is too deep"
			return 0, false
		}
		if isNilConst(v) {
			return 0, true
		}
		if root != nil && c01Root(v) == root {
			n, ok := c01StaticLen(v)
			if sl, isSl := v.(*ssa.Slice); isSl && sl.Low != nil {
				if k, isK := c01ConstInt(sl.Low); !isK || k != 0 {
					ok = false
				}
			}
			if !ok {
				why = "the length of the buffer the nonce starts from is not constant"
				return 0, false
			}
			baseUser, baseLen = user, n
			return n, true
		}
		c, ok := v.(*ssa.Call)
		if !ok {
			why = "the nonce is assembled from a value that is neither a fresh buffer nor an append"
			return 0, false
		}
		if builtinName(c) == "append" && len(c.Call.Args) == 2 {
			a, ok := walk(c.Call.Args[0], c, d+1)
			if !ok {
				return 0, false
			}
			if isNilConst(c.Call.Args[1]) {
				return a, true
			}
			if elems, ok := c01VarargElems(c.Call.Args[1]); ok {
				for i, e := range elems {
					items = append(items, c01NItem{off: a + int64(i), n: 1, kind: 2, src: e, blk: c.Block(), winHi: -1, in: c})
				}
				return a + int64(len(elems)), true
			}
			n, ok := c01StaticLen(c.Call.Args[1])
			if !ok {
				items = append(items, c01NItem{off: a, n: -1, kind: 0, src: c.Call.Args[1], winHi: -1})
				why = "a slice of statically unknown length is appended"
				return 0, false
			}
			items = append(items, c01NItem{off: a, n: n, kind: 0, src: c.Call.Args[1], winHi: -1, in: c})
			return a + n, true
		}
		if args, name, order, ok := c01ByteOrderCall(c, "AppendUint"); ok {
			a, ok := walk(args[0], c, d+1)
			if !ok {
				return 0, false
			}
			w := c01UintWidth(name)
			if w < 0 {
				why = "unknown integer width of " + name
				return 0, false
			}
			items = append(items, c01NItem{off: a, n: w, kind: 1, src: args[1], fn: name, order: order, winHi: -1, in: c})
			return a + w, true
		}
		why = "the nonce passes through a call that is not an append form (" + c.Call.Value.Name() + ")"
		return 0, false
	}
	if final == nil {
		final = root
	}
	if final == root && root != nil {
		n, ok := c01StaticLen(root)
		if !ok {
			return nil, 0, "the length of the nonce buffer is not constant"
		}
		size, baseLen = n, n
	} else {
		n, ok := walk(final, nil, 0)
		if !ok {
			return items, -1, why
		}
		size = n
	}
	if root == nil {
		return items, size, ""
	}
	// what is written into the buffer in place
	rootLen, _ := c01StaticLen(root)
	win := func(v ssa.Value) (lo, hi int64, ok bool) { // constant window of root
		if c01Root(v) != root {
			return 0, 0, false
		}
		if v == root {
			return 0, rootLen, true
		}
		sl, isSl := v.(*ssa.Slice)
		if !isSl {
			return 0, 0, false
		}
		n, ok := c01StaticLen(sl)
		if !ok {
			return 0, 0, false
		}
		// offsets accumulate through nested windows
		for cur := ssa.Value(sl); ; {
			s, ok := cur.(*ssa.Slice)
			if !ok {
				break
			}
			if s.Low != nil {
				k, ok := c01ConstInt(s.Low)
				if !ok {
					return 0, 0, false
				}
				lo += k
			}
			cur = s.X
			if ct, ok := cur.(*ssa.ChangeType); ok {
				cur = ct.X
			}
		}
		return lo, lo + n, true
	}
	late := false
	add := func(in ssa.Instruction, it c01NItem) {
		if baseUser != nil && !c01InstrBefore(in, baseUser) {
			late = true
		}
		if it.off >= 0 && it.n >= 0 && it.off+it.n > baseLen {
			if it.kind == 0 { // copy stops at the end of the window it is given
				it.n = baseLen - it.off
			}
		}
		it.in = in
		items = append(items, it)
	}
	allInstrs(nf, func(in ssa.Instruction) {
		switch y := in.(type) {
		case *ssa.Call:
			if builtinName(y) == "copy" && len(y.Call.Args) == 2 && c01Root(y.Call.Args[0]) == root {
				lo, hi, ok := win(y.Call.Args[0])
				if !ok {
					add(y, c01NItem{off: -1, n: -1, kind: 0, src: y.Call.Args[1]})
					return
				}
				add(y, c01NItem{off: lo, n: hi - lo, kind: 0, src: y.Call.Args[1]})
				return
			}
			if args, name, order, ok := c01ByteOrderCall(y, "PutUint"); ok && c01Root(args[0]) == root {
				lo, hi, ok := win(args[0])
				if !ok {
					add(y, c01NItem{off: -1, n: c01UintWidth(name), kind: 1, src: args[1], fn: name, order: order})
					return
				}
				add(y, c01NItem{off: lo, n: c01UintWidth(name), kind: 1, src: args[1], fn: name, order: order, winHi: hi})
			}
		case *ssa.Store:
			ia, ok := y.Addr.(*ssa.IndexAddr)
			if !ok || c01Root(ia.X) != root {
				return
			}
			base, _, wok := win(ia.X)
			if _, isAlloc := ia.X.(*ssa.Alloc); isAlloc && ia.X == root {
				base, wok = 0, true
			}
			idx, ok := c01ConstInt(ia.Index)
			if !ok {
				// len(nonce)-k
				l := c01Linear(ia.Index)
				if lc, isCall := l.Base.(*ssa.Call); isCall && builtinName(lc) == "len" && lc.Call.Args[0] == ia.X {
					if n, nok := c01StaticLen(ia.X); nok {
						idx, ok = n+l.K, true
					}
				}
			}
			if !ok || !wok {
				add(y, c01NItem{off: -1, n: 1, kind: 2, src: y.Val, blk: y.Block()})
				return
			}
			add(y, c01NItem{off: base + idx, n: 1, kind: 2, src: y.Val, blk: y.Block()})
		}
	})
	if late {
		return items, size, "the buffer is still written in place after it has been extended by append"
	}
	return items, size, ""
}

func (x *c01Ctx) nonceLayout(nf *ssa.Function, root ssa.Value, finals []ssa.Value, dir string) {
	r, p, s := x.r, x.p, x.spec
	fname := dir
	pos := p.Pos(nf.Pos())
	var num, last *ssa.Parameter
	for _, pa := range nf.Params {
		if b, ok := pa.Type().Underlying().(*types.Basic); ok {
			if b.Kind() == types.Uint32 {
				num = pa
			}
			if b.Kind() == types.Bool {
				last = pa
			}
		}
	}
	if num == nil || last == nil {
		r.Undecide("C01.R3: %s no longer takes (uint32 counter, bool last)", fname)
		return
	}
	// one model per way of completing the nonce (return append(n, 1) / return append(n, 0)); the items of all
	// of them are checked, each under the branch conditions of the block it sits in
	if len(finals) == 0 {
		finals = []ssa.Value{nil}
	}
	var items []c01NItem
	var size int64
	for i, final := range finals {
		its, sz, why := c01NonceModel(nf, root, final)
		if why != "" {
			r.Undecide("C01.R3: the way %s assembles the nonce is not modelled: %s", fname, why)
			return
		}
		if i > 0 && sz != size {
			r.Violation(c01R3, fname+" nonce length", pos, fmt.Sprintf("the nonce is %d bytes on one path and %d on another, the README says %d", size, sz, s.NonceSize))
			return
		}
		items, size = append(items, its...), sz
	}
	r.Check(size == s.NonceSize, c01R3, fname+" nonce length", pos, fmt.Sprintf("%d bytes as in the README", size), fmt.Sprintf("the nonce is %d bytes, the README says %d", size, s.NonceSize))

	// prefix
	prefixOK, prefixSeen, prefixOpen := false, false, false
	// counter
	ctrOK, ctrSeen, ctrWhy := false, false, ""
	for _, it := range items {
		switch it.kind {
		case 0:
			if it.off < 0 {
				continue
			}
			// where the prefix bytes come from is compared with the manifest's NoncePrefix by R8
			n := it.n
			srcLen, srcKnown := c01StaticLen(it.src)
			if srcKnown && srcLen < n {
				n = srcLen
			}
			switch {
			case it.off == 0 && n == s.PrefixLen:
				prefixOK = true
			case it.off == 0 && n > s.PrefixLen && !srcKnown && it.winHi != -1:
				// copy(nonce, prefix) into a wider window copies as many bytes as the prefix has; what follows byte
				// PrefixLen is fixed by the integer written there afterwards
				over := false
				for _, o := range items {
					if o.kind == 1 && o.off == s.PrefixLen && o.in != nil && it.in != nil && c01InstrBefore(it.in, o.in) {
						over = true
					}
				}
				if over {
					prefixOK = true
				} else {
					prefixOpen = true
				}
			default:
				prefixSeen = true
			}
		case 1:
			if it.src != ssa.Value(num) {
				continue
			}
			ctrSeen = true
			switch {
			case it.fn != "PutUint32" && it.fn != "AppendUint32":
				ctrWhy = "the counter is written with " + it.fn + " (spec: 4 bytes, 32-bit unsigned)"
			case it.order != "bigEndian":
				ctrWhy = "the counter is written with byte order " + it.order + " (spec: big-endian)"
			case it.off < 0:
				ctrWhy = ""
				ctrSeen = false
			case it.off != s.PrefixLen || (it.winHi >= 0 && it.winHi < it.off+s.CounterLen):
				hi := it.winHi
				if hi < 0 {
					hi = it.off + it.n
				}
				ctrWhy = fmt.Sprintf("the counter is written at bytes [%d:%d) of the nonce (spec: [%d:%d))", it.off, hi, s.PrefixLen, s.PrefixLen+s.CounterLen)
			default:
				ctrOK = true
			}
		}
	}
	switch {
	case prefixOK:
		r.OK(c01R3, fname+" nonce prefix", pos, fmt.Sprintf("bytes [0:%d) are copied in", s.PrefixLen))
	case prefixOpen:
		r.Undecide("C01.R3: %s copies the prefix into a window of the nonce wider than %d bytes; how many bytes it fills depends on the length of the prefix", fname, s.PrefixLen)
	case prefixSeen:
		r.Violation(c01R3, fname+" nonce prefix", pos, fmt.Sprintf("the bytes copied into the nonce do not fill bytes [0:%d) (spec: nonce_prefix (%d bytes) first)", s.PrefixLen, s.PrefixLen))
	default:
		r.Undecide("C01.R3: no copy(nonce[...], prefix) / append(nonce, prefix...) recognised in %s", fname)
	}
	switch {
	case ctrOK:
		r.OK(c01R3, fname+" nonce counter", pos, "big-endian uint32 after the prefix")
	case len(refs(num)) == 0:
		r.Violation(c01R3, fname+" nonce counter", pos, "the segment counter does not enter the nonce at all: every segment is sealed with the same nonce and segments can be reordered; spec implementations cannot open them")
	case ctrSeen && ctrWhy != "":
		r.Violation(c01R3, fname+" nonce counter", pos, ctrWhy+": self-consistent, but not the published format")
	default:
		r.Undecide("C01.R3: the way %s writes the counter into the nonce is not recognised", fname)
	}
	// last flag
	flagIdx := s.PrefixLen + s.CounterLen
	cons := fname + " nonce last flag"
	if len(refs(last)) == 0 {
		r.Violation(c01R3, cons, pos, "the 'last' parameter does not influence the nonce: the final segment is not distinguishable (spec: last byte 0x01 on the last segment, 0x00 otherwise)")
		return
	}
	oneOK, bad, seen := false, "", false
	fact := func(idx int64, lv bool, val int64) {
		seen = true
		switch {
		case idx == flagIdx && lv && val == 1:
			oneOK = true
		case idx == flagIdx && !lv && val == 0:
		case idx == flagIdx && lv:
			bad = fmt.Sprintf("on the last segment byte %d of the nonce is set to %d (spec: 0x01)", idx, val)
		case idx == flagIdx:
			bad = fmt.Sprintf("on a non-last segment byte %d of the nonce is set to %d (spec: 0x00)", idx, val)
		default:
			bad = fmt.Sprintf("the last-segment flag is written at byte %d of the nonce (spec: byte %d, after prefix and counter)", idx, flagIdx)
		}
	}
	unknown := func(idx int64) {
		if idx == flagIdx || idx < 0 {
			seen = true
			if bad == "" {
				bad = "?"
			}
		}
	}
	for _, it := range items {
		if it.kind != 2 {
			continue
		}
		if it.off < 0 {
			unknown(-1)
			continue
		}
		lv, lknown := c01BoolAt(last, it.blk)
		if val, isK := c01ConstInt(it.src); isK {
			switch {
			case lknown:
				fact(it.off, lv, val)
			case it.off == flagIdx:
				// the same constant whatever 'last' is
				fact(it.off, true, val)
				fact(it.off, false, val)
			}
			continue
		}
		phi, isPhi := it.src.(*ssa.Phi)
		if !isPhi || lknown {
			unknown(it.off)
			continue
		}
		for i, e := range phi.Edges {
			val, isK := c01ConstInt(e)
			ev, eknown := c01BoolOnEdge(last, phi.Block().Preds[i], phi.Block())
			if !isK || !eknown {
				unknown(it.off)
				continue
			}
			fact(it.off, ev, val)
		}
	}
	switch {
	case bad == "?" || !seen:
		r.Undecide("C01.R3: the way %s encodes the last-segment flag is not recognised", fname)
	case bad != "":
		r.Violation(c01R3, cons, pos, bad)
	case !oneOK:
		r.Violation(c01R3, cons, pos, "no path sets the final nonce byte to 0x01 when last is true")
	default:
		r.OK(c01R3, cons, pos, fmt.Sprintf("byte %d = 1 iff last", flagIdx))
	}
}

// ---------------------------------------------------------------- R4

// ---------------------------------------------------------------- R7

// ---------------------------------------------------------------- R8

func typeShort(t string) string {
	if i := strings.LastIndex(t, "."); i >= 0 {
		return t[i+1:]
	}
	return t
}

// c01Choice: one admissible source of a chosen string and the fact under
// which it may be chosen.
type c01Choice struct {
	src        string // "Type.Field" or "const:<s>"
	underField string // field whose test guards this choice ("" = none required)
	underType  string // optional type of that field's struct
	underBool  bool   // the guard is `field` being true
	underEmpty bool   // the guard is `field == ""`
}

// headerSizeLimit (R4): the limit SignHeader enforces is applied to the
// complete header it returns and does not exceed what readHeader scans.
func (x *c01Ctx) headerSizeLimit(sign *ssa.Function, scan int64) {
	r, p := x.r, x.p
	cons := "header size limit: writer vs reader scan limit"
	// writer side: success returns
	n := 0
	for _, b := range sign.Blocks {
		if len(b.Instrs) == 0 {
			continue
		}
		ret, ok := b.Instrs[len(b.Instrs)-1].(*ssa.Return)
		if !ok || len(ret.Results) == 0 || isNilConst(ret.Results[0]) {
			continue
		}
		n++
		pos := p.Pos(instrPos(ret))
		root := c01Root(ret.Results[0])
		var fullLen *c01Lin
		if ms, ok := root.(*ssa.MakeSlice); ok {
			l := c01Linear(ms.Len)
			fullLen = &l
		}
		isFull := func(e ssa.Value) bool {
			if c, ok := e.(*ssa.Call); ok && builtinName(c) == "len" && c01Root(c.Call.Args[0]) == root {
				return true
			}
			return fullLen != nil && fullLen.Base != nil && c01Linear(e) == *fullLen
		}
		// parts: values copied / encoded into the output
		isPart := func(e ssa.Value) bool {
			c, ok := e.(*ssa.Call)
			if !ok || builtinName(c) != "len" {
				return false
			}
			return c01Root(c.Call.Args[0]) != root
		}
		verdict, why := "", ""
		for _, dc := range domConds(b) {
			cmp, ok := decodeCond(dc.If.Cond, dc.Branch)
			if !ok {
				continue
			}
			e, kv, op := cmp.X, cmp.Y, cmp.Op
			if _, isK := c01ConstInt(e); isK {
				e, kv = kv, e
				switch op {
				case token.LSS:
					op = token.GTR
				case token.GTR:
					op = token.LSS
				case token.LEQ:
					op = token.GEQ
				case token.GEQ:
					op = token.LEQ
				}
			}
			k, isK := c01ConstInt(kv)
			if !isK {
				continue
			}
			switch op {
			case token.LEQ:
			case token.LSS:
				k--
			default:
				continue
			}
			switch {
			case isFull(e):
				if k <= scan {
					if verdict != "bad-full" {
						verdict = "ok"
						why = fmt.Sprintf("complete header limited to %d bytes <= %d scanned by readHeader", k, scan)
					}
				} else if verdict != "ok" {
					verdict, why = "bad-full", fmt.Sprintf("SignHeader lets headers of up to %d bytes through but readHeader only scans the first %d bytes: Encrypt emits documents whose MAC line Decrypt never finds", k, scan)
				}
			case isPart(e):
				// the complete header is strictly longer than any of its parts: a part limit k >= scan
				// certainly lets an over-long header through; a smaller one cannot be judged
				if verdict == "" && k < scan {
					verdict = "part-unknown"
				}
				if (verdict == "" || verdict == "part-unknown") && k >= scan {
					verdict, why = "bad", fmt.Sprintf("the size limit (%d) is applied to only a part of the header (not to the buffer that is returned: message + base64 MAC + final newline); headers of up to %d bytes plus the MAC line pass, but readHeader only scans the first %d bytes, so Encrypt emits documents that Decrypt rejects ('message authentication code not found') instead of refusing them", k, k, scan)
				}
			}
		}
		switch verdict {
		case "ok":
			r.OK(c01R4, cons, pos, why)
		case "bad", "bad-full":
			r.Violation(c01R4, cons, pos, why)
		case "part-unknown":
			r.Undecide("C01.R4: SignHeader limits only a part of the header to less than readHeader's scan limit; whether the complete header fits is not decided")
		default:
			// a limit enforced by the caller on SignHeader's result is a shape this rule does not model
			inCaller := false
			for _, fn := range x.fns {
				for _, ci := range c01CallsTo([]*ssa.Function{fn}, sign) {
					if call, ok := ci.(*ssa.Call); ok {
						if res := callResult(call, 0); res != nil {
							for _, u := range refs(res) {
								if c, ok := u.(*ssa.Call); ok && builtinName(c) == "len" {
									inCaller = true
								}
							}
						}
					}
				}
			}
			if inCaller {
				r.Undecide("C01.R4: the header size limit seems to be enforced by SignHeader's caller; not modelled")
			} else {
				r.Violation(c01R4, cons, pos, fmt.Sprintf("no size limit dominates the return of the signed header, but readHeader only scans the first %d bytes: with a long key name / wrapped key Encrypt emits documents that Decrypt rejects instead of refusing them", scan))
			}
		}
	}
	if n == 0 {
		r.Undecide("C01.R4: SignHeader has no return delivering a header")
	}
}
