package main

// C01.R3 (spec constants), R4 (siblings), R7 (push-back), R8 (wiring).

import (
	"fmt"
	"go/constant"
	"go/token"
	"go/types"
	"strings"

	"golang.org/x/tools/go/ssa"
)

const (
	c01R3 = "C01.R3-spec-constants"
	c01R4 = "C01.R4-siblings"
	c01R7 = "C01.R7-header-pushback"
	c01R8 = "C01.R8-manifest-wiring"
)

// aeadOp finds the invoke of cipher.AEAD Seal/Open in fn.
func c01AeadOp(fn *ssa.Function, name string) *ssa.Call {
	var out *ssa.Call
	allInstrs(fn, func(in ssa.Instruction) {
		if c, ok := in.(*ssa.Call); ok && callIs(c, "crypto/cipher", "AEAD", name) {
			out = c
		}
	})
	return out
}

type c01Drive struct {
	site ssa.CallInstruction
	fn   *ssa.Function // the per-segment function
	size ssa.Value
}

// drives: call sites of processSegments with their per-segment function.
func (x *c01Ctx) drives() []c01Drive {
	ps := x.p.Func(c01Rel, "processSegments")
	var out []c01Drive
	for _, ci := range c01CallsTo(x.fns, ps) {
		args := ci.Common().Args
		d := c01Drive{site: ci}
		for _, a := range args {
			if _, ok := a.Type().Underlying().(*types.Signature); ok {
				d.fn = c01BoundMethod(x.p, a)
			}
			if b, ok := a.Type().Underlying().(*types.Basic); ok && b.Info()&types.IsInteger != 0 {
				d.size = a
			}
		}
		out = append(out, d)
	}
	return out
}

// segmentFns: "seal" -> function that invokes AEAD.Seal, "open" -> AEAD.Open.
func (x *c01Ctx) segmentFns() map[string]*ssa.Function {
	out := map[string]*ssa.Function{}
	for _, d := range x.drives() {
		if d.fn == nil {
			continue
		}
		if c01AeadOp(d.fn, "Seal") != nil {
			out["seal"] = d.fn
		}
		if c01AeadOp(d.fn, "Open") != nil {
			out["open"] = d.fn
		}
	}
	return out
}

func (x *c01Ctx) constInt(name string) (int64, bool) {
	c, ok := x.p.Pkg(c01Rel).Types.Scope().Lookup(name).(*types.Const)
	if !ok {
		undecided("anchor constant %s.%s no longer resolves", c01Rel, name)
	}
	return constant.Int64Val(constant.ToInt(c.Val()))
}

func (x *c01Ctx) specConstants() {
	r, p, s := x.r, x.p, x.spec
	scope := p.Pkg(c01Rel).Types.Scope()
	posOf := func(name string) string {
		if o := scope.Lookup(name); o != nil {
			return p.Pos(o.Pos())
		}
		return "-"
	}
	// named constants
	if c, ok := scope.Lookup("SchemeName").(*types.Const); ok && c.Val().Kind() == constant.String {
		got := constant.StringVal(c.Val())
		r.Check(got == s.Scheme, c01R3, "const SchemeName", posOf("SchemeName"), "equals the README's scheme line", fmt.Sprintf("SchemeName is %q, the published scheme line is %q: spec implementations reject the header (and Decrypt rejects theirs)", got, s.Scheme))
	} else {
		undecided("anchor constant %s.SchemeName no longer resolves", c01Rel)
	}
	for _, k := range []struct {
		name string
		want int64
		what string
	}{{"SegmentSize", s.SegmentSize, "segment size"}, {"SegmentOverhead", s.TagSize, "tag size"}, {"NoncePrefixLength", s.PrefixLen, "nonce prefix length"}} {
		got, _ := x.constInt(k.name)
		r.Check(got == k.want, c01R3, "const "+k.name, posOf(k.name), fmt.Sprintf("= %d as in the README", got), fmt.Sprintf("%s is %d but the README's %s is %d: the ciphertext layout differs from the published format", k.name, got, k.what, k.want))
	}

	x.nonceLayout()
	x.kdf()

	// base64 flavour
	for _, fn := range x.fns {
		var bad []string
		n := 0
		allInstrs(fn, func(in ssa.Instruction) {
			u, ok := in.(*ssa.UnOp)
			if !ok || u.Op != token.MUL {
				return
			}
			g, ok := u.X.(*ssa.Global)
			if !ok || g.Pkg == nil || g.Pkg.Pkg.Path() != "encoding/base64" {
				return
			}
			n++
			if g.Name() != "StdEncoding" {
				bad = append(bad, g.Name())
			}
		})
		if n > 0 {
			r.Check(len(bad) == 0, c01R3, FuncName(p, fn)+" base64 flavour", p.Pos(fn.Pos()), "uses base64.StdEncoding (RFC 4648 §4 with padding)",
				fmt.Sprintf("uses base64.%s; the README prescribes standard base64 with padding for the MAC line: spec implementations cannot parse/produce the third header line", strings.Join(bad, ",")))
		}
	}
	// buffer large enough for the biggest fill window (segment size + 1)
	x.bufferSize()
	x.freshKeySizes()
	x.headerLayout()
}

// freshKeySizes: the random material handed to importFileKey by the generator
// is a 32-byte file key and a nonce prefix of the spec's length.
func (x *c01Ctx) freshKeySizes() {
	r, p, s := x.r, x.p, x.spec
	gen := p.FuncOpt(c01Rel, "newFileKey")
	imp := p.FuncOpt(c01Rel, "importFileKey")
	if gen == nil || imp == nil {
		r.Undecide("C01.R3: newFileKey/importFileKey no longer resolve")
		return
	}
	calls := c01CallsTo([]*ssa.Function{gen}, imp)
	if len(calls) != 1 {
		r.Undecide("C01.R3: newFileKey does not call importFileKey exactly once")
		return
	}
	args := calls[0].Common().Args
	width := func(v ssa.Value) (int64, bool) {
		sl, ok := v.(*ssa.Slice)
		if !ok || sl.High == nil {
			return 0, false
		}
		hi, ok := c01ConstInt(sl.High)
		if !ok {
			return 0, false
		}
		var lo int64
		if sl.Low != nil {
			if lo, ok = c01ConstInt(sl.Low); !ok {
				return 0, false
			}
		}
		return hi - lo, true
	}
	kw, ok1 := width(args[0])
	pw, ok2 := width(args[1])
	if !ok1 || !ok2 {
		r.Undecide("C01.R3: the key / nonce-prefix windows in newFileKey are not constant slices")
		return
	}
	r.Check(kw == 32 && pw == s.PrefixLen, c01R3, "newFileKey key and nonce-prefix sizes", p.Pos(calls[0].Pos()), fmt.Sprintf("file key %d bytes, nonce prefix %d bytes", kw, pw),
		fmt.Sprintf("a fresh file key has %d bytes and its nonce prefix %d bytes; the README says 32 and %d: Decrypt (Manifest.Validate, len != 32 test) rejects what Encrypt wrote, or the nonce differs from the published layout", kw, pw, s.PrefixLen))
}

// headerLayout: SignHeader returns message || base64(MAC) || '\n' (checked
// for the make+copy+Encode form; other forms are not decided).
func (x *c01Ctx) headerLayout() {
	r, p := x.r, x.p
	sign := p.Func(c01Rel, "fileKey.SignHeader")
	fname := FuncName(p, sign)
	var root *ssa.MakeSlice
	multi := false
	for _, b := range sign.Blocks {
		if len(b.Instrs) == 0 {
			continue
		}
		ret, ok := b.Instrs[len(b.Instrs)-1].(*ssa.Return)
		if !ok || len(ret.Results) == 0 || isNilConst(ret.Results[0]) {
			continue
		}
		ms, ok := c01Root(ret.Results[0]).(*ssa.MakeSlice)
		if !ok || (root != nil && root != ms) {
			multi = true
			continue
		}
		root = ms
	}
	if root == nil || multi {
		r.Undecide("C01.R3: %s does not build the header in one make([]byte, …) buffer; layout not decided", fname)
		return
	}
	hasMsg, hasMAC, hasNL := false, false, false
	allInstrs(sign, func(in ssa.Instruction) {
		switch y := in.(type) {
		case *ssa.Call:
			if builtinName(y) == "copy" && c01Root(y.Call.Args[0]) == ssa.Value(root) {
				if sl, ok := y.Call.Args[0].(*ssa.Slice); !ok || sl.Low == nil {
					hasMsg = true
				} else if k, ok := c01ConstInt(sl.Low); ok && k == 0 {
					hasMsg = true
				}
			}
			if obj := calleeObj(y); obj != nil && obj.Pkg() != nil && obj.Pkg().Path() == "encoding/base64" && obj.Name() == "Encode" {
				for _, a := range y.Call.Args {
					if c01Root(a) == ssa.Value(root) {
						hasMAC = true
					}
				}
			}
		case *ssa.Store:
			ia, ok := y.Addr.(*ssa.IndexAddr)
			if !ok || c01Root(ia.X) != ssa.Value(root) {
				return
			}
			if k, ok := c01ConstInt(y.Val); ok && k == 10 {
				l := c01Linear(ia.Index)
				if lc, ok := l.Base.(*ssa.Call); ok && builtinName(lc) == "len" && c01Root(lc.Call.Args[0]) == ssa.Value(root) && l.K == -1 {
					hasNL = true
				}
			}
		}
	})
	r.Check(hasMsg && hasMAC && hasNL, c01R3, fname+" header layout", p.Pos(sign.Pos()), "message || base64(MAC) || LF",
		fmt.Sprintf("the signed header is not message (%v) || base64 MAC (%v) || final line feed (%v): the README says each of the three header items is terminated by 0x0A and the payload starts right after the third", hasMsg, hasMAC, hasNL))
}

func (x *c01Ctx) bufferSize() {
	r := x.r
	var max int64
	for _, d := range x.drives() {
		if d.size == nil {
			continue
		}
		if k, ok := c01ConstInt(d.size); ok && k > max {
			max = k
		}
	}
	if max == 0 {
		return
	}
	// the pool's New closure: constant-size byte array / make
	var got int64 = -1
	for _, fn := range x.fns {
		if fn.Parent() == nil || fn.Parent().Name() != "init" {
			continue
		}
		allInstrs(fn, func(in ssa.Instruction) {
			switch a := in.(type) {
			case *ssa.Alloc:
				if arr, ok := deref(a.Type()).Underlying().(*types.Array); ok && a.Heap {
					if b, ok := arr.Elem().Underlying().(*types.Basic); ok && b.Kind() == types.Byte {
						got = arr.Len()
					}
				}
			case *ssa.MakeSlice:
				if k, ok := c01ConstInt(a.Len); ok {
					got = k
				}
			}
		})
	}
	if got < 0 {
		r.Note("C01.R3: could not find the constant size of BufPool's buffers (not armed)")
		return
	}
	r.Check(got >= max+1, c01R3, "BufPool buffer size", "-", fmt.Sprintf("%d >= largest segment size %d + 1 look-ahead byte", got, max),
		fmt.Sprintf("pooled buffers have %d bytes but the fill loop slices them up to %d: the first Read of a full-size segment panics (slice bounds out of range)", got, max+1))
}

func (x *c01Ctx) nonceFn() *ssa.Function {
	fns := x.segmentFns()
	var out *ssa.Function
	for _, k := range []string{"seal", "open"} {
		fn := fns[k]
		if fn == nil {
			continue
		}
		op := c01AeadOp(fn, map[string]string{"seal": "Seal", "open": "Open"}[k])
		if op == nil || len(op.Call.Args) < 2 {
			continue
		}
		if c, ok := op.Call.Args[1].(*ssa.Call); ok {
			if f := staticCallee(c); f != nil && out == nil {
				out = f
			}
		}
	}
	return out
}

func (x *c01Ctx) nonceLayout() {
	r, p, s := x.r, x.p, x.spec
	nf := x.nonceFn()
	if nf == nil {
		r.Undecide("C01.R3: the nonce passed to AEAD.Seal is not the result of a package function call")
		return
	}
	fname := FuncName(p, nf)
	pos := p.Pos(nf.Pos())
	var num, last *ssa.Parameter
	for _, pa := range nf.Params {
		if b, ok := pa.Type().Underlying().(*types.Basic); ok {
			if b.Kind() == types.Uint32 {
				num = pa
			}
			if b.Kind() == types.Bool {
				last = pa
			}
		}
	}
	if num == nil || last == nil {
		r.Undecide("C01.R3: %s no longer takes (uint32 counter, bool last)", fname)
		return
	}
	// root allocation returned
	var root ssa.Value
	var size int64 = -1
	for _, b := range nf.Blocks {
		if len(b.Instrs) == 0 {
			continue
		}
		if ret, ok := b.Instrs[len(b.Instrs)-1].(*ssa.Return); ok && len(ret.Results) == 1 {
			rt := c01Root(ret.Results[0])
			if root != nil && root != rt {
				r.Undecide("C01.R3: %s returns different buffers on different paths", fname)
				return
			}
			root = rt
		}
	}
	switch a := root.(type) {
	case *ssa.Alloc:
		if arr, ok := deref(a.Type()).Underlying().(*types.Array); ok {
			size = arr.Len()
		}
	case *ssa.MakeSlice:
		if k, ok := c01ConstInt(a.Len); ok {
			size = k
		}
	}
	if size < 0 {
		r.Undecide("C01.R3: cannot determine the nonce length allocated in %s", fname)
		return
	}
	r.Check(size == s.NonceSize, c01R3, fname+" nonce length", pos, fmt.Sprintf("%d bytes as in the README", size), fmt.Sprintf("the nonce is %d bytes, the README says %d", size, s.NonceSize))

	win := func(v ssa.Value) (lo, hi int64, ok bool) { // constant window of root
		sl, isSl := v.(*ssa.Slice)
		if !isSl || c01Root(v) != root {
			return 0, 0, false
		}
		lo, hi = 0, size
		if sl.Low != nil {
			k, ok := c01ConstInt(sl.Low)
			if !ok {
				return 0, 0, false
			}
			lo = k
		}
		if sl.High != nil {
			k, ok := c01ConstInt(sl.High)
			if !ok {
				return 0, 0, false
			}
			hi = k
		}
		if inner, ok := sl.X.(*ssa.Slice); ok && c01Root(inner) == root && inner.Low != nil {
			if k, ok := c01ConstInt(inner.Low); ok {
				lo, hi = lo+k, hi+k
			}
		}
		return lo, hi, true
	}
	// prefix
	prefixOK, prefixSeen := false, false
	var prefixField FieldID
	// counter
	ctrOK, ctrSeen, ctrWhy := false, false, ""
	allInstrs(nf, func(in ssa.Instruction) {
		c, ok := in.(*ssa.Call)
		if !ok {
			return
		}
		if builtinName(c) == "copy" && len(c.Call.Args) == 2 {
			if lo, hi, ok := win(c.Call.Args[0]); ok {
				prefixSeen = true
				if id, isF := c01RecvField(nf, c.Call.Args[1]); isF && lo == 0 && hi == s.PrefixLen {
					prefixOK = true
					prefixField = id
				}
			}
		}
		if obj := calleeObj(c); obj != nil && obj.Pkg() != nil && obj.Pkg().Path() == "encoding/binary" && len(c.Call.Args) >= 2 {
			args := c.Call.Args
			if !c.Call.IsInvoke() && obj.Type().(*types.Signature).Recv() != nil {
				args = args[1:]
			}
			if len(args) == 2 && args[1] == num {
				ctrSeen = true
				recv := typeBaseName(obj.Type().(*types.Signature).Recv().Type())
				lo, hi, wok := win(args[0])
				switch {
				case obj.Name() != "PutUint32":
					ctrWhy = "the counter is written with " + obj.Name() + " (spec: 4 bytes, 32-bit unsigned)"
				case recv != "bigEndian":
					ctrWhy = "the counter is written with byte order " + recv + " (spec: big-endian)"
				case !wok:
					ctrWhy = ""
					ctrSeen = false
				case lo != s.PrefixLen || hi < lo+s.CounterLen:
					ctrWhy = fmt.Sprintf("the counter is written at bytes [%d:%d) of the nonce (spec: [%d:%d))", lo, hi, s.PrefixLen, s.PrefixLen+s.CounterLen)
				default:
					ctrOK = true
				}
			}
		}
	})
	switch {
	case prefixOK:
		r.OK(c01R3, fname+" nonce prefix", pos, fmt.Sprintf("bytes [0:%d) = receiver.%s", s.PrefixLen, prefixField.Field))
	case prefixSeen:
		r.Violation(c01R3, fname+" nonce prefix", pos, fmt.Sprintf("the copy into the nonce does not put the receiver's nonce-prefix field into bytes [0:%d) (spec: nonce_prefix (%d bytes) first)", s.PrefixLen, s.PrefixLen))
	default:
		r.Undecide("C01.R3: no copy(nonce[...], prefix) recognised in %s", fname)
	}
	switch {
	case ctrOK:
		r.OK(c01R3, fname+" nonce counter", pos, "big-endian uint32 after the prefix")
	case len(refs(num)) == 0:
		r.Violation(c01R3, fname+" nonce counter", pos, "the segment counter does not enter the nonce at all: every segment is sealed with the same nonce and segments can be reordered; spec implementations cannot open them")
	case ctrSeen && ctrWhy != "":
		r.Violation(c01R3, fname+" nonce counter", pos, ctrWhy+": self-consistent, but not the published format")
	default:
		r.Undecide("C01.R3: the way %s writes the counter into the nonce is not recognised", fname)
	}
	// last flag
	flagIdx := s.PrefixLen + s.CounterLen
	cons := fname + " nonce last flag"
	if len(refs(last)) == 0 {
		r.Violation(c01R3, cons, pos, "the 'last' parameter does not influence the nonce: the final segment is not distinguishable (spec: last byte 0x01 on the last segment, 0x00 otherwise)")
		return
	}
	oneOK, bad, seen := false, "", false
	allInstrs(nf, func(in ssa.Instruction) {
		st, ok := in.(*ssa.Store)
		if !ok {
			return
		}
		ia, ok := st.Addr.(*ssa.IndexAddr)
		if !ok || c01Root(ia.X) != root {
			return
		}
		idx, ok := c01ConstInt(ia.Index)
		if !ok {
			// len(nonce)-k
			l := c01Linear(ia.Index)
			if lc, isCall := l.Base.(*ssa.Call); isCall && builtinName(lc) == "len" && c01Root(lc.Call.Args[0]) == root {
				idx, ok = size+l.K, true
			}
		}
		if !ok {
			return
		}
		val, isK := c01ConstInt(st.Val)
		lv, lknown := c01BoolAt(last, st.Block())
		if !isK || !lknown {
			if idx == flagIdx {
				seen = true
				bad = "?"
			}
			return
		}
		seen = true
		switch {
		case idx == flagIdx && lv && val == 1:
			oneOK = true
		case idx == flagIdx && !lv && val == 0:
		case idx == flagIdx && lv:
			bad = fmt.Sprintf("on the last segment byte %d of the nonce is set to %d (spec: 0x01)", idx, val)
		case idx == flagIdx:
			bad = fmt.Sprintf("on a non-last segment byte %d of the nonce is set to %d (spec: 0x00)", idx, val)
		default:
			bad = fmt.Sprintf("the last-segment flag is written at byte %d of the nonce (spec: byte %d, after prefix and counter)", idx, flagIdx)
		}
	})
	switch {
	case bad == "?" || !seen:
		r.Undecide("C01.R3: the way %s encodes the last-segment flag is not recognised", fname)
	case bad != "":
		r.Violation(c01R3, cons, pos, bad)
	case !oneOK:
		r.Violation(c01R3, cons, pos, "no path sets the final nonce byte to 0x01 when last is true")
	default:
		r.OK(c01R3, cons, pos, fmt.Sprintf("byte %d = 1 iff last", flagIdx))
	}
}

// describe a []byte argument: "nil", "str:<s>", "field:<name>", or "?".
func (x *c01Ctx) descBytes(fn *ssa.Function, v ssa.Value) string {
	if isNilConst(v) {
		return "nil"
	}
	if s, ok := c01ConstString(v); ok {
		return "str:" + s
	}
	if id, _, ok := c01AnyField(v); ok {
		return "field:" + id.Field
	}
	return "?"
}

// kdf: (salt, info) pairs reaching hkdf.New, where the derived keys go, HMAC.
func (x *c01Ctx) kdf() {
	r, p, s := x.r, x.p, x.spec
	type deriv struct{ info, salt, dest string }
	var derivs []deriv
	var hk *ssa.Call
	var hkFn *ssa.Function
	for _, fn := range x.fns {
		allInstrs(fn, func(in ssa.Instruction) {
			if c, ok := in.(*ssa.Call); ok {
				if obj := calleeObj(c); obj != nil && obj.Pkg() != nil && strings.HasSuffix(obj.Pkg().Path(), "x/crypto/hkdf") {
					hk, hkFn = c, fn
				}
			}
		})
	}
	if hk == nil || !callIs(hk, "golang.org/x/crypto/hkdf", "", "New") || len(hk.Call.Args) != 4 {
		r.Undecide("C01.R3: no call hkdf.New(hash, secret, salt, info) found in %s", c01Rel)
		return
	}
	hname := FuncName(p, hkFn)
	hpos := p.Pos(hk.Pos())
	r.Check(c01FuncValueIs(hk.Call.Args[0], "crypto/sha256", "New"), c01R3, hname+" HKDF hash", hpos, "HKDF over sha256.New", "HKDF is not instantiated with crypto/sha256.New (spec: HKDF-SHA-256): all derived keys differ from a spec implementation's")
	secretID, okSecret := c01RecvField(hkFn, hk.Call.Args[1])
	// the file key field = what GetFileKey returns (the key that is wrapped)
	var fileKeyField FieldID
	if g := p.FuncOpt(c01Rel, "fileKey.GetFileKey"); g != nil {
		for _, b := range g.Blocks {
			if len(b.Instrs) > 0 {
				if ret, ok := b.Instrs[len(b.Instrs)-1].(*ssa.Return); ok && len(ret.Results) == 1 {
					if id, ok := c01RecvField(g, ret.Results[0]); ok {
						fileKeyField = id
					}
				}
			}
		}
	}
	if fileKeyField.Field == "" {
		r.Undecide("C01.R3: cannot resolve which field fileKey.GetFileKey returns")
	} else {
		r.Check(okSecret && secretID == fileKeyField, c01R3, hname+" HKDF secret", hpos, "ikm = the file key that gets wrapped", "HKDF's input key material is not the file key that Encrypt wraps into the manifest (spec: ikm = file key)")
	}
	// salt/info: parameters resolved at the call sites
	paramIdx := func(v ssa.Value) int {
		for i, pa := range hkFn.Params {
			if pa == v {
				return i
			}
		}
		return -1
	}
	si, ii := paramIdx(hk.Call.Args[2]), paramIdx(hk.Call.Args[3])
	if si < 0 || ii < 0 {
		// direct form
		derivs = append(derivs, deriv{x.descBytes(hkFn, hk.Call.Args[3]), x.descBytes(hkFn, hk.Call.Args[2]), "?"})
	} else {
		for _, ci := range c01CallsTo(x.fns, hkFn) {
			call, ok := ci.(*ssa.Call)
			if !ok {
				continue
			}
			caller := call.Parent()
			d := deriv{info: x.descBytes(caller, call.Call.Args[ii]), salt: x.descBytes(caller, call.Call.Args[si]), dest: "?"}
			if res := callResult(call, 0); res != nil {
				for _, u := range refs(res) {
					if st, ok := u.(*ssa.Store); ok {
						if fa, ok := st.Addr.(*ssa.FieldAddr); ok {
							d.dest = fieldIDOfAddr(fa).Field
						}
					}
				}
			}
			derivs = append(derivs, d)
		}
	}
	// who consumes which field
	macKeyField, aeadKeyField := "", ""
	var hm *ssa.Call
	for _, fn := range x.fns {
		allInstrs(fn, func(in ssa.Instruction) {
			c, ok := in.(*ssa.Call)
			if !ok {
				return
			}
			if callIs(c, "crypto/hmac", "", "New") && len(c.Call.Args) == 2 {
				hm = c
				if id, ok := c01RecvField(fn, c.Call.Args[1]); ok {
					macKeyField = id.Field
				}
			}
			if obj := calleeObj(c); obj != nil && obj.Pkg() != nil && len(c.Call.Args) == 1 {
				if (obj.Pkg().Path() == "crypto/aes" && obj.Name() == "NewCipher") || strings.HasSuffix(obj.Pkg().Path(), "/chacha20poly1305") {
					if id, ok := c01RecvField(fn, c.Call.Args[0]); ok {
						if aeadKeyField != "" && aeadKeyField != id.Field {
							aeadKeyField = "<different fields>"
						} else {
							aeadKeyField = id.Field
						}
					} else {
						aeadKeyField = "<not a receiver field>"
					}
				}
			}
		})
	}
	if hm == nil {
		r.Undecide("C01.R3: no hmac.New call found in %s", c01Rel)
	} else {
		r.Check(c01FuncValueIs(hm.Call.Args[0], "crypto/sha256", "New"), c01R3, FuncName(p, hm.Parent())+" HMAC hash", p.Pos(hm.Pos()), "HMAC over sha256.New", "the header MAC is not HMAC-SHA-256 (spec: MAC = HMAC-SHA-256(...))")
	}
	// nonce prefix field (what nonceForSegment copies)
	prefixField := ""
	if nf := x.nonceFn(); nf != nil {
		allInstrs(nf, func(in ssa.Instruction) {
			if c, ok := in.(*ssa.Call); ok && builtinName(c) == "copy" {
				if id, ok := c01RecvField(nf, c.Call.Args[1]); ok {
					prefixField = id.Field
				}
			}
		})
	}
	find := func(dest string) *deriv {
		for i := range derivs {
			if derivs[i].dest == dest {
				return &derivs[i]
			}
		}
		return nil
	}
	specSalt := func(sp string) string {
		switch strings.ToLower(sp) {
		case "empty":
			return "nil"
		case "nonce prefix":
			return "field:" + prefixField
		}
		return "<unknown spec salt " + sp + ">"
	}
	for _, k := range []struct{ specKey, field, use string }{{"mac-key", macKeyField, "HMAC key of the header"}, {"payload-key", aeadKeyField, "AEAD key of the segments"}} {
		cons := "HKDF derivation of the " + k.specKey
		sp, ok := s.HKDF[k.specKey]
		if !ok {
			r.Undecide("C01.R3: README has no HKDF line for %s", k.specKey)
			continue
		}
		d := find(k.field)
		if k.field == "" || d == nil {
			if strings.HasPrefix(k.field, "<") || (k.field != "" && d == nil) {
				r.Violation(c01R3, cons, hpos, fmt.Sprintf("the %s is taken from %q, which is not a key derived with HKDF (spec: %s = HKDF-SHA-256(ikm = file key, salt = %s, info = %q))", k.use, k.field, k.specKey, sp[0], sp[1]))
			} else {
				r.Undecide("C01.R3: cannot resolve which receiver field is the %s", k.use)
			}
			continue
		}
		if d.info == "?" || d.salt == "?" {
			r.Undecide("C01.R3: cannot resolve the (salt, info) arguments deriving field %s", k.field)
			continue
		}
		good := d.info == "str:"+sp[1] && (d.salt == specSalt(sp[0]) || (sp[0] == "empty" && d.salt == "str:"))
		r.Check(good, c01R3, cons, hpos, fmt.Sprintf("field %s = HKDF(info=%q, salt=%s) as in the README", k.field, sp[1], sp[0]),
			fmt.Sprintf("the %s (field %s) is derived with info=%s salt=%s; the README says info=%q salt=%s: Encrypt and Decrypt still agree with each other but not with the published format", k.use, k.field, d.info, d.salt, sp[1], sp[0]))
	}
}

// ---------------------------------------------------------------- R4

func (x *c01Ctx) siblings() {
	r, p, s := x.r, x.p, x.spec
	fns := x.segmentFns()
	drives := x.drives()
	if fns["seal"] == nil || fns["open"] == nil {
		r.Undecide("C01.R4: cannot resolve the sealing and opening per-segment functions from the processSegments call sites (found %d sites)", len(drives))
		return
	}
	// sizes
	for _, d := range drives {
		if d.fn == nil || d.size == nil {
			r.Undecide("C01.R4: a processSegments call site has an unresolved function or size argument")
			continue
		}
		k, ok := c01ConstInt(d.size)
		if !ok {
			r.Undecide("C01.R4: segment size at a processSegments call site is not a constant")
			continue
		}
		caller := FuncName(p, d.site.Parent())
		switch d.fn {
		case fns["seal"]:
			r.Check(k == s.SegmentSize, c01R4, "segment size driving "+d.fn.Name(), p.Pos(d.site.Pos()), fmt.Sprintf("%s reads plaintext in %d-byte segments", caller, k),
				fmt.Sprintf("%s chunks the plaintext into %d-byte segments, the README says %d", caller, k, s.SegmentSize))
		case fns["open"]:
			r.Check(k == s.SegmentSize+s.TagSize, c01R4, "segment size driving "+d.fn.Name(), p.Pos(d.site.Pos()), fmt.Sprintf("%s reads ciphertext in %d-byte segments (= %d + tag %d)", caller, k, s.SegmentSize, s.TagSize),
				fmt.Sprintf("%s chunks the ciphertext into %d-byte segments; Encrypt writes %d+%d bytes per full segment: every multi-segment message is mis-framed", caller, k, s.SegmentSize, s.TagSize))
		}
	}
	// nonce + AAD + data
	var nonceFns []*ssa.Function
	for _, k := range []string{"seal", "open"} {
		fn := fns[k]
		opName := map[string]string{"seal": "Seal", "open": "Open"}[k]
		op := c01AeadOp(fn, opName)
		fname := FuncName(p, fn)
		pos := p.Pos(op.Pos())
		var num, last, data *ssa.Parameter
		for _, pa := range fn.Params {
			switch t := pa.Type().Underlying().(type) {
			case *types.Basic:
				if t.Kind() == types.Uint32 {
					num = pa
				}
				if t.Kind() == types.Bool {
					last = pa
				}
			case *types.Slice:
				data = pa
			}
		}
		args := op.Call.Args // dst, nonce, text, aad
		nc, _ := args[1].(*ssa.Call)
		var nfn *ssa.Function
		if nc != nil {
			nfn = staticCallee(nc)
		}
		if nfn == nil {
			r.Undecide("C01.R4: the nonce given to AEAD.%s in %s is not the result of a static call", opName, fname)
		} else {
			nonceFns = append(nonceFns, nfn)
			a := nc.Call.Args
			if nfn.Signature.Recv() != nil {
				a = a[1:]
			}
			good := len(a) == 2 && a[0] == num && a[1] == last
			r.Check(good, c01R4, fname+" nonce arguments", pos, "nonce = "+nfn.Name()+"(num, last) with the function's own parameters",
				"the nonce for AEAD."+opName+" is not computed from this call's own (num, last) in that order: the two directions (or a spec implementation) derive different nonces for the same segment")
		}
		r.Check(isNilConst(args[3]), c01R4, fname+" additional data", pos, "no AAD", "AEAD."+opName+" is given additional authenticated data; the spec has none, so spec implementations cannot open/produce these segments")
		r.Check(data != nil && c01Root(args[2]) == ssa.Value(data), c01R4, fname+" sealed data", pos, "operates on the data parameter", "AEAD."+opName+" does not operate on the segment data handed in")
	}
	if len(nonceFns) == 2 {
		r.Check(nonceFns[0] == nonceFns[1], c01R4, "seal/open share the nonce function", p.Pos(nonceFns[0].Pos()), "both directions call "+nonceFns[0].Name(), "sealing and opening compute their nonces with different functions")
	}

	// MACed message
	sign := p.Func(c01Rel, "fileKey.SignHeader")
	verify := p.Func(c01Rel, "fileKey.VerifyHeaderSignature")
	var macFn *ssa.Function
	for _, fn := range x.fns {
		allInstrs(fn, func(in ssa.Instruction) {
			if c, ok := in.(*ssa.Call); ok && callIs(c, "crypto/hmac", "", "New") {
				macFn = fn
			}
		})
	}
	if macFn == nil {
		return
	}
	var msgFns []*ssa.Function
	for _, fn := range []*ssa.Function{sign, verify} {
		fname := FuncName(p, fn)
		var manifest *ssa.Parameter
		for _, pa := range fn.Params[1:] {
			if _, ok := pa.Type().Underlying().(*types.Slice); ok {
				manifest = pa
				break
			}
		}
		calls := c01CallsTo([]*ssa.Function{fn}, macFn)
		if len(calls) == 0 || manifest == nil {
			r.Undecide("C01.R4: %s does not call %s directly", fname, FuncName(p, macFn))
			continue
		}
		call := calls[0].(*ssa.Call)
		msg := call.Call.Args[len(call.Call.Args)-1]
		mc, _ := msg.(*ssa.Call)
		var mfn *ssa.Function
		if mc != nil {
			mfn = staticCallee(mc)
		}
		if mfn == nil {
			r.Undecide("C01.R4: the message MACed in %s is not the result of a static call", fname)
			continue
		}
		msgFns = append(msgFns, mfn)
		margs := mc.Call.Args
		r.Check(len(margs) > 0 && margs[len(margs)-1] == ssa.Value(manifest), c01R4, fname+" MACed message", p.Pos(call.Pos()), "MAC over "+mfn.Name()+"(manifest)",
			"the MAC in "+fn.Name()+" is not computed over "+mfn.Name()+"(<the manifest parameter>)")
	}
	if len(msgFns) == 2 {
		r.Check(msgFns[0] == msgFns[1], c01R4, "sign/verify share the header message", p.Pos(msgFns[0].Pos()), "both MAC "+msgFns[0].Name()+"(manifest)", "SignHeader and VerifyHeaderSignature build the MACed message with different functions")
		// message content: scheme line and the manifest
		mf := msgFns[0]
		hasScheme, hasManifest, hasNL := false, false, false
		for _, b := range mf.Blocks {
			if len(b.Instrs) == 0 {
				continue
			}
			ret, ok := b.Instrs[len(b.Instrs)-1].(*ssa.Return)
			if !ok || len(ret.Results) != 1 {
				continue
			}
			cone := c01Cone(ret.Results[0])
			// slice literals are filled by stores into index cells of allocs in the cone
			for v := range cone {
				if a, ok := v.(*ssa.Alloc); ok {
					for _, u := range refs(a) {
						if ia, ok := u.(*ssa.IndexAddr); ok {
							for _, w := range refs(ia) {
								if st, ok := w.(*ssa.Store); ok {
									for y := range c01Cone(st.Val) {
										cone[y] = true
										if a2, ok := y.(*ssa.Alloc); ok {
											for _, u2 := range refs(a2) {
												if ia2, ok := u2.(*ssa.IndexAddr); ok {
													for _, w2 := range refs(ia2) {
														if st2, ok := w2.(*ssa.Store); ok {
															cone[st2.Val] = true
														}
													}
												}
											}
										}
									}
								}
							}
						}
					}
				}
			}
			for v := range cone {
				if sv, ok := c01ConstString(v); ok && sv == s.Scheme {
					hasScheme = true
				}
				if pa, ok := v.(*ssa.Parameter); ok && len(mf.Params) > 0 && pa == mf.Params[len(mf.Params)-1] {
					hasManifest = true
				}
				if k, ok := c01ConstInt(v); ok && k == 10 {
					hasNL = true
				}
				if sv, ok := c01ConstString(v); ok && strings.Contains(sv, "\n") {
					hasNL = true
				}
			}
		}
		r.Check(hasScheme && hasManifest && hasNL, c01R4, FuncName(p, mf)+" content", p.Pos(mf.Pos()), "built from the scheme line, the manifest and newlines",
			fmt.Sprintf("the MACed message is not built from the scheme line (%v), the manifest (%v) and line feeds (%v); the README MACs the first two header lines including the trailing newline", hasScheme, hasManifest, hasNL))
	}

	x.headerSizeLimit()

	// Decrypt verifies the manifest bytes exactly as read
	dec := p.Func(c01Rel, "Decrypt")
	rh := p.Func(c01Rel, "readHeader")
	vcalls := c01CallsTo([]*ssa.Function{dec}, verify)
	rcalls := c01CallsTo([]*ssa.Function{dec}, rh)
	if len(vcalls) == 0 || len(rcalls) == 0 {
		r.Undecide("C01.R4: Decrypt no longer calls readHeader and VerifyHeaderSignature directly")
		return
	}
	vc := vcalls[0].(*ssa.Call)
	rc := rcalls[0].(*ssa.Call)
	va := vc.Call.Args
	good := len(va) == 3 && va[1] == callResult(rc, 0) && va[2] == callResult(rc, 1)
	r.Check(good, c01R4, "Decrypt verifies the manifest as read", p.Pos(vc.Pos()), "VerifyHeaderSignature(manifest, mac) gets readHeader's raw results",
		"the MAC is not verified over the exact manifest bytes (and MAC line) returned by readHeader; the README requires the MAC to be checked on the manifest string as included in the header, never on a re-encoding — documents from other JSON encoders would be rejected")
}

// ---------------------------------------------------------------- R7

func (x *c01Ctx) headerPushback() {
	r, p := x.r, x.p
	rh := p.Func(c01Rel, "readHeader")
	fname := FuncName(p, rh)
	var inParam *ssa.Parameter
	for _, pa := range rh.Params {
		if pt, ok := pa.Type().Underlying().(*types.Pointer); ok {
			if _, ok := pt.Elem().Underlying().(*types.Interface); ok {
				inParam = pa
			}
		}
	}
	if inParam == nil {
		r.Undecide("C01.R7: %s no longer takes the stream by pointer (*io.Reader)", fname)
		return
	}
	// is a Read offered more than one byte?
	var site *c01ReadSite
	for _, sx := range x.collectReads() {
		if sx.fn == rh {
			sx := sx
			site = &sx
		}
	}
	if site == nil {
		r.Undecide("C01.R7: no Read found in %s", fname)
		return
	}
	cons := fname + " pushes back the surplus"
	var store *ssa.Store
	allInstrs(rh, func(in ssa.Instruction) {
		if st, ok := in.(*ssa.Store); ok && st.Addr == ssa.Value(inParam) {
			store = st
		}
	})
	if store == nil {
		r.Violation(c01R7, cons, p.Pos(site.call.Pos()), "the header is read in chunks that may extend past the third newline, but nothing is stored back into *in: payload bytes that arrived together with the header are lost (depends on how the source chunks its reads)")
	} else {
		mr, _ := store.Val.(*ssa.Call)
		if mr == nil || !callIs(mr, "io", "", "MultiReader") {
			r.Undecide("C01.R7: %s replaces *in with something other than io.MultiReader(...)", fname)
		} else {
			// varargs array: element 0 = reader over a copy of the buffer tail, element 1 = old *in
			var elems [2]ssa.Value
			n := 0
			if sl, ok := mr.Call.Args[0].(*ssa.Slice); ok {
				if arr, ok := sl.X.(*ssa.Alloc); ok {
					for _, u := range refs(arr) {
						if ia, ok := u.(*ssa.IndexAddr); ok {
							if k, ok := c01ConstInt(ia.Index); ok && k >= 0 && k < 2 {
								for _, w := range refs(ia) {
									if st, ok := w.(*ssa.Store); ok {
										elems[k] = st.Val
										n++
									}
								}
							} else {
								n = 99
							}
						}
					}
				}
			}
			if n != 2 {
				r.Undecide("C01.R7: io.MultiReader in %s does not have exactly two resolvable readers", fname)
			} else {
				isOld := func(v ssa.Value) bool {
					u, ok := v.(*ssa.UnOp)
					return ok && u.Op == token.MUL && u.X == ssa.Value(inParam)
				}
				var surplus ssa.Value
				for v := range c01Cone(elems[0]) {
					if c, ok := v.(*ssa.Call); ok && (callIs(c, "bytes", "", "NewReader") || callIs(c, "bytes", "", "NewBuffer")) {
						surplus = c.Call.Args[0]
					}
				}
				copied := false
				aliasPool := false
				var lo, hi ssa.Value
				bufCell := c01BufCell(site.call.Call.Args[0])
				pooled := c01CellFromPool(bufCell)
				window := func(v ssa.Value) bool { // v is a window of the header buffer
					sl, ok := v.(*ssa.Slice)
					if !ok || c01BufCell(sl) != bufCell {
						return false
					}
					lo, hi = sl.Low, sl.High
					return true
				}
				if surplus != nil {
					switch {
					case window(surplus):
						// the reader is built over the header buffer itself
						if pooled {
							aliasPool = true
						} else {
							copied = true // a private buffer may be aliased
						}
					default:
						// fresh memory filled from the window: copy(dst, win) / append(x, win...) / bytes.Clone(win) / slices.Clone(win)
						allInstrs(rh, func(in ssa.Instruction) {
							if c, ok := in.(*ssa.Call); ok && builtinName(c) == "copy" && c.Call.Args[0] == surplus && window(c.Call.Args[1]) {
								copied = true
							}
						})
						if c, ok := surplus.(*ssa.Call); ok && !copied {
							switch {
							case builtinName(c) == "append" && len(c.Call.Args) == 2 && window(c.Call.Args[1]):
								// appending to a window of the pooled buffer would still alias it
								if c01BufCell(c.Call.Args[0]) != bufCell {
									copied = true
								} else if pooled {
									aliasPool = true
								}
							case (callIs(c, "bytes", "", "Clone") || callIs(c, "slices", "", "Clone")) && len(c.Call.Args) == 1 && window(c.Call.Args[0]):
								copied = true
							}
						}
					}
				}
				acc := c01AccCore(site.nn)
				switch {
				case isOld(elems[0]) || !isOld(elems[1]):
					r.Violation(c01R7, cons, p.Pos(store.Pos()), "the surplus bytes are not placed in front of the remaining stream (io.MultiReader(surplus, *in)): payload bytes are reordered or dropped")
				case aliasPool:
					r.Violation(c01R7, cons, p.Pos(store.Pos()), "the bytes read past the header are pushed back as a reader over the pooled buffer itself, which goes back to BufPool when "+rh.Name()+" returns — before processSegments consumes them: another Encrypt/Decrypt that takes that buffer in between (the window contains the UnwrapKeyFn call) overwrites the beginning of the payload and a valid document fails to decrypt; the pushed-back reader must own a fresh copy (make+copy, append to a new slice, bytes.Clone)")
				case surplus == nil || !copied:
					r.Undecide("C01.R7: cannot see the surplus reader being filled from the header buffer in %s", fname)
				case hi == nil || !acc[hi]:
					r.Violation(c01R7, cons, p.Pos(store.Pos()), "the surplus pushed back does not end at the number of bytes read so far: bytes already read from the source are lost or garbage is injected")
				case lo == nil:
					r.Violation(c01R7, cons, p.Pos(store.Pos()), "the surplus pushed back starts at the beginning of the buffer: the header itself is fed to the segment reader")
				default:
					// lo must be the position after the last newline: a phi/BinOp derived from the scan index + 1, never the accumulated count
					r.Check(lo != hi, c01R7, cons, p.Pos(store.Pos()), "*in = MultiReader(copy of buf[afterHeader:n], *in)", "the surplus window starts at the accumulated read count, i.e. is always empty")
				}
			}
		}
	}

	// Decrypt continues with the stream readHeader updated
	dec := p.Func(c01Rel, "Decrypt")
	ps := p.Func(c01Rel, "processSegments")
	rcalls := c01CallsTo([]*ssa.Function{dec}, rh)
	pcalls := c01CallsTo(x.fns, ps)
	cons = "Decrypt continues with the pushed-back stream"
	for _, pc := range pcalls {
		if pc.Parent() != dec && (pc.Parent().Parent() != dec) {
			continue
		}
		if len(rcalls) == 0 {
			r.Undecide("C01.R7: Decrypt no longer calls readHeader directly")
			return
		}
		rc := rcalls[0].(*ssa.Call)
		cell := rc.Call.Args[0]
		inArg := pc.Common().Args[0]
		good := false
		if u, ok := inArg.(*ssa.UnOp); ok && u.Op == token.MUL {
			src := u.X
			if fv, ok := src.(*ssa.FreeVar); ok {
				if b := resolveFreeVar(fv); b != nil {
					src = b
				}
				good = src == cell
			} else {
				good = src == cell && instrDominates(rc, u)
			}
		}
		r.Check(good, c01R7, cons, p.Pos(pc.Pos()), "processSegments reads *(&in) re-loaded after readHeader", "processSegments is not given the stream variable that readHeader updated (re-loaded after the call): the payload bytes that were read together with the header are skipped")
	}
}

// ---------------------------------------------------------------- R8

func (x *c01Ctx) wiring() {
	r, p := x.r, x.p
	enc := p.Func(c01Rel, "Encrypt")
	dec := p.Func(c01Rel, "Decrypt")
	mfKey := x.pkg + ".Manifest"
	// --- Encrypt: stores into the Manifest literal
	stores := map[string]ssa.Value{}
	allInstrs(enc, func(in ssa.Instruction) {
		if st, ok := in.(*ssa.Store); ok {
			if fa, ok := st.Addr.(*ssa.FieldAddr); ok {
				if id := fieldIDOfAddr(fa); id.Type == mfKey {
					stores[id.Field] = st.Val
				}
			}
		}
	})
	var newFK, wrap, sign *ssa.Call
	var wrapAlgArg ssa.Value
	allInstrs(enc, func(in ssa.Instruction) {
		c, ok := in.(*ssa.Call)
		if !ok {
			return
		}
		if f := staticCallee(c); f != nil {
			switch f.Name() {
			case "newFileKey":
				newFK = c
			case "SignHeader":
				sign = c
			}
		}
		if id, _, ok := c01AnyField(c.Call.Value); ok && id.Field == "WrapKeyFn" {
			wrap = c
			if len(c.Call.Args) >= 2 {
				wrapAlgArg = c.Call.Args[1]
			}
		}
	})
	if newFK == nil || wrap == nil || sign == nil || len(stores) == 0 {
		r.Undecide("C01.R8: Encrypt's newFileKey / WrapKeyFn / SignHeader / Manifest literal not all found")
	} else {
		pos := p.Pos(enc.Pos())
		r.Check(stores["Cipher"] == newFK.Call.Args[0], c01R8, "Encrypt manifest cipher", pos, "Manifest.Cipher is the cipher the file key was created for", "Manifest.Cipher is not the value passed to newFileKey: the manifest announces a different cipher than the one sealing the segments")
		r.Check(stores["WFK"] == callResult(wrap, 0), c01R8, "Encrypt manifest wrapped key", pos, "Manifest.WFK is WrapKeyFn's first result", "Manifest.WFK is not the wrapped key returned by WrapKeyFn")
		// the key that is wrapped and the nonce prefix come from the fileKey produced by newFileKey
		fkCone := func(v ssa.Value, method string) bool {
			c, ok := v.(*ssa.Call)
			if !ok {
				return false
			}
			f := staticCallee(c)
			return f != nil && f.Name() == method && c01DependsOn(c.Call.Args[0], newFK)
		}
		r.Check(fkCone(stores["NoncePrefix"], "GetNoncePrefix"), c01R8, "Encrypt manifest nonce prefix", pos, "Manifest.NoncePrefix = fk.GetNoncePrefix()", "Manifest.NoncePrefix is not the nonce prefix of the file key that seals the segments: Decrypt derives a different payload key and nonces")
		r.Check(len(wrap.Call.Args) > 0 && fkCone(wrap.Call.Args[0], "GetFileKey"), c01R8, "Encrypt wraps the file key", p.Pos(wrap.Pos()), "WrapKeyFn(fk.GetFileKey(), …)", "the key handed to WrapKeyFn is not the file key that derives the header and payload keys")
		// algorithm: the validated algorithm is both stored and given to WrapKeyFn
		algOK := false
		if wrapAlgArg != nil && stores["KeyWrappingAlgorithm"] != nil {
			algOK = c01DependsOn(wrapAlgArg, stores["KeyWrappingAlgorithm"])
		}
		r.Check(algOK, c01R8, "Encrypt manifest key algorithm", pos, "the algorithm given to WrapKeyFn is the one stored in the manifest", "the algorithm name handed to WrapKeyFn and the one written to the manifest are different values: Decrypt asks UnwrapKeyFn for another algorithm")
		// header = SignHeader(json.Marshal(manifest)) written before the segments
		mOK := false
		if len(sign.Call.Args) == 2 {
			for _, c := range c01ConeCalls(sign.Call.Args[1]) {
				if callIs(c, "encoding/json", "", "Marshal") {
					mOK = true
				}
			}
		}
		r.Check(mOK, c01R8, "Encrypt signs the marshalled manifest", p.Pos(sign.Pos()), "SignHeader(json.Marshal(manifest))", "the manifest handed to SignHeader is not the output of json.Marshal (compact JSON, one line)")
		x.headerFirst(enc, sign)
		// key names
		eo := x.pkg + ".EncryptOptions"
		if len(wrap.Call.Args) >= 3 {
			id, _, ok := c01AnyField(wrap.Call.Args[2])
			r.Check(ok && id.Type == eo && id.Field == "KeyName", c01R8, "Encrypt wraps with KeyName", p.Pos(wrap.Pos()), "WrapKeyFn(…, opts.KeyName, …)", "the key name handed to WrapKeyFn is not EncryptOptions.KeyName (DecryptionKeyName only names the key for the reader)")
		}
		x.keyNameChoice("Encrypt manifest key name", pos, stores["KeyName"], []c01Choice{
			{src: "const:", underField: "OmitKeyName", underBool: true},
			{src: "EncryptOptions.DecryptionKeyName"},
			{src: "EncryptOptions.KeyName", underField: "DecryptionKeyName", underEmpty: true},
		}, "Manifest.KeyName must be empty with OmitKeyName, else DecryptionKeyName, else KeyName")
	}

	// --- Decrypt
	var imp, unwrap *ssa.Call
	allInstrs(dec, func(in ssa.Instruction) {
		c, ok := in.(*ssa.Call)
		if !ok {
			return
		}
		if f := staticCallee(c); f != nil && f.Name() == "importFileKey" {
			imp = c
		}
		if id, _, ok := c01AnyField(c.Call.Value); ok && id.Field == "UnwrapKeyFn" {
			unwrap = c
		}
	})
	if imp == nil || unwrap == nil {
		r.Undecide("C01.R8: Decrypt's importFileKey / UnwrapKeyFn calls not found")
		return
	}
	fld := func(v ssa.Value) string {
		if id, _, ok := c01AnyField(v); ok && id.Type == mfKey {
			return id.Field
		}
		return ""
	}
	a := imp.Call.Args
	good := len(a) == 3 && fld(a[1]) == "NoncePrefix" && fld(a[2]) == "Cipher" && c01DependsOn(a[0], unwrap)
	r.Check(good, c01R8, "Decrypt imports the manifest's values", p.Pos(imp.Pos()), "importFileKey(unwrapped key, manifest.NoncePrefix, manifest.Cipher)", "importFileKey is not given the unwrapped key, the manifest's nonce prefix and the manifest's cipher (in that order)")
	u := unwrap.Call.Args
	good = len(u) >= 3 && fld(u[0]) == "WFK" && fld(u[1]) == "KeyWrappingAlgorithm"
	r.Check(good, c01R8, "Decrypt unwraps the manifest's key", p.Pos(unwrap.Pos()), "UnwrapKeyFn(manifest.WFK, manifest.KeyWrappingAlgorithm, …)", "UnwrapKeyFn is not given the manifest's wrapped key and key-wrapping algorithm")
	// key name: override first, manifest otherwise
	if len(u) >= 3 {
		srcs := map[string]bool{}
		var walk func(v ssa.Value, d int)
		walk = func(v ssa.Value, d int) {
			if d > 4 {
				return
			}
			if phi, ok := v.(*ssa.Phi); ok {
				for _, e := range phi.Edges {
					walk(e, d+1)
				}
				return
			}
			if id, _, ok := c01AnyField(v); ok {
				srcs[typeShort(id.Type)+"."+id.Field] = true
				return
			}
			srcs["?"] = true
		}
		walk(u[2], 0)
		_ = srcs
		x.keyNameChoice("Decrypt key name", p.Pos(unwrap.Pos()), u[2], []c01Choice{
			{src: "DecryptOptions.KeyName"},
			{src: "Manifest.KeyName", underField: "KeyName", underType: "DecryptOptions", underEmpty: true},
		}, "the key name handed to UnwrapKeyFn must be the caller's override when given, else the manifest's")
	}
}

func typeShort(t string) string {
	if i := strings.LastIndex(t, "."); i >= 0 {
		return t[i+1:]
	}
	return t
}

func keysOf(m map[string]bool) []string {
	var out []string
	for k := range m {
		out = append(out, k)
	}
	for i := range out {
		for j := i + 1; j < len(out); j++ {
			if out[j] < out[i] {
				out[i], out[j] = out[j], out[i]
			}
		}
	}
	return out
}

// headerFirst: in the goroutine Encrypt starts, the signed header is written
// to the pipe before processSegments runs on the same pipe.
func (x *c01Ctx) headerFirst(enc *ssa.Function, sign *ssa.Call) {
	r, p := x.r, x.p
	ps := p.Func(c01Rel, "processSegments")
	cons := "Encrypt writes the header before the segments"
	for _, pc := range c01CallsTo(x.fns, ps) {
		fn := pc.Parent()
		if fn != enc && fn.Parent() != enc {
			continue
		}
		hdr := callResult(sign, 0)
		found := false
		allInstrs(fn, func(in ssa.Instruction) {
			c, ok := in.(*ssa.Call)
			if !ok || c == pc.(ssa.Instruction) {
				return
			}
			for _, a := range c.Call.Args {
				if c01DependsOn(a, hdr) && instrDominates(c, pc) {
					// the call must (transitively, one level) write to the pipe
					if callIs(c, "io", "PipeWriter", "Write") {
						found = true
					}
					if f := staticCallee(c); f != nil {
						allInstrs(f, func(j ssa.Instruction) {
							if c2, ok := j.(*ssa.Call); ok && (callIs(c2, "io", "PipeWriter", "Write") || callIs(c2, "io", "Writer", "Write")) {
								found = true
							}
						})
					}
				}
			}
		})
		r.Check(found, c01R8, cons, p.Pos(pc.Pos()), "a write of SignHeader's result dominates processSegments", "no write of the signed header to the output pipe dominates the start of segment processing: the ciphertext does not begin with the three header lines")
		return
	}
	r.Undecide("C01.R8: Encrypt (or its goroutine) no longer calls processSegments")
}

// c01Choice: one admissible source of a chosen string and the fact under
// which it may be chosen.
type c01Choice struct {
	src        string // "Type.Field" or "const:<s>"
	underField string // field whose test guards this choice ("" = none required)
	underType  string // optional type of that field's struct
	underBool  bool   // the guard is `field` being true
	underEmpty bool   // the guard is `field == ""`
}

// keyNameChoice checks that v is a phi tree over exactly the given sources
// and that each guarded source is selected only under its guard.
func (x *c01Ctx) keyNameChoice(cons, pos string, v ssa.Value, choices []c01Choice, what string) {
	r := x.r
	if v == nil {
		r.Violation(c01R8, cons, pos, what+": the value is never set")
		return
	}
	type leaf struct {
		src   string
		conds []DomCond
	}
	var leaves []leaf
	var walk func(v ssa.Value, conds []DomCond, d int)
	walk = func(v ssa.Value, conds []DomCond, d int) {
		if phi, ok := v.(*ssa.Phi); ok && d < 5 {
			for i, e := range phi.Edges {
				pred := phi.Block().Preds[i]
				cs := append([]DomCond{}, domConds(pred)...)
				if len(pred.Instrs) > 0 {
					if ifi, ok := pred.Instrs[len(pred.Instrs)-1].(*ssa.If); ok && pred.Succs[0] != pred.Succs[1] {
						cs = append(cs, DomCond{ifi, pred.Succs[0] == phi.Block()})
					}
				}
				walk(e, cs, d+1)
			}
			return
		}
		if s, ok := c01ConstString(v); ok {
			leaves = append(leaves, leaf{"const:" + s, conds})
			return
		}
		if id, _, ok := c01AnyField(v); ok {
			leaves = append(leaves, leaf{typeShort(id.Type) + "." + id.Field, conds})
			return
		}
		leaves = append(leaves, leaf{"?", conds})
	}
	var top []DomCond
	if in, ok := v.(ssa.Instruction); ok && in.Block() != nil {
		top = domConds(in.Block())
	}
	walk(v, top, 0)
	seen := map[string]bool{}
	bad := ""
	for _, lf := range leaves {
		var ch *c01Choice
		for i := range choices {
			if choices[i].src == lf.src {
				ch = &choices[i]
			}
		}
		if ch == nil {
			bad = "it can also come from " + lf.src
			continue
		}
		seen[lf.src] = true
		if ch.underField == "" {
			continue
		}
		ok := false
		for _, dc := range lf.conds {
			if ch.underBool {
				cond, br := dc.If.Cond, dc.Branch
				for {
					if u, isU := cond.(*ssa.UnOp); isU && u.Op == token.NOT {
						cond, br = u.X, !br
						continue
					}
					break
				}
				if id, _, isF := c01AnyField(cond); isF && id.Field == ch.underField && br {
					ok = true
				}
			}
			if ch.underEmpty {
				if cmp, isC := decodeCond(dc.If.Cond, dc.Branch); isC && cmp.Op == token.EQL {
					a, b := cmp.X, cmp.Y
					if _, isK := c01ConstString(a); isK {
						a, b = b, a
					}
					id, _, isF := c01AnyField(a)
					sv, isK := c01ConstString(b)
					if isF && isK && sv == "" && id.Field == ch.underField && (ch.underType == "" || typeShort(id.Type) == ch.underType) {
						ok = true
					}
				}
				// len(field) == 0
				if cmp, isC := decodeCond(dc.If.Cond, dc.Branch); isC && cmp.Op == token.EQL {
					if lc, isL := cmp.X.(*ssa.Call); isL && builtinName(lc) == "len" {
						if id, _, isF := c01AnyField(lc.Call.Args[0]); isF && id.Field == ch.underField {
							if k, isK := c01ConstInt(cmp.Y); isK && k == 0 {
								ok = true
							}
						}
					}
				}
			}
		}
		if !ok {
			bad = lf.src + " is chosen on a path where " + ch.underField + " was not found " + map[bool]string{true: "set", false: "empty"}[ch.underBool]
		}
	}
	for _, ch := range choices {
		if !seen[ch.src] && bad == "" {
			bad = ch.src + " is never used"
		}
	}
	r.Check(bad == "", c01R8, cons, pos, what, what+"; but "+bad+": some KeyName/DecryptionKeyName/OmitKeyName/override combination hands UnwrapKeyFn a key name other than the documented one")
}

// c01CellFromPool: the local cell holds a buffer obtained from (*sync.Pool).Get.
func c01CellFromPool(cell ssa.Value) bool {
	a, ok := cell.(*ssa.Alloc)
	if !ok {
		// the buffer value itself (no cell): look at its own cone
		for _, c := range c01ConeCalls(cell) {
			if callIs(c, "sync", "Pool", "Get") {
				return true
			}
		}
		return false
	}
	for _, sv := range c01Stores(a) {
		for _, c := range c01ConeCalls(sv) {
			if callIs(c, "sync", "Pool", "Get") {
				return true
			}
		}
	}
	return false
}

// headerSizeLimit (R4): the limit SignHeader enforces is applied to the
// complete header it returns and does not exceed what readHeader scans.
func (x *c01Ctx) headerSizeLimit() {
	r, p := x.r, x.p
	sign := p.Func(c01Rel, "fileKey.SignHeader")
	rh := p.Func(c01Rel, "readHeader")
	cons := "SignHeader size limit vs readHeader scan limit"
	// reader side: the constant end of the window offered to Read
	var scan int64 = -1
	for _, sx := range x.collectReads() {
		if sx.fn != rh {
			continue
		}
		if sl, ok := sx.call.Call.Args[0].(*ssa.Slice); ok && sl.High != nil {
			if k, ok := c01ConstInt(sl.High); ok {
				scan = k
			}
		}
	}
	if scan < 0 {
		r.Undecide("C01.R4: cannot determine how many bytes readHeader is willing to scan (Read window without constant end)")
		return
	}
	// writer side: success returns
	n := 0
	for _, b := range sign.Blocks {
		if len(b.Instrs) == 0 {
			continue
		}
		ret, ok := b.Instrs[len(b.Instrs)-1].(*ssa.Return)
		if !ok || len(ret.Results) == 0 || isNilConst(ret.Results[0]) {
			continue
		}
		n++
		pos := p.Pos(instrPos(ret))
		root := c01Root(ret.Results[0])
		var fullLen *c01Lin
		if ms, ok := root.(*ssa.MakeSlice); ok {
			l := c01Linear(ms.Len)
			fullLen = &l
		}
		isFull := func(e ssa.Value) bool {
			if c, ok := e.(*ssa.Call); ok && builtinName(c) == "len" && c01Root(c.Call.Args[0]) == root {
				return true
			}
			return fullLen != nil && fullLen.Base != nil && c01Linear(e) == *fullLen
		}
		// parts: values copied / encoded into the output
		isPart := func(e ssa.Value) bool {
			c, ok := e.(*ssa.Call)
			if !ok || builtinName(c) != "len" {
				return false
			}
			return c01Root(c.Call.Args[0]) != root
		}
		verdict, why := "", ""
		for _, dc := range domConds(b) {
			cmp, ok := decodeCond(dc.If.Cond, dc.Branch)
			if !ok {
				continue
			}
			e, kv, op := cmp.X, cmp.Y, cmp.Op
			if _, isK := c01ConstInt(e); isK {
				e, kv = kv, e
				switch op {
				case token.LSS:
					op = token.GTR
				case token.GTR:
					op = token.LSS
				case token.LEQ:
					op = token.GEQ
				case token.GEQ:
					op = token.LEQ
				}
			}
			k, isK := c01ConstInt(kv)
			if !isK {
				continue
			}
			switch op {
			case token.LEQ:
			case token.LSS:
				k--
			default:
				continue
			}
			switch {
			case isFull(e):
				if k <= scan {
					if verdict != "bad-full" {
						verdict = "ok"
						why = fmt.Sprintf("complete header limited to %d bytes <= %d scanned by readHeader", k, scan)
					}
				} else if verdict != "ok" {
					verdict, why = "bad-full", fmt.Sprintf("SignHeader lets headers of up to %d bytes through but readHeader only scans the first %d bytes: Encrypt emits documents whose MAC line Decrypt never finds", k, scan)
				}
			case isPart(e):
				// the complete header is strictly longer than any of its parts: a part limit k >= scan
				// certainly lets an over-long header through; a smaller one cannot be judged
				if verdict == "" && k < scan {
					verdict = "part-unknown"
				}
				if (verdict == "" || verdict == "part-unknown") && k >= scan {
					verdict, why = "bad", fmt.Sprintf("the size limit (%d) is applied to only a part of the header (not to the buffer that is returned: message + base64 MAC + final newline); headers of up to %d bytes plus the MAC line pass, but readHeader only scans the first %d bytes, so Encrypt emits documents that Decrypt rejects ('message authentication code not found') instead of refusing them", k, k, scan)
				}
			}
		}
		switch verdict {
		case "ok":
			r.OK(c01R4, cons, pos, why)
		case "bad", "bad-full":
			r.Violation(c01R4, cons, pos, why)
		case "part-unknown":
			r.Undecide("C01.R4: SignHeader limits only a part of the header to less than readHeader's scan limit; whether the complete header fits is not decided")
		default:
			// a limit enforced by the caller on SignHeader's result is a shape this rule does not model
			inCaller := false
			for _, fn := range x.fns {
				for _, ci := range c01CallsTo([]*ssa.Function{fn}, sign) {
					if call, ok := ci.(*ssa.Call); ok {
						if res := callResult(call, 0); res != nil {
							for _, u := range refs(res) {
								if c, ok := u.(*ssa.Call); ok && builtinName(c) == "len" {
									inCaller = true
								}
							}
						}
					}
				}
			}
			if inCaller {
				r.Undecide("C01.R4: the header size limit seems to be enforced by SignHeader's caller; not modelled")
			} else {
				r.Violation(c01R4, cons, pos, fmt.Sprintf("no size limit dominates the return of the signed header, but readHeader only scans the first %d bytes: with a long key name / wrapped key Encrypt emits documents that Decrypt rejects instead of refusing them", scan))
			}
		}
	}
	if n == 0 {
		r.Undecide("C01.R4: SignHeader has no return delivering a header")
	}
}
