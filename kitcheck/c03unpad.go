package main

// c03unpad: scenario rules for a PKCS#7 unpad function
//
//	f(buf []byte, size int) ([]byte, error)
//
// decided with the abstract interpreter on a buffer whose bytes are SYMBOLIC
// except the last one, which holds a chosen pad length P (size = 16):
//
// (1) pad length bounds: P = 0 and every P > size (also P <= len(buf)) make
// every path return an error (no panic); every 1 <= P <= size is accepted on
// some path and exactly P bytes are stripped.
//
// (2) padding bytes verified: on every accepting path each of the bytes
// buf[len-P .. len-1) has been compared with P (through ==/!= on a taken
// branch, bytes.Equal / hmac.Equal / subtle.ConstantTimeCompare / HasSuffix
// against a run of P) and found equal. A byte that is never read on an
// accepting path, compared with another value, or found different and still
// accepted is a violation; a byte that is read but flows into something the
// interpreter does not model (arithmetic accumulation, unknown calls) is
// UNDECIDED.
//
// No shape of the source is assumed: helpers are followed, loops of any form
// are executed on the concrete lengths, renames do not matter.

import (
	"fmt"
	"go/types"
	"sort"

	"golang.org/x/tools/go/ssa"
)

func c03CheckUnpad(p *Prog, r *Report, rule string, fn *ssa.Function) {
	name := FuncName(p, fn)
	pos := p.Pos(fn.Pos())
	cBounds, cLoop := name+" pad length bounds", name+" padding bytes verified"
	e := &c03Env{p: p, r: r, mod: p.ModPath}
	var buf, size *ssa.Parameter
	for _, pa := range fn.Params {
		switch t := pa.Type().Underlying().(type) {
		case *types.Slice:
			if buf == nil {
				buf = pa
			}
		case *types.Basic:
			if t.Info()&types.IsInteger != 0 && size == nil {
				size = pa
			}
		}
	}
	if buf == nil || size == nil || len(fn.Params) != 2 || fn.Signature.Results().Len() != 2 {
		for _, c := range []string{cBounds, cLoop} {
			r.Undecide("%s %s: the function no longer has the signature ([]byte, int) ([]byte, error)", rule, c)
			r.Trivial(rule, c, pos, "undecided")
		}
		return
	}
	const bs = 16
	run := func(L, P int64) c03Run {
		sc := &c03Scenario{KeyLen: -1, NonceSize: -1, Overhead: -1}
		mem := map[ssa.Value]c03V{buf: {K: c03Struct, M: map[string]c03V{"#sym": c03BoolV(true), fmt.Sprintf("#%d", L-1): c03IntV(P)}}}
		args := make([]c03V, 2)
		for k, pa := range fn.Params {
			if pa == buf {
				args[k] = c03V{K: c03Slice, I: L, Ref: buf}
			} else {
				args[k] = c03IntV(bs)
			}
		}
		return e.runMem(sc, fn, args, mem, fmt.Sprintf("%d-byte message whose last byte is %d, block size %d", L, P, bs))
	}

	// (1) bounds
	var vb c03Verdict
	for _, L := range []int64{32, 48} {
		for _, P := range []int64{0, 17, 20, 31, 32, 33, 48, 49, 200, 255} {
			w := e.allRejected(run(L, P), "")
			if w.bad != "" {
				if P == 0 {
					w.bad += " — a final byte 0 is not a PKCS#7 pad length"
				} else {
					w.bad += fmt.Sprintf(" — a pad length larger than the block size (%d > %d) is not PKCS#7; every other implementation rejects it", P, bs)
				}
			}
			vb.merge(w)
		}
		for _, P := range []int64{1, 2, 15, 16} {
			rn := run(L, P)
			w := c03Verdict{truncated: rn.truncated, n: len(rn.outs)}
			ok := false
			for _, o := range rn.outs {
				switch {
				case o.Panic != "" && !o.Imprecise:
					w.bad = rn.desc + ": " + o.Panic
				case c03Success(o):
					if got := c03KnownLen(o.Res[0]); got == L-P {
						ok = true
					} else if got >= 0 && w.bad == "" {
						w.bad = fmt.Sprintf("%s: %d bytes returned, %d expected (exactly the pad length must be stripped)", rn.desc, got, L-P)
					} else if got < 0 {
						w.imprecise = rn.desc + ": length of the returned slice unknown"
					}
				}
			}
			if !ok && w.bad == "" && rn.dropped {
				w.truncated = true
			}
			if !ok && w.bad == "" && w.imprecise == "" && !rn.truncated && !rn.dropped {
				w.bad = rn.desc + ": well-formed padding is refused on every path (PadPKCS7 emits up to a full block of padding)"
			}
			vb.merge(w)
		}
	}
	e.settle(rule, cBounds, pos, vb, "pad lengths 0 and > size are rejected, 1..size are accepted and exactly that many bytes are stripped", "the pad-length byte is not bounded by 1 <= padLen <= size (the block size)")

	// (2) every padding byte compared with the pad length before accepting
	var vl c03Verdict
	for _, P := range []int64{1, 2, 5, 16} {
		const L = 32
		rn := run(L, P)
		w := c03Verdict{truncated: rn.truncated, n: len(rn.outs)}
		unconstrained, anySuccess, constrainedAt := false, false, int64(-1)
		for _, o := range rn.outs {
			if !c03Success(o) {
				continue
			}
			anySuccess = true
			outside := int64(-1)
			for _, ev := range o.Events {
				if ev.Name == "cmpbytes" && len(ev.Args) == 4 && ev.Args[0].I < int64(L)-P {
					outside = ev.Args[0].I
				}
			}
			if outside < 0 {
				unconstrained = true
			} else {
				constrainedAt = outside
			}
			var missing, readOnly []int64
			for i := int64(L) - P; i < L-1; i++ {
				cmpOK, cmpBad, read := false, "", false
				for _, ev := range o.Events {
					if len(ev.Args) < 2 || ev.Args[0].I > i || i >= ev.Args[1].I {
						continue
					}
					switch ev.Name {
					case "cmpbytes":
						switch {
						case !ev.Args[3].B:
							cmpBad = fmt.Sprintf("byte %d of the message was found DIFFERENT from %d and the message is still accepted", i, ev.Args[2].I)
						case ev.Args[2].I != P:
							cmpBad = fmt.Sprintf("byte %d of the message is compared with %d instead of the pad length %d", i, ev.Args[2].I, P)
						default:
							cmpOK = true
						}
					case "readbytes":
						read = true
					}
				}
				switch {
				case cmpBad != "":
					if w.bad == "" {
						w.bad = rn.desc + ": " + cmpBad
					}
				case cmpOK:
				case read:
					readOnly = append(readOnly, i)
				default:
					missing = append(missing, i)
				}
			}
			sort.Slice(missing, func(a, b int) bool { return missing[a] < missing[b] })
			if len(missing) > 0 && w.bad == "" {
				msg := fmt.Sprintf("%s: an accepting path (%s) never reads byte(s) %v of the message, which belong to the %d padding bytes: malformed PKCS#7 padding is stripped without error", rn.desc, e.describe(o), missing, P)
				if o.Imprecise {
					w.imprecise = msg
				} else {
					w.bad = msg
				}
			}
			if len(readOnly) > 0 && w.imprecise == "" {
				w.imprecise = fmt.Sprintf("%s: padding byte(s) %v are read but not compared through ==, bytes.Equal, hmac.Equal, subtle.ConstantTimeCompare or bytes.HasSuffix", rn.desc, readOnly)
			}
		}
		if anySuccess && !unconstrained && w.bad == "" {
			w.bad = fmt.Sprintf("%s: every accepting path also requires message byte %d, which is not one of the %d padding bytes, to have a particular value: well-formed padding is refused depending on the message content (the verification does not cover exactly the last padLen bytes)", rn.desc, constrainedAt, P)
		}
		vl.merge(w)
	}
	e.settle(rule, cLoop, pos, vl, "on every accepting path each padding byte was compared with the pad length and found equal", "the padding bytes are not all verified before the padding is stripped")
}
