package main

// c03unpad: branch-fact rules for a PKCS#7 unpad function
//
//	f(buf []byte, size int) ([]byte, error)
//
// (1) pad length bounds: on every return of (buf[:len(buf)-P], nil) the facts
// 1 <= P and P <= size must hold, established by dominating comparisons of the
// pad-length value P (the last byte of buf, through integer conversions)
// against 0/1 and against the block-size PARAMETER. An upper bound against
// anything else (the buffer length, …), a strict `P < size`, or no bound at
// all is a violation; if P also flows into calls / masks / arithmetic the
// facts of which are not visible here, the verdict is UNDECIDED.
//
// (2) padding bytes verified: there is an index loop from len(buf)-P up to
// len(buf), step 1, in which buf[i] is compared with byte(P), whose mismatch
// edge cannot reach the success return and whose exit edge dominates it.
// A loop that compares buf[i] with byte(P) but starts/ends elsewhere is a
// violation; any other shape (bytes.Equal, reverse loop, …) is UNDECIDED.

import (
	"fmt"
	"go/token"
	"go/types"

	"golang.org/x/tools/go/ssa"
)

type c03Unpad struct {
	fn        *ssa.Function
	buf, size *ssa.Parameter
}

func (u *c03Unpad) root(v ssa.Value) ssa.Value {
	for {
		switch x := v.(type) {
		case *ssa.Convert:
			if c03IntWidth(x.Type()) > 0 && c03IntWidth(x.X.Type()) > 0 {
				v = x.X
				continue
			}
		case *ssa.ChangeType:
			v = x.X
			continue
		}
		return v
	}
}

func (u *c03Unpad) isLen(v ssa.Value) bool {
	c, ok := u.root(v).(*ssa.Call)
	return ok && builtinName(c) == "len" && len(c.Call.Args) == 1 && c.Call.Args[0] == ssa.Value(u.buf)
}

func (u *c03Unpad) isSize(v ssa.Value) bool { return u.root(v) == ssa.Value(u.size) }

// isLastByte: v is a load of buf[len(buf)-1].
func (u *c03Unpad) isLastByte(v ssa.Value) bool {
	ld, ok := u.root(v).(*ssa.UnOp)
	if !ok || ld.Op != token.MUL {
		return false
	}
	ia, ok := ld.X.(*ssa.IndexAddr)
	if !ok || ia.X != ssa.Value(u.buf) {
		return false
	}
	bo, ok := ia.Index.(*ssa.BinOp)
	if !ok || bo.Op != token.SUB || !u.isLen(bo.X) {
		return false
	}
	k, ok := c03ConstInt(bo.Y)
	return ok && k == 1
}

// sameP: v denotes the pad length P (same SSA root, or another load of the last byte).
func (u *c03Unpad) sameP(v, P ssa.Value) bool {
	if u.root(v) == u.root(P) {
		return true
	}
	return u.isLastByte(v) && u.isLastByte(P)
}

func c03FlipOp(op token.Token) token.Token {
	switch op {
	case token.LSS:
		return token.GTR
	case token.GTR:
		return token.LSS
	case token.LEQ:
		return token.GEQ
	case token.GEQ:
		return token.LEQ
	}
	return op
}

// c03CheckUnpad generates the two obligations for fn.
func c03CheckUnpad(p *Prog, r *Report, rule string, fn *ssa.Function) {
	name := FuncName(p, fn)
	pos := p.Pos(fn.Pos())
	cBounds, cLoop := name+" pad length bounds", name+" padding bytes verified"
	und := func(construct, why string) {
		r.Undecide("%s %s: %s", rule, construct, why)
		r.Trivial(rule, construct, pos, "undecided")
	}
	u := &c03Unpad{fn: fn}
	for _, pa := range fn.Params {
		switch t := pa.Type().Underlying().(type) {
		case *types.Slice:
			if u.buf == nil {
				u.buf = pa
			}
		case *types.Basic:
			if t.Info()&types.IsInteger != 0 && u.size == nil {
				u.size = pa
			}
		}
	}
	if u.buf == nil || u.size == nil {
		und(cBounds, "the function no longer has a ([]byte, int) signature")
		und(cLoop, "the function no longer has a ([]byte, int) signature")
		return
	}
	// success returns that strip: (buf[:len(buf)-P], nil)
	type strip struct {
		ret *ssa.Return
		P   ssa.Value
	}
	var strips []strip
	otherSuccess := false
	for _, b := range fn.Blocks {
		if len(b.Instrs) == 0 {
			continue
		}
		ret, ok := b.Instrs[len(b.Instrs)-1].(*ssa.Return)
		if !ok || len(ret.Results) != 2 || !isNilConst(ret.Results[1]) {
			continue
		}
		sl, ok := ret.Results[0].(*ssa.Slice)
		if ok && sl.X == ssa.Value(u.buf) && sl.Low == nil && sl.High != nil {
			if bo, ok := sl.High.(*ssa.BinOp); ok && bo.Op == token.SUB && u.isLen(bo.X) {
				strips = append(strips, strip{ret, bo.Y})
				continue
			}
		}
		if sl2, isSl := ret.Results[0].(*ssa.Slice); (isSl && sl2.X == ssa.Value(u.buf)) || ret.Results[0] == ssa.Value(u.buf) {
			otherSuccess = true
		}
	}
	if len(strips) == 0 || otherSuccess {
		und(cBounds, "no return of the shape (buf[:len(buf)-padLen], nil) found, or another success return hands out part of buf")
		und(cLoop, "no return of the shape (buf[:len(buf)-padLen], nil) found")
		return
	}

	for _, st := range strips {
		P := st.P
		rpos := p.Pos(st.ret.Pos())
		// does P take part in anything whose facts are not visible as comparisons?
		escape := ""
		seen := map[ssa.Value]bool{}
		var walk func(v ssa.Value)
		walk = func(v ssa.Value) {
			if seen[v] {
				return
			}
			seen[v] = true
			for _, rf := range refs(v) {
				switch x := rf.(type) {
				case *ssa.Convert:
					walk(x)
				case *ssa.ChangeType:
					walk(x)
				case *ssa.BinOp:
					switch x.Op {
					case token.EQL, token.NEQ, token.LSS, token.LEQ, token.GTR, token.GEQ, token.SUB:
					case token.ADD:
						walk(x)
					default:
						escape = "it is combined with " + x.Op.String() + " at " + p.Pos(instrPos(x))
					}
				case ssa.CallInstruction:
					if builtinName(x) == "" {
						escape = "it is passed to " + c03CalleeName(x) + " at " + p.Pos(instrPos(x))
					}
				case *ssa.Phi:
					escape = "it is merged into a loop/branch variable at " + p.Pos(instrPos(x))
				}
			}
		}
		walk(u.root(P))
		if !u.isLastByte(P) {
			if _, isParamOrConst := u.root(P).(*ssa.Const); isParamOrConst {
				escape = "the stripped length is a constant"
			}
		}

		lower, upperOK := int64(-1<<31), false
		var upperBad []string
		nonneg := false
		if b, ok := u.root(P).Type().Underlying().(*types.Basic); ok && b.Info()&types.IsUnsigned != 0 {
			nonneg = true
		}
		for _, dc := range domConds(st.ret.Block()) {
			cmp, ok := decodeCond(dc.If.Cond, dc.Branch)
			if !ok {
				continue
			}
			X, Y, op := cmp.X, cmp.Y, cmp.Op
			if !u.sameP(X, P) && u.sameP(Y, P) {
				X, Y, op = Y, X, c03FlipOp(op)
			}
			if !u.sameP(X, P) {
				continue
			}
			where := p.Pos(instrPos(dc.If))
			if k, isK := c03ConstInt(Y); isK {
				switch op {
				case token.GTR:
					if k+1 > lower {
						lower = k + 1
					}
				case token.GEQ:
					if k > lower {
						lower = k
					}
				case token.NEQ:
					if k == 0 && nonneg && lower < 1 {
						lower = 1
					}
				case token.LEQ, token.LSS:
					upperBad = append(upperBad, fmt.Sprintf("the constant %d (%s)", k, where))
				}
				continue
			}
			// P ⋈ size (+1)
			sizeLike, plusOne := u.isSize(Y), false
			if bo, ok := u.root(Y).(*ssa.BinOp); ok && bo.Op == token.ADD && u.isSize(bo.X) {
				if k, isK := c03ConstInt(bo.Y); isK && k == 1 {
					sizeLike, plusOne = true, true
				}
			}
			switch op {
			case token.LEQ, token.LSS:
				switch {
				case sizeLike && ((op == token.LEQ && !plusOne) || (op == token.LSS && plusOne)):
					upperOK = true
				case sizeLike:
					upperBad = append(upperBad, fmt.Sprintf("the block size, but strictly (%s): a full block of padding, which PadPKCS7 emits for block-aligned input, is refused", where))
				case u.isLen(Y):
					upperBad = append(upperBad, fmt.Sprintf("the length of the buffer instead of the block size (%s)", where))
				default:
					upperBad = append(upperBad, fmt.Sprintf("%s (%s), which is not the block-size parameter", Y.Name(), where))
				}
			}
		}
		switch {
		case lower >= 1 && upperOK:
			r.OK(rule, cBounds, rpos, "the stripping return is dominated by 1 <= padLen and padLen <= size")
		case escape != "":
			und(cBounds, "the pad length is not (only) bounded by visible comparisons: "+escape)
		case !upperOK && len(upperBad) > 0:
			r.Violation(rule, cBounds, rpos, "the pad-length byte is bounded by "+upperBad[0]+": a tail of N copies of the byte N with N > size is stripped and returned without error, which PKCS#7 (and every other implementation) rejects — e.g. CBC of two blocks of 0x20 decrypts to an empty plaintext", upperBad...)
		case !upperOK:
			r.Violation(rule, cBounds, rpos, "the stripping return is not dominated by any test padLen <= size: a pad-length byte larger than the block size is accepted (or panics on a negative slice bound) instead of ErrInvalidPKCS7Padding")
		default:
			r.Violation(rule, cBounds, rpos, "the stripping return is not dominated by a test padLen >= 1: a final byte 0 is accepted and the unstripped buffer returned without error, which PKCS#7 rejects")
		}

		// (2) verification loop
		u.checkLoop(p, r, rule, cLoop, st.ret, P, und)
	}
}

func (u *c03Unpad) checkLoop(p *Prog, r *Report, rule, construct string, ret *ssa.Return, P ssa.Value, und func(string, string)) {
	fn := u.fn
	rpos := p.Pos(ret.Pos())
	type cand struct {
		phi      *ssa.Phi
		start    ssa.Value
		cmp      *ssa.BinOp
		mismatch *ssa.BasicBlock
	}
	var cands []cand
	allInstrs(fn, func(in ssa.Instruction) {
		bo, ok := in.(*ssa.BinOp)
		if !ok || (bo.Op != token.NEQ && bo.Op != token.EQL) {
			return
		}
		for _, pr := range [][2]ssa.Value{{bo.X, bo.Y}, {bo.Y, bo.X}} {
			ld, ok := pr[0].(*ssa.UnOp)
			if !ok || ld.Op != token.MUL || !u.sameP(pr[1], P) {
				continue
			}
			ia, ok := ld.X.(*ssa.IndexAddr)
			if !ok || ia.X != ssa.Value(u.buf) {
				continue
			}
			phi, ok := ia.Index.(*ssa.Phi)
			if !ok {
				continue
			}
			// the If consuming the comparison
			for _, rf := range refs(bo) {
				ifi, ok := rf.(*ssa.If)
				if !ok {
					continue
				}
				k := 0 // successor taken on mismatch
				if bo.Op == token.EQL {
					k = 1
				}
				c := cand{phi: phi, cmp: bo, mismatch: ifi.Block().Succs[k]}
				step := false
				for _, e := range phi.Edges {
					if add, ok := e.(*ssa.BinOp); ok && add.Op == token.ADD && add.X == ssa.Value(phi) {
						if kk, isK := c03ConstInt(add.Y); isK && kk == 1 {
							step = true
							continue
						}
					}
					c.start = e
				}
				if step && c.start != nil {
					cands = append(cands, c)
				}
			}
		}
	})
	if len(cands) == 0 {
		und(construct, "no ascending index loop comparing buf[i] with byte(padLen) found (another way of verifying the padding bytes may be in use)")
		return
	}
	for _, c := range cands {
		where := p.Pos(instrPos(c.cmp))
		// start == len(buf) - P
		startOK, startDesc := false, "an expression the checker does not classify"
		if bo, ok := c.start.(*ssa.BinOp); ok && bo.Op == token.SUB && u.isLen(bo.X) {
			switch {
			case u.sameP(bo.Y, P):
				startOK = true
			case u.isSize(bo.Y):
				startDesc = "len(buf)-size"
			default:
				if in, ok := u.root(bo.Y).(*ssa.BinOp); ok && (in.Op == token.ADD || in.Op == token.SUB) && u.sameP(in.X, P) {
					if k, isK := c03ConstInt(in.Y); isK && k != 0 {
						startDesc = fmt.Sprintf("len(buf)-(padLen%s%d)", in.Op.String(), k)
					}
				}
			}
		} else if k, isK := c03ConstInt(c.start); isK {
			startDesc = fmt.Sprintf("the constant %d", k)
		}
		// bound: continue while phi < len(buf)
		var hdr *ssa.If
		boundOK, boundDesc, exitIdx := false, "", 1
		allInstrs(fn, func(in ssa.Instruction) {
			ifi, ok := in.(*ssa.If)
			if !ok || hdr != nil {
				return
			}
			cmp, ok := decodeCond(ifi.Cond, true)
			if !ok {
				return
			}
			X, Y, op := cmp.X, cmp.Y, cmp.Op
			if Y == ssa.Value(c.phi) {
				X, Y, op = Y, X, c03FlipOp(op)
			}
			if X != ssa.Value(c.phi) {
				return
			}
			hdr = ifi
			switch {
			case u.isLen(Y) && op == token.LSS:
				boundOK, exitIdx = true, 1
			case u.isLen(Y) && op == token.GEQ: // `if i >= len(buf) { break }`
				boundOK, exitIdx = true, 0
			case u.isLen(Y):
				boundDesc = "i " + op.String() + " len(buf) holds on the branch at " + p.Pos(instrPos(ifi))
			}
		})
		if hdr == nil {
			und(construct, "the loop test of the padding loop at "+where+" was not recognised")
			return
		}
		exit := hdr.Block().Succs[exitIdx]
		mismatchEscapes := reachableFrom(c.mismatch, nil)[ret.Block()]
		dominated := edgeDominates(hdr.Block(), exit, ret.Block())
		switch {
		case startOK && boundOK && !mismatchEscapes && dominated:
			r.OK(rule, construct, rpos, "buf[len-padLen .. len) is compared byte by byte with byte(padLen); a mismatch cannot reach the stripping return")
		case startOK && boundOK && mismatchEscapes:
			r.Violation(rule, construct, where, "a padding byte that differs from the pad length does not lead to an error: the mismatch branch can still reach the stripping return (malformed PKCS#7 padding accepted)")
		case startOK && boundOK:
			r.Violation(rule, construct, rpos, "the stripping return can be reached without passing through the loop that verifies the padding bytes")
		case !startOK && startDesc != "an expression the checker does not classify":
			r.Violation(rule, construct, where, "the loop that verifies the padding bytes starts at "+startDesc+" instead of len(buf)-padLen: it does not cover exactly the last padLen bytes, so malformed padding is accepted or well-formed padding refused")
		case startOK && boundDesc != "":
			r.Violation(rule, construct, where, "the loop that verifies the padding bytes does not run exactly while i < len(buf) ("+boundDesc+"): it does not cover exactly the last padLen bytes")
		default:
			und(construct, "the bounds of the padding loop at "+where+" are not of a classified form")
		}
		return
	}
}
