package main

import (
	"os"
	"os/exec"
	"strings"
)

var cachedGOROOT string

// goEnvGOROOT asks the go command on PATH for its GOROOT (the toolchain whose
// standard library the analysed program is compiled against).
func goEnvGOROOT() string {
	if cachedGOROOT != "" {
		return cachedGOROOT
	}
	cmd := exec.Command("go", "env", "GOROOT")
	cmd.Env = append(os.Environ(), "GOTOOLCHAIN=local", "GOFLAGS=-mod=mod", "GOWORK=off")
	out, err := cmd.Output()
	if err != nil {
		return ""
	}
	cachedGOROOT = strings.TrimSpace(string(out))
	return cachedGOROOT
}
